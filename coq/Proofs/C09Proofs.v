(* C09Proofs.v — C09: rollout intent (the ControllerRevisions) is persisted
   before the controller acts on children.
   Statements about Model/Rolling.v sync_parent_object_r, manage_revisions,
   sync_revision_claims. *)
From MC Require Import Generated.
From MC Require Import Model.Rolling Model.Safe.
From MC Require Import Proofs.C06Proofs Proofs.C04Proofs Proofs.RollCalls Proofs.RollClaims Proofs.RollMoves.
From Coq Require Import Lia.
Local Open Scope string_scope.
Local Open Scope list_scope.

(* ================================================================== *)
(* generic: from "every call satisfies P" to a history-aware judgement *)
(* ================================================================== *)

Lemma hist_post_of_all_calls {R} (P : call -> Prop) (I : hist -> Prop) (Phi : hist -> call -> Prop) (p : prog R) :
  all_calls P p ->
  (forall h c a, I h -> P c -> I ((c, a) :: h)) ->
  (forall h c, I h -> P c -> Phi h c) ->
  forall h, I h -> hist_post Phi (fun h' _ => I h') h p.
Proof.
  intros Hp HI HPhi. induction Hp as [r|c k Hc Hk IH]; intros h Hh.
  - apply HP_ret. exact Hh.
  - apply HP_do; [apply HPhi; assumption|]. intros a. apply IH. apply HI; assumption.
Qed.

Lemma hist_post_safe {R} (G : call -> answer -> Prop) Phi (Q : hist -> R -> Prop) h (p : prog R) :
  hist_post Phi Q h p -> safe G Phi h p.
Proof. induction 1 as [h r Hq|h c k Hc Hk IH]; constructor; auto. Qed.

(* ================================================================== *)
(* 1. revisions before children                                        *)
(* ================================================================== *)

(* a write to the ControllerRevision resource *)
Definition is_rev_write (cl : call) : bool :=
  match cl with
  | CApi q => String.eqb (q_res q) rev_res && negb (verb_eqb (q_verb q) VGet)
  | _ => false
  end.

Definition content_verb (v : verb) : bool :=
  match v with VCreate | VDelete | VPatchApply | VPatchJson => true | _ => false end.

(* a create / delete / patch on a resource that is neither the parent's nor ControllerRevision.
   (VUpdate is left out on purpose: adoption and release are VUpdates of child objects
   and they do precede the revisions; see C09_prelude_updates_are_ownership_edits.) *)
Definition is_child_write (c : ccfg) (cl : call) : bool :=
  match cl with
  | CApi q => negb (String.eqb (q_res q) rev_res) && negb (String.eqb (q_res q) (p_res c)) &&
              content_verb (q_verb q)
  | _ => false
  end.

Definition no_child_write_yet (c : ccfg) (h : hist) : bool :=
  forallb (fun p => negb (is_child_write c (fst p))) h.

Definition C09_phi (c : ccfg) (h : hist) (cl : call) : Prop :=
  is_rev_write cl = true -> no_child_write_yet c h = true.

(* discovery never resolves a child kind to the ControllerRevision resource, and the
   parent is not a ControllerRevision *)
Definition rev_res_separate (c : ccfg) : bool :=
  negb (String.eqb (p_res c) rev_res) &&
  forallb (fun kn => negb (String.eqb (ch_res kn) rev_res)) (known c).

Lemma prelude_not_child_write c cl : prelude_call c cl -> is_child_write c cl = false.
Proof.
  intros (q & -> & [Hv|[[Hv _]|[Hv _]]]); unfold is_child_write; rewrite Hv; cbn [content_verb];
    apply Bool.andb_false_r.
Qed.

Lemma hookphase_not_child_write c cl : hookphase_call c cl -> is_child_write c cl = false.
Proof.
  intros [(hk & b & -> & _)|(q & -> & [Hr|[Hr Hv]])]; [reflexivity| |]; unfold is_child_write.
  - rewrite Hr, String.eqb_refl. reflexivity.
  - rewrite Hv. cbn [content_verb]. apply Bool.andb_false_r.
Qed.

Lemma finish_not_rev_write c cl : rev_res_separate c = true -> finish_call c cl -> is_rev_write cl = false.
Proof.
  unfold rev_res_separate. intros Hsep. apply Bool.andb_true_iff in Hsep. destruct Hsep as [Hp Hk].
  apply Bool.negb_true_iff in Hp.
  intros [(b & ->)|(q & -> & [Hr|(kn & Hin & Hr)])]; [reflexivity| |]; unfold is_rev_write; rewrite Hr.
  - rewrite Hp. reflexivity.
  - rewrite forallb_forall in Hk. specialize (Hk kn Hin). apply Bool.negb_true_iff in Hk.
    rewrite Hk. reflexivity.
Qed.

(* phase A: nothing the program issues is a child write *)
Lemma phaseA {R} c (P : call -> Prop) (p : prog R) h :
  all_calls P p -> (forall cl, P cl -> is_child_write c cl = false) ->
  no_child_write_yet c h = true ->
  hist_post (C09_phi c) (fun h' _ => no_child_write_yet c h' = true) h p.
Proof.
  intros Hp HP Hh.
  apply (hist_post_of_all_calls P (fun h => no_child_write_yet c h = true)); try assumption.
  - intros h0 cl a Hh0 Hcl. unfold no_child_write_yet. cbn [forallb fst].
    rewrite (HP cl Hcl). cbn [negb andb]. exact Hh0.
  - intros h0 cl Hh0 _ _. exact Hh0.
Qed.

(* phase B: nothing the program issues is a revision write *)
Lemma phaseB {R} c (P : call -> Prop) (p : prog R) h :
  all_calls P p -> (forall cl, P cl -> is_rev_write cl = false) ->
  hist_post (C09_phi c) (fun _ _ => True) h p.
Proof.
  intros Hp HP.
  apply (hist_post_of_all_calls P (fun _ => True)); try assumption; auto.
  intros h0 cl _ Hcl Hrw. rewrite (HP cl Hcl) in Hrw. discriminate.
Qed.

Theorem C09_revisions_before_children_gen c k parent h :
  rev_res_separate c = true ->
  no_child_write_yet c h = true ->
  hist_post (C09_phi c) (fun _ _ => True) h (sync_parent_object_r c k parent).
Proof.
  intros Hsep Hh. unfold sync_parent_object_r.
  destruct (ignores_parent c parent); [apply HP_ret; exact I|].
  eapply hist_post_bind.
  { apply (phaseA c (prelude_call c)); [apply sync_finalizer_calls|apply prelude_not_child_write|exact Hh]. }
  intros h1 fr Hh1. cbv beta in Hh1. destruct fr as [parent1|e]; [|apply HP_ret; exact I].
  destruct (ignores_parent c parent1); [apply HP_ret; exact I|].
  eapply hist_post_bind.
  { apply (phaseA c (prelude_call c)); [apply claim_children_calls|apply prelude_not_child_write|exact Hh1]. }
  intros h2 oc Hh2. cbv beta in Hh2. destruct oc as [observed|]; [|apply HP_ret; exact I].
  unfold related_phase. cbn [bind].
  eapply hist_post_bind.
  { apply (phaseA c (hookphase_call c));
      [apply hook_phase_rolling_calls|apply hookphase_not_child_write|exact Hh2]. }
  intros h3 hr Hh3. destruct hr as [| |n|r]; try (apply HP_ret; exact I).
  apply (phaseB c (finish_call c)); [apply finish_sync_calls|].
  intros cl. apply finish_not_rev_write. exact Hsep.
Qed.

(* the statement: in every run of sync_parent_object_r, whatever the answers, when a
   write to the ControllerRevision resource is issued no child has yet been created,
   deleted or patched *)
Theorem C09_revisions_before_children c k parent :
  rev_res_separate c = true ->
  forall G, safe G (C09_phi c) [] (sync_parent_object_r c k parent).
Proof.
  intros Hsep G. eapply hist_post_safe. apply C09_revisions_before_children_gen; [exact Hsep|reflexivity].
Qed.

(* on runs: no child write precedes a revision write in the trace *)
Corollary C09_revisions_before_children_run c k parent (e : env) :
  rev_res_separate c = true ->
  forall post cl a pre,
    fst (run (sync_parent_object_r c k parent) e []) = post ++ (cl, a) :: pre ->
    is_rev_write cl = true ->
    forall cl' a', In (cl', a') pre -> is_child_write c cl' = false.
Proof.
  intros Hsep post cl a pre Heq Hrw cl' a' Hin.
  pose proof (C09_revisions_before_children_gen c k parent [] Hsep eq_refl) as Hp.
  apply hist_post_run with (e := e) in Hp. destruct Hp as [_ (new & Hnew & Hall)].
  rewrite app_nil_r in Hnew. rewrite Hnew in Heq. specialize (Hall post cl a pre Heq Hrw).
  rewrite app_nil_r in Hall. unfold no_child_write_yet in Hall. rewrite forallb_forall in Hall.
  specialize (Hall (cl', a') Hin). cbn [fst] in Hall. apply Bool.negb_true_iff in Hall. exact Hall.
Qed.

(* without the side condition the statement fails only through configuration: the three
   phase facts below need no hypothesis *)
Theorem C09_prelude_no_content_write c k parent :
  all_calls (fun cl => forall q, cl = CApi q -> content_verb (q_verb q) = false) (sync_finalizer c parent) /\
  all_calls (fun cl => forall q, cl = CApi q -> content_verb (q_verb q) = false) (claim_children c k parent).
Proof.
  split; (eapply all_calls_weaken; [|first [apply sync_finalizer_calls|apply claim_children_calls]]);
    intros cl (q & -> & [Hv|[[Hv _]|[Hv _]]]) q' [= <-]; rewrite Hv; reflexivity.
Qed.

(* the VUpdates of the prelude on a child resource are ownership edits: adoption and release *)
Theorem C09_prelude_updates_are_ownership_edits c k parent :
  all_calls (prelude_call c) (sync_finalizer c parent) /\
  all_calls (prelude_call c) (claim_children c k parent).
Proof. split; [apply sync_finalizer_calls|apply claim_children_calls]. Qed.

Theorem C09_hook_phase_no_child_resource c k parent observed related :
  all_calls (hookphase_call c) (hook_phase_rolling c k parent observed related).
Proof. apply hook_phase_rolling_calls. Qed.

Theorem C09_finish_sync_no_revision_call c parent observed r :
  rev_res_separate c = true ->
  all_calls (fun cl => forall q, cl = CApi q -> q_res q <> rev_res) (finish_sync c parent observed r).
Proof.
  intros Hsep. eapply all_calls_weaken; [|apply finish_sync_calls].
  unfold rev_res_separate in Hsep. apply Bool.andb_true_iff in Hsep. destruct Hsep as [Hp Hk].
  apply Bool.negb_true_iff, String.eqb_neq in Hp.
  intros cl [(b & ->)|(q & -> & [Hr|(kn & Hin & Hr)])] q' Hq'; [discriminate| |];
    injection Hq' as <-; rewrite Hr.
  - exact Hp.
  - rewrite forallb_forall in Hk. specialize (Hk kn Hin).
    apply Bool.negb_true_iff, String.eqb_neq in Hk. exact Hk.
Qed.

(* ================================================================== *)
(* 2. a failed revision request aborts the sync                        *)
(* ================================================================== *)

Definition is_obj (a : answer) : bool := match a with AObj _ => true | _ => false end.

(* (a) manage_revisions: the first answer that is not a success makes the continuation
   return false at once *)
Inductive stops_on_failure : prog bool -> Prop :=
| SF_ret b : stops_on_failure (Ret b)
| SF_do c k :
    (forall a, is_obj a = false -> k a = Ret false) ->
    (forall a, stops_on_failure (k a)) ->
    stops_on_failure (Do c k).

Lemma run_until_error_stops ps : (forall p, In p ps -> rev_step p) -> stops_on_failure (run_until_error ps).
Proof.
  induction ps as [|p ps IH]; intros Hps; cbn [run_until_error]; [apply SF_ret|].
  assert (IH' : stops_on_failure (run_until_error ps)) by (apply IH; intros p' Hin; apply Hps; now right).
  destruct (Hps p (or_introl eq_refl)) as [->|(q & -> & _ & _)].
  - cbn [bind]. apply SF_ret.
  - unfold api. cbn [bind]. apply SF_do.
    + intros a Ha. destruct a; try reflexivity. discriminate.
    + intros a. destruct a; cbn [bind]; try apply SF_ret. exact IH'.
Qed.

Theorem C09_manage_revisions_stops ns observed desired :
  stops_on_failure (manage_revisions ns observed desired).
Proof. rewrite manage_revisions_eq. apply run_until_error_stops. intros p. apply rev_steps. Qed.

(* on runs: a non-success answer is the last entry of the history and the result is false *)
Lemma stops_on_failure_run (p : prog bool) (e : env) :
  stops_on_failure p -> forall h,
  exists new, fst (run p e h) = new ++ h /\
    forall post c a pre, new = post ++ (c, a) :: pre -> is_obj a = false ->
      post = [] /\ snd (run p e h) = false.
Proof.
  induction 1 as [b|c k Hfail Hk IH]; intros h.
  - exists []. split; [reflexivity|]. intros post c a pre Heq. destruct post; discriminate.
  - cbn [run]. destruct (IH (e h c) ((c, e h c) :: h)) as (new & Hnew & Hall).
    exists (new ++ [(c, e h c)]). split; [rewrite Hnew, <- app_assoc; reflexivity|].
    intros post c0 a0 pre Heq Ha0.
    destruct (exists_last_or_nil pre) as [->|(pre' & x & ->)].
    + apply app_inj_tail in Heq. destruct Heq as [<- [= <- <-]].
      rewrite (Hfail _ Ha0) in Hnew |- *. cbn [run fst snd] in Hnew |- *.
      split; [|reflexivity].
      destruct new as [|y new']; [reflexivity|].
      apply (f_equal (@List.length _)) in Hnew. cbn [List.length app] in Hnew.
      rewrite app_length in Hnew. cbn [List.length] in Hnew. lia.
    + rewrite app_comm_cons, app_assoc in Heq. apply app_inj_tail in Heq. destruct Heq as [Heq <-].
      apply (Hall post c0 a0 pre' Heq Ha0).
Qed.

Corollary C09_failed_revision_aborts_manage ns observed desired (e : env) h :
  exists new, fst (run (manage_revisions ns observed desired) e h) = new ++ h /\
    forall post c a pre, new = post ++ (c, a) :: pre -> is_obj a = false ->
      post = [] /\ snd (run (manage_revisions ns observed desired) e h) = false.
Proof. apply stops_on_failure_run, C09_manage_revisions_stops. Qed.

(* (b) the whole sync.  A revision write of manage_revisions is a non-GET request on
   rev_res issued after the hooks have been called (the revision requests before the first
   hook call are those of claim_revisions, which retries and carries on).  If it is not
   answered by an object, no further call is issued and the sync returns SErr: no child
   is touched. *)
Definition is_hook_call (cl : call) : bool := match cl with CHook _ _ => true | _ => false end.
Definition has_hook (h : hist) : bool := existsb (fun p => is_hook_call (fst p)) h.

Definition failed_rev_write (h : hist) : bool :=
  match h with
  | (cl, a) :: rest => is_rev_write cl && negb (is_obj a) && has_hook rest
  | [] => false
  end.

Definition C09_abort_phi (h : hist) (cl : call) : Prop := failed_rev_write h = false.
Definition C09_abort_post (h : hist) (r : sync_result) : Prop := failed_rev_write h = true -> r = SErr.

Lemma no_hook_not_failed h : has_hook h = false -> failed_rev_write h = false.
Proof.
  destruct h as [|[cl a] rest]; [reflexivity|]. unfold has_hook. cbn [existsb fst failed_rev_write].
  intros H. apply Bool.orb_false_iff in H. destruct H as [_ H]. unfold has_hook. rewrite H.
  apply Bool.andb_false_r.
Qed.

Lemma not_rev_write_not_failed cl a h : is_rev_write cl = false -> failed_rev_write ((cl, a) :: h) = false.
Proof. intros H. cbn [failed_rev_write]. rewrite H. reflexivity. Qed.

Lemma obj_not_failed cl o h : failed_rev_write ((cl, AObj o) :: h) = false.
Proof. cbn [failed_rev_write is_obj negb]. rewrite Bool.andb_false_r. reflexivity. Qed.

(* before any hook call *)
Lemma phase_nohook {R} (P : call -> Prop) (p : prog R) h :
  all_calls P p -> (forall cl, P cl -> is_hook_call cl = false) ->
  has_hook h = false ->
  hist_post C09_abort_phi (fun h' _ => has_hook h' = false) h p.
Proof.
  intros Hp HP Hh.
  apply (hist_post_of_all_calls P (fun h => has_hook h = false)); try assumption.
  - intros h0 cl a Hh0 Hcl. unfold has_hook. cbn [existsb fst]. rewrite (HP cl Hcl). exact Hh0.
  - intros h0 cl Hh0 _. apply no_hook_not_failed. exact Hh0.
Qed.

(* no revision write *)
Lemma phase_norev {R} (P : call -> Prop) (p : prog R) h :
  all_calls P p -> (forall cl, P cl -> is_rev_write cl = false) ->
  failed_rev_write h = false ->
  hist_post C09_abort_phi (fun h' _ => failed_rev_write h' = false) h p.
Proof.
  intros Hp HP Hh.
  apply (hist_post_of_all_calls P (fun h => failed_rev_write h = false)); try assumption.
  - intros h0 cl a _ Hcl. apply not_rev_write_not_failed. apply HP. exact Hcl.
  - intros h0 cl Hh0 _. exact Hh0.
Qed.

Lemma run_until_error_abort ps : (forall p, In p ps -> rev_step p) -> forall h,
  failed_rev_write h = false ->
  hist_post C09_abort_phi (fun h' ok => failed_rev_write h' = true -> ok = false) h (run_until_error ps).
Proof.
  induction ps as [|p ps IH]; intros Hps h Hh; cbn [run_until_error].
  - apply HP_ret. intros H. congruence.
  - assert (IH' : forall h, failed_rev_write h = false ->
                  hist_post C09_abort_phi (fun h' ok => failed_rev_write h' = true -> ok = false) h
                            (run_until_error ps)).
    { apply IH. intros p' Hin. apply Hps. now right. }
    destruct (Hps p (or_introl eq_refl)) as [->|(q & -> & _ & _)].
    + cbn [bind]. apply HP_ret. reflexivity.
    + unfold api. cbn [bind]. apply HP_do; [exact Hh|].
      intros a. destruct a as [o|e|b| |z]; cbn [bind]; try (apply HP_ret; reflexivity).
      apply IH'. apply obj_not_failed.
Qed.

Lemma prelude_not_hook c cl : prelude_call c cl -> is_hook_call cl = false.
Proof. intros (q & -> & _). reflexivity. Qed.

Lemma revphase_api_not_hook c cl : revphase_api_call c cl -> is_hook_call cl = false.
Proof. intros (q & -> & _). reflexivity. Qed.

Lemma hook_call_not_rev_write cl : (exists hk b, cl = CHook hk b /\ hk <> HCustomize) -> is_rev_write cl = false.
Proof. intros (hk & b & -> & _). reflexivity. Qed.

Definition hook_abort_post (h : hist) (hr : hook_result) : Prop := failed_rev_write h = true -> hr = HRErr.

Lemma call_hook_abort c parent observed related h :
  failed_rev_write h = false ->
  hist_post C09_abort_phi (fun h' _ => failed_rev_write h' = false) h (call_hook c parent observed related).
Proof.
  intros Hh. apply (phase_norev (fun cl => exists hk b, cl = CHook hk b /\ hk <> HCustomize)); [| |exact Hh].
  - unfold call_hook. cbv zeta.
    destruct (negb (has_finalize c && (is_deleting parent || negb (sel_matches (p_selector c) (get_labels parent))))
              && negb (has_sync c)); [apply AC_ret|].
    apply AC_do.
    + eexists. eexists. split; [reflexivity|].
      destruct (has_finalize c && (is_deleting parent || negb (sel_matches (p_selector c) (get_labels parent))));
        discriminate.
    + intros a. destruct a as [o|e|body| |z]; try apply AC_ret.
      destruct (decode_composite body); apply AC_ret.
  - apply hook_call_not_rev_write.
Qed.

Lemma call_hooks_abort c observed related prs h :
  failed_rev_write h = false ->
  hist_post C09_abort_phi (fun h' _ => failed_rev_write h' = false) h (call_hooks c observed related prs).
Proof.
  unfold call_hooks. revert h. induction prs as [|p prs IH]; intros h Hh; cbn [mapM].
  - apply HP_ret. exact Hh.
  - apply hist_post_bind with (Q := fun h' _ => failed_rev_write h' = false).
    + eapply hist_post_bind; [apply call_hook_abort; exact Hh|].
      intros h1 r Hh1. apply HP_ret. exact Hh1.
    + intros h1 b Hh1. eapply hist_post_bind; [apply IH; exact Hh1|].
      intros h2 rs Hh2. apply HP_ret. exact Hh2.
Qed.

Lemma sync_revisions_rolling_abort c k parent observed related h :
  has_hook h = false ->
  hist_post C09_abort_phi hook_abort_post h (sync_revisions_rolling c k parent observed related).
Proof.
  intros Hh. unfold sync_revisions_rolling.
  assert (Hvac : forall h' (hr : hook_result), failed_rev_write h' = false ->
                   hist_post C09_abort_phi hook_abort_post h' (Ret hr)).
  { intros h' hr H'. apply HP_ret. intros H''. congruence. }
  eapply hist_post_bind.
  { apply (phase_nohook (revphase_api_call c)); [apply claim_revisions_calls|apply revphase_api_not_hook|exact Hh]. }
  intros h1 oc Hh1. cbv beta in Hh1. apply no_hook_not_failed in Hh1.
  destruct oc as [claimed|]; [|apply Hvac; exact Hh1]. cbv zeta.
  destruct (make_patch (obj_map parent) (field_paths c) []) as [latest_patch|]; [|apply Hvac; exact Hh1].
  match goal with |- hist_post _ _ _ (match ?X with _ => _ end) => destruct X as [[latest_rev olds]|] end;
    [|apply Hvac; exact Hh1].
  match goal with |- hist_post _ _ _ (match ?X with _ => _ end) => destruct X as [lrev|] end;
    [|apply Hvac; exact Hh1].
  eapply hist_post_bind; [apply call_hooks_abort; exact Hh1|].
  intros h2 answers Hh2. cbv beta in Hh2.
  destruct (first_hook_failure answers) as [r|]; [destruct r; apply Hvac; exact Hh2|].
  match goal with |- hist_post _ _ _ (match ?X with _ => _ end) => destruct X as [[prs2 st]|] end;
    [|apply Hvac; exact Hh2].
  eapply hist_post_bind.
  { rewrite manage_revisions_eq. apply run_until_error_abort; [intros p; apply rev_steps|exact Hh2]. }
  intros h3 ok Hok. cbv beta in Hok.
  destruct ok; cbn [negb].
  - assert (Hh3 : failed_rev_write h3 = false).
    { destruct (failed_rev_write h3); [|reflexivity]. specialize (Hok eq_refl). discriminate. }
    destruct (prune prs2); apply Hvac; exact Hh3.
  - apply HP_ret. intros _. reflexivity.
Qed.

Lemma hook_phase_rolling_abort c k parent observed related h :
  has_hook h = false ->
  hist_post C09_abort_phi hook_abort_post h (hook_phase_rolling c k parent observed related).
Proof.
  intros Hh. unfold hook_phase_rolling.
  destruct (negb (any_rolling c) || (is_deleting parent && negb (should_finalize c parent))).
  - eapply hist_post_weaken; [| |apply call_hook_abort; apply no_hook_not_failed; exact Hh].
    + intros h0 cl H. exact H.
    + intros h0 r H H'. cbv beta in H. congruence.
  - apply sync_revisions_rolling_abort. exact Hh.
Qed.

Theorem C09_failed_revision_no_children_gen c k parent h :
  rev_res_separate c = true ->
  has_hook h = false ->
  hist_post C09_abort_phi C09_abort_post h (sync_parent_object_r c k parent).
Proof.
  intros Hsep Hh. unfold sync_parent_object_r.
  assert (Hvac : forall h' (r : sync_result), failed_rev_write h' = false ->
                   hist_post C09_abort_phi C09_abort_post h' (Ret r)).
  { intros h' r H'. apply HP_ret. intros H''. congruence. }
  destruct (ignores_parent c parent); [apply Hvac, no_hook_not_failed, Hh|].
  eapply hist_post_bind.
  { apply (phase_nohook (prelude_call c)); [apply sync_finalizer_calls|apply prelude_not_hook|exact Hh]. }
  intros h1 fr Hh1. cbv beta in Hh1. destruct fr as [parent1|e]; [|apply Hvac, no_hook_not_failed, Hh1].
  destruct (ignores_parent c parent1); [apply Hvac, no_hook_not_failed, Hh1|].
  eapply hist_post_bind.
  { apply (phase_nohook (prelude_call c)); [apply claim_children_calls|apply prelude_not_hook|exact Hh1]. }
  intros h2 oc Hh2. cbv beta in Hh2. destruct oc as [observed|]; [|apply Hvac, no_hook_not_failed, Hh2].
  unfold related_phase. cbn [bind].
  eapply hist_post_bind; [apply hook_phase_rolling_abort; exact Hh2|].
  intros h3 hr Hhr. unfold hook_abort_post in Hhr.
  destruct hr as [| |n|r].
  - apply HP_ret. intros _. reflexivity.
  - apply HP_ret. intros _. reflexivity.
  - apply HP_ret. intros H. specialize (Hhr H). discriminate.
  - assert (Hh3 : failed_rev_write h3 = false).
    { destruct (failed_rev_write h3); [|reflexivity]. specialize (Hhr eq_refl). discriminate. }
    eapply hist_post_weaken;
      [| |apply (phase_norev (finish_call c)); [apply finish_sync_calls| |exact Hh3]].
    + intros h0 cl H. exact H.
    + intros h0 r0 H H'. cbv beta in H. congruence.
    + intros cl. apply finish_not_rev_write. exact Hsep.
Qed.

Theorem C09_failed_revision_no_children c k parent :
  rev_res_separate c = true ->
  forall G, safe G C09_abort_phi [] (sync_parent_object_r c k parent).
Proof.
  intros Hsep G. eapply hist_post_safe. apply C09_failed_revision_no_children_gen; [exact Hsep|reflexivity].
Qed.

(* on runs: a revision write issued after the hooks and not answered by an object is the
   last call of the sync, and the sync reports an error *)
Corollary C09_failed_revision_no_children_run c k parent (e : env) :
  rev_res_separate c = true ->
  forall post cl a pre,
    fst (run (sync_parent_object_r c k parent) e []) = post ++ (cl, a) :: pre ->
    is_rev_write cl = true -> is_obj a = false -> has_hook pre = true ->
    post = [] /\ snd (run (sync_parent_object_r c k parent) e []) = SErr.
Proof.
  intros Hsep post cl a pre Heq Hrw Ha Hhook.
  pose proof (C09_failed_revision_no_children_gen c k parent [] Hsep eq_refl) as Hp.
  apply hist_post_run with (e := e) in Hp. destruct Hp as [Hpost (new & Hnew & Hall)].
  rewrite app_nil_r in Hnew. rewrite Hnew in Heq, Hpost.
  assert (Hf : failed_rev_write ((cl, a) :: pre) = true).
  { cbn [failed_rev_write]. rewrite Hrw, Ha, Hhook. reflexivity. }
  assert (Hpost_nil : post = []).
  { destruct (exists_last_or_nil post) as [->|(post' & [c1 a1] & ->)]; [reflexivity|].
    rewrite <- app_assoc in Heq. cbn [app] in Heq.
    specialize (Hall post' c1 a1 ((cl, a) :: pre) Heq). rewrite app_nil_r in Hall.
    unfold C09_abort_phi in Hall. congruence. }
  split; [exact Hpost_nil|]. subst post. cbn [app] in Heq. rewrite Heq in Hpost.
  apply Hpost. exact Hf.
Qed.

(* ================================================================== *)
(* 1'. before the first hook call: only GETs, the finalizer edit,       *)
(*     ownership edits, and the claiming of ControllerRevisions         *)
(* ================================================================== *)

(* whole-sync form of C09_prelude_updates_are_ownership_edits: as long as no hook has been
   called, a call is a hook call, a request of the revision-claiming step (rev_res, or the
   adoption GET of the parent), or a prelude_call: a GET, the finalizer VUpdate of the
   parent, or a VUpdate of an object of a child resource whose body is
   [set_owner_refs cur refs] — an adoption or a release by claim_one. *)
Definition C09_before_hooks_phi (c : ccfg) (h : hist) (cl : call) : Prop :=
  has_hook h = false -> is_hook_call cl = true \/ revphase_api_call c cl \/ prelude_call c cl.

Lemma has_hook_cons cl a h : has_hook ((cl, a) :: h) = is_hook_call cl || has_hook h.
Proof. reflexivity. Qed.

(* a phase all of whose calls are allowed; the hooks seen so far stay seen *)
Lemma phase_allowed {R} c (P : call -> Prop) (X : Prop) (p : prog R) h :
  all_calls P p ->
  (forall cl, P cl -> is_hook_call cl = true \/ revphase_api_call c cl \/ prelude_call c cl) ->
  (X -> has_hook h = true) ->
  hist_post (C09_before_hooks_phi c) (fun h' _ => X -> has_hook h' = true) h p.
Proof.
  intros Hp HP Hh.
  apply (hist_post_of_all_calls P (fun h' => X -> has_hook h' = true)); try assumption.
  - intros h0 cl a Hh0 _ Hx. rewrite has_hook_cons, (Hh0 Hx). apply Bool.orb_true_r.
  - intros h0 cl _ Hcl _. apply HP. exact Hcl.
Qed.

(* a phase entered after a hook call: anything goes *)
Lemma phase_after_hook {R} c (P : call -> Prop) (p : prog R) h :
  all_calls P p -> has_hook h = true ->
  hist_post (C09_before_hooks_phi c) (fun h' _ => has_hook h' = true) h p.
Proof.
  intros Hp Hh.
  apply (hist_post_of_all_calls P (fun h' => has_hook h' = true)); try assumption.
  - intros h0 cl a Hh0 _. rewrite has_hook_cons, Hh0. apply Bool.orb_true_r.
  - intros h0 cl Hh0 _ Hno. congruence.
Qed.

Lemma hookphase_allowed c cl :
  hookphase_call c cl -> is_hook_call cl = true \/ revphase_api_call c cl \/ prelude_call c cl.
Proof. intros [(hk & b & -> & _)|H]; [left; reflexivity|right; left; exact H]. Qed.

Definition resp_needs_hook (h : hist) (hr : hook_result) : Prop :=
  forall r, hr = HRResp r -> has_hook h = true.

Lemma call_hook_before c parent observed related h :
  hist_post (C09_before_hooks_phi c) (fun h' hr => has_hook h' = true \/ hr = HRNone) h
            (call_hook c parent observed related).
Proof.
  unfold call_hook. cbv zeta.
  destruct (negb (has_finalize c && (is_deleting parent || negb (sel_matches (p_selector c) (get_labels parent))))
            && negb (has_sync c)); [apply HP_ret; right; reflexivity|].
  apply HP_do; [intros _; left; reflexivity|].
  intros a. destruct a as [o|e|body| |z]; try (apply HP_ret; left; reflexivity).
  destruct (decode_composite body); apply HP_ret; left; reflexivity.
Qed.

Lemma call_hooks_before c observed related p ps h :
  hist_post (C09_before_hooks_phi c)
            (fun h' rs => has_hook h' = true \/ exists pr, In pr rs /\ snd pr = HRNone) h
            (call_hooks c observed related (p :: ps)).
Proof.
  unfold call_hooks. cbn [mapM].
  apply hist_post_bind with (Q := fun h' (b : prev * hook_result) => has_hook h' = true \/ snd b = HRNone).
  - eapply hist_post_bind; [apply call_hook_before|].
    intros h1 r H1. apply HP_ret. exact H1.
  - intros h1 b H1.
    apply hist_post_bind with (Q := fun h' (_ : list (prev * hook_result)) => has_hook h1 = true -> has_hook h' = true).
    + apply (phase_allowed c (hookphase_call c)); [apply call_hooks_calls|apply hookphase_allowed|auto].
    + intros h2 rs H2. apply HP_ret. destruct H1 as [H1|H1]; [left; auto|].
      right. exists b. split; [now left|exact H1].
Qed.

Lemma first_hook_failure_none answers pr :
  first_hook_failure answers = None -> In pr answers -> snd pr <> HRNone.
Proof.
  unfold first_hook_failure.
  destruct (find (fun pr => match snd pr with HRResp _ => false | _ => true end) answers) as [[p0 r0]|] eqn:Hf;
    [discriminate|].
  intros _ Hin Hn. eapply find_none in Hf; [|exact Hin]. cbv beta in Hf. rewrite Hn in Hf. discriminate.
Qed.

Lemma sync_revisions_rolling_before c k parent observed related h :
  hist_post (C09_before_hooks_phi c) resp_needs_hook h (sync_revisions_rolling c k parent observed related).
Proof.
  unfold sync_revisions_rolling.
  assert (Hvac : forall h', hist_post (C09_before_hooks_phi c) resp_needs_hook h' (Ret HRErr)).
  { intros h'. apply HP_ret. intros r Hr. discriminate. }
  apply hist_post_bind with (Q := fun _ _ => True).
  { eapply hist_post_weaken;
      [| |apply (phase_allowed c (revphase_api_call c) False); [apply claim_revisions_calls| |tauto]].
    - intros h0 cl H. exact H.
    - auto.
    - intros cl H. right. left. exact H. }
  intros h1 oc _. destruct oc as [claimed|]; [|apply Hvac]. cbv zeta.
  destruct (make_patch (obj_map parent) (field_paths c) []) as [latest_patch|]; [|apply Hvac].
  match goal with |- hist_post _ _ _ (match ?X with _ => _ end) => destruct X as [[latest_rev olds]|] end;
    [|apply Hvac].
  match goal with |- hist_post _ _ _ (match ?X with _ => _ end) => destruct X as [lrev|] end;
    [|apply Hvac].
  eapply hist_post_bind; [apply call_hooks_before|].
  intros h2 answers Hans. cbv beta in Hans.
  destruct (first_hook_failure answers) as [r|] eqn:Hff.
  { unfold first_hook_failure in Hff.
    destruct (find (fun pr => match snd pr with HRResp _ => false | _ => true end) answers) as [[p0 r0]|] eqn:Hf;
      [|discriminate].
    injection Hff as <-. apply find_some in Hf. destruct Hf as [_ Hf]. cbn [snd] in Hf.
    destruct r0; try (apply HP_ret; intros r Hr; discriminate). discriminate. }
  assert (Hh2 : has_hook h2 = true).
  { destruct Hans as [H|(pr & Hin & Hn)]; [exact H|].
    exfalso. eapply first_hook_failure_none; eauto. }
  match goal with |- hist_post _ _ _ (match ?X with _ => _ end) => destruct X as [[prs2 st]|] end;
    [|apply Hvac].
  eapply hist_post_bind; [apply (phase_after_hook c rev_write_call); [apply manage_revisions_calls|exact Hh2]|].
  intros h3 ok Hh3. cbv beta in Hh3.
  destruct (negb ok); [apply Hvac|].
  destruct (prune prs2); [apply Hvac|]. apply HP_ret. intros r _. exact Hh3.
Qed.

Lemma hook_phase_rolling_before c k parent observed related h :
  hist_post (C09_before_hooks_phi c) resp_needs_hook h (hook_phase_rolling c k parent observed related).
Proof.
  unfold hook_phase_rolling.
  destruct (negb (any_rolling c) || (is_deleting parent && negb (should_finalize c parent))).
  - eapply hist_post_weaken; [| |apply call_hook_before].
    + intros h0 cl H. exact H.
    + intros h0 hr [H | ->] r Hr; [exact H|discriminate].
  - apply sync_revisions_rolling_before.
Qed.

Theorem C09_only_ownership_edits_before_hooks_gen c k parent h :
  hist_post (C09_before_hooks_phi c) (fun _ _ => True) h (sync_parent_object_r c k parent).
Proof.
  unfold sync_parent_object_r.
  destruct (ignores_parent c parent); [apply HP_ret; exact I|].
  apply hist_post_bind with (Q := fun _ _ => True).
  { eapply hist_post_weaken;
      [| |apply (phase_allowed c (prelude_call c) False); [apply sync_finalizer_calls| |tauto]]; auto. }
  intros h1 fr _. destruct fr as [parent1|e]; [|apply HP_ret; exact I].
  destruct (ignores_parent c parent1); [apply HP_ret; exact I|].
  apply hist_post_bind with (Q := fun _ _ => True).
  { eapply hist_post_weaken;
      [| |apply (phase_allowed c (prelude_call c) False); [apply claim_children_calls| |tauto]]; auto. }
  intros h2 oc _. destruct oc as [observed|]; [|apply HP_ret; exact I].
  unfold related_phase. cbn [bind].
  eapply hist_post_bind; [apply hook_phase_rolling_before|].
  intros h3 hr Hhr. destruct hr as [| |n|r]; try (apply HP_ret; exact I).
  eapply hist_post_weaken;
    [| |apply (phase_after_hook c (finish_call c)); [apply finish_sync_calls|apply (Hhr r eq_refl)]]; auto.
Qed.

Theorem C09_only_ownership_edits_before_hooks c k parent :
  forall G, safe G (C09_before_hooks_phi c) [] (sync_parent_object_r c k parent).
Proof. intros G. eapply hist_post_safe. apply C09_only_ownership_edits_before_hooks_gen. Qed.

(* read on requests: a VUpdate issued before the first hook call on a resource other than
   the parent's and ControllerRevision is an ownership edit of an object of a child resource *)
Corollary C09_updates_before_hooks_are_ownership_edits c k parent (e : env) post q a pre :
  fst (run (sync_parent_object_r c k parent) e []) = post ++ (CApi q, a) :: pre ->
  has_hook pre = false -> q_verb q = VUpdate -> q_res q <> rev_res -> q_res q <> p_res c ->
  exists kc cur refs, In kc (kids c) /\ q_res q = ch_res kc /\ q_body q = set_owner_refs cur refs.
Proof.
  intros Heq Hno Hv Hr Hp.
  pose proof (C09_only_ownership_edits_before_hooks_gen c k parent []) as Hs.
  apply hist_post_run with (e := e) in Hs. destruct Hs as [_ (new & Hnew & Hall)].
  rewrite app_nil_r in Hnew. rewrite Hnew in Heq. specialize (Hall post (CApi q) a pre Heq).
  rewrite app_nil_r in Hall. destruct (Hall Hno) as [H|[(q' & Hq' & H)|(q' & Hq' & H)]].
  - discriminate.
  - injection Hq' as <-. destruct H as [H|[H1 H2]]; [contradiction|]. rewrite Hv in H2. discriminate.
  - injection Hq' as <-. destruct H as [H|[[_ H]|[_ (kc & cur & refs & H)]]].
    + rewrite Hv in H. discriminate.
    + contradiction.
    + exists kc, cur, refs. exact H.
Qed.

(* ================================================================== *)
(* 3. which revision lists which child                                 *)
(* ================================================================== *)

(* (a) what sync_revision_claims establishes, starting from no claims: every key is
   recorded once; its claimant is a revision of the list and that revision lists the key;
   every listed key has a claimant; each returned revision lists only keys the original
   listed. *)
Theorem C09_claims_after_sync_revision_claims c ds prs prs' cl' :
  sync_revision_claims c ds 0 prs [] = (prs', cl') ->
  NoDup (map fst cl') /\
  List.length prs' = List.length prs /\
  (forall k j, claimant cl' k = Some j ->
     exists p', nth_error prs' j = Some p' /\ lists (pr_rev p') k = true) /\
  (forall p' g kd n, In p' prs' -> lists (pr_rev p') (g, kd, n) = true ->
     find_desired ds g kd n <> None -> claimant cl' (g, kd, n) <> None) /\
  (forall m p', nth_error prs' m = Some p' ->
     exists p, nth_error prs m = Some p /\
       forall k, lists (pr_rev p') k = true -> lists (pr_rev p) k = true).
Proof.
  intros Hs. apply sync_revision_claims_ok in Hs. pose proof (sc_complete _ _ _ _ _ _ _ Hs) as Sc.
  destruct Hs as [Sl Ss Sm Sn Sli Snd].
  split; [apply Snd; constructor|]. split; [exact Sl|]. split; [|split; [exact Sc|]].
  - intros k j Hk. destruct (Sn k j Hk) as [H|(_ & _ & p' & Hp & Hl)]; [discriminate|].
    rewrite Nat.sub_0_r in Hp. eauto.
  - intros m p' Hm. destruct (Ss m p' Hm) as (p & Hp & _ & _ & _ & _ & _ & Hsub & _). eauto.
Qed.

(* the first revision in the list wins: an existing claimant is never changed *)
Theorem C09_first_claimant_wins c ds i prs cl prs' cl' k j :
  sync_revision_claims c ds i prs cl = (prs', cl') -> claimant cl k = Some j -> claimant cl' k = Some j.
Proof. intros Hs. apply sync_revision_claims_ok in Hs. apply (sc_mono _ _ _ _ _ _ _ Hs). Qed.

(* claims_of_revision now keeps, of each group, exactly the names this revision newly
   claims.  Hence, with NO proviso on the input: after sync_revision_claims every key is
   listed by at most one revision, and a listed key is of a rolling kind, desired by the
   latest revision, and claimed by exactly the revision that lists it. *)
Theorem C09_claims_exclusive c ds prs prs' cl' :
  sync_revision_claims c ds 0 prs [] = (prs', cl') ->
  (forall k, count_listing prs' k <= 1) /\
  (forall m p' g kd n, nth_error prs' m = Some p' -> lists (pr_rev p') (g, kd, n) = true ->
     is_rolling c g kd = true /\ find_desired ds g kd n <> None /\ claimant cl' (g, kd, n) = Some m).
Proof.
  intros Hs. split.
  - intros k. apply count_of_excl. intros a b pa pb Ha Hb La Lb.
    eapply sync_revision_claims_excl; eauto.
  - intros m p' g kd n Hm Hl. apply sync_revision_claims_ok in Hs.
    destruct (sc_listed _ _ _ _ _ _ _ Hs m p' g kd n Hm Hl) as (H1 & H2 & _ & H3). auto.
Qed.

(* the data of the former counterexample (r0 lists Thing [a], the older r1 lists Thing [a; b],
   the hook desires a and b): r1 now keeps only b *)
Definition cx9_cfg : ccfg :=
  mkCfg "cc" "v1" "Parent" "parents" true true true (SelReqs [])
        [mkChild "v1" "things" "Thing" true method_rolling_recreate] true false
        [mkChild "v1" "things" "Thing" true method_rolling_recreate] false false [["spec"]] [].
Definition cx9_thing (n : string) : json :=
  JObj [("apiVersion", JStr "v1"); ("kind", JStr "Thing"); ("metadata", JObj [("name", JStr n)])].
Definition cx9_ds : dlist := [("v1", "Thing", "a", cx9_thing "a"); ("v1", "Thing", "b", cx9_thing "b")].
Definition cx9_revobj (n : string) : json := JObj [("metadata", JObj [("name", JStr n)])].
Definition cx9_r0 : revision := mkRevision (cx9_revobj "r0") (JObj []) [mkRck "" "Thing" ["a"]].
Definition cx9_r1 : revision := mkRevision (cx9_revobj "r1") (JObj []) [mkRck "" "Thing" ["a"; "b"]].
Definition cx9_resp : hook_resp := mkHR JNull [Some (cx9_thing "a"); Some (cx9_thing "b")] JNull false.
Definition cx9_prs : list prev := [mkPrev JNull cx9_r0 cx9_resp cx9_ds; mkPrev JNull cx9_r1 cx9_resp cx9_ds].
Definition cx9_live (n : string) : json := JObj (set_last_applied (obj_map (cx9_thing n)) (cx9_thing n)).
Definition cx9_observed : umap := [("v1", "Thing", [("a", cx9_live "a"); ("b", cx9_live "b")])].

Example C09_claims_exclusive_example :
  let '(prs', cl') := sync_revision_claims cx9_cfg cx9_ds 0 cx9_prs [] in
  claimant cl' ("", "Thing", "a") = Some 0 /\
  claimant cl' ("", "Thing", "b") = Some 1 /\
  map (fun p => rev_children (pr_rev p)) prs' = [[mkRck "" "Thing" ["a"]]; [mkRck "" "Thing" ["b"]]].
Proof. vm_compute. repeat split. Qed.

(* ... and after the whole step (both children live and up to date: b moves to r0 for
   free) the emptied r1 is pruned *)
Example C09_emptied_revision_pruned_example :
  exists prs2,
    sync_rolling_update cx9_cfg "" cx9_observed cx9_prs = Some (prs2, RComplete) /\
    map (fun p => rev_children (pr_rev p)) (prune prs2) = [[mkRck "" "Thing" ["a"; "b"]]].
Proof. eexists. vm_compute. repeat split. Qed.

(* (b) after sync_rolling_update + prune every key is listed by at most one revision.
   One proviso remains, on the INPUT revisions (boolean): no revision lists a
   (group, kind) twice — remove_child only looks at the first group of that kind. *)
Definition all_simple (prs : list prev) : bool := forallb (fun p => simple (pr_rev p)) prs.
Definition all_gk_unique (prs : list prev) : bool :=
  forallb (fun p => gk_unique (rev_children (pr_rev p))) prs.

Lemma unique_claim_core c pns observed latest rest prs2 st :
  sync_rolling_update c pns observed (latest :: rest) = Some (prs2, st) ->
  all_simple (fst (sync_revision_claims c (pr_desired latest) 0 (latest :: rest) [])) = true ->
  forall k, count_listing (prune prs2) k <= 1.
Proof.
  intros Hsync. unfold sync_rolling_update in Hsync.
  destruct (sync_revision_claims c (pr_desired latest) 0 (latest :: rest) []) as [prs1 cl1] eqn:Hc.
  cbn [fst]. intros Hsimple k.
  destruct (first_pass c pns observed prs1 cl1) as [prsA clA] eqn:Hf.
  destruct (second_pass c pns observed prsA clA) as [prs3 st3] eqn:Hs2.
  destruct prs3 as [|l3 rest3]; [discriminate|].
  destruct (set_condition (hr_status (pr_resp l3)) "Updated" (rollout_condition st3 (rev_name (pr_rev l3))))
    as [status'|]; [|discriminate].
  injection Hsync as <- <-.
  pose proof Hc as Hc0. apply sync_revision_claims_ok in Hc.
  pose proof (sc_complete _ _ _ _ _ _ _ Hc) as Sc. destruct Hc as [Sl Ss Sm Sn Sli Snd].
  (* the invariant holds after the claims pass *)
  assert (Hinv : inv (pr_desired latest) prs1 cl1).
  { constructor.
    - intros k' a b pa pb Ha Hb La Lb. eapply sync_revision_claims_excl; eauto.
    - intros k' j Hk'. destruct (Sn k' j Hk') as [H|(_ & _ & p' & Hp & Hl)]; [discriminate|].
      rewrite Nat.sub_0_r in Hp. eauto.
    - exact Sc.
    - intros p Hin. unfold all_simple in Hsimple. rewrite forallb_forall in Hsimple. apply Hsimple, Hin. }
  destruct prs1 as [|latest1 rest1]; [discriminate|].
  destruct (Ss 0 latest1 eq_refl) as (p0 & Hp0 & _ & _ & Hdes & _).
  cbn [nth_error] in Hp0. injection Hp0 as <-.
  rewrite first_pass_eq, Hdes in Hf.
  destruct (fp_fold_inv c pns observed (pr_desired latest) (pr_desired latest) _ _ _ _
              (fun e H => H) Hinv ltac:(discriminate) Hf) as [HinvA HneA].
  pose proof (second_pass_excl _ _ _ _ _ _ _ Hs2 (iv_simple _ _ _ HinvA) (iv_excl _ _ _ HinvA) k) as Hex3.
  apply count_of_excl in Hex3.
  cbn [prune]. unfold count_listing in *. cbn [filter] in *.
  change (listsP (mkPrev (pr_parent l3) (pr_rev l3)
            (mkHR status' (hr_children (pr_resp l3)) (hr_resync (pr_resp l3)) (hr_finalized (pr_resp l3)))
            (pr_desired l3)) k) with (listsP l3 k).
  pose proof (count_filter_le (fun p => negb (Nat.eqb (count_children (pr_rev p)) 0)) rest3 k) as Hle.
  unfold count_listing in Hle.
  destruct (listsP l3 k); cbn [List.length] in *; lia.
Qed.

Theorem C09_revision_names_unique_claim c pns observed latest rest prs2 st :
  sync_rolling_update c pns observed (latest :: rest) = Some (prs2, st) ->
  all_gk_unique (latest :: rest) = true ->
  forall k, count_listing (prune prs2) k <= 1.
Proof.
  intros Hsync Hgk. eapply unique_claim_core; [exact Hsync|].
  destruct (sync_revision_claims c (pr_desired latest) 0 (latest :: rest) []) as [prs1 cl1] eqn:Hc.
  cbn [fst]. apply sync_revision_claims_ok in Hc.
  unfold all_simple. apply forallb_forall. intros p' Hin.
  apply In_nth_error in Hin. destruct Hin as [m Hm].
  destruct (sc_same _ _ _ _ _ _ _ Hc m p' Hm) as (p & Hp & _ & _ & _ & _ & _ & _ & Hsim).
  apply Hsim. unfold all_gk_unique in Hgk. rewrite forallb_forall in Hgk.
  apply Hgk. eapply nth_error_In; eauto.
Qed.

(* the earlier form (hypotheses on the result of the claims pass) still holds; its second
   hypothesis is now redundant (C09_claims_exclusive) *)
Theorem C09_revision_names_unique_claim_partial c pns observed latest rest prs2 st :
  sync_rolling_update c pns observed (latest :: rest) = Some (prs2, st) ->
  let prs1 := fst (sync_revision_claims c (pr_desired latest) 0 (latest :: rest) []) in
  all_simple prs1 = true ->
  (forall k, count_listing prs1 k <= 1) ->
  forall k, count_listing (prune prs2) k <= 1.
Proof. intros Hsync prs1 Hsimple _. eapply unique_claim_core; eauto. Qed.

(* the remaining proviso is needed: an old revision that lists the kind Thing twice
   ([a] and [b]) keeps b when b moves to the latest revision, because remove_child only
   edits the first Thing group *)
Definition cx9_r0e : revision := mkRevision (cx9_revobj "r0") (JObj []) [].
Definition cx9_r1d : revision :=
  mkRevision (cx9_revobj "r1") (JObj []) [mkRck "" "Thing" ["a"]; mkRck "" "Thing" ["b"]].
Definition cx9_prs_d : list prev := [mkPrev JNull cx9_r0e cx9_resp cx9_ds; mkPrev JNull cx9_r1d cx9_resp cx9_ds].

Example C09_duplicate_group_counterexample :
  all_gk_unique cx9_prs_d = false /\
  exists prs2 st,
    sync_rolling_update cx9_cfg "" cx9_observed cx9_prs_d = Some (prs2, st) /\
    count_listing (prune prs2) ("", "Thing", "b") = 2.
Proof. split; [reflexivity|]. eexists. eexists. vm_compute. repeat split. Qed.

(* the provisos are satisfiable *)
Example C09_rev_res_separate_ok : rev_res_separate cx9_cfg = true.
Proof. vm_compute. reflexivity. Qed.

Definition cx9_r1' : revision := mkRevision (cx9_revobj "r1") (JObj []) [mkRck "" "Thing" ["b"]].
Definition cx9_prs' : list prev := [mkPrev JNull cx9_r0 cx9_resp cx9_ds; mkPrev JNull cx9_r1' cx9_resp cx9_ds].

Example C09_unique_claim_hypotheses_ok :
  let prs1 := fst (sync_revision_claims cx9_cfg cx9_ds 0 cx9_prs' []) in
  all_simple prs1 = true /\
  count_listing prs1 ("", "Thing", "a") = 1 /\ count_listing prs1 ("", "Thing", "b") = 1.
Proof. vm_compute. repeat split. Qed.

Example C09_gk_unique_ok : all_gk_unique cx9_prs = true.
Proof. reflexivity. Qed.

Print Assumptions C09_revisions_before_children.
Print Assumptions C09_revisions_before_children_run.
Print Assumptions C09_prelude_no_content_write.
Print Assumptions C09_prelude_updates_are_ownership_edits.
Print Assumptions C09_hook_phase_no_child_resource.
Print Assumptions C09_finish_sync_no_revision_call.
Print Assumptions C09_manage_revisions_stops.
Print Assumptions C09_failed_revision_aborts_manage.
Print Assumptions C09_failed_revision_no_children.
Print Assumptions C09_failed_revision_no_children_run.
Print Assumptions C09_claims_after_sync_revision_claims.
Print Assumptions C09_first_claimant_wins.
Print Assumptions C09_claims_exclusive.
Print Assumptions C09_claims_exclusive_example.
Print Assumptions C09_emptied_revision_pruned_example.
Print Assumptions C09_revision_names_unique_claim.
Print Assumptions C09_duplicate_group_counterexample.
Print Assumptions C09_revision_names_unique_claim_partial.
Print Assumptions C09_only_ownership_edits_before_hooks.
Print Assumptions C09_updates_before_hooks_are_ownership_edits.
