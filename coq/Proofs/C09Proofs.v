(* C09Proofs.v — C09: rollout intent (the ControllerRevisions) is persisted
   before the controller acts on children.
   Statements about Model/Rolling.v sync_parent_object_r, manage_revisions,
   sync_revision_claims. *)
From MC Require Import Generated.
From MC Require Import Model.Rolling Model.Safe.
From MC Require Import Proofs.C06Proofs Proofs.C04Proofs Proofs.RollCalls.
From Coq Require Import Lia.
Local Open Scope string_scope.
Local Open Scope list_scope.

(* ================================================================== *)
(* generic: from "every call satisfies P" to a history-aware judgement *)
(* ================================================================== *)

Lemma hist_post_of_all_calls {R} (P : call -> Prop) (I : hist -> Prop) (Phi : hist -> call -> Prop) (p : prog R) :
  all_calls P p ->
  (forall h c a, I h -> P c -> I ((c, a) :: h)) ->
  (forall h c, I h -> P c -> Phi h c) ->
  forall h, I h -> hist_post Phi (fun h' _ => I h') h p.
Proof.
  intros Hp HI HPhi. induction Hp as [r|c k Hc Hk IH]; intros h Hh.
  - apply HP_ret. exact Hh.
  - apply HP_do; [apply HPhi; assumption|]. intros a. apply IH. apply HI; assumption.
Qed.

Lemma hist_post_safe {R} (G : call -> answer -> Prop) Phi (Q : hist -> R -> Prop) h (p : prog R) :
  hist_post Phi Q h p -> safe G Phi h p.
Proof. induction 1 as [h r Hq|h c k Hc Hk IH]; constructor; auto. Qed.

(* ================================================================== *)
(* 1. revisions before children                                        *)
(* ================================================================== *)

(* a write to the ControllerRevision resource *)
Definition is_rev_write (cl : call) : bool :=
  match cl with
  | CApi q => String.eqb (q_res q) rev_res && negb (verb_eqb (q_verb q) VGet)
  | _ => false
  end.

Definition content_verb (v : verb) : bool :=
  match v with VCreate | VDelete | VPatchApply | VPatchJson => true | _ => false end.

(* a create / delete / patch on a resource that is neither the parent's nor ControllerRevision.
   (VUpdate is left out on purpose: adoption and release are VUpdates of child objects
   and they do precede the revisions; see C09_prelude_updates_are_ownership_edits.) *)
Definition is_child_write (c : ccfg) (cl : call) : bool :=
  match cl with
  | CApi q => negb (String.eqb (q_res q) rev_res) && negb (String.eqb (q_res q) (p_res c)) &&
              content_verb (q_verb q)
  | _ => false
  end.

Definition no_child_write_yet (c : ccfg) (h : hist) : bool :=
  forallb (fun p => negb (is_child_write c (fst p))) h.

Definition C09_phi (c : ccfg) (h : hist) (cl : call) : Prop :=
  is_rev_write cl = true -> no_child_write_yet c h = true.

(* discovery never resolves a child kind to the ControllerRevision resource, and the
   parent is not a ControllerRevision *)
Definition rev_res_separate (c : ccfg) : bool :=
  negb (String.eqb (p_res c) rev_res) &&
  forallb (fun kn => negb (String.eqb (ch_res kn) rev_res)) (known c).

Lemma prelude_not_child_write c cl : prelude_call c cl -> is_child_write c cl = false.
Proof.
  intros (q & -> & [Hv|[[Hv _]|[Hv _]]]); unfold is_child_write; rewrite Hv; cbn [content_verb];
    apply Bool.andb_false_r.
Qed.

Lemma hookphase_not_child_write c cl : hookphase_call c cl -> is_child_write c cl = false.
Proof.
  intros [(hk & b & -> & _)|(q & -> & [Hr|[Hr Hv]])]; [reflexivity| |]; unfold is_child_write.
  - rewrite Hr, String.eqb_refl. reflexivity.
  - rewrite Hv. cbn [content_verb]. apply Bool.andb_false_r.
Qed.

Lemma finish_not_rev_write c cl : rev_res_separate c = true -> finish_call c cl -> is_rev_write cl = false.
Proof.
  unfold rev_res_separate. intros Hsep. apply Bool.andb_true_iff in Hsep. destruct Hsep as [Hp Hk].
  apply Bool.negb_true_iff in Hp.
  intros [(b & ->)|(q & -> & [Hr|(kn & Hin & Hr)])]; [reflexivity| |]; unfold is_rev_write; rewrite Hr.
  - rewrite Hp. reflexivity.
  - rewrite forallb_forall in Hk. specialize (Hk kn Hin). apply Bool.negb_true_iff in Hk.
    rewrite Hk. reflexivity.
Qed.

(* phase A: nothing the program issues is a child write *)
Lemma phaseA {R} c (P : call -> Prop) (p : prog R) h :
  all_calls P p -> (forall cl, P cl -> is_child_write c cl = false) ->
  no_child_write_yet c h = true ->
  hist_post (C09_phi c) (fun h' _ => no_child_write_yet c h' = true) h p.
Proof.
  intros Hp HP Hh.
  apply (hist_post_of_all_calls P (fun h => no_child_write_yet c h = true)); try assumption.
  - intros h0 cl a Hh0 Hcl. unfold no_child_write_yet. cbn [forallb fst].
    rewrite (HP cl Hcl). cbn [negb andb]. exact Hh0.
  - intros h0 cl Hh0 _ _. exact Hh0.
Qed.

(* phase B: nothing the program issues is a revision write *)
Lemma phaseB {R} c (P : call -> Prop) (p : prog R) h :
  all_calls P p -> (forall cl, P cl -> is_rev_write cl = false) ->
  hist_post (C09_phi c) (fun _ _ => True) h p.
Proof.
  intros Hp HP.
  apply (hist_post_of_all_calls P (fun _ => True)); try assumption; auto.
  intros h0 cl _ Hcl Hrw. rewrite (HP cl Hcl) in Hrw. discriminate.
Qed.

Theorem C09_revisions_before_children_gen c k parent h :
  rev_res_separate c = true ->
  no_child_write_yet c h = true ->
  hist_post (C09_phi c) (fun _ _ => True) h (sync_parent_object_r c k parent).
Proof.
  intros Hsep Hh. unfold sync_parent_object_r.
  destruct (ignores_parent c parent); [apply HP_ret; exact I|].
  eapply hist_post_bind.
  { apply (phaseA c (prelude_call c)); [apply sync_finalizer_calls|apply prelude_not_child_write|exact Hh]. }
  intros h1 fr Hh1. cbv beta in Hh1. destruct fr as [parent1|e]; [|apply HP_ret; exact I].
  destruct (ignores_parent c parent1); [apply HP_ret; exact I|].
  eapply hist_post_bind.
  { apply (phaseA c (prelude_call c)); [apply claim_children_calls|apply prelude_not_child_write|exact Hh1]. }
  intros h2 oc Hh2. cbv beta in Hh2. destruct oc as [observed|]; [|apply HP_ret; exact I].
  unfold related_phase. cbn [bind].
  eapply hist_post_bind.
  { apply (phaseA c (hookphase_call c));
      [apply hook_phase_rolling_calls|apply hookphase_not_child_write|exact Hh2]. }
  intros h3 hr Hh3. destruct hr as [| |n|r]; try (apply HP_ret; exact I).
  apply (phaseB c (finish_call c)); [apply finish_sync_calls|].
  intros cl. apply finish_not_rev_write. exact Hsep.
Qed.

(* the statement: in every run of sync_parent_object_r, whatever the answers, when a
   write to the ControllerRevision resource is issued no child has yet been created,
   deleted or patched *)
Theorem C09_revisions_before_children c k parent :
  rev_res_separate c = true ->
  forall G, safe G (C09_phi c) [] (sync_parent_object_r c k parent).
Proof.
  intros Hsep G. eapply hist_post_safe. apply C09_revisions_before_children_gen; [exact Hsep|reflexivity].
Qed.

(* on runs: no child write precedes a revision write in the trace *)
Corollary C09_revisions_before_children_run c k parent (e : env) :
  rev_res_separate c = true ->
  forall post cl a pre,
    fst (run (sync_parent_object_r c k parent) e []) = post ++ (cl, a) :: pre ->
    is_rev_write cl = true ->
    forall cl' a', In (cl', a') pre -> is_child_write c cl' = false.
Proof.
  intros Hsep post cl a pre Heq Hrw cl' a' Hin.
  pose proof (C09_revisions_before_children_gen c k parent [] Hsep eq_refl) as Hp.
  apply hist_post_run with (e := e) in Hp. destruct Hp as [_ (new & Hnew & Hall)].
  rewrite app_nil_r in Hnew. rewrite Hnew in Heq. specialize (Hall post cl a pre Heq Hrw).
  rewrite app_nil_r in Hall. unfold no_child_write_yet in Hall. rewrite forallb_forall in Hall.
  specialize (Hall (cl', a') Hin). cbn [fst] in Hall. apply Bool.negb_true_iff in Hall. exact Hall.
Qed.

(* without the side condition the statement fails only through configuration: the three
   phase facts below need no hypothesis *)
Theorem C09_prelude_no_content_write c k parent :
  all_calls (fun cl => forall q, cl = CApi q -> content_verb (q_verb q) = false) (sync_finalizer c parent) /\
  all_calls (fun cl => forall q, cl = CApi q -> content_verb (q_verb q) = false) (claim_children c k parent).
Proof.
  split; (eapply all_calls_weaken; [|first [apply sync_finalizer_calls|apply claim_children_calls]]);
    intros cl (q & -> & [Hv|[[Hv _]|[Hv _]]]) q' [= <-]; rewrite Hv; reflexivity.
Qed.

(* the VUpdates of the prelude on a child resource are ownership edits: adoption and release *)
Theorem C09_prelude_updates_are_ownership_edits c k parent :
  all_calls (prelude_call c) (sync_finalizer c parent) /\
  all_calls (prelude_call c) (claim_children c k parent).
Proof. split; [apply sync_finalizer_calls|apply claim_children_calls]. Qed.

Theorem C09_hook_phase_no_child_resource c k parent observed related :
  all_calls (hookphase_call c) (hook_phase_rolling c k parent observed related).
Proof. apply hook_phase_rolling_calls. Qed.

Theorem C09_finish_sync_no_revision_call c parent observed r :
  rev_res_separate c = true ->
  all_calls (fun cl => forall q, cl = CApi q -> q_res q <> rev_res) (finish_sync c parent observed r).
Proof.
  intros Hsep. eapply all_calls_weaken; [|apply finish_sync_calls].
  unfold rev_res_separate in Hsep. apply Bool.andb_true_iff in Hsep. destruct Hsep as [Hp Hk].
  apply Bool.negb_true_iff, String.eqb_neq in Hp.
  intros cl [(b & ->)|(q & -> & [Hr|(kn & Hin & Hr)])] q' Hq'; [discriminate| |];
    injection Hq' as <-; rewrite Hr.
  - exact Hp.
  - rewrite forallb_forall in Hk. specialize (Hk kn Hin).
    apply Bool.negb_true_iff, String.eqb_neq in Hk. exact Hk.
Qed.

(* ================================================================== *)
(* 2. a failed revision request aborts the sync                        *)
(* ================================================================== *)

Definition is_obj (a : answer) : bool := match a with AObj _ => true | _ => false end.

(* (a) manage_revisions: the first answer that is not a success makes the continuation
   return false at once *)
Inductive stops_on_failure : prog bool -> Prop :=
| SF_ret b : stops_on_failure (Ret b)
| SF_do c k :
    (forall a, is_obj a = false -> k a = Ret false) ->
    (forall a, stops_on_failure (k a)) ->
    stops_on_failure (Do c k).

Lemma run_until_error_stops ps : (forall p, In p ps -> rev_step p) -> stops_on_failure (run_until_error ps).
Proof.
  induction ps as [|p ps IH]; intros Hps; cbn [run_until_error]; [apply SF_ret|].
  assert (IH' : stops_on_failure (run_until_error ps)) by (apply IH; intros p' Hin; apply Hps; now right).
  destruct (Hps p (or_introl eq_refl)) as [->|(q & -> & _ & _)].
  - cbn [bind]. apply SF_ret.
  - unfold api. cbn [bind]. apply SF_do.
    + intros a Ha. destruct a; try reflexivity. discriminate.
    + intros a. destruct a; cbn [bind]; try apply SF_ret. exact IH'.
Qed.

Theorem C09_manage_revisions_stops ns observed desired :
  stops_on_failure (manage_revisions ns observed desired).
Proof. rewrite manage_revisions_eq. apply run_until_error_stops. intros p. apply rev_steps. Qed.

(* on runs: a non-success answer is the last entry of the history and the result is false *)
Lemma stops_on_failure_run (p : prog bool) (e : env) :
  stops_on_failure p -> forall h,
  exists new, fst (run p e h) = new ++ h /\
    forall post c a pre, new = post ++ (c, a) :: pre -> is_obj a = false ->
      post = [] /\ snd (run p e h) = false.
Proof.
  induction 1 as [b|c k Hfail Hk IH]; intros h.
  - exists []. split; [reflexivity|]. intros post c a pre Heq. destruct post; discriminate.
  - cbn [run]. destruct (IH (e h c) ((c, e h c) :: h)) as (new & Hnew & Hall).
    exists (new ++ [(c, e h c)]). split; [rewrite Hnew, <- app_assoc; reflexivity|].
    intros post c0 a0 pre Heq Ha0.
    destruct (exists_last_or_nil pre) as [->|(pre' & x & ->)].
    + apply app_inj_tail in Heq. destruct Heq as [<- [= <- <-]].
      rewrite (Hfail _ Ha0) in Hnew |- *. cbn [run fst snd] in Hnew |- *.
      split; [|reflexivity].
      destruct new as [|y new']; [reflexivity|].
      apply (f_equal (@List.length _)) in Hnew. cbn [List.length app] in Hnew.
      rewrite app_length in Hnew. cbn [List.length] in Hnew. lia.
    + rewrite app_comm_cons, app_assoc in Heq. apply app_inj_tail in Heq. destruct Heq as [Heq <-].
      apply (Hall post c0 a0 pre' Heq Ha0).
Qed.

Corollary C09_failed_revision_aborts_manage ns observed desired (e : env) h :
  exists new, fst (run (manage_revisions ns observed desired) e h) = new ++ h /\
    forall post c a pre, new = post ++ (c, a) :: pre -> is_obj a = false ->
      post = [] /\ snd (run (manage_revisions ns observed desired) e h) = false.
Proof. apply stops_on_failure_run, C09_manage_revisions_stops. Qed.

(* (b) the whole sync.  A revision write of manage_revisions is a non-GET request on
   rev_res issued after the hooks have been called (the revision requests before the first
   hook call are those of claim_revisions, which retries and carries on).  If it is not
   answered by an object, no further call is issued and the sync returns SErr: no child
   is touched. *)
Definition is_hook_call (cl : call) : bool := match cl with CHook _ _ => true | _ => false end.
Definition has_hook (h : hist) : bool := existsb (fun p => is_hook_call (fst p)) h.

Definition failed_rev_write (h : hist) : bool :=
  match h with
  | (cl, a) :: rest => is_rev_write cl && negb (is_obj a) && has_hook rest
  | [] => false
  end.

Definition C09_abort_phi (h : hist) (cl : call) : Prop := failed_rev_write h = false.
Definition C09_abort_post (h : hist) (r : sync_result) : Prop := failed_rev_write h = true -> r = SErr.

Lemma no_hook_not_failed h : has_hook h = false -> failed_rev_write h = false.
Proof.
  destruct h as [|[cl a] rest]; [reflexivity|]. unfold has_hook. cbn [existsb fst failed_rev_write].
  intros H. apply Bool.orb_false_iff in H. destruct H as [_ H]. unfold has_hook. rewrite H.
  apply Bool.andb_false_r.
Qed.

Lemma not_rev_write_not_failed cl a h : is_rev_write cl = false -> failed_rev_write ((cl, a) :: h) = false.
Proof. intros H. cbn [failed_rev_write]. rewrite H. reflexivity. Qed.

Lemma obj_not_failed cl o h : failed_rev_write ((cl, AObj o) :: h) = false.
Proof. cbn [failed_rev_write is_obj negb]. rewrite Bool.andb_false_r. reflexivity. Qed.

(* before any hook call *)
Lemma phase_nohook {R} (P : call -> Prop) (p : prog R) h :
  all_calls P p -> (forall cl, P cl -> is_hook_call cl = false) ->
  has_hook h = false ->
  hist_post C09_abort_phi (fun h' _ => has_hook h' = false) h p.
Proof.
  intros Hp HP Hh.
  apply (hist_post_of_all_calls P (fun h => has_hook h = false)); try assumption.
  - intros h0 cl a Hh0 Hcl. unfold has_hook. cbn [existsb fst]. rewrite (HP cl Hcl). exact Hh0.
  - intros h0 cl Hh0 _. apply no_hook_not_failed. exact Hh0.
Qed.

(* no revision write *)
Lemma phase_norev {R} (P : call -> Prop) (p : prog R) h :
  all_calls P p -> (forall cl, P cl -> is_rev_write cl = false) ->
  failed_rev_write h = false ->
  hist_post C09_abort_phi (fun h' _ => failed_rev_write h' = false) h p.
Proof.
  intros Hp HP Hh.
  apply (hist_post_of_all_calls P (fun h => failed_rev_write h = false)); try assumption.
  - intros h0 cl a _ Hcl. apply not_rev_write_not_failed. apply HP. exact Hcl.
  - intros h0 cl Hh0 _. exact Hh0.
Qed.

Lemma run_until_error_abort ps : (forall p, In p ps -> rev_step p) -> forall h,
  failed_rev_write h = false ->
  hist_post C09_abort_phi (fun h' ok => failed_rev_write h' = true -> ok = false) h (run_until_error ps).
Proof.
  induction ps as [|p ps IH]; intros Hps h Hh; cbn [run_until_error].
  - apply HP_ret. intros H. congruence.
  - assert (IH' : forall h, failed_rev_write h = false ->
                  hist_post C09_abort_phi (fun h' ok => failed_rev_write h' = true -> ok = false) h
                            (run_until_error ps)).
    { apply IH. intros p' Hin. apply Hps. now right. }
    destruct (Hps p (or_introl eq_refl)) as [->|(q & -> & _ & _)].
    + cbn [bind]. apply HP_ret. reflexivity.
    + unfold api. cbn [bind]. apply HP_do; [exact Hh|].
      intros a. destruct a as [o|e|b| |z]; cbn [bind]; try (apply HP_ret; reflexivity).
      apply IH'. apply obj_not_failed.
Qed.

Lemma prelude_not_hook c cl : prelude_call c cl -> is_hook_call cl = false.
Proof. intros (q & -> & _). reflexivity. Qed.

Lemma revphase_api_not_hook c cl : revphase_api_call c cl -> is_hook_call cl = false.
Proof. intros (q & -> & _). reflexivity. Qed.

Lemma hook_call_not_rev_write cl : (exists hk b, cl = CHook hk b /\ hk <> HCustomize) -> is_rev_write cl = false.
Proof. intros (hk & b & -> & _). reflexivity. Qed.

Definition hook_abort_post (h : hist) (hr : hook_result) : Prop := failed_rev_write h = true -> hr = HRErr.

Lemma call_hook_abort c parent observed related h :
  failed_rev_write h = false ->
  hist_post C09_abort_phi (fun h' _ => failed_rev_write h' = false) h (call_hook c parent observed related).
Proof.
  intros Hh. apply (phase_norev (fun cl => exists hk b, cl = CHook hk b /\ hk <> HCustomize)); [| |exact Hh].
  - unfold call_hook. cbv zeta.
    destruct (negb (has_finalize c && (is_deleting parent || negb (sel_matches (p_selector c) (get_labels parent))))
              && negb (has_sync c)); [apply AC_ret|].
    apply AC_do.
    + eexists. eexists. split; [reflexivity|].
      destruct (has_finalize c && (is_deleting parent || negb (sel_matches (p_selector c) (get_labels parent))));
        discriminate.
    + intros a. destruct a as [o|e|body| |z]; try apply AC_ret.
      destruct (decode_composite body); apply AC_ret.
  - apply hook_call_not_rev_write.
Qed.

Lemma call_hooks_abort c observed related prs h :
  failed_rev_write h = false ->
  hist_post C09_abort_phi (fun h' _ => failed_rev_write h' = false) h (call_hooks c observed related prs).
Proof.
  unfold call_hooks. revert h. induction prs as [|p prs IH]; intros h Hh; cbn [mapM].
  - apply HP_ret. exact Hh.
  - apply hist_post_bind with (Q := fun h' _ => failed_rev_write h' = false).
    + eapply hist_post_bind; [apply call_hook_abort; exact Hh|].
      intros h1 r Hh1. apply HP_ret. exact Hh1.
    + intros h1 b Hh1. eapply hist_post_bind; [apply IH; exact Hh1|].
      intros h2 rs Hh2. apply HP_ret. exact Hh2.
Qed.

Lemma sync_revisions_rolling_abort c k parent observed related h :
  has_hook h = false ->
  hist_post C09_abort_phi hook_abort_post h (sync_revisions_rolling c k parent observed related).
Proof.
  intros Hh. unfold sync_revisions_rolling.
  assert (Hvac : forall h' (hr : hook_result), failed_rev_write h' = false ->
                   hist_post C09_abort_phi hook_abort_post h' (Ret hr)).
  { intros h' hr H'. apply HP_ret. intros H''. congruence. }
  eapply hist_post_bind.
  { apply (phase_nohook (revphase_api_call c)); [apply claim_revisions_calls|apply revphase_api_not_hook|exact Hh]. }
  intros h1 oc Hh1. cbv beta in Hh1. apply no_hook_not_failed in Hh1.
  destruct oc as [claimed|]; [|apply Hvac; exact Hh1]. cbv zeta.
  destruct (make_patch (obj_map parent) (field_paths c) []) as [latest_patch|]; [|apply Hvac; exact Hh1].
  match goal with |- hist_post _ _ _ (match ?X with _ => _ end) => destruct X as [[latest_rev olds]|] end;
    [|apply Hvac; exact Hh1].
  match goal with |- hist_post _ _ _ (match ?X with _ => _ end) => destruct X as [lrev|] end;
    [|apply Hvac; exact Hh1].
  eapply hist_post_bind; [apply call_hooks_abort; exact Hh1|].
  intros h2 answers Hh2. cbv beta in Hh2.
  destruct (first_hook_failure answers) as [r|]; [destruct r; apply Hvac; exact Hh2|].
  match goal with |- hist_post _ _ _ (match ?X with _ => _ end) => destruct X as [[prs2 st]|] end;
    [|apply Hvac; exact Hh2].
  eapply hist_post_bind.
  { rewrite manage_revisions_eq. apply run_until_error_abort; [intros p; apply rev_steps|exact Hh2]. }
  intros h3 ok Hok. cbv beta in Hok.
  destruct ok; cbn [negb].
  - assert (Hh3 : failed_rev_write h3 = false).
    { destruct (failed_rev_write h3); [|reflexivity]. specialize (Hok eq_refl). discriminate. }
    destruct (prune prs2); apply Hvac; exact Hh3.
  - apply HP_ret. intros _. reflexivity.
Qed.

Lemma hook_phase_rolling_abort c k parent observed related h :
  has_hook h = false ->
  hist_post C09_abort_phi hook_abort_post h (hook_phase_rolling c k parent observed related).
Proof.
  intros Hh. unfold hook_phase_rolling.
  destruct (negb (any_rolling c) || (is_deleting parent && negb (should_finalize c parent))).
  - eapply hist_post_weaken; [| |apply call_hook_abort; apply no_hook_not_failed; exact Hh].
    + intros h0 cl H. exact H.
    + intros h0 r H H'. cbv beta in H. congruence.
  - apply sync_revisions_rolling_abort. exact Hh.
Qed.

Theorem C09_failed_revision_no_children_gen c k parent h :
  rev_res_separate c = true ->
  has_hook h = false ->
  hist_post C09_abort_phi C09_abort_post h (sync_parent_object_r c k parent).
Proof.
  intros Hsep Hh. unfold sync_parent_object_r.
  assert (Hvac : forall h' (r : sync_result), failed_rev_write h' = false ->
                   hist_post C09_abort_phi C09_abort_post h' (Ret r)).
  { intros h' r H'. apply HP_ret. intros H''. congruence. }
  destruct (ignores_parent c parent); [apply Hvac, no_hook_not_failed, Hh|].
  eapply hist_post_bind.
  { apply (phase_nohook (prelude_call c)); [apply sync_finalizer_calls|apply prelude_not_hook|exact Hh]. }
  intros h1 fr Hh1. cbv beta in Hh1. destruct fr as [parent1|e]; [|apply Hvac, no_hook_not_failed, Hh1].
  destruct (ignores_parent c parent1); [apply Hvac, no_hook_not_failed, Hh1|].
  eapply hist_post_bind.
  { apply (phase_nohook (prelude_call c)); [apply claim_children_calls|apply prelude_not_hook|exact Hh1]. }
  intros h2 oc Hh2. cbv beta in Hh2. destruct oc as [observed|]; [|apply Hvac, no_hook_not_failed, Hh2].
  unfold related_phase. cbn [bind].
  eapply hist_post_bind; [apply hook_phase_rolling_abort; exact Hh2|].
  intros h3 hr Hhr. unfold hook_abort_post in Hhr.
  destruct hr as [| |n|r].
  - apply HP_ret. intros _. reflexivity.
  - apply HP_ret. intros _. reflexivity.
  - apply HP_ret. intros H. specialize (Hhr H). discriminate.
  - assert (Hh3 : failed_rev_write h3 = false).
    { destruct (failed_rev_write h3); [|reflexivity]. specialize (Hhr eq_refl). discriminate. }
    eapply hist_post_weaken;
      [| |apply (phase_norev (finish_call c)); [apply finish_sync_calls| |exact Hh3]].
    + intros h0 cl H. exact H.
    + intros h0 r0 H H'. cbv beta in H. congruence.
    + intros cl. apply finish_not_rev_write. exact Hsep.
Qed.

Theorem C09_failed_revision_no_children c k parent :
  rev_res_separate c = true ->
  forall G, safe G C09_abort_phi [] (sync_parent_object_r c k parent).
Proof.
  intros Hsep G. eapply hist_post_safe. apply C09_failed_revision_no_children_gen; [exact Hsep|reflexivity].
Qed.

(* on runs: a revision write issued after the hooks and not answered by an object is the
   last call of the sync, and the sync reports an error *)
Corollary C09_failed_revision_no_children_run c k parent (e : env) :
  rev_res_separate c = true ->
  forall post cl a pre,
    fst (run (sync_parent_object_r c k parent) e []) = post ++ (cl, a) :: pre ->
    is_rev_write cl = true -> is_obj a = false -> has_hook pre = true ->
    post = [] /\ snd (run (sync_parent_object_r c k parent) e []) = SErr.
Proof.
  intros Hsep post cl a pre Heq Hrw Ha Hhook.
  pose proof (C09_failed_revision_no_children_gen c k parent [] Hsep eq_refl) as Hp.
  apply hist_post_run with (e := e) in Hp. destruct Hp as [Hpost (new & Hnew & Hall)].
  rewrite app_nil_r in Hnew. rewrite Hnew in Heq, Hpost.
  assert (Hf : failed_rev_write ((cl, a) :: pre) = true).
  { cbn [failed_rev_write]. rewrite Hrw, Ha, Hhook. reflexivity. }
  assert (Hpost_nil : post = []).
  { destruct (exists_last_or_nil post) as [->|(post' & [c1 a1] & ->)]; [reflexivity|].
    rewrite <- app_assoc in Heq. cbn [app] in Heq.
    specialize (Hall post' c1 a1 ((cl, a) :: pre) Heq). rewrite app_nil_r in Hall.
    unfold C09_abort_phi in Hall. congruence. }
  split; [exact Hpost_nil|]. subst post. cbn [app] in Heq. rewrite Heq in Hpost.
  apply Hpost. exact Hf.
Qed.

Print Assumptions C09_revisions_before_children.
Print Assumptions C09_revisions_before_children_run.
Print Assumptions C09_prelude_no_content_write.
Print Assumptions C09_prelude_updates_are_ownership_edits.
Print Assumptions C09_hook_phase_no_child_resource.
Print Assumptions C09_finish_sync_no_revision_call.
Print Assumptions C09_manage_revisions_stops.
Print Assumptions C09_failed_revision_aborts_manage.
Print Assumptions C09_failed_revision_no_children.
Print Assumptions C09_failed_revision_no_children_run.
