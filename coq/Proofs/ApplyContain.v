(* ApplyContain.v — containment, removal and preservation for merge under H,
   list maps included (the parametric cores are in ApplyCore.v, the list-map
   machinery in ApplyListMap*.v; the list-map-free instances
   containment_nolistmap / removal_nolistmap / preservation_nolistmap are in
   ApplyCore.v). *)
From MC Require Import Generated Model.Json Model.Apply Model.ApplyLaws.
From MC Require Import Proofs.AssocLemmas Proofs.AssocLemmas2 Proofs.ApplyProofs Proofs.ApplyBase.
From MC Require Import Proofs.ApplyCore Proofs.ApplyListMap Proofs.ApplyListMapCtx Proofs.ApplyListMapLaws.
Local Open Scope list_scope.

Definition Xtrue (d o l : json) : bool := true.

Lemma Xtrue_obj dm o l k dv :
  Xtrue (JObj dm) o l = true -> In (k, dv) dm ->
  Xtrue dv (jget k (obj_or_nil o)) (jget k (obj_or_nil l)) = true.
Proof. reflexivity. Qed.

(* ===== 2. containment ===== *)
Theorem containment : forall d o l r,
  Hb d o l = true -> wf_json d = true -> merge d o l = Ok r -> containsb d r = true.
Proof.
  intros d o l r Hh Hw Hm. unfold Hb in Hh. apply andb_split in Hh as [Hs Hh].
  eapply (containment_core Xtrue Xtrue_obj); eauto.
  intros sl ol l0 key r0 IH Hs0 Hh0 Hw0 _ E Hm0.
  eapply containment_lm; eauto.
  eapply Forall_impl; [|exact IH]. intros s Hst o1 l1 r1 A B C D. eapply Hst; eauto.
Qed.

(* containment for the items of a list map, as the list-map section wants it *)
Lemma items_contain key ol ll sl :
  self_wf (JArr sl) = true -> wf_json (JArr sl) = true -> Hb'_items key ol ll sl = true ->
  forall s k r, In s sl -> item_key key s = Some k ->
    merge s (find_item_or_null key k ol) (find_item_or_null key k ll) = Ok r ->
    containsb s r = true.
Proof.
  intros Hs Hw Hit s k r Hin Hk Hr.
  eapply containment; eauto; [|eapply wf_arr_In; eauto].
  unfold Hb. rewrite (Hb'_items_In _ _ _ _ _ _ Hit Hin Hk), Bool.andb_true_r.
  rewrite self_wf_arr in Hs. apply andb_split in Hs as [_ Hs]. apply (forallb_In _ _ _ Hs Hin).
Qed.

Lemma items_rp_hyps key ol l sl s k :
  rp_hyps Xtrue (JArr sl) (JArr ol) l -> Hb'_items key ol (arr_or_nil l) sl = true ->
  In s sl -> item_key key s = Some k ->
  rp_hyps Xtrue s (find_item_or_null key k ol) (find_item_or_null key k (arr_or_nil l)).
Proof.
  intros (Hs & _ & Hw & Hwo & Hwl & _) Hit Hin Hk. repeat split.
  - rewrite self_wf_arr in Hs. apply andb_split in Hs as [_ Hs]. apply (forallb_In _ _ _ Hs Hin).
  - eapply Hb'_items_In; eauto.
  - apply (wf_arr_In sl s Hw Hin).
  - now apply wf_find_item_or_null.
  - apply wf_find_item_or_null. now apply wf_arr_or_nil.
Qed.

(* ===== 3. removal ===== *)
Lemma removal_lm sl ol l key r :
  Forall (removal_stmt Xtrue) sl -> rp_hyps Xtrue (JArr sl) (JArr ol) l ->
  detect_key ol (arr_or_nil l) sl = Some key ->
  merge (JArr sl) (JArr ol) l = Ok r -> removedb (JArr sl) (JArr ol) l r = true.
Proof.
  intros IH HH E Hm. pose proof HH as (Hs & Hh & Hw & Hwo & Hwl & _).
  destruct (lm_setup _ _ _ _ _ E Hh Hm) as (dmap & lmap & merged & F & H1 & H2 & H3 & ->).
  destruct (Hb'_arr_inv _ _ _ _ E Hh) as (_ & _ & _ & _ & _ & _ & Hit).
  rewrite removedb_arr_arr, E.
  eapply lm_removal_res; eauto.
  - eapply items_contain; eauto.
  - intros s k r Hin Hk Hr. rewrite Forall_forall in IH. apply (IH s Hin); auto.
    eapply items_rp_hyps; eauto.
Qed.

Theorem removal : forall d o l r,
  Hb d o l = true -> wf_json d = true -> wf_json o = true -> wf_json l = true ->
  merge d o l = Ok r -> removedb d o l r = true.
Proof.
  intros d o l r Hh Hw Hwo Hwl Hm. unfold Hb in Hh. apply andb_split in Hh as [Hs Hh].
  eapply (removal_core Xtrue Xtrue_obj); eauto.
  - intros sl ol l0 key r0 IH HH E Hm0. eapply removal_lm; eauto.
  - repeat split; auto.
Qed.

(* ===== 4. preservation ===== *)
Lemma preserv_lm sl ol l key r :
  Forall (preserv_stmt Xtrue) sl -> rp_hyps Xtrue (JArr sl) (JArr ol) l ->
  detect_key ol (arr_or_nil l) sl = Some key ->
  merge (JArr sl) (JArr ol) l = Ok r -> preservedb (JArr sl) (JArr ol) l r = true.
Proof.
  intros IH HH E Hm. pose proof HH as (Hs & Hh & Hw & Hwo & Hwl & _).
  destruct (lm_setup _ _ _ _ _ E Hh Hm) as (dmap & lmap & merged & F & H1 & H2 & H3 & ->).
  destruct (Hb'_arr_inv _ _ _ _ E Hh) as (_ & _ & _ & _ & _ & _ & Hit).
  rewrite preservedb_arr_arr. cbv zeta. rewrite E.
  eapply lm_preserv_res; eauto.
  - eapply items_contain; eauto.
  - intros s k r Hin Hk Hr. rewrite Forall_forall in IH. apply (IH s Hin); auto.
    eapply items_rp_hyps; eauto.
Qed.

Theorem preservation : forall d o l r,
  Hb d o l = true -> wf_json d = true -> wf_json o = true -> wf_json l = true ->
  merge d o l = Ok r -> preservedb d o l r = true.
Proof.
  intros d o l r Hh Hw Hwo Hwl Hm. unfold Hb in Hh. apply andb_split in Hh as [Hs Hh].
  eapply (preserv_core Xtrue Xtrue_obj); eauto.
  - intros sl ol l0 key r0 IH HH E Hm0. eapply preserv_lm; eauto.
  - repeat split; auto.
Qed.

Print Assumptions containment.
Print Assumptions removal.
Print Assumptions preservation.
