(* C15Proofs.v — C15: the related objects handed to sync / finalize are
   exactly what the customize rules select; invalid rules are errors; every
   object on the wire is matched by matchesRelatedRule; the customize hook is
   asked once per (UID, generation) while cached. *)
From MC Require Import Generated.
From MC Require Import Model.CustomizePreds Model.Safe.
From MC Require Import Proofs.AssocLemmas Proofs.ObjLemmas Proofs.SafeLemmas Proofs.C06Proofs
                       Proofs.C03Proofs Proofs.C11Proofs Proofs.RollCalls.
From Coq Require Import Lia.
Local Open Scope string_scope.
Local Open Scope list_scope.

(* ================================================================== *)
(* 1. what one rule takes from the informer cache                      *)
(* ================================================================== *)

(* the declarative reading of a rule *)
Definition rule_selects (pn : bool) (parent : json) (objs : list json) (r : rule) (o : json) : Prop :=
  In o objs /\ spec_selects pn parent r o = true.

Lemma list_ns_In ns objs o :
  In o (list_ns ns objs) <-> In o objs /\ (ns = "" \/ get_ns o = ns).
Proof.
  unfold list_ns. destruct (String.eqb ns "") eqn:E.
  - apply String.eqb_eq in E. split; [intros H; split; [exact H | left; exact E] | intros [H _]; exact H].
  - apply String.eqb_neq in E. rewrite filter_In. split.
    + intros [H1 H2]. apply String.eqb_eq in H2. split; [exact H1 | right; exact H2].
    + intros [H1 [H2 | H2]]; [contradiction|]. split; [exact H1 | apply String.eqb_eq; exact H2].
Qed.

Lemma names_filter_In (names : list string) (all : list json) o :
  In o (match names with [] => all | _ => filter (fun o => mem_str (get_name o) names) all end) <->
  In o all /\ match names with [] => true | _ => mem_str (get_name o) names end = true.
Proof.
  destruct names as [|n names].
  - split; [intros H; split; [exact H | reflexivity] | intros [H _]; exact H].
  - rewrite filter_In. reflexivity.
Qed.

(* a namespaced parent has a namespace *)
Definition parent_has_ns (c : ccfg) (parent : json) : Prop :=
  p_namespaced c = true -> get_ns parent <> "".

Theorem rule_objects_spec c parent r objs sel :
  parent_has_ns c parent ->
  rule_objects c parent r objs = Some sel ->
  forall o, In o sel <-> rule_selects (p_namespaced c) parent objs r o.
Proof.
  intros Hns H o. unfold rule_objects in H. unfold rule_selects, spec_selects.
  destruct (selection_type r) eqn:Et.
  - destruct (to_selector (r_selector r)) as [s|] eqn:Es; [|discriminate].
    injection H as H. subst sel. rewrite filter_In.
    destruct (p_namespaced c) eqn:Ep.
    + rewrite list_ns_In. cbn [negb orb]. rewrite Bool.andb_true_iff, String.eqb_eq. split.
      * intros [[H1 [H2 | H2]] H3]; [exfalso; apply (Hns Ep); exact H2|]. auto.
      * intros [H1 [H2 H3]]. auto.
    + cbn [negb orb]. rewrite Bool.andb_true_r. tauto.
  - destruct (p_namespaced c && negb (String.eqb (r_namespace r) "") &&
              negb (String.eqb (get_ns parent) (r_namespace r))); [discriminate|].
    injection H as H. subst sel. cbv zeta.
    destruct (r_names r) as [|n0 names].
    + rewrite list_ns_In, Bool.andb_true_iff, Bool.orb_true_iff, !String.eqb_eq. intuition auto.
    + rewrite filter_In, list_ns_In. cbn [mem_str]. set (b := (get_name o =? n0) || mem_str (get_name o) names).
      rewrite Bool.andb_true_iff, Bool.orb_true_iff, !String.eqb_eq. tauto.
  - discriminate.
Qed.

(* when a rule is refused *)
Theorem rule_objects_none c parent r objs :
  rule_objects c parent r objs = None <->
  (rule_bad (p_namespaced c) parent r = true \/
   (selection_type r = SelLabels /\ to_selector (r_selector r) = None)).
Proof.
  unfold rule_objects, rule_bad. destruct (selection_type r).
  - destruct (to_selector (r_selector r)); split.
    + discriminate.
    + intros [H | [_ H]]; discriminate.
    + intros _. right. auto.
    + reflexivity.
  - destruct (p_namespaced c && negb (String.eqb (r_namespace r) "") &&
              negb (String.eqb (get_ns parent) (r_namespace r))); split; auto.
    + discriminate.
    + intros [H | [H _]]; discriminate.
  - split; auto.
Qed.

(* ================================================================== *)
(* 2. the map built over all rules                                     *)
(* ================================================================== *)

Definition cachedP (c : ccfg) (k : cache) (o : json) : Prop :=
  exists kc, In kc (known c) /\ In o (cached k (ch_res kc)).

(* the informer caches hold one object per (apiVersion, kind, namespace/name) *)
Definition cache_distinct (c : ccfg) (k : cache) : Prop :=
  forall o1 o2, cachedP c k o1 -> cachedP c k o2 ->
    get_api_version o1 = get_api_version o2 -> get_kind o1 = get_kind o2 ->
    qualified_name o1 = qualified_name o2 -> o1 = o2.

Lemma lookup_res_in c av rs kc :
  lookup_res c av rs = Some kc -> In kc (known c) /\ ch_api_version kc = av /\ ch_resource kc = rs.
Proof.
  unfold lookup_res. intros E. apply find_some in E as [Hin Hp].
  apply Bool.andb_true_iff in Hp as [E1 E2]. apply String.eqb_eq in E1, E2. auto.
Qed.

(* membership in a uniform map, with the keys spelled out *)
Definition uin (av kd n : string) (o : json) (m : umap) : Prop :=
  exists os, In (av, kd, os) m /\ In (n, o) os.

Lemma uin_uobjects av kd n o m : uin av kd n o m -> In o (uobjects m).
Proof.
  intros [os [Hg Ho]]. unfold uobjects. apply in_flat_map. exists (av, kd, os). split; [exact Hg|].
  apply in_map_iff. exists (n, o). split; [reflexivity | exact Ho].
Qed.

Lemma uobjects_uin o m : In o (uobjects m) -> exists av kd n, uin av kd n o m.
Proof.
  unfold uobjects. intros H. apply in_flat_map in H. destruct H as [[[av kd] os] [Hg Ho]].
  apply in_map_iff in Ho. destruct Ho as [[n o'] [Heq Hin]]. cbn [snd] in Heq. subst o'.
  exists av, kd, n, os. split; assumption.
Qed.

Lemma oset_stays n o os n' o' :
  In (n, o) os -> (n = n' -> o = o') -> In (n, o) (oset n' o' os).
Proof.
  induction os as [|[k v] os IH]; cbn [oset]; intros Hin Hsame; [destruct Hin|].
  destruct (String.eqb n' k) eqn:E.
  - apply String.eqb_eq in E. subst k. destruct Hin as [Hin | Hin].
    + injection Hin as Hn Hv. subst n v. left. rewrite (Hsame eq_refl). reflexivity.
    + right. exact Hin.
  - destruct Hin as [Hin | Hin]; [left; exact Hin | right; apply IH; assumption].
Qed.

Lemma oset_has n o os : In (n, o) (oset n o os).
Proof.
  induction os as [|[k v] os IH]; cbn [oset]; [left; reflexivity|].
  destruct (String.eqb n k); [left; reflexivity | right; exact IH].
Qed.

Lemma uinsert_at_stays av kd n' o' m av0 kd0 n o :
  uin av0 kd0 n o m -> (av0 = av -> kd0 = kd -> n = n' -> o = o') ->
  uin av0 kd0 n o (uinsert_at av kd n' o' m).
Proof.
  intros [os [Hg Ho]] Hsame. induction m as [|[[av2 kd2] os2] m IH]; [destruct Hg|].
  cbn [uinsert_at]. destruct (String.eqb av av2 && String.eqb kd kd2) eqn:E.
  - apply Bool.andb_true_iff in E as [E1 E2]. apply String.eqb_eq in E1, E2. subst av2 kd2.
    destruct Hg as [Hg | Hg].
    + injection Hg as H1 H2 H3. subst av0 kd0 os2.
      exists (oset n' o' os). split; [left; reflexivity|]. apply oset_stays; [exact Ho|]. apply Hsame; reflexivity.
    + exists os. split; [right; exact Hg | exact Ho].
  - destruct Hg as [Hg | Hg].
    + exists os. split; [left; exact Hg | exact Ho].
    + destruct (IH Hg) as [os' [Hg' Ho']]. exists os'. split; [right; exact Hg' | exact Ho'].
Qed.

Lemma uinsert_at_has av kd n o m : uin av kd n o (uinsert_at av kd n o m).
Proof.
  induction m as [|[[av2 kd2] os2] m IH]; cbn [uinsert_at].
  - exists [(n, o)]. split; left; reflexivity.
  - destruct (String.eqb av av2 && String.eqb kd kd2) eqn:E.
    + apply Bool.andb_true_iff in E as [E1 E2]. apply String.eqb_eq in E1, E2. subst av2 kd2.
      exists (oset n o os2). split; [left; reflexivity | apply oset_has].
    + destruct IH as [os' [Hg' Ho']]. exists os'. split; [right; exact Hg' | exact Ho'].
Qed.

Lemma uinit_stays av kd m av0 kd0 n o : uin av0 kd0 n o m -> uin av0 kd0 n o (uinit av kd m).
Proof.
  intros [os [Hg Ho]]. exists os. split; [|exact Ho]. clear Ho.
  induction m as [|[[av2 kd2] os2] m IH]; [destruct Hg|].
  cbn [uinit]. destruct (String.eqb av av2 && String.eqb kd kd2); [exact Hg|].
  destruct Hg as [Hg | Hg]; [left; exact Hg | right; apply IH; exact Hg].
Qed.

Lemma uinit_uin av kd m av0 kd0 n o : uin av0 kd0 n o (uinit av kd m) -> uin av0 kd0 n o m.
Proof.
  intros [os [Hg Ho]]. destruct (uinit_in _ _ _ _ Hg) as [H | H].
  - exists os. split; assumption.
  - injection H as _ _ H. subst os. destruct Ho.
Qed.

Lemma uinsert_at_uin av kd n' o' m av0 kd0 n o :
  uin av0 kd0 n o (uinsert_at av kd n' o' m) ->
  uin av0 kd0 n o m \/ (av0 = av /\ kd0 = kd /\ n = n' /\ o = o').
Proof.
  intros [os [Hg Ho]]. destruct (uinsert_at_in _ _ _ _ _ _ _ _ _ _ Hg Ho) as [[os0 [H1 H2]] | H].
  - left. exists os0. split; assumption.
  - right. exact H.
Qed.

(* every entry sits under its own apiVersion / kind / qualified name and comes from a cache *)
Definition keyed (c : ccfg) (k : cache) (m : umap) : Prop :=
  forall av kd n o, uin av kd n o m ->
    n = qualified_name o /\ av = get_api_version o /\ kd = get_kind o /\ cachedP c k o.

Lemma keyed_nil c k : keyed c k [].
Proof. intros av kd n o [os [[] _]]. Qed.

Lemma keyed_uinit c k av kd m : keyed c k m -> keyed c k (uinit av kd m).
Proof. intros H av0 kd0 n o Hin. apply H. apply uinit_uin in Hin. exact Hin. Qed.

Lemma keyed_uinsert c k o' m : keyed c k m -> cachedP c k o' -> keyed c k (uinsert o' m).
Proof.
  intros H Hc av0 kd0 n o Hin. unfold uinsert in Hin.
  destruct (uinsert_at_uin _ _ _ _ _ _ _ _ _ Hin) as [H1 | [-> [-> [-> ->]]]]; [apply H; exact H1|].
  repeat split; auto.
Qed.

(* inserting cached objects: old entries stay, new ones arrive *)
Lemma fold_uinsert_keeps_all c k (sel : list json) :
  cache_distinct c k -> (forall o, In o sel -> cachedP c k o) ->
  forall m, keyed c k m ->
    let m' := fold_left (fun m o => uinsert o m) sel m in
    keyed c k m' /\
    (forall av kd n o, uin av kd n o m -> uin av kd n o m') /\
    (forall o, In o sel -> uin (get_api_version o) (get_kind o) (qualified_name o) o m').
Proof.
  intros Hd. induction sel as [|o' sel IH]; intros Hsel m Hk; cbn [fold_left]; cbv zeta.
  - split; [exact Hk|]. split; [auto | intros o []].
  - assert (Hc' : cachedP c k o') by (apply Hsel; left; reflexivity).
    assert (Hk' : keyed c k (uinsert o' m)) by (apply keyed_uinsert; assumption).
    destruct (IH (fun o Hin => Hsel o (or_intror Hin)) (uinsert o' m) Hk') as [I1 [I2 I3]].
    split; [exact I1|]. split.
    + intros av kd n o Hin. apply I2. unfold uinsert. apply uinsert_at_stays; [exact Hin|].
      intros Ha Hkd Hn. destruct (Hk _ _ _ _ Hin) as [Hn' [Ha' [Hkd' Hco]]].
      apply Hd; try assumption; congruence.
    + intros o [Ho | Ho].
      * subst o'. apply I2. unfold uinsert. apply uinsert_at_has.
      * apply I3. exact Ho.
Qed.

(* the objects some rule of the list selects *)
Definition selected_by (c : ccfg) (k : cache) (parent : json) (rules : list (option rule)) (o : json) : Prop :=
  exists r kc, In (Some r) rules /\ lookup_res c (r_api_version r) (r_resource r) = Some kc /\
               rule_selects (p_namespaced c) parent (cached k (ch_res kc)) r o.

Lemma related_step_inv c k parent m r m' :
  parent_has_ns c parent ->
  related_step c k parent m r = Some m' ->
  exists kc sel, lookup_res c (r_api_version r) (r_resource r) = Some kc /\
                 rule_objects c parent r (cached k (ch_res kc)) = Some sel /\
                 m' = insert_all kc sel m /\
                 (forall o, In o sel <-> rule_selects (p_namespaced c) parent (cached k (ch_res kc)) r o).
Proof.
  intros Hns H. unfold related_step in H.
  destruct (lookup_res c (r_api_version r) (r_resource r)) as [kc|] eqn:El; [|discriminate].
  destruct (rule_objects c parent r (cached k (ch_res kc))) as [sel|] eqn:Eo; [|discriminate].
  injection H as H. exists kc, sel. split; [reflexivity|]. split; [exact Eo|]. split; [symmetry; exact H|].
  apply (rule_objects_spec c parent r _ sel Hns Eo).
Qed.

(* soundness: nothing but selected objects *)
Lemma related_fold_sound c k parent :
  parent_has_ns c parent ->
  forall rules m0 m, related_fold c k parent rules m0 = Ok m ->
  forall o, In o (uobjects m) -> In o (uobjects m0) \/ selected_by c k parent rules o.
Proof.
  intros Hns. induction rules as [|[r|] rules IH]; intros m0 m H o Hin; cbn [related_fold] in H.
  - injection H as H. subst m. left. exact Hin.
  - destruct (related_step c k parent m0 r) as [m1|] eqn:Es; [|discriminate].
    destruct (related_step_inv _ _ _ _ _ _ Hns Es) as [kc [sel [El [Eo [Hm1 Hsel]]]]].
    destruct (IH _ _ H o Hin) as [H1 | [r' [kc' [Hr' [El' Hs']]]]].
    + subst m1. unfold insert_all in H1. apply fold_uinsert_objects in H1. destruct H1 as [H1 | H1].
      * right. exists r, kc. split; [left; reflexivity|]. split; [exact El|]. apply Hsel. exact H1.
      * left. apply uinit_objects in H1. exact H1.
    + right. exists r', kc'. split; [right; exact Hr'|]. split; assumption.
  - discriminate.
Qed.

(* completeness: every selected object, under its own keys; what was there stays *)
Lemma related_fold_complete c k parent :
  parent_has_ns c parent -> cache_distinct c k ->
  forall rules m0 m, related_fold c k parent rules m0 = Ok m -> keyed c k m0 ->
  keyed c k m /\
  (forall av kd n o, uin av kd n o m0 -> uin av kd n o m) /\
  (forall o, selected_by c k parent rules o ->
             uin (get_api_version o) (get_kind o) (qualified_name o) o m).
Proof.
  intros Hns Hd. induction rules as [|[r|] rules IH]; intros m0 m H Hk; cbn [related_fold] in H.
  - injection H as H. subst m. split; [exact Hk|]. split; [auto|].
    intros o [r [kc [[] _]]].
  - destruct (related_step c k parent m0 r) as [m1|] eqn:Es; [|discriminate].
    destruct (related_step_inv _ _ _ _ _ _ Hns Es) as [kc [sel [El [Eo [Hm1 Hsel]]]]].
    assert (Hcached : forall o, In o sel -> cachedP c k o).
    { intros o Ho. apply Hsel in Ho. destruct Ho as [Ho _]. exists kc. split; [|exact Ho].
      apply (lookup_res_in _ _ _ _ El). }
    destruct (fold_uinsert_keeps_all c k sel Hd Hcached (uinit (ch_api_version kc) (ch_kind kc) m0)
                (keyed_uinit _ _ _ _ _ Hk)) as [K1 [K2 K3]].
    fold (insert_all kc sel m0) in K1, K2, K3. rewrite <- Hm1 in K1, K2, K3.
    destruct (IH _ _ H K1) as [I1 [I2 I3]].
    split; [exact I1|]. split.
    + intros av kd n o Hin. apply I2, K2, uinit_stays. exact Hin.
    + intros o [r' [kc' [[Hr' | Hr'] [El' Hs']]]].
      * injection Hr' as Hr'. subst r'. rewrite El in El'. injection El' as El'. subst kc'.
        apply I2, K3. apply Hsel. exact Hs'.
      * apply I3. exists r', kc'. split; [exact Hr'|]. split; assumption.
  - discriminate.
Qed.

(* one group per rule resource, even an empty one *)
Lemma insert_all_has_group kc sel m : In (ch_api_version kc, ch_kind kc) (ukeys (insert_all kc sel m)).
Proof. unfold insert_all. apply fold_uinsert_keeps. apply uinit_has. Qed.

Lemma insert_all_keeps_group kc sel m x : In x (ukeys m) -> In x (ukeys (insert_all kc sel m)).
Proof. intros H. unfold insert_all. apply fold_uinsert_keeps. apply uinit_keeps. exact H. Qed.

Lemma related_fold_groups c k parent :
  parent_has_ns c parent ->
  forall rules m0 m, related_fold c k parent rules m0 = Ok m ->
  (forall x, In x (ukeys m0) -> In x (ukeys m)) /\
  (forall r kc, In (Some r) rules -> lookup_res c (r_api_version r) (r_resource r) = Some kc ->
                In (ch_api_version kc, ch_kind kc) (ukeys m)).
Proof.
  intros Hns. induction rules as [|[r|] rules IH]; intros m0 m H; cbn [related_fold] in H.
  - injection H as H. subst m. split; [auto | intros r kc []].
  - destruct (related_step c k parent m0 r) as [m1|] eqn:Es; [|discriminate].
    destruct (related_step_inv _ _ _ _ _ _ Hns Es) as [kc [sel [El [Eo [Hm1 Hsel]]]]].
    destruct (IH _ _ H) as [I1 I2]. split.
    + intros x Hx. apply I1. subst m1. apply insert_all_keeps_group. exact Hx.
    + intros r' kc' [Hr' | Hr'] El'.
      * injection Hr' as Hr'. subst r'. rewrite El in El'. injection El' as El'. subst kc'.
        apply I1. subst m1. apply insert_all_has_group.
      * apply (I2 r' kc' Hr' El').
  - discriminate.
Qed.

Lemma related_fold_nodup_keys c k parent :
  forall rules m0 m, related_fold c k parent rules m0 = Ok m -> NoDup (ukeys m0) -> NoDup (ukeys m).
Proof.
  induction rules as [|[r|] rules IH]; intros m0 m H Hnd; cbn [related_fold] in H.
  - injection H as H. subst m. exact Hnd.
  - destruct (related_step c k parent m0 r) as [m1|] eqn:Es; [|discriminate].
    apply (IH _ _ H). unfold related_step in Es.
    destruct (lookup_res c (r_api_version r) (r_resource r)) as [kc|]; [|discriminate].
    destruct (rule_objects c parent r (cached k (ch_res kc))) as [sel|]; [|discriminate].
    injection Es as Es. subst m1. unfold insert_all. apply fold_uinsert_NoDup. apply uinit_NoDup. exact Hnd.
  - discriminate.
Qed.

(* ---- C15_selection ---- *)
Lemma wire_objects_In pns m o :
  In o (wire_objects pns m) <-> In o (uobjects m) /\ (pns = "" \/ get_ns o = pns).
Proof.
  unfold wire_objects, wire_visible. rewrite filter_In, Bool.orb_true_iff, !String.eqb_eq.
  split; intros [H1 [H2 | H2]]; auto.
Qed.

Theorem C15_selection_lemma c k parent rules m :
  parent_has_ns c parent -> cache_distinct c k ->
  get_related_objects c k parent rules = Ok m ->
  (* exactly the selected objects *)
  (forall o, In o (uobjects m) <-> selected_by c k parent rules o) /\
  (* each under its own apiVersion / kind / namespace-qualified name *)
  (forall o, selected_by c k parent rules o ->
             uin (get_api_version o) (get_kind o) (qualified_name o) o m) /\
  (* one group per rule resource, possibly empty; no group twice *)
  (forall r kc, In (Some r) rules -> lookup_res c (r_api_version r) (r_resource r) = Some kc ->
                In (ch_api_version kc, ch_kind kc) (ukeys m)) /\
  NoDup (ukeys m) /\
  (* the wire view: confined to the parent's namespace when it has one *)
  (forall o, In o (wire_objects (get_ns parent) m) <->
             selected_by c k parent rules o /\ (get_ns parent = "" \/ get_ns o = get_ns parent)).
Proof.
  intros Hns Hd H. unfold get_related_objects in H.
  destruct (related_fold_complete c k parent Hns Hd rules [] m H (keyed_nil c k)) as [_ [_ Hc]].
  assert (Hiff : forall o, In o (uobjects m) <-> selected_by c k parent rules o).
  { intros o. split.
    - intros Hin. destruct (related_fold_sound c k parent Hns rules [] m H o Hin) as [[] | Hs]. exact Hs.
    - intros Hs. eapply uin_uobjects. apply Hc. exact Hs. }
  split; [exact Hiff|]. split; [exact Hc|]. split.
  - apply (related_fold_groups c k parent Hns rules [] m H).
  - split; [apply (related_fold_nodup_keys c k parent rules [] m H); apply NoDup_nil|].
    intros o. rewrite wire_objects_In, Hiff. reflexivity.
Qed.

(* the wire view in the json that is actually sent: convert *)
Theorem C15_wire_convert c k parent rules m :
  get_related_objects c k parent rules = Ok m ->
  kinds_no_dot m = true ->
  forall av kd os, In (av, kd, os) m ->
  NoDup (map (rel_key (get_ns parent)) (filter (seen (get_ns parent)) os)) ->
  forall n o,
    alookup n (obj_map (jget (gvk_text av kd) (obj_map (convert (get_ns parent) m)))) = Some o <->
    exists key, In (key, o) os /\ relative_name (get_ns parent) o = n /\
                (get_ns parent = "" \/ get_ns o = get_ns parent).
Proof.
  intros H Hk av kd os Hin Hnd n o.
  assert (Hkeys : NoDup (ukeys m)).
  { apply (related_fold_nodup_keys c k parent rules [] m H). apply NoDup_nil. }
  assert (Hg : nodup_str (map gvk_of m) = true).
  { apply nodup_str_NoDup. apply gvk_nodup_of_keys; assumption. }
  unfold jget. rewrite (convert_lookup_group (get_ns parent) m av kd os Hg Hin).
  apply convert_group_spec. exact Hnd.
Qed.

(* ================================================================== *)
(* 3. every object on the wire is matched by matchesRelatedRule        *)
(* ================================================================== *)

(* informer caches hold objects of their own resource *)
Definition cache_kinds (c : ccfg) (k : cache) : Prop :=
  forall kc o, In kc (known c) -> In o (cached k (ch_res kc)) ->
    get_api_version o = ch_api_version kc /\ get_kind o = ch_kind kc.

Lemma related_fold_all_ok c k parent :
  forall rules m0 m, related_fold c k parent rules m0 = Ok m ->
  forall r, In (Some r) rules ->
  exists kc sel, lookup_res c (r_api_version r) (r_resource r) = Some kc /\
                 rule_objects c parent r (cached k (ch_res kc)) = Some sel.
Proof.
  induction rules as [|[r0|] rules IH]; intros m0 m H r Hin; cbn [related_fold] in H.
  - destruct Hin.
  - destruct (related_step c k parent m0 r0) as [m1|] eqn:Es; [|discriminate].
    destruct Hin as [Hin | Hin].
    + injection Hin as Hin. subst r0. unfold related_step in Es.
      destruct (lookup_res c (r_api_version r) (r_resource r)) as [kc|] eqn:El; [|discriminate].
      destruct (rule_objects c parent r (cached k (ch_res kc))) as [sel|] eqn:Eo; [|discriminate].
      exists kc, sel. split; [reflexivity | exact Eo].
    + apply (IH _ _ H r Hin).
  - discriminate.
Qed.

(* a rule that was accepted, an object it selects and that reaches the wire: the trigger fires *)
Lemma selected_matches c parent r objs sel kind o :
  parent_has_ns c parent ->
  rule_objects c parent r objs = Some sel ->
  get_api_version o = r_api_version r -> get_kind o = kind ->
  spec_selects (p_namespaced c) parent r o = true ->
  (get_ns parent = "" \/ get_ns o = get_ns parent) ->
  matches_related_rule (p_namespaced c) parent o (Some r) kind = Ok true.
Proof.
  intros Hns Hro Hav Hkd Hsel Hwire. unfold matches_related_rule.
  rewrite Hav, Hkd, !String.eqb_refl. cbn [andb negb].
  unfold rule_objects in Hro. unfold spec_selects in Hsel.
  destruct (selection_type r) eqn:Et.
  - destruct (to_selector (r_selector r)) as [s|]; [|discriminate].
    apply Bool.andb_true_iff in Hsel as [Hm _]. rewrite Hm. reflexivity.
  - apply Bool.andb_true_iff in Hsel as [Hn Hnames].
    destruct (p_namespaced c) eqn:Ep.
    + cbn [andb] in Hro.
      destruct (negb (String.eqb (r_namespace r) "") && negb (String.eqb (get_ns parent) (r_namespace r))); [discriminate|].
      destruct Hwire as [Hw | Hw]; [exfalso; apply (Hns Ep); exact Hw|].
      rewrite <- Hw, String.eqb_refl. cbn [negb].
      destruct (r_names r); [reflexivity | rewrite Hnames; reflexivity].
    + apply Bool.orb_true_iff in Hn as [Hn | Hn].
      * rewrite Hn. cbn [negb andb]. destruct (r_names r); [reflexivity | rewrite Hnames; reflexivity].
      * rewrite Hn. cbn [negb]. rewrite Bool.andb_false_r.
        destruct (r_names r); [reflexivity | rewrite Hnames; reflexivity].
  - discriminate.
Qed.

Lemma some_rules_In r rules : In (Some r) rules <-> In r (some_rules rules).
Proof.
  unfold some_rules. rewrite in_flat_map. split.
  - intros H. exists (Some r). split; [exact H | left; reflexivity].
  - intros [[r'|] [H1 H2]]; [|destruct H2]. destruct H2 as [H2 | []]. subst r'. exact H1.
Qed.

Theorem C15_selected_implies_trigger_lemma c k parent rules m :
  parent_has_ns c parent -> cache_kinds c k ->
  get_related_objects c k parent rules = Ok m ->
  forall o, In o (wire_objects (get_ns parent) m) ->
    (exists r kc, In (Some r) rules /\ lookup_res c (r_api_version r) (r_resource r) = Some kc /\
                  matches_related_rule (p_namespaced c) parent o (Some r) (ch_kind kc) = Ok true) /\
    triggers c parent (some_rules rules) o = true /\
    every_selecting_rule_triggers c parent (some_rules rules) o = true.
Proof.
  intros Hns Hck H o Hw. apply wire_objects_In in Hw as [Hin Hwire].
  unfold get_related_objects in H.
  destruct (related_fold_sound c k parent Hns rules [] m H o Hin) as [[] | [r [kc [Hr [El [Hc Hs]]]]]].
  destruct (related_fold_all_ok c k parent rules [] m H r Hr) as [kc' [sel [El' Hro]]].
  rewrite El in El'. injection El' as El'. subst kc'.
  destruct (lookup_res_in _ _ _ _ El) as [Hk [Hav _]].
  destruct (Hck kc o Hk Hc) as [Hoav Hokd].
  assert (Hm : matches_related_rule (p_namespaced c) parent o (Some r) (ch_kind kc) = Ok true).
  { eapply selected_matches; eauto. congruence. }
  split; [exists r, kc; auto|]. split.
  - unfold triggers. apply existsb_exists. exists r. split; [apply some_rules_In; exact Hr|].
    rewrite El, Hm. reflexivity.
  - unfold every_selecting_rule_triggers. apply forallb_forall. intros r' Hr'.
    apply some_rules_In in Hr'.
    destruct (related_fold_all_ok c k parent rules [] m H r' Hr') as [kc' [sel' [El' Hro']]].
    rewrite El'.
    destruct (String.eqb (get_api_version o) (ch_api_version kc') && String.eqb (get_kind o) (ch_kind kc') &&
              spec_selects (p_namespaced c) parent r' o) eqn:E; [|reflexivity].
    apply Bool.andb_true_iff in E as [E Es]. apply Bool.andb_true_iff in E as [Ea Ek].
    apply String.eqb_eq in Ea, Ek.
    destruct (lookup_res_in _ _ _ _ El') as [_ [Hav' _]].
    rewrite (selected_matches c parent r' _ sel' (ch_kind kc') o Hns Hro'); auto. congruence.
Qed.

(* without "a namespaced parent has a namespace" the two code paths do disagree *)
Definition refute_cfg : ccfg :=
  mkCfg "x" "ctl.example.com/v1" "Thing" "things" true true false sel_everything []
        true false [mkChild "v1" "pods" "Pod" true ""] false true [["spec"]] [].
Definition refute_pod : json :=
  JObj [("apiVersion", JStr "v1"); ("kind", JStr "Pod");
        ("metadata", JObj [("name", JStr "a"); ("namespace", JStr "ns1")])].
Definition refute_parent : json :=      (* a namespaced kind, but no namespace on the object *)
  JObj [("apiVersion", JStr "ctl.example.com/v1"); ("kind", JStr "Thing");
        ("metadata", JObj [("name", JStr "p"); ("uid", JStr "u")])].
Definition refute_rules : list (option rule) := [Some (mkRule "v1" "pods" None "" ["a"])].
Definition refute_cache : cache := mkCache (Some refute_parent) [("pods.v1", [refute_pod])].

Theorem C15_selected_implies_trigger_refuted_lemma :
  exists m, get_related_objects refute_cfg refute_cache refute_parent refute_rules = Ok m /\
            In refute_pod (wire_objects (get_ns refute_parent) m) /\
            triggers refute_cfg refute_parent (some_rules refute_rules) refute_pod = false.
Proof.
  eexists. split; [vm_compute; reflexivity|]. split; [vm_compute; left; reflexivity | vm_compute; reflexivity].
Qed.

(* ================================================================== *)
(* 2. invalid rules are errors                                         *)
(* ================================================================== *)

Definition refused_for (c : ccfg) (parent : json) (rules : list (option rule)) : Prop :=
  exists x, In x rules /\ entry_bad (p_namespaced c) parent x = true.

Lemma related_fold_bad c k parent x :
  entry_bad (p_namespaced c) parent x = true ->
  forall rules m0, In x rules -> related_fold c k parent rules m0 = Err.
Proof.
  intros Hbad. induction rules as [|[r0|] rules IH]; intros m0 Hin; cbn [related_fold].
  - destruct Hin.
  - destruct Hin as [Hin | Hin].
    + subst x. cbn [entry_bad] in Hbad. unfold related_step.
      destruct (lookup_res c (r_api_version r0) (r_resource r0)) as [kc|]; [|reflexivity].
      assert (Hn : rule_objects c parent r0 (cached k (ch_res kc)) = None).
      { apply rule_objects_none. left. exact Hbad. }
      rewrite Hn. reflexivity.
    + destruct (related_step c k parent m0 r0) as [m1|]; [|reflexivity]. apply IH. exact Hin.
  - reflexivity.
Qed.

(* since the nil check, the loop never panics *)
Lemma related_fold_no_panic c k parent :
  forall rules m0, is_panic (related_fold c k parent rules m0) = false.
Proof.
  induction rules as [|[r0|] rules IH]; intros m0; cbn [related_fold].
  - reflexivity.
  - destruct (related_step c k parent m0 r0); [apply IH | reflexivity].
  - reflexivity.
Qed.

Theorem C15_related_never_panics_lemma c k parent rules :
  is_panic (get_related_objects c k parent rules) = false.
Proof. apply related_fold_no_panic. Qed.

Theorem C15_invalid_rule_lemma c k parent rules :
  refused_for c parent rules -> get_related_objects c k parent rules = Err.
Proof.
  intros [x [Hin Hbad]]. unfold get_related_objects. apply (related_fold_bad c k parent x Hbad rules [] Hin).
Qed.

(* a null entry is refused whatever the parent *)
Lemma null_entry_refused c parent rules : In None rules -> refused_for c parent rules.
Proof. intros H. exists None. split; [exact H | reflexivity]. Qed.

Lemma bad_rule_refused c parent rules r :
  In (Some r) rules -> rule_bad (p_namespaced c) parent r = true -> refused_for c parent rules.
Proof. intros H Hb. exists (Some r). split; [exact H | exact Hb]. Qed.

(* a rule with both selection styles is refused whatever the parent *)
Lemma invalid_is_bad pn parent r : selection_type r = SelInvalid -> rule_bad pn parent r = true.
Proof. intros H. unfold rule_bad. rewrite H. reflexivity. Qed.

(* --- the sync: no sync / finalize call, no child write --- *)
Definition customize_env (c : ccfg) (cl : call) (a : answer) : Prop :=
  match cl, a with
  | CHook HCustomize req, AHook body =>
      forall rules, decode_customize body = Some rules -> refused_for c (jget "parent" (obj_map req)) rules
  | _, _ => True
  end.

Definition cache_refusing (c : ccfg) (cc : ccache) : Prop :=
  forall parent rules, customize_lookup cc (parent_key parent) = Some rules -> refused_for c parent rules.

Definition is_customize_call (cl : call) : Prop := exists req, cl = CHook HCustomize req.

(* prelude_call: a GET, the finalizer edit of the parent, or an ownership edit of a child *)
Definition C15_quiet_call (c : ccfg) (cl : call) : Prop := prelude_call c cl \/ is_customize_call cl.

Lemma all_calls_safeP {R} (G : call -> answer -> Prop) (P : call -> Prop) (p : prog R) :
  all_calls P p -> forall h, safeP G (fun _ cl => P cl) (fun _ _ => True) h p.
Proof.
  induction 1 as [r | cl kk Hc Hk IH]; intros h.
  - constructor. exact I.
  - constructor; [exact Hc | intros a _; apply IH].
Qed.

Theorem sync_tail_refused c cc k parent observed h :
  has_customize c = true -> cache_refusing c cc ->
  safeP (customize_env c) (fun _ cl => C15_quiet_call c cl)
        (fun _ r => fst r <> SDone /\ fst r <> SPanic) h (sync_tail_c c cc k parent observed).
Proof.
  intros Hc Hcc. unfold sync_tail_c, related_phase_c. rewrite Hc. cbn [negb].
  destruct (customize_lookup cc (parent_key parent)) as [rules|] eqn:El.
  - cbn [bind]. rewrite (C15_invalid_rule_lemma c k parent rules (Hcc parent rules El)).
    cbn [rel_of_res]. constructor. cbn [fst]. split; discriminate.
  - cbn [bind]. constructor.
    + right. eexists. reflexivity.
    + intros a Ha. destruct a as [o|e|body| |n]; cbn [bind]; try (constructor; cbn [fst]; split; discriminate).
      destruct (decode_customize body) as [rules|] eqn:Ed; cbn [bind]; [|constructor; cbn [fst]; split; discriminate].
      cbn [customize_env customize_request] in Ha. specialize (Ha rules Ed).
      cbn [obj_map jget alookup String.eqb Ascii.eqb Bool.eqb] in Ha.
      rewrite (C15_invalid_rule_lemma c k parent rules Ha).
      cbn [rel_of_res]. constructor. cbn [fst]. split; discriminate.
Qed.

Theorem sync_c_refused c cc k parent h :
  has_customize c = true -> cache_refusing c cc ->
  safeP (customize_env c) (fun _ cl => C15_quiet_call c cl) (fun _ _ => True) h (sync_c c cc k parent).
Proof.
  intros Hc Hcc. unfold sync_c.
  destruct (ignores_parent c parent); [constructor; exact I|].
  eapply safeP_bind.
  - eapply safeP_conseq; [| | |apply (all_calls_safeP (customize_env c) _ _ (sync_finalizer_calls c parent) h)].
    + intros cl a Hg. exact Hg.
    + intros h' cl Hp. left. exact Hp.
    + intros h' r Hr. exact Hr.
  - intros h1 fr _. destruct fr as [p1|e]; [|constructor; exact I].
    destruct (ignores_parent c p1); [constructor; exact I|].
    eapply safeP_bind.
    + eapply safeP_conseq; [| | |apply (all_calls_safeP (customize_env c) _ _ (claim_children_calls c k p1) h1)].
      * intros cl a Hg. exact Hg.
      * intros h' cl Hp. left. exact Hp.
      * intros h' r Hr. exact Hr.
    + intros h2 oc _. destruct oc as [observed|]; [|constructor; exact I].
      eapply safeP_post; [|apply sync_tail_refused; assumption]. intros; exact I.
Qed.

(* on every run: the calls of such a sync are all quiet; in particular none is a sync / finalize hook call *)
Lemma quiet_not_sync_hook c cl : C15_quiet_call c cl ->
  match cl with CHook HSync _ | CHook HFinalize _ => False | _ => True end.
Proof.
  intros [[q [Hq _]] | [req Hq]]; subst cl; exact I.
Qed.

Lemma quiet_not_child_write c cl : C15_quiet_call c cl ->
  match cl with
  | CApi q => q_verb q = VGet \/ q_verb q = VUpdate
  | _ => True end.
Proof.
  intros [[q [Hq Hv]] | [req Hq]]; subst cl; [|exact I].
  destruct Hv as [Hv | [[Hv _] | [Hv _]]]; auto.
Qed.

Theorem C15_invalid_sync_lemma c cc k parent (e : env) :
  has_customize c = true -> cache_refusing c cc ->
  (forall h cl, customize_env c cl (e h cl)) ->
  Forall (fun hc => C15_quiet_call c (snd hc)) (calls_with_history (fst (run (sync_c c cc k parent) e []))).
Proof.
  intros Hc Hcc He.
  destruct (safeP_run (customize_env c) (fun _ cl => C15_quiet_call c cl) (fun _ _ => True) e
              (sync_c c cc k parent) (sync_c_refused c cc k parent [] Hc Hcc) He) as [H _].
  exact H.
Qed.

Theorem C15_invalid_tail_lemma c cc k parent observed (e : env) :
  has_customize c = true -> cache_refusing c cc ->
  (forall h cl, customize_env c cl (e h cl)) ->
  Forall (fun hc => C15_quiet_call c (snd hc))
         (calls_with_history (fst (run (sync_tail_c c cc k parent observed) e []))) /\
  fst (snd (run (sync_tail_c c cc k parent observed) e [])) <> SDone /\
  fst (snd (run (sync_tail_c c cc k parent observed) e [])) <> SPanic.
Proof.
  intros Hc Hcc He.
  apply (safeP_run (customize_env c) (fun _ cl => C15_quiet_call c cl) (fun _ r => fst r <> SDone /\ fst r <> SPanic) e
              (sync_tail_c c cc k parent observed) (sync_tail_refused c cc k parent observed [] Hc Hcc) He).
Qed.

(* ================================================================== *)
(* 4. the customize hook is asked once per (UID, generation)           *)
(* ================================================================== *)

Lemma ckey_eqb_eq a b : ckey_eqb a b = true <-> a = b.
Proof.
  destruct a as [u g], b as [u' g']. unfold ckey_eqb. cbn [fst snd].
  rewrite Bool.andb_true_iff, String.eqb_eq, Z.eqb_eq. split.
  - intros [-> ->]. reflexivity.
  - intros H. injection H as -> ->. auto.
Qed.

Lemma ckey_eqb_refl a : ckey_eqb a a = true.
Proof. apply ckey_eqb_eq. reflexivity. Qed.

Lemma find_filter {A} (p q : A -> bool) (l : list A) :
  (forall x, p x = true -> q x = true) -> find p (filter q l) = find p l.
Proof.
  intros Hpq. induction l as [|x l IH]; [reflexivity|]. cbn [filter find].
  destruct (q x) eqn:Eq.
  - cbn [find]. destruct (p x); [reflexivity | exact IH].
  - destruct (p x) eqn:Ep; [rewrite (Hpq x Ep) in Eq; discriminate | exact IH].
Qed.

Lemma lookup_store_same cc key rules : customize_lookup (customize_store cc key rules) key = Some rules.
Proof. unfold customize_lookup, customize_store. cbn [find fst]. rewrite ckey_eqb_refl. reflexivity. Qed.

Lemma lookup_store_other cc key key' rules :
  ckey_eqb key' key = false ->
  customize_lookup (customize_store cc key' rules) key = customize_lookup cc key.
Proof.
  intros Hne. unfold customize_lookup, customize_store. cbn [find fst]. rewrite Hne.
  rewrite find_filter; [reflexivity|].
  intros x Hx. apply ckey_eqb_eq in Hx. rewrite Hx.
  destruct (ckey_eqb key key') eqn:E; [|reflexivity].
  apply ckey_eqb_eq in E. subst key'. rewrite ckey_eqb_refl in Hne. discriminate.
Qed.

Lemma lookup_store_mono cc key key' rules :
  customize_lookup cc key <> None -> customize_lookup (customize_store cc key' rules) key <> None.
Proof.
  intros H. destruct (ckey_eqb key' key) eqn:E.
  - apply ckey_eqb_eq in E. subst key'. rewrite lookup_store_same. discriminate.
  - rewrite lookup_store_other; assumption.
Qed.

(* whoever was answered is in the cache *)
Definition cache_covers (cc : ccache) (h : list (call * answer)) : Prop :=
  forall key, served_in key h = true -> customize_lookup cc key <> None.

Lemma cust_key_of_request parent : cust_key_of (CHook HCustomize (customize_request parent)) = Some (parent_key parent).
Proof. reflexivity. Qed.

Lemma related_phase_once c cc k parent (e : env) h :
  C15_customize_once h = true -> cache_covers cc h ->
  C15_customize_once (fst (run (related_phase_c c cc k parent) e h)) = true /\
  cache_covers (snd (snd (run (related_phase_c c cc k parent) e h))) (fst (run (related_phase_c c cc k parent) e h)).
Proof.
  intros Honce Hcov. unfold related_phase_c.
  destruct (negb (has_customize c)); [cbn [run fst snd]; auto|].
  destruct (customize_lookup cc (parent_key parent)) as [rules|] eqn:El; [cbn [run fst snd]; auto|].
  cbn [run]. cbv zeta.
  set (cl := CHook HCustomize (customize_request parent)).
  set (a := e h cl).
  assert (Hfresh : served_in (parent_key parent) h = false).
  { destruct (served_in (parent_key parent) h) eqn:Es; [|reflexivity].
    exfalso. apply (Hcov _ Es). exact El. }
  assert (Honce' : C15_customize_once ((cl, a) :: h) = true).
  { cbn [C15_customize_once fst]. unfold cl. rewrite cust_key_of_request, Hfresh, Honce. reflexivity. }
  assert (Hkeep : decodable a = false -> cache_covers cc ((cl, a) :: h)).
  { intros Hd key Hs. cbn [served_in existsb] in Hs. unfold serves in Hs at 1. cbn [fst snd] in Hs.
    unfold cl in Hs at 1. rewrite cust_key_of_request in Hs.
    rewrite Hd, Bool.andb_false_r in Hs. cbn [orb] in Hs. apply Hcov. exact Hs. }
  destruct a as [o|er|body| |n] eqn:Ea; cbn [run fst snd];
    try (split; [exact Honce' | apply Hkeep; reflexivity]).
  destruct (decode_customize body) as [rules|] eqn:Ed; cbn [run fst snd].
  - split; [exact Honce'|].
    intros key Hs. cbn [served_in existsb] in Hs. apply Bool.orb_true_iff in Hs as [Hs | Hs].
    + unfold serves in Hs. cbn [fst snd] in Hs. unfold cl in Hs. rewrite cust_key_of_request in Hs.
      apply Bool.andb_true_iff in Hs as [Hk _]. apply ckey_eqb_eq in Hk. subst key.
      rewrite lookup_store_same. discriminate.
    + apply lookup_store_mono. apply Hcov. exact Hs.
  - split; [exact Honce'|]. apply Hkeep. cbn [decodable]. rewrite Ed. reflexivity.
Qed.

Lemma related_seq_once c (e : env) :
  forall steps cc h,
  C15_customize_once h = true -> cache_covers cc h ->
  C15_customize_once (fst (run (related_seq c cc steps) e h)) = true /\
  cache_covers (snd (snd (run (related_seq c cc steps) e h))) (fst (run (related_seq c cc steps) e h)).
Proof.
  induction steps as [|[k parent] steps IH]; intros cc h Honce Hcov.
  - cbn [related_seq run fst snd]. auto.
  - cbn [related_seq]. rewrite run_bind.
    destruct (related_phase_once c cc k parent e h Honce Hcov) as [H1 H2].
    destruct (run (related_phase_c c cc k parent) e h) as [h1 [r cc1]] eqn:E1. cbn [fst snd] in *.
    rewrite run_bind.
    destruct (IH cc1 h1 H1 H2) as [H3 H4].
    destruct (run (related_seq c cc1 steps) e h1) as [h2 [rs cc2]] eqn:E2. cbn [fst snd] in *.
    cbn [run fst snd]. auto.
Qed.

Lemma served_in_false_count key h : served_in key h = false -> count_served key h = 0.
Proof.
  unfold served_in, count_served. induction h as [|ca h IH]; [reflexivity|].
  cbn [existsb filter]. intros H. apply Bool.orb_false_iff in H as [H1 H2].
  rewrite H1. apply IH. exact H2.
Qed.

Lemma once_count key h : C15_customize_once h = true -> count_served key h <= 1.
Proof.
  induction h as [|ca h IH]; intros H; [cbn; lia|].
  cbn [C15_customize_once] in H. apply Bool.andb_true_iff in H as [H1 H2].
  unfold count_served. cbn [filter]. destruct (serves key ca) eqn:Es.
  - unfold serves in Es. destruct (cust_key_of (fst ca)) as [k'|]; [|discriminate].
    apply Bool.andb_true_iff in Es as [Ek _]. apply ckey_eqb_eq in Ek. subst k'.
    apply Bool.negb_true_iff in H1. cbn [List.length].
    fold (count_served key h). rewrite (served_in_false_count key h H1). lia.
  - apply IH. exact H2.
Qed.

Theorem C15_customize_once_lemma c steps (e : env) :
  C15_customize_once (fst (run (related_seq c [] steps) e [])) = true /\
  forall key, count_served key (fst (run (related_seq c [] steps) e [])) <= 1.
Proof.
  destruct (related_seq_once c e steps [] [] eq_refl) as [H _].
  - intros key Hs. discriminate.
  - split; [exact H | intros key; apply once_count; exact H].
Qed.

(* a failed call stores nothing: the next GetRelatedObjects asks again *)
Theorem C15_failed_call_retried_lemma c cc k parent (e : env) h :
  has_customize c = true -> customize_lookup cc (parent_key parent) = None ->
  decodable (e h (CHook HCustomize (customize_request parent))) = false ->
  fst (run (related_phase_c c cc k parent) e h) =
    (CHook HCustomize (customize_request parent), e h (CHook HCustomize (customize_request parent))) :: h /\
  snd (snd (run (related_phase_c c cc k parent) e h)) = cc /\
  (forall m, fst (snd (run (related_phase_c c cc k parent) e h)) <> RelOk m).
Proof.
  intros Hc El Hd. unfold related_phase_c. rewrite Hc, El. cbn [negb run]. cbv zeta.
  destruct (e h (CHook HCustomize (customize_request parent))) as [o|er|body| |n];
    cbn [run fst snd]; try (repeat split; intros; discriminate).
  cbn [decodable] in Hd. destruct (decode_customize body); [discriminate|].
  cbn [run fst snd]. repeat split; intros; discriminate.
Qed.

(* a cached answer is used without asking *)
Theorem C15_cached_not_asked_lemma c cc k parent rules (e : env) h :
  customize_lookup cc (parent_key parent) = Some rules ->
  fst (run (related_phase_c c cc k parent) e h) = h.
Proof.
  intros El. unfold related_phase_c. destruct (negb (has_customize c)); [reflexivity|].
  rewrite El. reflexivity.
Qed.

(* ================================================================== *)
(* readable forms                                                      *)
(* ================================================================== *)
Lemma rule_selects_meaning :
  forall pn parent objs r o,
    rule_selects pn parent objs r o <->
    In o objs /\
    match selection_type r with
    | SelLabels => exists sel, to_selector (r_selector r) = Some sel /\ sel_matches sel (get_labels o) = true /\
                               (pn = true -> get_ns o = get_ns parent)
    | SelNamesNs => (r_namespace r = "" \/ get_ns o = r_namespace r) /\
                    (r_names r = [] \/ mem_str (get_name o) (r_names r) = true)
    | SelInvalid => False
    end.
Proof.
  intros pn parent objs r o. unfold rule_selects, spec_selects.
  destruct (selection_type r).
  - destruct (to_selector (r_selector r)) as [s|].
    + rewrite Bool.andb_true_iff, Bool.orb_true_iff, Bool.negb_true_iff, String.eqb_eq. split.
      * intros [H1 [H2 H3]]. split; [exact H1|]. exists s. split; [reflexivity|]. split; [exact H2|].
        intros Hp. destruct H3 as [H3 | H3]; [congruence | exact H3].
      * intros [H1 [s' [Hs [H2 H3]]]]. injection Hs as Hs. subst s'. split; [exact H1|]. split; [exact H2|].
        destruct pn; [right; apply H3; reflexivity | left; reflexivity].
    + split; [intros [_ H]; discriminate | intros [_ [s' [Hs _]]]; discriminate].
  - rewrite Bool.andb_true_iff, Bool.orb_true_iff, !String.eqb_eq.
    destruct (r_names r) as [|n names].
    + split; [intros [H1 [H2 _]]; split; [exact H1 | split; [exact H2 | left; reflexivity]] |
              intros [H1 [H2 _]]; split; [exact H1 | split; [exact H2 | reflexivity]]].
    + split; [intros [H1 [H2 H3]]; split; [exact H1 | split; [exact H2 | right; exact H3]] |
              intros [H1 [H2 [H3 | H3]]]; [discriminate | split; [exact H1 | split; [exact H2 | exact H3]]]].
  - split; [intros [_ H]; discriminate | intros [_ []]].
Qed.

Lemma quiet_call_meaning :
  forall c cl, C15_quiet_call c cl ->
    match cl with CHook HSync _ | CHook HFinalize _ => False | _ => True end /\
    match cl with CApi q => q_verb q = VGet \/ q_verb q = VUpdate | _ => True end.
Proof. intros c cl H. split; [apply (quiet_not_sync_hook c cl H) | apply (quiet_not_child_write c cl H)]. Qed.

(* findRelatedParents for one parent and one changed object is the `triggers` predicate:
   nil rules are skipped *)
Lemma parent_woken_by_triggers c parent rules o :
  parent_woken_by c parent rules [o] = triggers c parent (some_rules rules) o.
Proof.
  unfold parent_woken_by, triggers. induction rules as [|[r|] rules IH]; [reflexivity| |].
  - change (some_rules (Some r :: rules)) with (r :: some_rules rules).
    cbn [existsb]. rewrite <- IH. f_equal.
    destruct (lookup_res c (r_api_version r) (r_resource r)) as [kc|]; [|reflexivity].
    cbn [existsb]. apply Bool.orb_false_r.
  - change (some_rules (None :: rules)) with (some_rules rules). cbn [existsb orb]. exact IH.
Qed.

(* findRelatedParents over several changed objects: some object triggers *)
Lemma existsb_const_false {A} (l : list A) : existsb (fun _ => false) l = false.
Proof. induction l as [|a l IH]; [reflexivity | exact IH]. Qed.

Lemma existsb_swap {A B} (f : A -> B -> bool) (la : list A) (lb : list B) :
  existsb (fun a => existsb (f a) lb) la = existsb (fun b => existsb (fun a => f a b) la) lb.
Proof.
  induction la as [|a la IH]; cbn [existsb].
  - symmetry. apply existsb_const_false.
  - rewrite IH. clear IH. induction lb as [|b lb IHb]; [reflexivity|].
    cbn [existsb]. rewrite <- IHb.
    destruct (f a b), (existsb (f a) lb), (existsb (fun a0 => f a0 b) la); reflexivity.
Qed.

Definition rule_triggers (c : ccfg) (parent : json) (r : rule) (o : json) : bool :=
  match lookup_res c (r_api_version r) (r_resource r) with
  | Some kc => match matches_related_rule (p_namespaced c) parent o (Some r) (ch_kind kc) with
               | Ok true => true | _ => false end
  | None => false
  end.

Lemma parent_woken_by_rules c parent rules l :
  parent_woken_by c parent rules l = existsb (fun r => existsb (rule_triggers c parent r) l) (some_rules rules).
Proof.
  unfold parent_woken_by. induction rules as [|[r|] rules IH]; [reflexivity| |].
  - change (some_rules (Some r :: rules)) with (r :: some_rules rules). cbn [existsb]. rewrite IH. f_equal.
    unfold rule_triggers. destruct (lookup_res c (r_api_version r) (r_resource r)); [reflexivity|].
    symmetry. apply existsb_const_false.
  - change (some_rules (None :: rules)) with (some_rules rules). cbn [existsb orb]. exact IH.
Qed.

Lemma parent_woken_by_exists c parent rules l :
  parent_woken_by c parent rules l = existsb (fun o => triggers c parent (some_rules rules) o) l.
Proof. rewrite parent_woken_by_rules. apply existsb_swap. Qed.

(* onRelatedUpdate wakes the parent iff the old or the new state triggers *)
Lemma woken_by_update_spec c parent rules old new :
  woken_by_update c parent rules old new =
  triggers c parent (some_rules rules) old || triggers c parent (some_rules rules) new.
Proof. unfold woken_by_update. rewrite parent_woken_by_exists. cbn [existsb]. rewrite Bool.orb_false_r. reflexivity. Qed.

(* an object that is in the related map on the wire wakes its parent when it is updated, whatever it becomes
   (and, symmetrically, whatever it was when it ends up in the map) *)
Theorem C15_update_wakes_lemma c k parent rules m :
  parent_has_ns c parent -> cache_kinds c k ->
  get_related_objects c k parent rules = Ok m ->
  forall o, In o (wire_objects (get_ns parent) m) ->
  forall other, woken_by_update c parent rules o other = true /\ woken_by_update c parent rules other o = true.
Proof.
  intros Hns Hck H o Hin other.
  destruct (C15_selected_implies_trigger_lemma c k parent rules m Hns Hck H o Hin) as [_ [Ht _]].
  rewrite !woken_by_update_spec, Ht. split; [reflexivity | apply Bool.orb_true_r].
Qed.
