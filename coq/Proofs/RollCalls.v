(* RollCalls.v — which calls each phase of the rolling composite sync can issue
   (helper for C09Proofs.v).  Everything here is an [all_calls] fact: it holds
   on every path, whatever the answers. *)
From MC Require Import Generated.
From MC Require Import Model.Rolling.
From MC Require Import Proofs.C06Proofs.
Local Open Scope list_scope.
Local Open Scope string_scope.

(* ------------------------------------------------------------------ *)
(* generic                                                             *)
(* ------------------------------------------------------------------ *)

Lemma all_calls_atomic_update (Phi : call -> Prop) res ns name uid status f :
  Phi (CApi (rq_get res ns name)) ->
  (forall cur upd, f cur = Some upd -> Phi (CApi (rq_put status res ns name upd))) ->
  forall fuel, all_calls Phi (atomic_update fuel res ns name uid status f).
Proof.
  intros Hg Hp. induction fuel as [|n IH]; cbn [atomic_update]; [apply AC_ret|].
  assert (Hretry : all_calls Phi (match n with
                                  | O => Ret (RErr EConflict)
                                  | S _ => atomic_update n res ns name uid status f end)).
  { destruct n; [apply AC_ret|exact IH]. }
  unfold api at 1. cbn [bind]. apply AC_do; [exact Hg|].
  intros a. destruct a as [cur|e|b| |z]; cbn [bind]; try apply AC_ret.
  - destruct (negb (String.eqb (get_uid cur) uid)); [apply AC_ret|].
    destruct (f cur) as [upd|] eqn:Hf; [|apply AC_ret].
    unfold api at 1. cbn [bind]. apply AC_do; [eapply Hp; eauto|].
    intros a2. destruct a2 as [o|e|b| |z]; cbn [bind]; try apply AC_ret.
    destruct e; try apply AC_ret. exact Hretry.
  - destruct e; try apply AC_ret. exact Hretry.
Qed.

Lemma all_calls_update_with_retries (Phi : call -> Prop) ns name uid f :
  Phi (CApi (rq_get rev_res ns name)) ->
  (forall cur upd, f cur = Some upd -> Phi (CApi (rq_put false rev_res ns name upd))) ->
  forall fuel, all_calls Phi (update_with_retries fuel ns name uid f).
Proof.
  intros Hg Hp. induction fuel as [|n IH]; cbn [update_with_retries]; [apply AC_ret|].
  assert (Hretry : all_calls Phi (match n with
                                  | O => Ret (RErr EConflict)
                                  | S _ => update_with_retries n ns name uid f end)).
  { destruct n; [apply AC_ret|exact IH]. }
  unfold api at 1. cbn [bind]. apply AC_do; [exact Hg|].
  intros a. destruct a as [cur|e|b| |z]; cbn [bind]; try apply AC_ret.
  - destruct (negb (String.eqb (get_uid cur) uid)); [apply AC_ret|].
    destruct (f cur) as [upd|] eqn:Hf; [|apply AC_ret].
    unfold api at 1. cbn [bind]. apply AC_do; [eapply Hp; eauto|].
    intros a2. destruct a2 as [o|e|b| |z]; cbn [bind]; try apply AC_ret.
    destruct e; try apply AC_ret. exact Hretry.
  - destruct e; try apply AC_ret. exact Hretry.
Qed.

Lemma all_calls_mapM {A B} (Phi : call -> Prop) (f : A -> prog B) (l : list A) :
  (forall a, In a l -> all_calls Phi (f a)) -> all_calls Phi (mapM f l).
Proof.
  induction l as [|a l IH]; intros Hf; cbn [mapM]; [apply AC_ret|].
  apply all_calls_bind; [apply Hf; now left|].
  intros b. apply all_calls_bind; [apply IH; intros a' Hin; apply Hf; now right|].
  intros r. apply AC_ret.
Qed.

Lemma all_calls_ret {R} (Phi : call -> Prop) (r : R) : all_calls Phi (Ret r).
Proof. apply AC_ret. Qed.

(* ------------------------------------------------------------------ *)
(* the prelude: finalizer, claiming                                    *)
(* ------------------------------------------------------------------ *)

(* a call of the prelude is a GET, the finalizer edit of the parent, or an
   ownership edit (adoption / release) of an object of a child resource *)
Definition prelude_call (c : ccfg) (cl : call) : Prop :=
  exists q, cl = CApi q /\
    (q_verb q = VGet \/
     (q_verb q = VUpdate /\ q_res q = p_res c) \/
     (q_verb q = VUpdate /\ exists k cur refs,
         In k (kids c) /\ q_res q = ch_res k /\ q_body q = set_owner_refs cur refs)).

Lemma prelude_get c res ns name : prelude_call c (CApi (rq_get res ns name)).
Proof. eexists. split; [reflexivity|]. left. reflexivity. Qed.

Lemma sync_finalizer_calls c parent : all_calls (prelude_call c) (sync_finalizer c parent).
Proof.
  unfold sync_finalizer. cbv zeta.
  destruct (Bool.eqb (has_finalizer parent (finalizer_name c)) (has_finalize c)); [apply AC_ret|].
  destruct (has_finalize c).
  - destruct (is_deleting parent); [apply AC_ret|].
    apply all_calls_atomic_update; [apply prelude_get|].
    intros cur upd _. eexists. split; [reflexivity|]. right. left. split; reflexivity.
  - apply all_calls_atomic_update; [apply prelude_get|].
    intros cur upd _. eexists. split; [reflexivity|]. right. left. split; reflexivity.
Qed.

Lemma can_adopt_check_calls c parent : all_calls (prelude_call c) (can_adopt_check c parent).
Proof.
  unfold can_adopt_check. apply all_calls_bind; [apply all_calls_api, prelude_get|].
  intros g. destruct g; apply AC_ret.
Qed.

Lemma claim_one_calls c k parent sel st o :
  In k (kids c) -> all_calls (prelude_call c) (claim_one c k parent sel st o).
Proof.
  intros Hk. destruct st as [[once claimed] failed]. unfold claim_one. cbv zeta.
  destruct (claim_decision (get_uid parent) (is_deleting parent) sel o); try apply AC_ret.
  - apply all_calls_bind.
    + apply all_calls_atomic_update; [apply prelude_get|].
      intros cur upd Hf. injection Hf as Hf. subst upd.
      eexists. split; [reflexivity|]. right. right. split; [reflexivity|].
      exists k, cur. eexists. split; [exact Hk|]. split; reflexivity.
    + intros r. destruct r as [x|e]; [apply AC_ret|]. destruct e; apply AC_ret.
  - apply all_calls_bind.
    + destruct once as [b|]; [apply AC_ret|].
      apply all_calls_bind; [apply can_adopt_check_calls|]. intros b. apply AC_ret.
    + intros [once' can]. destruct (negb can); [apply AC_ret|].
      apply all_calls_bind.
      * apply all_calls_atomic_update; [apply prelude_get|].
        intros cur upd Hf. injection Hf as Hf. subst upd.
        eexists. split; [reflexivity|]. right. right. split; [reflexivity|].
        exists k, cur. eexists. split; [exact Hk|]. split; reflexivity.
      * intros r. destruct r as [x|e]; [apply AC_ret|]. destruct e; apply AC_ret.
Qed.

Lemma claim_children_calls c k parent : all_calls (prelude_call c) (claim_children c k parent).
Proof.
  unfold claim_children. destruct (make_selector c parent) as [sel|]; [|apply AC_ret].
  apply all_calls_foldM. intros acc kc Hin. destruct acc as [m|]; [|apply AC_ret].
  cbv zeta. apply all_calls_bind.
  - apply all_calls_foldM. intros st o _. apply claim_one_calls. exact Hin.
  - intros [[once claimed] failed]. destruct failed; apply AC_ret.
Qed.

(* ------------------------------------------------------------------ *)
(* the hook phase: hooks, ControllerRevision requests, the adoption GET *)
(* ------------------------------------------------------------------ *)

(* the API requests of the hook phase: ControllerRevisions, and the adoption recheck of the parent *)
Definition revphase_api_call (c : ccfg) (cl : call) : Prop :=
  exists q, cl = CApi q /\ (q_res q = rev_res \/ (q_res q = p_res c /\ q_verb q = VGet)).

Definition hookphase_call (c : ccfg) (cl : call) : Prop :=
  (exists hk b, cl = CHook hk b /\ hk <> HCustomize) \/ revphase_api_call c cl.

Lemma ra_rev c q : q_res q = rev_res -> revphase_api_call c (CApi q).
Proof. intros H. exists q. split; [reflexivity|]. left. exact H. Qed.

Lemma hp_rev c q : q_res q = rev_res -> hookphase_call c (CApi q).
Proof. intros H. right. apply ra_rev. exact H. Qed.

Lemma call_hook_calls c parent observed related : all_calls (hookphase_call c) (call_hook c parent observed related).
Proof.
  unfold call_hook. cbv zeta.
  destruct (negb (has_finalize c && (is_deleting parent || negb (sel_matches (p_selector c) (get_labels parent))))
            && negb (has_sync c)); [apply AC_ret|].
  apply AC_do.
  - left. eexists. eexists. split; [reflexivity|].
    destruct (has_finalize c && (is_deleting parent || negb (sel_matches (p_selector c) (get_labels parent))));
      discriminate.
  - intros a. destruct a as [o|e|body| |z]; try apply AC_ret.
    destruct (decode_composite body); apply AC_ret.
Qed.

Lemma claim_rev_one_calls c parent sel st o : all_calls (revphase_api_call c) (claim_rev_one c parent sel st o).
Proof.
  destruct st as [[once claimed] failed]. unfold claim_rev_one. cbv zeta.
  destruct (claim_decision (get_uid parent) (is_deleting parent) sel o); try apply AC_ret.
  - apply all_calls_bind.
    + apply all_calls_update_with_retries; [apply ra_rev; reflexivity|].
      intros cur upd _. apply ra_rev. reflexivity.
    + intros r. destruct r as [x|e]; [apply AC_ret|]. destruct e; apply AC_ret.
  - apply all_calls_bind.
    + destruct once as [b|]; [apply AC_ret|].
      apply all_calls_bind.
      * unfold can_adopt_check. apply all_calls_bind.
        -- apply all_calls_api. eexists. split; [reflexivity|]. right. split; reflexivity.
        -- intros g. destruct g; apply AC_ret.
      * intros b. apply AC_ret.
    + intros [once' can]. destruct (negb can); [apply AC_ret|].
      apply all_calls_bind.
      * apply all_calls_update_with_retries; [apply ra_rev; reflexivity|].
        intros cur upd _. apply ra_rev. reflexivity.
      * intros r. destruct r as [x|e]; [apply AC_ret|]. destruct e; apply AC_ret.
Qed.

Lemma claim_revisions_calls c k parent : all_calls (revphase_api_call c) (claim_revisions c k parent).
Proof.
  unfold claim_revisions. destruct (revision_selector c parent) as [sel|]; [|apply AC_ret].
  cbv zeta. apply all_calls_bind.
  - apply all_calls_foldM. intros st o _. apply claim_rev_one_calls.
  - intros [[once claimed] failed]. apply AC_ret.
Qed.

(* every request of manage_revisions is a write to the ControllerRevision resource *)
Definition rev_write_call (cl : call) : Prop :=
  exists q, cl = CApi q /\ q_res q = rev_res /\ q_verb q <> VGet.

Lemma run_until_error_calls (Phi : call -> Prop) ps :
  (forall p, In p ps -> all_calls Phi p) -> all_calls Phi (run_until_error ps).
Proof.
  induction ps as [|p ps IH]; intros Hps; cbn [run_until_error]; [apply AC_ret|].
  apply all_calls_bind; [apply Hps; now left|].
  intros r. destruct r; [|apply AC_ret]. apply IH. intros p' Hin. apply Hps. now right.
Qed.

Definition rev_deletes (ns : string) (observed desired : list revision) : list (prog apires) :=
  flat_map (fun o =>
     if existsb (fun d => String.eqb (rev_name d) (rev_name o)) desired then []
     else [api (mkRq VDelete rev_res ns (rev_name o) JNull (get_uid (rev_obj o)) "")]) observed.

Definition rev_upserts (ns : string) (observed desired : list revision) : list (prog apires) :=
  flat_map (fun d =>
     match find (fun o => String.eqb (rev_name o) (rev_name d)) (rev observed) with
     | Some o => if rev_equal o d then []
                 else [api (rq_put false rev_res ns (rev_name d) (json_of_revision d))]
     | None => if String.eqb ns "" then [Ret (RErr EInvalid)]
               else [api (rq_create rev_res ns (rev_name d) (json_of_revision d))]
     end) desired.

Lemma manage_revisions_eq ns observed desired :
  manage_revisions ns observed desired =
  run_until_error (rev_deletes ns observed desired ++ rev_upserts ns observed desired).
Proof. reflexivity. Qed.

(* each element is one api request on rev_res (not a GET), or the immediate error *)
Definition rev_step (p : prog apires) : Prop :=
  p = Ret (RErr EInvalid) \/ exists q, p = api q /\ q_res q = rev_res /\ q_verb q <> VGet.

Lemma rev_steps ns observed desired p :
  In p (rev_deletes ns observed desired ++ rev_upserts ns observed desired) -> rev_step p.
Proof.
  intros Hin. apply in_app_or in Hin. destruct Hin as [Hin|Hin].
  - unfold rev_deletes in Hin. apply in_flat_map in Hin. destruct Hin as (o & _ & Hin).
    destruct (existsb (fun d => String.eqb (rev_name d) (rev_name o)) desired); [destruct Hin|].
    destruct Hin as [<-|[]]. right. eexists. split; [reflexivity|]. split; [reflexivity|discriminate].
  - unfold rev_upserts in Hin. apply in_flat_map in Hin. destruct Hin as (d & _ & Hin).
    destruct (find (fun o => String.eqb (rev_name o) (rev_name d)) (rev observed)) as [o|].
    + destruct (rev_equal o d); [destruct Hin|].
      destruct Hin as [<-|[]]. right. eexists. split; [reflexivity|]. split; [reflexivity|discriminate].
    + destruct (String.eqb ns ""); destruct Hin as [<-|[]].
      * left. reflexivity.
      * right. eexists. split; [reflexivity|]. split; [reflexivity|discriminate].
Qed.

Lemma manage_revisions_calls ns observed desired :
  all_calls rev_write_call (manage_revisions ns observed desired).
Proof.
  rewrite manage_revisions_eq. apply run_until_error_calls.
  intros p Hin. apply rev_steps in Hin. destruct Hin as [->|(q & -> & Hr & Hv)]; [apply AC_ret|].
  apply all_calls_api. exists q. auto.
Qed.

Lemma call_hooks_calls c observed related prs : all_calls (hookphase_call c) (call_hooks c observed related prs).
Proof.
  unfold call_hooks. apply all_calls_mapM. intros p _.
  apply all_calls_bind; [apply call_hook_calls|]. intros r. apply AC_ret.
Qed.

Lemma sync_revisions_rolling_calls c k parent observed related :
  all_calls (hookphase_call c) (sync_revisions_rolling c k parent observed related).
Proof.
  unfold sync_revisions_rolling.
  apply all_calls_bind.
  { eapply all_calls_weaken; [|apply claim_revisions_calls]. intros cl H. right. exact H. }
  intros oc. destruct oc as [claimed|]; [|apply AC_ret]. cbv zeta.
  destruct (make_patch (obj_map parent) (field_paths c) []) as [latest_patch|]; [|apply AC_ret].
  match goal with |- all_calls _ (match ?X with _ => _ end) => destruct X as [[latest_rev olds]|] end;
    [|apply AC_ret].
  match goal with |- all_calls _ (match ?X with _ => _ end) => destruct X as [lrev|] end;
    [|apply AC_ret].
  apply all_calls_bind; [apply call_hooks_calls|].
  intros answers.
  destruct (first_hook_failure answers) as [r|]; [destruct r; apply AC_ret|].
  match goal with |- all_calls _ (match ?X with _ => _ end) => destruct X as [[prs2 st]|] end;
    [|apply AC_ret].
  apply all_calls_bind.
  - eapply all_calls_weaken; [|apply manage_revisions_calls].
    intros cl (q & -> & Hr & _). apply hp_rev. exact Hr.
  - intros ok. destruct (negb ok); [apply AC_ret|].
    destruct (prune prs2); apply AC_ret.
Qed.

Lemma hook_phase_rolling_calls c k parent observed related :
  all_calls (hookphase_call c) (hook_phase_rolling c k parent observed related).
Proof.
  unfold hook_phase_rolling.
  destruct (negb (any_rolling c) || (is_deleting parent && negb (should_finalize c parent))).
  - apply call_hook_calls.
  - apply sync_revisions_rolling_calls.
Qed.

(* ------------------------------------------------------------------ *)
(* finish_sync: the note, the parent, resources known to discovery     *)
(* ------------------------------------------------------------------ *)

Definition finish_call (c : ccfg) (cl : call) : Prop :=
  (exists b, cl = CHook HCustomize b) \/
  exists q, cl = CApi q /\ (q_res q = p_res c \/ exists kn, In kn (known c) /\ q_res q = ch_res kn).

Lemma fc_parent c q : q_res q = p_res c -> finish_call c (CApi q).
Proof. intros H. right. exists q. split; [reflexivity|]. left. exact H. Qed.

Lemma fc_known c kn q : In kn (known c) -> q_res q = ch_res kn -> finish_call c (CApi q).
Proof. intros Hin H. right. exists q. split; [reflexivity|]. right. exists kn. auto. Qed.

Lemma lookup_kind_known c av kd kc : lookup_kind c av kd = Some kc -> In kc (known c).
Proof. unfold lookup_kind. intros H. apply find_some in H. tauto. Qed.

Lemma delete_children_calls c kc os ds :
  In kc (known c) -> all_calls (finish_call c) (delete_children kc os ds).
Proof.
  intros Hin. eapply all_calls_weaken; [|apply C06_undesired_deleted_background].
  intros cl (key & o & _ & _ & _ & ->). eapply fc_known; [exact Hin|reflexivity].
Qed.

Lemma ssa_child_calls c kc parent obs d :
  In kc (known c) -> all_calls (finish_call c) (ssa_child c kc parent obs d).
Proof.
  intros Hin. unfold ssa_child. cbv zeta. apply all_calls_bind.
  - destruct obs as [old|]; [|apply AC_ret].
    destruct (get_annotation old last_applied_annotation); [|apply AC_ret].
    apply all_calls_api. eapply fc_known; [exact Hin|reflexivity].
  - intros r1. destruct r1; [|apply AC_ret].
    apply all_calls_bind; [apply all_calls_api; eapply fc_known; [exact Hin|reflexivity]|].
    intros r2. destruct r2; apply AC_ret.
Qed.

Lemma update_children_calls c kc parent os ds :
  In kc (known c) -> all_calls (finish_call c) (update_children c kc parent os ds).
Proof.
  intros Hin. unfold update_children. apply all_calls_foldM. intros failed p _. cbv zeta.
  destruct (ssa c).
  - apply all_calls_bind; [apply ssa_child_calls; exact Hin|]. intros f. apply AC_ret.
  - destruct (child_decision c kc parent (olookup (fst p) os) (snd p)); try apply AC_ret.
    + apply all_calls_bind; [apply all_calls_api; eapply fc_known; [exact Hin|reflexivity]|].
      intros r. destruct r as [x|e]; [apply AC_ret|]. destruct e; apply AC_ret.
    + apply all_calls_bind; [apply all_calls_api; eapply fc_known; [exact Hin|reflexivity]|].
      intros r. destruct r as [x|e]; [apply AC_ret|]. destruct e; apply AC_ret.
    + apply all_calls_bind; [apply all_calls_api; eapply fc_known; [exact Hin|reflexivity]|].
      intros r. destruct r as [x|e]; [apply AC_ret|]. destruct e; apply AC_ret.
Qed.

Lemma manage_children_calls c parent observed desired :
  all_calls (finish_call c) (manage_children c parent observed desired).
Proof.
  unfold manage_children. apply all_calls_bind.
  - apply all_calls_foldM. intros failed [[av kd] os] _.
    destruct (lookup_kind c av kd) as [kc|] eqn:Hlk; [|apply AC_ret].
    apply all_calls_bind; [apply delete_children_calls; eapply lookup_kind_known; eauto|].
    intros f. apply AC_ret.
  - intros f1. apply all_calls_foldM. intros failed [[av kd] ds] _.
    destruct (lookup_kind c av kd) as [kc|] eqn:Hlk; [|apply AC_ret].
    apply all_calls_bind; [apply update_children_calls; eapply lookup_kind_known; eauto|].
    intros f. apply AC_ret.
Qed.

Lemma update_parent_status_calls c parent st :
  all_calls (finish_call c) (update_parent_status c parent st).
Proof.
  unfold update_parent_status. cbv zeta.
  apply all_calls_atomic_update; [apply fc_parent; reflexivity|].
  intros cur upd _. apply fc_parent. destruct (p_has_status c); reflexivity.
Qed.

Lemma finish_sync_calls c parent observed r :
  all_calls (finish_call c) (finish_sync c parent observed r).
Proof.
  unfold finish_sync. destruct (desired_map (hr_children r) []) as [d0|]; [|apply AC_ret].
  apply all_calls_bind.
  { destruct (positive_number (hr_resync r)); [|apply AC_ret].
    unfold note. apply AC_do; [left; eexists; reflexivity|]. intros a. apply AC_ret. }
  intros _. apply all_calls_bind.
  { destruct (hr_finalized r); [|apply AC_ret].
    apply all_calls_atomic_update; [apply fc_parent; reflexivity|].
    intros cur upd _. apply fc_parent. reflexivity. }
  intros pr. destruct pr as [p2|e]; [|apply AC_ret].
  destruct (make_selector c p2) as [sel|]; [|apply AC_ret].
  destruct (enforce_labels c p2 sel (uobjects d0)) as [ds|]; [|apply AC_ret].
  cbv zeta. apply all_calls_bind.
  { destruct (negb (is_deleting p2) || should_finalize c p2); [|apply AC_ret].
    apply manage_children_calls. }
  intros failed. apply all_calls_bind; [apply update_parent_status_calls|].
  intros sr. destruct sr as [x|e]; [apply AC_ret|]. destruct e; apply AC_ret.
Qed.

Print Assumptions sync_finalizer_calls.
Print Assumptions claim_children_calls.
Print Assumptions hook_phase_rolling_calls.
Print Assumptions manage_revisions_calls.
Print Assumptions finish_sync_calls.
