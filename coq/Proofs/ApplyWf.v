(* ApplyWf.v — merge preserves well-formedness (hereditarily unique keys):
   wf_json d -> wf_json o -> merge d o l = Ok r -> wf_json r.  No H needed. *)
From MC Require Import Generated Model.Json Model.Apply Model.ApplyLaws.
From MC Require Import Proofs.AssocLemmas Proofs.AssocLemmas2 Proofs.ApplyProofs Proofs.ApplyBase.
From MC Require Import Proofs.ApplyCore Proofs.ApplyListMap Proofs.ApplyUpdateProofs.
Local Open Scope list_scope.

Lemma wf_obj_iff m :
  wf_json (JObj m) = true <->
  nodup_str (akeys m) = true /\ (forall k v, alookup k m = Some v -> wf_json v = true).
Proof.
  split.
  - intros H. split; [now apply wf_obj_nodup|].
    intros k v Hl. apply alookup_In in Hl. eapply wf_obj_In; eauto.
  - intros [Hnd Hv]. rewrite wf_obj, Hnd. cbn [andb].
    apply forallb_forall. intros [k v] Hin. cbn [snd].
    apply (Hv k v). now apply alookup_nodup_In.
Qed.

Lemma mem_str_akeys_aremove k k' m :
  mem_str k (akeys (aremove k' m)) = negb (String.eqb k k') && mem_str k (akeys m).
Proof. rewrite !mem_str_akeys. apply ahas_aremove. Qed.

Lemma nodup_aremove k m : nodup_str (akeys m) = true -> nodup_str (akeys (aremove k m)) = true.
Proof.
  induction m as [|[k' v] m IH]; [reflexivity|]. cbn [akeys map fst nodup_str aremove].
  intros H. apply andb_split in H as [Hn Hd]. fold (akeys m) in *.
  destruct (String.eqb k k'); [auto|].
  cbn [akeys map fst nodup_str]. fold (akeys (aremove k m)).
  rewrite IH by exact Hd. rewrite Bool.andb_true_r.
  rewrite mem_str_akeys_aremove. apply Bool.negb_true_iff in Hn. rewrite Hn.
  now rewrite Bool.andb_false_r.
Qed.

Lemma nodup_app_single l k :
  nodup_str l = true -> mem_str k l = false -> nodup_str (l ++ [k]) = true.
Proof.
  induction l as [|x l IH]; intros Hnd Hk; [reflexivity|].
  cbn [app nodup_str] in *. apply andb_split in Hnd as [Hn Hd].
  cbn [mem_str] in Hk. apply Bool.orb_false_iff in Hk as [Hkx Hkl].
  rewrite IH by auto. rewrite Bool.andb_true_r.
  rewrite mem_str_app. apply Bool.negb_true_iff in Hn. rewrite Hn. cbn [mem_str orb].
  rewrite eqb_sym', Hkx. reflexivity.
Qed.

Lemma nodup_aset k v m : nodup_str (akeys m) = true -> nodup_str (akeys (aset k v m)) = true.
Proof.
  intros H. destruct (ahas k m) eqn:E.
  - now rewrite akeys_aset_present.
  - rewrite akeys_aset_absent by exact E. apply nodup_app_single; auto.
    now rewrite mem_str_akeys.
Qed.

Lemma nodup_remove_last m ks has :
  nodup_str (akeys m) = true -> nodup_str (akeys (remove_last m ks has)) = true.
Proof.
  unfold remove_last. revert m. induction ks as [|x ks IH]; intros m H; [exact H|].
  cbn [fold_left]. apply IH. destruct (has x); [exact H|now apply nodup_aremove].
Qed.

Lemma nodup_mobj_aux dm1 lm sm : forall acc m,
  mobj_aux dm1 lm sm acc = Ok m -> nodup_str (akeys acc) = true -> nodup_str (akeys m) = true.
Proof.
  induction sm as [|[k dv] sm IH]; intros acc m H Hnd; cbn [mobj_aux] in H.
  - now inversion H; subst.
  - destruct (merge dv (jget k dm1) (jget k lm)) as [r| |]; try discriminate.
    eapply IH; eauto. now apply nodup_aset.
Qed.

(* ---------- values of the list-map structures (no uniqueness assumed) ---------- *)
Lemma make_list_map_values key items : forall acc m k v,
  make_list_map key items acc = Ok m -> alookup k m = Some v ->
  In v items \/ alookup k acc = Some v.
Proof.
  induction items as [|it items IH]; intros acc m k v H Hl; cbn [make_list_map] in H.
  - inversion H; subst. now right.
  - destruct (item_key key it) as [k0|]; [|discriminate].
    destruct (IH _ _ _ _ H Hl) as [Hin|Ha]; [left; now right|].
    rewrite alookup_aset in Ha. destruct (String.eqb k k0); [|now right].
    inversion Ha; subst. left. now left.
Qed.

Lemma mlm_aux_values key dm1 lmap sl : forall acc m k v,
  mlm_aux key dm1 lmap sl acc = Ok m -> alookup k m = Some v ->
  (exists s k', In s sl /\ item_key key s = Some k' /\
                merge s (jget k' dm1) (jget k' lmap) = Ok v) \/
  alookup k acc = Some v.
Proof.
  induction sl as [|s sl IH]; intros acc m k v H Hl; cbn [mlm_aux] in H.
  - inversion H; subst. now right.
  - destruct (item_key key s) as [k0|] eqn:E0; [|discriminate].
    destruct (merge s (jget k0 dm1) (jget k0 lmap)) as [r| |] eqn:Er; try discriminate.
    destruct (IH _ _ _ _ H Hl) as [(s' & k' & Hin & Hk & Hm)|Ha].
    + left. exists s', k'. split; [now right|auto].
    + rewrite alookup_aset in Ha. destruct (String.eqb k k0); [|now right].
      inversion Ha; subst. left. exists s, k0. split; [now left|auto].
Qed.

Lemma rebuild_des_values key dm sl : forall added l2 v,
  rebuild_des key sl dm added = Ok l2 -> In v l2 -> exists k, v = jget k dm.
Proof.
  induction sl as [|s sl IH]; intros added l2 v H Hin; cbn [rebuild_des] in H.
  - inversion H; subst. destruct Hin.
  - destruct (item_key key s) as [k0|]; [|discriminate].
    destruct (mem_str k0 added); [eapply IH; eauto|].
    destruct (rebuild_des key sl dm (k0 :: added)) as [l| |] eqn:E; try discriminate.
    inversion H; subst. destruct Hin as [<-|Hin]; [eauto|eapply IH; eauto].
Qed.

Lemma rd_items_values key dl dm v : In v (rd_items key dl dm) -> exists k, alookup k dm = Some v.
Proof.
  unfold rd_items. intros H. apply in_flat_map in H as (it & _ & Hv).
  destruct (item_key key it) as [k|]; [|destruct Hv].
  destruct (alookup k dm) as [v'|] eqn:E; [|destruct Hv].
  destruct Hv as [<-|[]]. eauto.
Qed.

Definition vals_wf (m : amap) : Prop := forall k v, alookup k m = Some v -> wf_json v = true.

Lemma vals_wf_jget m k : vals_wf m -> wf_json (jget k m) = true.
Proof. intros H. unfold jget. destruct (alookup k m) eqn:E; [eapply H; eauto|reflexivity]. Qed.

Lemma vals_wf_remove_last m ks has : vals_wf m -> vals_wf (remove_last m ks has).
Proof.
  intros H k v Hl. rewrite alookup_remove_last in Hl.
  destruct (_ && _); [discriminate|]. eapply H; eauto.
Qed.

Lemma vals_wf_make key items m :
  wf_json (JArr items) = true -> make_list_map key items [] = Ok m -> vals_wf m.
Proof.
  intros Hw H k v Hl. destruct (make_list_map_values _ _ _ _ _ _ H Hl) as [Hin|Hn]; [|discriminate].
  eapply wf_arr_In; eauto.
Qed.

(* ---------- the list-map result ---------- *)
Lemma wf_lm_null ol l r :
  wf_json (JArr ol) = true -> merge JNull (JArr ol) l = Ok r -> wf_json r = true.
Proof.
  intros Hw H. cbn [merge] in H. cbv zeta in H.
  destruct (detect_key ol (arr_or_nil l) []) as [key|]; [|now inversion H; subst].
  destruct (make_list_map key ol []) as [dmap| |] eqn:Ed; cbn [rbind] in H; try discriminate.
  destruct (make_list_map key (arr_or_nil l) []) as [lmap| |]; cbn [rbind] in H; try discriminate.
  destruct (rebuild_dest key ol _ []) as [[l1 a]| |] eqn:E1; cbn [rbind] in H; try discriminate.
  inversion H; subst r. apply rebuild_dest_spec in E1 as [-> _].
  rewrite wf_arr. apply forallb_forall. intros v Hv.
  apply rd_items_values in Hv as [k Hk].
  eapply vals_wf_remove_last; [|exact Hk]. eapply vals_wf_make; eauto.
Qed.

Theorem merge_wf : forall d o l r,
  wf_json d = true -> wf_json o = true -> merge d o l = Ok r -> wf_json r = true.
Proof.
  induction d as [| b | z | s | s | j IH | sl IH | sm IH] using json_ind'; intros o l r Hw Hwo Hm.
  - (* null *)
    destruct o as [| | | | | |ol|om]; try (cbn in Hm; inversion Hm; subst; reflexivity).
    + eapply wf_lm_null; eauto.
    + cbn [merge] in Hm. cbv zeta in Hm. inversion Hm; subst r.
      apply wf_obj_iff in Hwo as [Hnd Hv]. apply wf_obj_iff. split.
      * now apply nodup_remove_last.
      * now apply vals_wf_remove_last.
  - apply merge_scalar_des in Hm; [now subst|reflexivity].
  - apply merge_scalar_des in Hm; [now subst|reflexivity].
  - apply merge_scalar_des in Hm; [now subst|reflexivity].
  - apply merge_scalar_des in Hm; [now subst|reflexivity].
  - apply merge_scalar_des in Hm; [now subst|reflexivity].
  - (* desired array *)
    destruct o as [| | | | | |ol|om];
      try (rewrite merge_nc in Hm by reflexivity; inversion Hm; now subst);
      try (cbn in Hm; discriminate).
    destruct (detect_key ol (arr_or_nil l) sl) as [key|] eqn:E.
    2:{ rewrite merge_arr_arr in Hm. cbv zeta in Hm. rewrite E in Hm. inversion Hm; now subst. }
    destruct (merge_lm_inv _ _ _ _ _ E Hm) as (dmap & lmap & merged & l1 & a & l2 & H1 & H2 & H3 & H4 & H5 & ->).
    set (dm1 := remove_last dmap (akeys lmap) (des_has_key key sl)) in *.
    assert (Vd : vals_wf dm1).
    { apply vals_wf_remove_last. eapply vals_wf_make; eauto. }
    assert (Vm : vals_wf merged).
    { intros k v Hl. destruct (mlm_aux_values _ _ _ _ _ _ _ _ H3 Hl) as [(s & k' & Hin & Hk & Hr)|Ha].
      - rewrite Forall_forall in IH. eapply (IH s Hin); [| |exact Hr].
        + apply (wf_arr_In sl s Hw Hin).
        + now apply vals_wf_jget.
      - eapply Vd; eauto. }
    apply rebuild_dest_spec in H4 as [-> _].
    rewrite wf_arr. apply forallb_forall. intros v Hv. apply in_app_or in Hv as [Hv|Hv].
    + apply rd_items_values in Hv as [k Hk]. eapply Vm; eauto.
    + destruct (rebuild_des_values _ _ _ _ _ _ H5 Hv) as [k ->]. now apply vals_wf_jget.
  - (* desired object *)
    destruct o as [| | | | | |ol|om];
      try (rewrite merge_nc in Hm by reflexivity; inversion Hm; now subst);
      try (cbn in Hm; discriminate).
    rewrite merge_obj_obj in Hm. cbv zeta in Hm.
    destruct (mobj_aux _ _ sm _) as [m| |] eqn:EM; try discriminate.
    inversion Hm; subst r. clear Hm.
    apply wf_obj_iff in Hwo as [Hnd Hv].
    set (dm1 := remove_last om (akeys (obj_or_nil l)) (fun k => ahas k sm)) in *.
    assert (Vd : vals_wf dm1) by (now apply vals_wf_remove_last).
    apply wf_obj_iff. split.
    + eapply nodup_mobj_aux; eauto. now apply nodup_remove_last.
    + intros k v Hl. destruct (ahas k sm) eqn:Es.
      * destruct (mobj_aux_has _ _ _ _ _ _ EM Es) as (dv & r & Hin & Hr & Hl').
        rewrite Hl' in Hl. inversion Hl; subst v.
        rewrite Forall_forall in IH. eapply (IH (k, dv) Hin); [| |exact Hr].
        -- apply (wf_obj_In sm k dv Hw Hin).
        -- now apply vals_wf_jget.
      * rewrite (mobj_aux_other _ _ _ _ _ k EM Es) in Hl. eapply Vd; eauto.
Qed.

Print Assumptions merge_wf.
