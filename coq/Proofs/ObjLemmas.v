(* ObjLemmas.v — facts about object accessors / setters, owner references,
   qualified names and uniform object maps used by the C02 / C10 / C11 proofs. *)
From MC Require Import Model.Safe Model.TracePreds Proofs.AssocLemmas.
Local Open Scope list_scope.

(* ---------- two-element paths ---------- *)
Lemma nget2 m a b :
  nested_get m [a; b] =
  match alookup a m with
  | None => NMissing
  | Some JNull => NMissing
  | Some (JObj m') => match alookup b m' with Some v => NFound v | None => NMissing end
  | Some _ => NErr
  end.
Proof. reflexivity. Qed.

Lemma nset2 m a b v :
  nested_set m [a; b] v =
  match alookup a m with
  | None => Some (aset a (JObj [(b, v)]) m)
  | Some (JObj m') => Some (aset a (JObj (aset b v m')) m)
  | Some _ => None
  end.
Proof. reflexivity. Qed.

Lemma nremove2 m a b :
  nested_remove m [a; b] =
  match alookup a m with
  | Some (JObj m') => aset a (JObj (aremove b m')) m
  | _ => m
  end.
Proof. reflexivity. Qed.

(* setting metadata.f leaves metadata.g alone *)
Lemma nget_meta_set_other m f g v m' :
  nested_set m ["metadata"; f] v = Some m' -> String.eqb g f = false ->
  nested_get m' ["metadata"; g] = nested_get m ["metadata"; g].
Proof.
  rewrite nset2. intros H Hne. rewrite !nget2.
  destruct (alookup "metadata" m) as [mv|] eqn:E.
  - destruct mv; try discriminate. inversion H; subst m'.
    rewrite alookup_aset_same, alookup_aset, Hne. reflexivity.
  - inversion H; subst m'. rewrite alookup_aset_same. cbn [alookup]. rewrite Hne. reflexivity.
Qed.

Lemma nget_meta_set_same m f v m' :
  nested_set m ["metadata"; f] v = Some m' -> nested_get m' ["metadata"; f] = NFound v.
Proof.
  rewrite nset2. intros H. rewrite nget2.
  destruct (alookup "metadata" m) as [mv|] eqn:E.
  - destruct mv; try discriminate. inversion H; subst m'.
    now rewrite alookup_aset_same, alookup_aset_same.
  - inversion H; subst m'. rewrite alookup_aset_same. cbn [alookup]. now rewrite eqb_refl'.
Qed.

Lemma nget_meta_remove_other m f g :
  String.eqb g f = false ->
  nested_get (nested_remove m ["metadata"; f]) ["metadata"; g] = nested_get m ["metadata"; g].
Proof.
  intros Hne. rewrite nremove2, !nget2.
  destruct (alookup "metadata" m) as [mv|] eqn:E; [|now rewrite E].
  destruct mv; rewrite ?E; try reflexivity.
  rewrite alookup_aset_same, alookup_aremove, Hne. reflexivity.
Qed.

(* metadata field of an object *)
Definition mget (o : json) (g : string) : nested := nested_get (obj_map o) ["metadata"; g].

Lemma get_uid_mget o : get_uid o = match mget o "uid" with NFound (JStr s) => s | _ => "" end.
Proof. reflexivity. Qed.
Lemma get_name_mget o : get_name o = match mget o "name" with NFound (JStr s) => s | _ => "" end.
Proof. reflexivity. Qed.
Lemma get_ns_mget o : get_ns o = match mget o "namespace" with NFound (JStr s) => s | _ => "" end.
Proof. reflexivity. Qed.

Lemma mget_set_finalizers o fs g :
  String.eqb g "finalizers" = false -> mget (set_finalizers o fs) g = mget o g.
Proof.
  intros Hne. unfold mget, set_finalizers. destruct o; try reflexivity.
  destruct (nested_set m _ _) as [m'|] eqn:E; [|reflexivity].
  cbn [obj_map]. eapply nget_meta_set_other; eauto.
Qed.

Lemma mget_set_owner_refs o refs g :
  String.eqb g "ownerReferences" = false -> mget (set_owner_refs o refs) g = mget o g.
Proof.
  intros Hne. unfold mget, set_owner_refs. destruct o; try reflexivity.
  destruct (nested_set m _ _) as [m'|] eqn:E; [|reflexivity].
  cbn [obj_map]. eapply nget_meta_set_other; eauto.
Qed.

Lemma mget_set_ns o ns g :
  String.eqb g "namespace" = false -> mget (set_ns o ns) g = mget o g.
Proof.
  intros Hne. unfold mget, set_ns. destruct o; try reflexivity.
  destruct (String.eqb ns "").
  - cbn [obj_map]. now apply nget_meta_remove_other.
  - destruct (nested_set m _ _) as [m'|] eqn:E; [|reflexivity].
    cbn [obj_map]. eapply nget_meta_set_other; eauto.
Qed.

Lemma get_uid_set_finalizers o fs : get_uid (set_finalizers o fs) = get_uid o.
Proof. rewrite !get_uid_mget, mget_set_finalizers; reflexivity. Qed.
Lemma get_name_set_finalizers o fs : get_name (set_finalizers o fs) = get_name o.
Proof. rewrite !get_name_mget, mget_set_finalizers; reflexivity. Qed.
Lemma get_ns_set_finalizers o fs : get_ns (set_finalizers o fs) = get_ns o.
Proof. rewrite !get_ns_mget, mget_set_finalizers; reflexivity. Qed.

Lemma get_uid_set_owner_refs o refs : get_uid (set_owner_refs o refs) = get_uid o.
Proof. rewrite !get_uid_mget, mget_set_owner_refs; reflexivity. Qed.
Lemma get_name_set_owner_refs o refs : get_name (set_owner_refs o refs) = get_name o.
Proof. rewrite !get_name_mget, mget_set_owner_refs; reflexivity. Qed.

Lemma get_name_set_ns o ns : get_name (set_ns o ns) = get_name o.
Proof. rewrite !get_name_mget, mget_set_ns; reflexivity. Qed.

Lemma add_finalizer_uid fin cur upd : add_finalizer fin cur = Some upd -> get_uid upd = get_uid cur.
Proof.
  unfold add_finalizer. destruct (has_finalizer cur fin); [discriminate|].
  intros [= <-]. apply get_uid_set_finalizers.
Qed.

Lemma remove_finalizer_uid fin cur upd : remove_finalizer fin cur = Some upd -> get_uid upd = get_uid cur.
Proof.
  unfold remove_finalizer. destruct (has_finalizer cur fin); [|discriminate].
  intros [= <-]. apply get_uid_set_finalizers.
Qed.

(* ---------- owner references ---------- *)
Lemma oref_roundtrip r : oref_of_json (json_of_oref r) = Some r.
Proof. destruct r as [av kd nm uid [b|] [b'|]]; reflexivity. Qed.

Lemma all_some_oref_roundtrip refs : all_some (map oref_of_json (map json_of_oref refs)) = Some refs.
Proof.
  induction refs as [|r refs IH]; [reflexivity|].
  cbn [map all_some]. rewrite oref_roundtrip, IH. reflexivity.
Qed.

Lemma get_owner_refs_set m refs m' :
  nested_set m ["metadata"; "ownerReferences"] (JArr (map json_of_oref refs)) = Some m' ->
  get_owner_refs (JObj m') = refs.
Proof.
  intros H. unfold get_owner_refs. cbn [obj_map].
  rewrite (nget_meta_set_same _ _ _ _ H). now rewrite all_some_oref_roundtrip.
Qed.

Lemma nested_set_meta_none m f v :
  nested_set m ["metadata"; f] v = None ->
  match jget "metadata" m with JObj _ => false | _ => true end = true.
Proof.
  rewrite nset2. unfold jget. destruct (alookup "metadata" m) as [mv|]; [|discriminate].
  destruct mv; try discriminate; reflexivity.
Qed.

Lemma create_body_owned d1 refs ref uid :
  or_uid ref = uid -> or_controller ref = Some true ->
  has_controller_ref_of (set_owner_refs d1 (refs ++ [ref])) uid
  || negb (metadata_is_obj (set_owner_refs d1 (refs ++ [ref]))) = true.
Proof.
  intros Hu Hc. unfold set_owner_refs. destruct d1; try reflexivity.
  destruct (nested_set m _ _) as [m'|] eqn:E.
  - apply Bool.orb_true_iff. left. unfold has_controller_ref_of.
    rewrite (get_owner_refs_set _ _ _ E). rewrite existsb_app. apply Bool.orb_true_iff. right.
    cbn [existsb]. rewrite Hu, Hc, eqb_refl'. reflexivity.
  - apply Bool.orb_true_iff. right. unfold metadata_is_obj. cbn [obj_map].
    apply nested_set_meta_none in E. destruct (jget "metadata" m); try reflexivity; discriminate.
Qed.

(* ---------- names without '/' and qualified names ---------- *)
Fixpoint no_slash (s : string) : bool :=
  match s with
  | EmptyString => true
  | String a s' => negb (Ascii.eqb a slash) && no_slash s'
  end.

Lemma no_slash_join a b : no_slash (a ++ "/" ++ b) = false.
Proof.
  induction a as [|ch a IH]; [reflexivity|].
  cbn [append no_slash]. cbn [append] in IH. rewrite IH. apply Bool.andb_false_r.
Qed.

Lemma join_inj : forall ns1 ns2 n1 n2,
  no_slash n1 = true -> no_slash n2 = true ->
  (ns1 ++ "/" ++ n1 = ns2 ++ "/" ++ n2)%string -> ns1 = ns2 /\ n1 = n2.
Proof.
  induction ns1 as [|c1 s1 IH]; intros ns2 n1 n2 H1 H2 Heq.
  - destruct ns2 as [|c2 s2].
    + cbn in Heq. inversion Heq. auto.
    + cbn [append] in Heq. inversion Heq as [[Hc Hr]]. subst n1.
      pose proof (no_slash_join s2 n2) as Hn. cbn [append] in Hn. congruence.
  - destruct ns2 as [|c2 s2].
    + cbn [append] in Heq. inversion Heq as [[Hc Hr]]. subst n2.
      pose proof (no_slash_join s1 n1) as Hn. cbn [append] in Hn. congruence.
    + cbn [append] in Heq. inversion Heq as [[Hc Hr]]. subst c2.
      destruct (IH s2 n1 n2 H1 H2) as [-> ->]; auto.
Qed.

Lemma qualified_name_inj o1 o2 :
  no_slash (get_name o1) = true -> no_slash (get_name o2) = true ->
  qualified_name o1 = qualified_name o2 ->
  get_name o1 = get_name o2 /\ get_ns o1 = get_ns o2.
Proof.
  unfold qualified_name. intros H1 H2.
  destruct (String.eqb (get_ns o1) "") eqn:E1; destruct (String.eqb (get_ns o2) "") eqn:E2; intros Heq.
  - apply String.eqb_eq in E1, E2. split; congruence.
  - rewrite Heq in H1. rewrite no_slash_join in H1. discriminate.
  - rewrite <- Heq in H2. rewrite no_slash_join in H2. discriminate.
  - apply join_inj in Heq; tauto.
Qed.

(* ---------- lists ---------- *)
Lemma nodup_map_inj {A} (f : A -> string) (l : list A) a b :
  nodup_str (map f l) = true -> In a l -> In b l -> f a = f b -> a = b.
Proof.
  rewrite nodup_str_NoDup. induction l as [|x l IH]; intros Hnd Ha Hb Hf; [destruct Ha|].
  cbn [map] in Hnd. inversion Hnd as [|? ? Hnin Hnd']; subst.
  destruct Ha as [->|Ha], Hb as [->|Hb]; auto.
  - exfalso. apply Hnin. rewrite Hf. now apply in_map.
  - exfalso. apply Hnin. rewrite <- Hf. now apply in_map.
Qed.

Lemma find_unique {A} (p : A -> bool) (l : list A) a :
  In a l -> p a = true -> (forall b, In b l -> p b = true -> b = a) -> find p l = Some a.
Proof.
  intros Hin Hp Hu. destruct (find p l) as [b|] eqn:E.
  - apply find_some in E as [Hb Hpb]. f_equal. auto.
  - eapply find_none in E; eauto. congruence.
Qed.

(* ---------- uniform object maps ---------- *)
Lemma oset_in n o os n' o' : In (n', o') (oset n o os) -> In (n', o') os \/ (n' = n /\ o' = o).
Proof.
  induction os as [|[k v] os IH]; cbn [oset]; intros H.
  - destruct H as [H|[]]. inversion H; auto.
  - destruct (String.eqb n k).
    + destruct H as [H|H]; [inversion H; auto|left; now right].
    + destruct H as [H|H]; [left; now left|]. destruct (IH H) as [H1|H1]; auto. left; now right.
Qed.

Lemma uinit_in av kd m g : In g (uinit av kd m) -> In g m \/ g = (av, kd, []).
Proof.
  induction m as [|[[av' kd'] os] m IH]; cbn [uinit]; intros H.
  - destruct H as [H|[]]; auto.
  - destruct (String.eqb av av' && String.eqb kd kd'); [now left|].
    destruct H as [H|H]; [left; now left|]. destruct (IH H); auto. left; now right.
Qed.

Lemma uinsert_at_in av kd n o m av' kd' os n' o' :
  In (av', kd', os) (uinsert_at av kd n o m) -> In (n', o') os ->
  (exists os0, In (av', kd', os0) m /\ In (n', o') os0) \/ (av' = av /\ kd' = kd /\ n' = n /\ o' = o).
Proof.
  induction m as [|[[av2 kd2] os2] m IH]; cbn [uinsert_at]; intros H Hin.
  - destruct H as [H|[]]. inversion H; subst. destruct Hin as [Hin|[]]. inversion Hin; subst. right; auto.
  - destruct (String.eqb av av2 && String.eqb kd kd2) eqn:E.
    + apply Bool.andb_true_iff in E as [E1 E2]. apply String.eqb_eq in E1, E2. subst av2 kd2.
      destruct H as [H|H].
      * inversion H; subst. apply oset_in in Hin as [Hin|[-> ->]].
        -- left. exists os2. split; [now left|auto].
        -- right; auto.
      * left. exists os. split; [now right|auto].
    + destruct H as [H|H].
      * inversion H; subst. left. exists os. split; [now left|auto].
      * destruct (IH H Hin) as [(os0 & H1 & H2)|H1]; auto. left. exists os0. split; [now right|auto].
Qed.

Lemma ufind_group_in av kd m os : ufind_group av kd m = Some os -> In (av, kd, os) m.
Proof.
  unfold ufind_group.
  match goal with |- context [find ?p m] => destruct (find p m) as [[[av' kd'] os']|] eqn:E end; [|discriminate].
  intros [= <-]. apply find_some in E as [Hin Hp].
  apply Bool.andb_true_iff in Hp as [E1 E2]. apply String.eqb_eq in E1, E2. now subst.
Qed.

Lemma olookup_in k os o : olookup k os = Some o -> In (k, o) os.
Proof.
  unfold olookup.
  match goal with |- context [find ?p os] => destruct (find p os) as [[k' o']|] eqn:E end; [|discriminate].
  intros [= <-]. apply find_some in E as [Hin Hp]. cbn [fst] in Hp. apply String.eqb_eq in Hp. now subst.
Qed.

Lemma lookup_kind_in c av kd kc :
  lookup_kind c av kd = Some kc -> In kc (known c) /\ ch_api_version kc = av /\ ch_kind kc = kd.
Proof.
  unfold lookup_kind. intros E. apply find_some in E as [Hin Hp].
  apply Bool.andb_true_iff in Hp as [E1 E2]. apply String.eqb_eq in E1, E2. auto.
Qed.

Lemma cached_in k res o : In o (cached k res) -> In (res, cached k res) (k_children k).
Proof.
  unfold cached.
  match goal with |- context [find ?p (k_children k)] => destruct (find p (k_children k)) as [[r os]|] eqn:E end; [|intros []].
  intros _. apply find_some in E as [Hin Hp]. cbn [fst] in Hp. apply String.eqb_eq in Hp. subst r. exact Hin.
Qed.
