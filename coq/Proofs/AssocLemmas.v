(* AssocLemmas.v — facts about association lists used by every layer. *)
From MC Require Import Model.Json.
From Coq Require Import Lia.

Lemma eqb_refl' s : String.eqb s s = true.
Proof. apply String.eqb_refl. Qed.

Lemma eqb_sym' a b : String.eqb a b = String.eqb b a.
Proof. apply String.eqb_sym. Qed.

Lemma alookup_aset_same k v m : alookup k (aset k v m) = Some v.
Proof.
  induction m as [|[k' v'] m IH]; simpl.
  - now rewrite eqb_refl'.
  - destruct (String.eqb k k') eqn:E; simpl; rewrite ?eqb_refl', ?E; auto.
Qed.

Lemma alookup_aset_other k k' v m : k <> k' -> alookup k (aset k' v m) = alookup k m.
Proof.
  intros Hne. induction m as [|[k2 v2] m IH]; simpl.
  - destruct (String.eqb k k') eqn:E; auto. apply String.eqb_eq in E. contradiction.
  - destruct (String.eqb k' k2) eqn:E2; simpl.
    + apply String.eqb_eq in E2; subst k2.
      destruct (String.eqb k k') eqn:E; auto.
      apply String.eqb_eq in E. contradiction.
    + destruct (String.eqb k k2); auto.
Qed.

Lemma alookup_aset k k' v m :
  alookup k (aset k' v m) = if String.eqb k k' then Some v else alookup k m.
Proof.
  destruct (String.eqb k k') eqn:E.
  - apply String.eqb_eq in E; subst. apply alookup_aset_same.
  - apply String.eqb_neq in E. now apply alookup_aset_other.
Qed.

Lemma alookup_aremove k k' m :
  alookup k (aremove k' m) = if String.eqb k k' then None else alookup k m.
Proof.
  induction m as [|[k2 v2] m IH]; simpl.
  - now destruct (String.eqb k k').
  - destruct (String.eqb k' k2) eqn:E2; simpl.
    + apply String.eqb_eq in E2; subst k2. rewrite IH.
      destruct (String.eqb k k'); auto.
    + rewrite IH. destruct (String.eqb k k2) eqn:E; auto.
      apply String.eqb_eq in E; subst k2.
      rewrite eqb_sym'. now rewrite E2.
Qed.

Lemma jget_aset k k' v m : jget k (aset k' v m) = if String.eqb k k' then v else jget k m.
Proof. unfold jget. rewrite alookup_aset. now destruct (String.eqb k k'). Qed.

Lemma ahas_aset k k' v m : ahas k (aset k' v m) = String.eqb k k' || ahas k m.
Proof. unfold ahas. rewrite alookup_aset. now destruct (String.eqb k k'). Qed.

Lemma ahas_aremove k k' m : ahas k (aremove k' m) = negb (String.eqb k k') && ahas k m.
Proof. unfold ahas. rewrite alookup_aremove. now destruct (String.eqb k k'). Qed.

Lemma mem_str_In k l : mem_str k l = true <-> In k l.
Proof.
  induction l as [|x l IH]; simpl; [intuition discriminate|].
  rewrite Bool.orb_true_iff, IH, String.eqb_eq. intuition.
Qed.

Lemma ahas_In_keys k m : ahas k m = true <-> In k (akeys m).
Proof.
  unfold ahas, akeys. induction m as [|[k' v] m IH]; simpl; [intuition discriminate|].
  destruct (String.eqb k k') eqn:E.
  - apply String.eqb_eq in E; subst. intuition.
  - apply String.eqb_neq in E. rewrite IH. intuition congruence.
Qed.

(* aset on a present key keeps the key list *)
Lemma akeys_aset_present k v m : ahas k m = true -> akeys (aset k v m) = akeys m.
Proof.
  unfold ahas, akeys. induction m as [|[k' v'] m IH]; simpl; [discriminate|].
  destruct (String.eqb k k') eqn:E; simpl.
  - apply String.eqb_eq in E; now subst.
  - intros H. now rewrite IH.
Qed.

Lemma akeys_aset_absent k v m : ahas k m = false -> akeys (aset k v m) = (akeys m ++ [k])%list.
Proof.
  unfold ahas, akeys. induction m as [|[k' v'] m IH]; simpl; [reflexivity|].
  destruct (String.eqb k k') eqn:E; simpl; [discriminate|].
  intros H. now rewrite IH.
Qed.

(* setting a key to the value it already has changes nothing *)
Lemma aset_id k v m : alookup k m = Some v -> aset k v m = m.
Proof.
  induction m as [|[k' v'] m IH]; simpl; [discriminate|].
  destruct (String.eqb k k') eqn:E.
  - apply String.eqb_eq in E; subst. now intros [= ->].
  - intros H. now rewrite IH.
Qed.

Lemma aremove_absent k m : ahas k m = false -> aremove k m = m.
Proof.
  unfold ahas. induction m as [|[k' v'] m IH]; simpl; [reflexivity|].
  destruct (String.eqb k k') eqn:E; [discriminate|].
  intros H. now rewrite IH.
Qed.

Lemma nodup_str_NoDup l : nodup_str l = true <-> NoDup l.
Proof.
  induction l as [|x l IH]; simpl.
  - split; [constructor|reflexivity].
  - rewrite Bool.andb_true_iff, Bool.negb_true_iff, IH. split.
    + intros [Hn Hd]. constructor; auto. intros Hin. apply mem_str_In in Hin. congruence.
    + intros Hnd. inversion Hnd; subst. split; auto.
      destruct (mem_str x l) eqn:E; auto. apply mem_str_In in E. contradiction.
Qed.
