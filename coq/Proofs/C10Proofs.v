(* C10Proofs.v — life cycle of the controller's finalizer on the parent. *)
From MC Require Import Model.Safe Model.TracePreds.
From MC Require Import Proofs.AssocLemmas Proofs.AssocLemmas2 Proofs.ObjLemmas Proofs.ObjFinLemmas
                       Proofs.SafeLemmas Proofs.C11Proofs.
Local Open Scope list_scope.

Notation TT := (fun _ _ => True).

(* ================= (a) never added to a parent that is being deleted ================= *)
Theorem C10_no_call_when_deleting c parent :
  is_deleting parent = true ->
  (has_finalizer parent (finalizer_name c) = false \/ has_finalize c = true) ->
  sync_finalizer c parent = Ret (ROk parent).
Proof.
  intros Hd H. unfold sync_finalizer. cbv zeta. rewrite Hd.
  destruct (has_finalizer parent (finalizer_name c)), (has_finalize c); cbn [Bool.eqb]; try reflexivity.
  destruct H; discriminate.
Qed.

Ltac not_upd := let q := fresh "q" in let Hv := fresh "Hv" in
  intros q [= <-] Hv; cbn in Hv; discriminate Hv.

Theorem C10_never_added_when_deleting (G : call -> answer -> Prop) c parent h :
  is_deleting parent = true ->
  safe G (fun _ cl => forall q, cl = CApi q -> q_verb q = VUpdate ->
                      has_finalizer (q_body q) (finalizer_name c) = false) h (sync_finalizer c parent).
Proof.
  intros Hd. unfold sync_finalizer. cbv zeta. rewrite Hd.
  destruct (Bool.eqb _ _); [constructor|].
  destruct (has_finalize c); [constructor|].
  apply safeP_safe with (Post := TT).
  apply safeP_atomic_update with (h0 := h); auto with safe.
  - intros h' _. not_upd.
  - intros h' cur upd _ _ _ Hf q [= <-] _. cbn [q_body rq_put].
    eapply remove_finalizer_lacks; eauto.
Qed.

(* in general: an update whose body carries the finalizer is sent only when the cached
   parent is not being deleted, and on top of a fresh read that lacks the finalizer *)
Theorem C10_added_only_when_missing (G : call -> answer -> Prop) c parent h :
  safe G (fun h cl => forall q, cl = CApi q -> q_verb q = VUpdate ->
            has_finalizer (q_body q) (finalizer_name c) = true ->
            is_deleting parent = false /\ has_finalize c = true /\
            exists cur rest, h = (status_get c parent, AObj cur) :: rest /\
                             get_uid cur = get_uid parent /\
                             has_finalizer cur (finalizer_name c) = false)
       h (sync_finalizer c parent).
Proof.
  unfold sync_finalizer. cbv zeta.
  destruct (Bool.eqb _ _); [constructor|].
  destruct (has_finalize c) eqn:Hfz.
  - destruct (is_deleting parent) eqn:Hd; [constructor|].
    apply safeP_safe with (Post := TT).
    apply safeP_atomic_update with (h0 := h); auto with safe.
    + intros h' _. not_upd.
    + intros h' cur upd _ _ Hu Hf q [= <-] _ _. split; [reflexivity|]. split; [reflexivity|].
      exists cur, h'. split; [reflexivity|]. split; [exact Hu|]. eapply add_finalizer_lacked; eauto.
  - apply safeP_safe with (Post := TT).
    apply safeP_atomic_update with (h0 := h); auto with safe.
    + intros h' _. not_upd.
    + intros h' cur upd _ _ _ Hf q [= <-] _ Hb. cbn [q_body rq_put] in Hb.
      rewrite (remove_finalizer_lacks _ _ _ Hf) in Hb. discriminate.
Qed.

(* ================= (b) which hook is called, and with what ================= *)
Definition want_finalize (c : ccfg) (parent : json) : bool :=
  has_finalize c && (is_deleting parent || negb (sel_matches (p_selector c) (get_labels parent))).

Theorem C10_hook_choice (G : call -> answer -> Prop) c parent observed related h :
  safe G (fun _ cl => exists body,
            cl = CHook (if want_finalize c parent then HFinalize else HSync) body /\
            jget "finalizing" (obj_map body) = JBool (want_finalize c parent) /\
            jget "parent" (obj_map body) = parent)
       h (call_hook c parent observed related).
Proof.
  unfold call_hook. cbv zeta. fold (want_finalize c parent).
  destruct (negb (want_finalize c parent) && negb (has_sync c)); [constructor|].
  constructor.
  - eexists. split; [reflexivity|]. split; reflexivity.
  - intros a _. destruct a; try constructor. destruct (decode_composite body); constructor.
Qed.

Corollary C10_hook_kind_iff c parent hk body :
  (exists body', CHook hk body = CHook (if want_finalize c parent then HFinalize else HSync) body') ->
  (hk = HFinalize <-> want_finalize c parent = true).
Proof.
  intros [body' H]. inversion H; subst. destruct (want_finalize c parent); split; auto; discriminate.
Qed.

(* ================= calls of the claim phase ================= *)
(* every call is a read, or an update built on the read just before it that only
   touches ownerReferences: uid and finalizers are those of the object read *)
Definition claim_phi (h : hist) (cl : call) : Prop :=
  (exists q, cl = CApi q /\ q_verb q = VGet) \/
  (exists q getc cur rest,
     cl = CApi q /\ q_verb q = VUpdate /\ h = (getc, AObj cur) :: rest /\
     get_finalizers (q_body q) = get_finalizers cur /\ get_uid (q_body q) = get_uid cur).

Section Claim.
  Variable G : call -> answer -> Prop.

  Lemma claim_au h res ns name uid (g : json -> list oref) n :
    safeP G claim_phi TT h
      (atomic_update n res ns name uid false (fun cur => Some (set_owner_refs cur (g cur)))).
  Proof.
    apply safeP_atomic_update with (h0 := h); auto with safe.
    - intros h' _. left. eexists. split; reflexivity.
    - intros h' cur upd _ _ _ [= <-]. right. eexists _, _, cur, h'.
      split; [reflexivity|]. split; [reflexivity|]. split; [reflexivity|].
      cbn [q_body rq_put]. split; [apply get_finalizers_set_owner_refs|apply get_uid_set_owner_refs].
  Qed.

  Lemma claim_one_phi c kc p sel st o h : safeP G claim_phi TT h (claim_one c kc p sel st o).
  Proof.
    destruct st as [[once claimed] failed]. unfold claim_one. cbv zeta.
    destruct (claim_decision _ _ sel o).
    - constructor; exact I.
    - constructor; exact I.
    - eapply safeP_bind with (Q := TT); [apply claim_au with (g := fun cur => remove_owner_ref _ _)|].
      intros h' r _. destruct r as [o'|e]; [|destruct e]; constructor; exact I.
    - eapply safeP_bind with (Q := TT).
      + destruct once as [b|]; [constructor; exact I|].
        eapply safeP_bind with (Q := TT); [|intros; constructor; exact I].
        unfold can_adopt_check. eapply safeP_bind with (Q := TT).
        * apply safeP_api; [|auto]. left. eexists. split; reflexivity.
        * intros h' g _. destruct g; constructor; exact I.
      + intros h' [once' can] _. cbv beta iota.
        destruct (negb can); [constructor; exact I|].
        eapply safeP_bind with (Q := TT); [apply claim_au with (g := fun cur => add_owner_ref _ _)|].
        intros h'' r _. destruct r as [o'|e]; [|destruct e]; constructor; exact I.
  Qed.

  Theorem claim_children_phi c k p h : safeP G claim_phi TT h (claim_children c k p).
  Proof.
    unfold claim_children. destruct (make_selector c p) as [sel|]; [|constructor; exact I].
    apply safeP_foldM with (I := fun (_ : hist) (_ : option umap) => True); [exact I|].
    intros h' acc kc _ _. destruct acc as [m|]; [|constructor; exact I].
    eapply safeP_bind with (Q := TT).
    - apply safeP_foldM with (I := fun (_ : hist) (_ : option bool * list json * bool) => True); [exact I|].
      intros h'' st' o _ _. apply claim_one_phi.
    - intros h'' [[once claimed] failed] _. cbv beta iota. destruct failed; constructor; exact I.
  Qed.
End Claim.

(* ================= (c) no child is created before the parent carries the finalizer ================= *)
Section FinalizerBeforeChild.
  Variables (c : ccfg) (k : cache) (parent : json).
  Let fin := finalizer_name c.
  Hypothesis Hfz : has_finalize c = true.
  Hypothesis Huid : get_uid parent <> "".

  (* the API server returned the parent carrying the finalizer *)
  Definition seen_fin (h : hist) : Prop :=
    exists q o, In (CApi q, AObj o) h /\ targets_parent c parent q = true /\ has_finalizer o fin = true.
  (* the API server accepted an update of the parent whose body carries the finalizer *)
  Definition add_accepted (h : hist) : Prop :=
    exists q o, In (CApi q, AObj o) h /\ targets_parent c parent q = true /\ q_verb q = VUpdate /\
                has_finalizer (q_body q) fin = true.
  Definition W (h : hist) : Prop := has_finalizer parent fin = true \/ seen_fin h \/ add_accepted h.

  Definition is_create (cl : call) : Prop := exists q, cl = CApi q /\ q_verb q = VCreate.
  Definition C10_phi (h : hist) (cl : call) : Prop := is_create cl -> W h.

  (* environment assumption: a deletion timestamp is never taken back (same uid) *)
  Definition deletion_monotone (cl : call) (a : answer) : Prop :=
    match cl, a with
    | CApi q, AObj o =>
        targets_parent c parent q = true -> is_deleting parent = true ->
        get_uid o = get_uid parent -> is_deleting o = true
    | _, _ => True
    end.
  Definition G10 (cl : call) (a : answer) : Prop := sane cl a /\ deletion_monotone cl a.

  Lemma W_ext h h' : ext h h' -> W h -> W h'.
  Proof.
    intros [d ->] [H|[H|H]]; [left; exact H|right; left|right; right].
    - destruct H as (q & o & Hin & H1 & H2). exists q, o. split; [apply in_or_app; now right|auto].
    - destruct H as (q & o & Hin & H1 & H2). exists q, o. split; [apply in_or_app; now right|auto].
  Qed.

  Lemma safeP_W_any {R} (p : prog R) : forall h, W h -> safeP G10 C10_phi TT h p.
  Proof.
    induction p as [r|cl kont IH]; intros h Hw; constructor; [exact I|intros _; exact Hw|].
    intros a _. apply IH. eapply W_ext; [apply ext_step|exact Hw].
  Qed.

  Lemma phi_of_not_create h cl : ~ is_create cl -> C10_phi h cl.
  Proof. intros H Hc. contradiction. Qed.

  Lemma get_not_create res ns name : ~ is_create (CApi (rq_get res ns name)).
  Proof. intros (q & [= <-] & Hv). discriminate. Qed.
  Lemma put_not_create st res ns name body : ~ is_create (CApi (rq_put st res ns name body)).
  Proof. intros (q & [= <-] & Hv). destruct st; discriminate. Qed.
  Lemma hook_not_create hk body : ~ is_create (CHook hk body).
  Proof. intros (q & Hq & _). discriminate. Qed.

  Lemma claim_phi_not_create h cl : claim_phi h cl -> C10_phi h cl.
  Proof.
    intros H. apply phi_of_not_create. intros (q & -> & Hv).
    destruct H as [(q' & [= <-] & Hv')|(q' & g & cur & rest & [= <-] & Hv' & _)]; congruence.
  Qed.

  Lemma C11_phi_not_create p st h cl : C11_phi c p st h cl -> C10_phi h cl.
  Proof.
    intros H. apply phi_of_not_create.
    destruct H as [->|(cur & rest & _ & -> & _)]; [apply get_not_create|apply put_not_create].
  Qed.

  Lemma targets_get : targets_parent c parent (rq_get (p_res c) (pns c parent) (get_name parent)) = true.
  Proof. unfold targets_parent, pns. cbn [q_res q_name q_ns rq_get]. now rewrite !eqb_refl'. Qed.
  Lemma targets_put st body :
    targets_parent c parent (rq_put st (p_res c) (pns c parent) (get_name parent) body) = true.
  Proof. unfold targets_parent, pns. cbn [q_res q_name q_ns rq_put]. now rewrite !eqb_refl'. Qed.

  (* what is known about the parent the finalizer phase hands on *)
  Definition licence (h : hist) (p : json) : Prop :=
    W h \/ (p = parent /\ is_deleting parent = true /\ has_finalizer parent fin = false).

  Lemma sync_finalizer_c10 h :
    safeP G10 C10_phi (fun h1 fr => forall p1, fr = ROk p1 -> licence h1 p1) h (sync_finalizer c parent).
  Proof.
    unfold sync_finalizer. cbv zeta. rewrite Hfz. fold fin.
    destruct (has_finalizer parent fin) eqn:Ef; cbn [Bool.eqb].
    - constructor. intros p1 [= <-]. left. left. exact Ef.
    - destruct (is_deleting parent) eqn:Ed.
      + constructor. intros p1 [= <-]. right. auto.
      + fold (pns c parent).
        apply safeP_atomic_update with (h0 := h); auto with safe.
        * intros h' _. apply phi_of_not_create, get_not_create.
        * intros h' cur upd _ _ _ _. apply phi_of_not_create, put_not_create.
        * intros h' e _ p1 Hp. discriminate.
        * intros h' cur _ _ _ Hf p1 [= <-]. left. right. left.
          exists (rq_get (p_res c) (pns c parent) (get_name parent)), cur.
          split; [now left|]. split; [apply targets_get|]. eapply add_finalizer_none; eauto.
        * intros h' cur upd o _ _ Hu Hf _ p1 [= <-]. left. right. right.
          exists (rq_put false (p_res c) (pns c parent) (get_name parent) upd), o.
          split; [now left|]. split; [apply targets_put|]. split; [reflexivity|].
          cbn [q_body rq_put]. eapply add_finalizer_has; eauto. congruence.
  Qed.

  Lemma finish_sync_c10 p1 obs r h : licence h p1 -> safeP G10 C10_phi TT h (finish_sync c p1 obs r).
  Proof.
    intros [Hw|(-> & Hd & Ef)]; [now apply safeP_W_any|].
    unfold finish_sync.
    destruct (desired_map (hr_children r) []) as [desired0|]; [|constructor; exact I].
    eapply safeP_bind with (Q := TT).
    { destruct (positive_number (hr_resync r)); [|constructor; exact I].
      unfold note. constructor; [apply phi_of_not_create, hook_not_create|]. intros; constructor; exact I. }
    intros h1 _ _.
    eapply safeP_bind with
      (Q := fun h2 pr => forall p2, pr = ROk p2 ->
               W h2 \/ (is_deleting p2 = true /\ has_finalizer p2 fin = false)).
    { destruct (hr_finalized r); [|constructor; intros p2 [= <-]; right; auto].
      fold (pns c parent). fold fin.
      apply safeP_atomic_update with (h0 := h1); auto with safe.
      - intros h' _. apply phi_of_not_create, get_not_create.
      - intros h' cur upd _ _ _ _. apply phi_of_not_create, put_not_create.
      - intros h' e _ p2 Hp. discriminate.
      - intros h' cur _ [_ Hm] Hu Hf p2 [= <-]. right. split.
        + apply Hm; auto. apply targets_get.
        + eapply remove_finalizer_none; eauto.
      - intros h' cur upd o _ _ _ Hf _ p2 [= <-]. left. right. left.
        exists (rq_get (p_res c) (pns c parent) (get_name parent)), cur.
        split; [right; now left|]. split; [apply targets_get|]. eapply remove_finalizer_had; eauto. }
    intros h2 pr Hpr. destruct pr as [p2|e]; [|constructor; exact I].
    destruct (Hpr p2 eq_refl) as [Hw|[Hd2 Ef2]]; [now apply safeP_W_any|].
    destruct (make_selector c p2) as [sel|]; [|constructor; exact I].
    destruct (enforce_labels c p2 sel (uobjects desired0)) as [ds|]; [|constructor; exact I].
    cbv zeta.
    assert (Hskip : negb (is_deleting p2) || should_finalize c p2 = false).
    { rewrite Hd2. cbn [negb orb]. unfold should_finalize. fold fin. rewrite Ef2. cbn [negb].
      destruct (has_gc_finalizer p2); reflexivity. }
    rewrite Hskip.
    eapply safeP_bind with (Q := TT); [constructor; exact I|].
    intros h3 failed _.
    eapply safeP_bind with (Q := TT).
    - eapply safeP_conseq; [intros cl a H; exact H| |intros hh rr H; exact H|
        apply safe_safeP; apply (C11_status_calls G10 c p2 (hr_status r))].
      intros hh cl. apply C11_phi_not_create.
    - intros h4 sr _. destruct sr as [o|e]; [|destruct e]; constructor; exact I.
  Qed.

  (* a child is created only if the parent carries the finalizer: as cached, or as the
     API server returned it earlier in this sync, or after the add-finalizer update was
     accepted earlier in this sync *)
  Theorem C10_finalizer_before_child h : safe G10 C10_phi h (sync_parent_object c k parent).
  Proof.
    apply safeP_safe with (Post := TT).
    unfold sync_parent_object.
    destruct (ignores_parent c parent); [constructor; exact I|].
    eapply safeP_bind; [apply sync_finalizer_c10|].
    cbv beta. intros h1 fr Hfr. destruct fr as [p1|e]; [|constructor; exact I].
    pose proof (Hfr p1 eq_refl) as Hl1.
    destruct (ignores_parent c p1); [constructor; exact I|].
    eapply safeP_bind_ext with (Q := TT).
    { eapply safeP_conseq; [intros cl a H; exact H|apply claim_phi_not_create|intros hh rr H; exact H|
        apply claim_children_phi]. }
    intros h2 oc He2 _. destruct oc as [observed|]; [|constructor; exact I].
    assert (Hl2 : licence h2 p1).
    { destruct Hl1 as [Hw|Hr]; [left; eapply W_ext; eauto|right; exact Hr]. }
    unfold related_phase. cbn [bind]. unfold hook_phase.
    eapply safeP_bind_ext with (Q := TT).
    { unfold call_hook. cbv zeta.
      destruct (negb _ && negb (has_sync c)); [constructor; exact I|].
      constructor; [apply phi_of_not_create, hook_not_create|].
      intros a _. destruct a; try (constructor; exact I).
      destruct (decode_composite body); constructor; exact I. }
    intros h3 hr He3 _. destruct hr as [| |n|r]; try (constructor; exact I).
    apply finish_sync_c10.
    destruct Hl2 as [Hw|Hr]; [left; eapply W_ext; eauto|right; exact Hr].
  Qed.

  (* boolean reading of W, for evaluation on recorded histories *)
  Definition W_b (h : hist) : bool :=
    has_finalizer parent fin ||
    existsb (fun ca => match ca with
                       | (CApi q, AObj o) =>
                           targets_parent c parent q &&
                           (has_finalizer o fin || (verb_eqb (q_verb q) VUpdate && has_finalizer (q_body q) fin))
                       | _ => false end) h.

  Lemma W_b_complete h : W h -> W_b h = true.
  Proof.
    unfold W_b. intros [H|[H|H]]; [now rewrite H| |];
      destruct H as (q & o & Hin & Ht & H); apply Bool.orb_true_iff; right;
      apply existsb_exists; exists (CApi q, AObj o); (split; [exact Hin|]); rewrite Ht; cbn [andb].
    - now rewrite H.
    - destruct H as [-> Hb]. rewrite Hb. cbn. apply Bool.orb_true_r.
  Qed.
End FinalizerBeforeChild.

(* ================= (d) where the finalizer can be removed ================= *)
(* sync_finalizer with a finalize hook configured never removes a finalizer: every
   update keeps each finalizer of the object read just before *)
Theorem C10_sync_finalizer_keeps (G : call -> answer -> Prop) c parent h :
  has_finalize c = true ->
  safe G (fun h cl => forall q, cl = CApi q -> q_verb q = VUpdate ->
            exists cur rest, h = (status_get c parent, AObj cur) :: rest /\
              forall f, has_finalizer cur f = true -> has_finalizer (q_body q) f = true)
       h (sync_finalizer c parent).
Proof.
  intros Hfz. unfold sync_finalizer. cbv zeta. rewrite Hfz.
  destruct (Bool.eqb _ _); [constructor|].
  destruct (is_deleting parent); [constructor|].
  apply safeP_safe with (Post := TT).
  apply safeP_atomic_update with (h0 := h); auto with safe.
  - intros h' _. not_upd.
  - intros h' cur upd _ _ _ Hf q [= <-] _. exists cur, h'. split; [reflexivity|].
    intros f Hc. cbn [q_body rq_put]. eapply add_finalizer_keeps; eauto.
Qed.

(* the removal in sync_finalizer happens only without a finalize hook: with
   has_finalize c = false every update body is "cur minus our finalizer" *)
Theorem C10_sync_finalizer_removes_only_without_hook (G : call -> answer -> Prop) c parent h :
  safe G (fun h cl => forall q, cl = CApi q -> q_verb q = VUpdate ->
            forall cur rest, h = (status_get c parent, AObj cur) :: rest ->
            has_finalizer cur (finalizer_name c) = true ->
            has_finalizer (q_body q) (finalizer_name c) = false ->
            has_finalize c = false)
       h (sync_finalizer c parent).
Proof.
  destruct (has_finalize c) eqn:Hfz.
  - eapply safeP_safe. eapply safeP_conseq;
      [intros cl a H; exact H| |intros hh rr H; exact H|
       apply safe_safeP; apply (C10_sync_finalizer_keeps G c parent h Hfz)].
    cbv beta. intros hh cl H q Hq Hv cur rest Hh Hc Hb.
    destruct (H q Hq Hv) as (cur' & rest' & Hh' & Hk). rewrite Hh in Hh'. inversion Hh'; subst cur' rest'.
    rewrite (Hk _ Hc) in Hb. discriminate.
  - apply safeP_safe with (Post := TT). eapply safeP_conseq;
      [intros cl a H; exact H| |intros hh rr H; exact H|apply (safe_safeP G (fun _ _ => True))].
    + intros; reflexivity.
    + clear. generalize (sync_finalizer c parent). intros p. revert h.
      induction p as [r|cl kont IH]; intros h; constructor; auto.
Qed.

(* finish_sync removes the finalizer only when the hook answered finalized = true:
   otherwise its finalizer step is the identity ... *)
Theorem C10_finish_no_removal_unless_finalized c parent observed r (e : env) h :
  hr_finalized r = false ->
  run (finish_sync c parent observed r) e h =
  run (match desired_map (hr_children r) [] with
       | None => Ret SPanic
       | Some desired0 =>
           _ <~ (if positive_number (hr_resync r) then note "resync" (hr_resync r) else Ret tt) ;;
           match make_selector c parent with
           | None => Ret SErr
           | Some sel =>
               match enforce_labels c parent sel (uobjects desired0) with
               | None => Ret SErr
               | Some ds => after_labels c parent observed r ds
               end
           end
       end) e h.
Proof.
  intros Hf. rewrite finish_sync_run. rewrite Hf.
  destruct (desired_map (hr_children r) []); [|reflexivity].
  apply bind_ext. intros _ e1 h1. reflexivity.
Qed.

(* ... and the other parent writes of the sync (status) and the writes of the claim
   phase leave finalizers as they were read *)
Theorem C10_status_keeps_finalizers c parent st h cl :
  C11_phi c parent st h cl -> forall q, cl = CApi q -> q_verb q <> VGet ->
  exists cur rest, h = (status_get c parent, AObj cur) :: rest /\
                   get_finalizers (q_body q) = get_finalizers (JObj (obj_map cur)).
Proof.
  intros [->|(cur & rest & Hh & -> & _)] q Hq Hv.
  - inversion Hq; subst q. cbn in Hv. congruence.
  - inversion Hq; subst q. exists cur, rest. split; [exact Hh|].
    cbn [q_body rq_put]. apply get_finalizers_set_status.
Qed.

Theorem C10_claim_keeps_finalizers (G : call -> answer -> Prop) c k p h :
  safe G (fun h cl => forall q, cl = CApi q -> q_verb q = VUpdate ->
            exists getc cur rest, h = (getc, AObj cur) :: rest /\
                                  get_finalizers (q_body q) = get_finalizers cur)
       h (claim_children c k p).
Proof.
  eapply safeP_safe. eapply safeP_conseq;
    [intros cl a H; exact H| |intros hh rr H; exact H|apply (claim_children_phi G c k p h)].
  cbv beta. intros hh cl [(q' & -> & Hv')|(q' & g & cur & rest & -> & _ & Hh & Hfin & _)] q [= <-] Hv.
  - congruence.
  - eauto.
Qed.

(* the only program points that can send a parent update lacking the finalizer that the
   object read before carried: sync_finalizer when has_finalize c = false, and the
   finalizer step of finish_sync when hr_finalized r = true *)
Definition C10_removed_only_after_finalized :=
  (C10_sync_finalizer_removes_only_without_hook, C10_finish_no_removal_unless_finalized,
   C10_status_keeps_finalizers, C10_claim_keeps_finalizers).

Print Assumptions C10_no_call_when_deleting.
Print Assumptions C10_never_added_when_deleting.
Print Assumptions C10_added_only_when_missing.
Print Assumptions C10_hook_choice.
Print Assumptions C10_finalizer_before_child.
Print Assumptions C10_removed_only_after_finalized.

(* ================= counterexamples around (c) ================= *)
Definition is_create_b (cl : call) : bool :=
  match cl with CApi q => verb_eqb (q_verb q) VCreate | _ => false end.

Lemma C10_phi_bool c parent (l : list (hist * call)) :
  Forall (fun hc => C10_phi c parent (fst hc) (snd hc)) l ->
  forallb (fun hc => negb (is_create_b (snd hc)) || W_b c parent (fst hc)) l = true.
Proof.
  intros H. apply forallb_forall. intros [h cl] Hin. rewrite Forall_forall in H.
  specialize (H _ Hin). cbn [fst snd] in *.
  destruct (is_create_b cl) eqn:Ec; [|reflexivity]. cbn [negb orb].
  apply W_b_complete. apply H. destruct cl as [q|]; [|discriminate].
  exists q. split; [reflexivity|]. cbn in Ec. destruct (q_verb q); try discriminate. reflexivity.
Qed.

Module C10Counterexample.
  Definition kid := mkChild "v1" "things" "Thing" false "".
  Definition cfg : ccfg :=
    mkCfg "cc" "v1" "Parent" "parents" false true true sel_everything [kid] true true [kid] false false [["spec"]] [].
  Definition pmeta (extra : list (string * json)) : json :=
    JObj [("apiVersion", JStr "v1"); ("kind", JStr "Parent");
          ("metadata", JObj ([("name", JStr "p"); ("uid", JStr "u1")] ++ extra))].
  Definition thing : json :=
    JObj [("apiVersion", JStr "v1"); ("kind", JStr "Thing"); ("metadata", JObj [("name", JStr "t")])].
  Definition env_of (live : json) (hook : json) : env :=
    fun _ cl => match cl with
                | CHook _ _ => AHook hook
                | CApi q =>
                    match q_verb q with
                    | VGet => if String.eqb (q_res q) "parents.v1" && String.eqb (q_name q) "p" && String.eqb (q_ns q) ""
                              then AObj live else AFail ENotFound
                    | _ => AFail EOther
                    end
                end.
  Lemma env_sane live hook : get_name live = "p" -> get_ns live = "" ->
    forall h cl, sane cl (env_of live hook h cl).
  Proof.
    intros Hn Hns h [q|hk b]; [|exact I]. unfold env_of, sane.
    destruct (q_verb q); try exact I.
    destruct (_ && _) eqn:E; [|exact I].
    apply Bool.andb_true_iff in E as [E E3]. apply Bool.andb_true_iff in E as [E1 E2].
    apply String.eqb_eq in E2, E3. split; congruence.
  Qed.

  (* 1: cached parent is being deleted and lacks the finalizer; the finalize hook answers
     finalized with a child; the server then shows the parent (same uid) as not deleting *)
  Definition parent1 := pmeta [("deletionTimestamp", JStr "2026-01-01T00:00:00Z")].
  Definition k1 := mkCache (Some parent1) [].
  Definition e1 := env_of (pmeta []) (JObj [("finalized", JBool true); ("children", JArr [thing])]).

  (* 2: stale cache: the cached parent lacks the finalizer, the live one already has it *)
  Definition parent2 := pmeta [].
  Definition k2 := mkCache (Some parent2) [].
  Definition live2 := pmeta [("finalizers", JArr [JStr "metacontroller.io/compositecontroller-cc"])].
  Definition e2 := env_of live2 (JObj [("children", JArr [thing])]).
End C10Counterexample.

(* without the assumption that a deletion timestamp is never taken back, (c) fails *)
Example C10_needs_deletion_monotone :
  exists c k parent,
    has_finalize c = true /\ get_uid parent <> "" /\
    ~ safe sane (C10_phi c parent) [] (sync_parent_object c k parent).
Proof.
  exists C10Counterexample.cfg, C10Counterexample.k1, C10Counterexample.parent1.
  split; [reflexivity|]. split; [vm_compute; discriminate|].
  intros Hs. apply safe_run with (e := C10Counterexample.e1) in Hs;
    [|apply C10Counterexample.env_sane; reflexivity].
  apply C10_phi_bool in Hs. vm_compute in Hs. discriminate.
Qed.

(* the stricter reading "cached with the finalizer, or after an accepted update of the
   parent whose returned object has it" (TracePreds.C10_round, child-created-before-finalizer)
   does not hold of the model: with a stale cache the fresh read already shows the
   finalizer, nothing is written, and children are created *)
Definition strict_b (c : ccfg) (parent : json) (h : hist) : bool :=
  has_finalizer parent (finalizer_name c) ||
  existsb (fun ca => match ca with
                     | (CApi q, AObj o) => targets_parent c parent q && verb_eqb (q_verb q) VUpdate &&
                                           has_finalizer o (finalizer_name c)
                     | _ => false end) h.

Example C10_strict_reading_fails_on_stale_cache :
  let c := C10Counterexample.cfg in
  let parent := C10Counterexample.parent2 in
  let e := C10Counterexample.e2 in
  (forall h cl, G10 c parent cl (e h cl)) /\
  forallb (fun hc => negb (is_create_b (snd hc)) || strict_b c parent (fst hc))
          (calls_with_history (fst (run (sync_parent_object c C10Counterexample.k2 parent) e []))) = false /\
  forallb (fun hc => negb (is_create_b (snd hc)) || W_b c parent (fst hc))
          (calls_with_history (fst (run (sync_parent_object c C10Counterexample.k2 parent) e []))) = true.
Proof.
  cbv zeta. split; [|split; vm_compute; reflexivity].
  intros h cl. split; [apply C10Counterexample.env_sane; reflexivity|].
  destruct cl as [q|hk b]; [|exact I]. unfold deletion_monotone.
  destruct (C10Counterexample.e2 h (CApi q)); try exact I. intros _ Hd. vm_compute in Hd. discriminate.
Qed.

Print Assumptions C10_needs_deletion_monotone.
Print Assumptions C10_strict_reading_fails_on_stale_cache.
