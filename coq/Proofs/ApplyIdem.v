(* ApplyIdem.v — idempotence of merge under H, list maps included.
   The statement as given is FALSE (counterexamples idempotent_cex,
   idempotent_cex_nested, idempotent_cex_rekey in ApplyIdemCore.v: an explicit
   null in desired facing an observed list map).  Proved here: the strongest
   variant, with the extra hypothesis null_ok (ApplyIdemCore.v: hereditarily
   along desired, an explicit null never faces an observed array in which a
   conventional merge key is detected), and with Leibniz equality of the two
   results.  The list-map-free instance idempotent_nolistmap is in
   ApplyIdemCore.v, merge_self (merge d d d = d) in ApplyIdemLM.v. *)
From MC Require Import Generated Model.Json Model.Apply Model.ApplyLaws.
From MC Require Import Proofs.AssocLemmas Proofs.AssocLemmas2 Proofs.ApplyProofs Proofs.ApplyBase.
From MC Require Import Proofs.ApplyCore Proofs.ApplyListMap Proofs.ApplyListMapCtx Proofs.ApplyListMapLaws.
From MC Require Import Proofs.ApplyContain Proofs.ApplyIdemCore Proofs.ApplyIdemLM Proofs.ApplyWf.
Local Open Scope list_scope.

Definition null_ok_items (key : string) (ol ll dl : list json) : bool :=
  forallb (fun it => match item_key key it with
                     | Some k => null_ok it (find_item_or_null key k ol) (find_item_or_null key k ll)
                     | None => true end) dl.

Lemma null_ok_arr dl o l :
  null_ok (JArr dl) o l =
  match detect_key (arr_or_nil o) (arr_or_nil l) dl with
  | None => true
  | Some key => null_ok_items key (arr_or_nil o) (arr_or_nil l) dl
  end.
Proof. reflexivity. Qed.

Lemma null_ok_X_obj dm o l k dv :
  null_ok (JObj dm) o l = true -> In (k, dv) dm ->
  null_ok dv (jget k (obj_or_nil o)) (jget k (obj_or_nil l)) = true.
Proof. rewrite null_ok_obj. intros H Hin. apply (forallb_In _ _ _ H Hin). Qed.

Lemma null_ok_X_null ol l :
  null_ok JNull (JArr ol) l = true -> detect_key ol (arr_or_nil l) [] = None.
Proof. cbn [null_ok]. destruct (detect_key ol (arr_or_nil l) []); [discriminate|reflexivity]. Qed.

Lemma idem_lm sl ol l key r :
  Forall (idem_stmt null_ok) sl -> idem_hyps null_ok (JArr sl) (JArr ol) l ->
  detect_key ol (arr_or_nil l) sl = Some key ->
  merge (JArr sl) (JArr ol) l = Ok r -> merge (JArr sl) r (JArr sl) = Ok r.
Proof.
  intros IH HH E Hm. pose proof HH as (Hs & Hh & Hw & Hwo & Hwl & HX).
  destruct (lm_setup _ _ _ _ _ E Hh Hm) as (dmap & lmap & merged & F & H1 & H2 & H3 & ->).
  destruct (Hb'_arr_inv _ _ _ _ E Hh) as (Wo & _ & Ws & Cx & _ & _ & Hit).
  rewrite null_ok_arr in HX. cbn [arr_or_nil] in HX. rewrite E in HX.
  assert (Hcontain : forall s k r, In s sl -> item_key key s = Some k ->
            merge s (find_item_or_null key k ol) (find_item_or_null key k (arr_or_nil l)) = Ok r ->
            containsb s r = true) by (eapply items_contain; eauto).
  assert (Hidem : forall s k r, In s sl -> item_key key s = Some k ->
            merge s (find_item_or_null key k ol) (find_item_or_null key k (arr_or_nil l)) = Ok r ->
            merge s r s = Ok r).
  { intros s k r Hin Hk Hr. rewrite Forall_forall in IH. apply (IH s Hin _ _ _) in Hr; auto.
    repeat split.
    - rewrite self_wf_arr in Hs. apply andb_split in Hs as [_ Hs]. apply (forallb_In _ _ _ Hs Hin).
    - eapply Hb'_items_In; eauto.
    - apply (wf_arr_In sl s Hw Hin).
    - now apply wf_find_item_or_null.
    - apply wf_find_item_or_null. now apply wf_arr_or_nil.
    - unfold null_ok_items in HX. pose proof (forallb_In _ _ _ HX Hin) as Hn. cbv beta in Hn.
      now rewrite Hk in Hn. }
  destruct (detect_key (lm_res key ol sl merged) sl sl) as [key'|] eqn:E'.
  - eapply lm_second; eauto.
  - rewrite (lm_second_none key ol (arr_or_nil l) sl dmap lmap merged F H1 H2 H3 Hcontain Hidem Ws Cx E').
    now apply merge_self.
Qed.

(* ===== 5. idempotence (partial: with null_ok) ===== *)
Theorem idempotent_partial : forall d o l r,
  null_ok d o l = true ->
  Hb d o l = true -> wf_json d = true -> wf_json o = true -> wf_json l = true ->
  merge d o l = Ok r -> merge d r d = Ok r.
Proof.
  intros d o l r HX Hh Hw Hwo Hwl Hm. unfold Hb in Hh. apply andb_split in Hh as [Hs Hh].
  eapply (idem_core null_ok null_ok_X_obj null_ok_X_null); eauto.
  - intros d0 o0 l0 Hs0 Hw0 _. now apply merge_self.
  - intros sl ol l0 key r0 IH HH E Hm0. eapply idem_lm; eauto.
  - repeat split; auto.
Qed.

(* in the shape of the original statement, with Leibniz equality of the results *)
Corollary idempotent_partial_ex : forall d o l r,
  null_ok d o l = true ->
  Hb d o l = true -> wf_json d = true -> wf_json o = true -> wf_json l = true ->
  merge d o l = Ok r -> exists r', merge d r d = Ok r' /\ r' = r.
Proof.
  intros d o l r HX Hh Hw Hwo Hwl Hm. exists r.
  split; [eapply idempotent_partial; eauto|reflexivity].
Qed.

(* exactly the original conclusion (order-insensitive equality) *)
Corollary idempotent_partial_jeqb : forall d o l r,
  null_ok d o l = true ->
  Hb d o l = true -> wf_json d = true -> wf_json o = true -> wf_json l = true ->
  merge d o l = Ok r -> exists r', merge d r d = Ok r' /\ jeqb r r' = true.
Proof.
  intros d o l r HX Hh Hw Hwo Hwl Hm. exists r.
  split; [eapply idempotent_partial; eauto|].
  apply jeqb_refl. apply (merge_wf d o l r Hw Hwo Hm).
Qed.

Print Assumptions idempotent_partial.
Print Assumptions idempotent_partial_jeqb.
