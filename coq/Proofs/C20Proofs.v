(* C20Proofs.v — proofs about Model/Meta.v: the reconcile loops hosting
   controller instances over the shared informer factory.  The factory and
   every list of subscriptions are reasoned about through [cnt] only. *)
From MC Require Import Model.Meta.
From Coq Require Import Lia Arith Bool List String ZArith Setoid.
Import ListNotations.

(* ================================================================== *)
(* 0. the comparison of specs is equality                              *)

Lemma list_eqb_eq {A} (e : A -> A -> bool) :
  (forall a b, e a b = true <-> a = b) ->
  forall l1 l2, list_eqb e l1 l2 = true <-> l1 = l2.
Proof.
  intros He. induction l1 as [|x l1 IH]; destruct l2 as [|y l2]; simpl;
    try (split; congruence).
  rewrite andb_true_iff, He, IH. split.
  - intros [-> ->]. reflexivity.
  - intro H. inversion H. auto.
Qed.

Lemma opt_eqb_eq {A} (e : A -> A -> bool) :
  (forall a b, e a b = true <-> a = b) ->
  forall o1 o2, opt_eqb e o1 o2 = true <-> o1 = o2.
Proof.
  intros He [x|] [y|]; simpl; try (split; congruence).
  rewrite He. split; congruence.
Qed.

Lemma svc_eqb_eq : forall a b, svc_eqb a b = true <-> a = b.
Proof.
  intros [a1 a2 a3 a4] [b1 b2 b3 b4]. unfold svc_eqb. simpl.
  rewrite !andb_true_iff, !Bool.eqb_true_iff. split.
  - intros [[[-> ->] ->] ->]. reflexivity.
  - intro H. inversion H. auto.
Qed.

Lemma tmo_eqb_eq : forall a b, tmo_eqb a b = true <-> a = b.
Proof. intros [] []; simpl; split; congruence. Qed.

Lemma etag_eqb_eq : forall a b, etag_eqb a b = true <-> a = b.
Proof.
  intros [| | |x y] [| | |x' y']; simpl; try (split; congruence).
  rewrite andb_true_iff, !Bool.eqb_true_iff. split.
  - intros [-> ->]. reflexivity.
  - intro H. inversion H. auto.
Qed.

Lemma wh_eqb_eq : forall a b, wh_eqb a b = true <-> a = b.
Proof.
  intros [a1 a2 a3 a4 a5] [b1 b2 b3 b4 b5]. unfold wh_eqb. simpl.
  rewrite !andb_true_iff, !Bool.eqb_true_iff, (opt_eqb_eq _ svc_eqb_eq), tmo_eqb_eq, etag_eqb_eq.
  split.
  - intros [[[[-> ->] ->] ->] ->]. reflexivity.
  - intro H. inversion H. auto 6.
Qed.

Lemma hook_eqb_eq : forall a b, hook_eqb a b = true <-> a = b.
Proof.
  intros [| |x] [| |y]; simpl; try (split; congruence).
  rewrite wh_eqb_eq. split; congruence.
Qed.

Lemma hooks_eqb_eq : forall a b, hooks_eqb a b = true <-> a = b.
Proof.
  intros [a1 a2 a3] [b1 b2 b3]. unfold hooks_eqb. simpl.
  rewrite !andb_true_iff, !hook_eqb_eq. split.
  - intros [[-> ->] ->]. reflexivity.
  - intro H. inversion H. auto.
Qed.

Lemma rule_eqb_eq : forall a b, rule_eqb a b = true <-> a = b.
Proof.
  intros [a1 a2 a3 a4] [b1 b2 b3 b4]. unfold rule_eqb. simpl.
  rewrite !andb_true_iff, !Bool.eqb_true_iff, String.eqb_eq. split.
  - intros [[[-> ->] ->] ->]. reflexivity.
  - intro H. inversion H. auto.
Qed.

Lemma spec_eqb_eq : forall a b, spec_eqb a b = true <-> a = b.
Proof.
  intros [a1 a2 a3 a4] [b1 b2 b3 b4]. unfold spec_eqb. simpl.
  rewrite !andb_true_iff, Z.eqb_eq, !(list_eqb_eq _ rule_eqb_eq), (opt_eqb_eq _ hooks_eqb_eq).
  split.
  - intros [[[-> ->] ->] ->]. reflexivity.
  - intro H. inversion H. auto.
Qed.

Lemma spec_eqb_refl : forall s, spec_eqb s s = true.
Proof. intro s. apply spec_eqb_eq. reflexivity. Qed.

Lemma spec_eqb_sym : forall a b, spec_eqb a b = true -> spec_eqb b a = true.
Proof. intros a b H. apply spec_eqb_eq in H. subst. apply spec_eqb_refl. Qed.

(* ================================================================== *)
(* 1. multisets of resource keys through cnt                            *)

Lemma cnt_app : forall k a b, cnt k (a ++ b)%list = cnt k a + cnt k b.
Proof.
  intros k a b. induction a as [|x a IH]; simpl; [reflexivity|]. rewrite IH. lia.
Qed.

Lemma memb_false_cnt : forall r l, memb r l = false -> cnt r l = 0.
Proof.
  intros r l. unfold memb. induction l as [|x l IH]; simpl; intro H; [reflexivity|].
  apply orb_false_iff in H. destruct H as [H1 H2]. rewrite H1. simpl. auto.
Qed.

Lemma memb_true_cnt : forall r l, memb r l = true -> 0 < cnt r l.
Proof.
  intros r l. unfold memb. induction l as [|x l IH]; simpl; intro H; [discriminate|].
  destruct (String.eqb r x) eqn:E; simpl in *; [lia|auto].
Qed.

Lemma not_in_cnt : forall r l, ~ In r l -> cnt r l = 0.
Proof.
  intros r l. induction l as [|x l IH]; simpl; intro H; [reflexivity|].
  destruct (String.eqb r x) eqn:E.
  - apply String.eqb_eq in E. subst. tauto.
  - simpl. apply IH. tauto.
Qed.

Lemma nodupb_cnt : forall l, nodupb l = true <-> forall k, cnt k l <= 1.
Proof.
  induction l as [|x l IH]; simpl.
  - split; auto.
  - rewrite andb_true_iff, negb_true_iff, IH. split.
    + intros [M N] k. destruct (String.eqb k x) eqn:E.
      * apply String.eqb_eq in E. subst. rewrite (memb_false_cnt _ _ M). lia.
      * specialize (N k). lia.
    + intro H. split.
      * destruct (memb x l) eqn:M; [|reflexivity]. apply memb_true_cnt in M.
        specialize (H x). rewrite String.eqb_refl in H. lia.
      * intro k. specialize (H k). lia.
Qed.

Lemma release_cnt : forall r f g, release r f = Some g ->
  forall k, cnt k g + (if String.eqb k r then 1 else 0) = cnt k f.
Proof.
  intros r. induction f as [|x f IH]; simpl; intros g H k; [discriminate|].
  destruct (String.eqb r x) eqn:E.
  - inversion H; subst. apply String.eqb_eq in E. subst. lia.
  - destruct (release r f) as [g'|] eqn:Er; [|discriminate]. inversion H; subst. simpl.
    specialize (IH _ eq_refl k). lia.
Qed.

Lemma release_ex : forall r f, 0 < cnt r f -> exists g, release r f = Some g.
Proof.
  intros r. induction f as [|x f IH]; simpl; intro H; [lia|].
  destruct (String.eqb r x); [eauto|]. simpl in H. destruct (IH H) as [g Hg]. rewrite Hg. eauto.
Qed.

Lemma release_all_cnt : forall l f g, release_all l f = Some g ->
  forall k, cnt k g + cnt k l = cnt k f.
Proof.
  induction l as [|a l IH]; simpl; intros f g H k.
  - inversion H; subst. lia.
  - destruct (release a f) as [f'|] eqn:Er; [|discriminate].
    specialize (IH _ _ H k). pose proof (release_cnt _ _ _ Er k). lia.
Qed.

Lemma release_all_ex : forall l f, (forall k, cnt k l <= cnt k f) -> exists g, release_all l f = Some g.
Proof.
  induction l as [|a l IH]; simpl; intros f H; [eauto|].
  destruct (release_ex a f) as [g Hg].
  { specialize (H a). rewrite String.eqb_refl in H. lia. }
  rewrite Hg. apply IH. intro k. pose proof (release_cnt _ _ _ Hg k). specialize (H k). lia.
Qed.

(* ---- InformerMap.Set and the constructor loops ------------------------------------ *)

Lemma imap_set_eq : forall k r m, memb r m = false ->
  cnt k (imap_set r m) = cnt k m + (if String.eqb k r then 1 else 0).
Proof.
  intros k r m M. unfold imap_set. rewrite M, cnt_app. simpl. lia.
Qed.

(* a resource already in the map is skipped, so the map holds exactly what was acquired *)
Lemma open_informers_cnt : forall rs m f f' m' ok,
  open_informers rs m f = (f', m', ok) ->
  forall k, cnt k m' + cnt k f = cnt k m + cnt k f'.
Proof.
  induction rs as [|r rs IH]; simpl; intros m f f' m' ok H k.
  - inversion H; subst. lia.
  - destruct (memb (ru_key r) m) eqn:M; [exact (IH _ _ _ _ _ H k)|].
    destruct (can_subscribe f r).
    + pose proof (IH _ _ _ _ _ H k) as B. unfold acquire in B. simpl in B.
      rewrite (imap_set_eq _ _ _ M) in B. lia.
    + inversion H; subst. lia.
Qed.

(* ================================================================== *)
(* 2. the controller map                                                *)

Definition subs_of (m : list (cname * inst)) : list rkey :=
  flat_map (fun ni => inst_subs (snd ni)) m.

Lemma subs_of_cons : forall x j m, subs_of ((x, j) :: m) = (inst_subs j ++ subs_of m)%list.
Proof. reflexivity. Qed.

Lemma subs_of_app : forall a b, subs_of (a ++ b)%list = (subs_of a ++ subs_of b)%list.
Proof.
  intros a b. induction a as [|[x j] a IH]; [reflexivity|].
  rewrite <- app_comm_cons, !subs_of_cons, IH, app_assoc. reflexivity.
Qed.

Lemma cnt_name_fst : forall n m, cnt_name n m = cnt n (map fst m).
Proof.
  intros n m. induction m as [|[x j] m IH]; simpl; [reflexivity|]. rewrite IH. reflexivity.
Qed.

Lemma one_per_name_iff : forall st,
  one_per_nameb st = true <-> forall n, cnt_name n (insts st) <= 1.
Proof.
  intro st. unfold one_per_nameb. rewrite nodupb_cnt. split; intros H n.
  - rewrite cnt_name_fst. apply H.
  - rewrite <- cnt_name_fst. apply H.
Qed.

Lemma cnt_name_app : forall n a b, cnt_name n (a ++ b)%list = cnt_name n a + cnt_name n b.
Proof.
  intros n a b. induction a as [|[x j] a IH]; simpl; [reflexivity|]. rewrite IH. lia.
Qed.

Lemma cnt_name_iremove : forall n' n m,
  cnt_name n' (iremove n m) = if String.eqb n' n then 0 else cnt_name n' m.
Proof.
  intros n' n m. induction m as [|[x j] m IH]; simpl.
  - destruct (String.eqb n' n); reflexivity.
  - destruct (String.eqb n x) eqn:E.
    + apply String.eqb_eq in E. subst x. rewrite IH. destruct (String.eqb n' n); reflexivity.
    + simpl. rewrite IH. destruct (String.eqb n' n) eqn:E2; [|reflexivity].
      apply String.eqb_eq in E2. subst n'. rewrite E. reflexivity.
Qed.

Lemma cnt_name_iset : forall n' n i m,
  cnt_name n' (iset n i m) = if String.eqb n' n then 1 else cnt_name n' m.
Proof.
  intros n' n i m. unfold iset. rewrite cnt_name_app, cnt_name_iremove. simpl.
  destruct (String.eqb n' n); lia.
Qed.

Lemma cnt_name_0_ifind : forall n m, cnt_name n m = 0 -> ifind n m = None.
Proof.
  intros n m. induction m as [|[x j] m IH]; simpl; intro H; [reflexivity|].
  destruct (String.eqb n x); [simpl in H; lia|]. apply IH. lia.
Qed.

Lemma ifind_iremove_same : forall n m, ifind n (iremove n m) = None.
Proof.
  intros n m. apply cnt_name_0_ifind. rewrite cnt_name_iremove, String.eqb_refl. reflexivity.
Qed.

Lemma ifind_iremove_other : forall n' n m, n' <> n -> ifind n' (iremove n m) = ifind n' m.
Proof.
  intros n' n m N. induction m as [|[x j] m IH]; simpl; [reflexivity|].
  destruct (String.eqb n x) eqn:E.
  - apply String.eqb_eq in E. subst x. apply String.eqb_neq in N. rewrite N. exact IH.
  - simpl. rewrite IH. reflexivity.
Qed.

Lemma ifind_none_iremove : forall n m, ifind n m = None -> iremove n m = m.
Proof.
  intros n m. induction m as [|[x j] m IH]; simpl; intro H; [reflexivity|].
  destruct (String.eqb n x); [discriminate|]. rewrite (IH H). reflexivity.
Qed.

Lemma iremove_idem : forall n m, iremove n (iremove n m) = iremove n m.
Proof. intros n m. apply ifind_none_iremove, ifind_iremove_same. Qed.

Lemma ifind_app : forall n a b,
  ifind n (a ++ b)%list = match ifind n a with Some i => Some i | None => ifind n b end.
Proof.
  intros n a b. induction a as [|[x j] a IH]; simpl; [reflexivity|].
  destruct (String.eqb n x); [reflexivity|exact IH].
Qed.

Lemma iremove_app : forall n a b, iremove n (a ++ b)%list = (iremove n a ++ iremove n b)%list.
Proof.
  intros n a b. induction a as [|[x j] a IH]; simpl; [reflexivity|].
  destruct (String.eqb n x); rewrite IH; reflexivity.
Qed.

Lemma ifind_iset_same : forall n i m, ifind n (iset n i m) = Some i.
Proof.
  intros n i m. unfold iset. rewrite ifind_app, ifind_iremove_same. simpl.
  rewrite String.eqb_refl. reflexivity.
Qed.

Lemma ifind_iset_other : forall n' n i m, n' <> n -> ifind n' (iset n i m) = ifind n' m.
Proof.
  intros n' n i m N. unfold iset. rewrite ifind_app, (ifind_iremove_other _ _ _ N).
  destruct (ifind n' m); [reflexivity|]. simpl. apply String.eqb_neq in N. rewrite N. reflexivity.
Qed.

Lemma iset_fresh : forall n i m, ifind n m = None -> iset n i m = (m ++ [(n, i)])%list.
Proof. intros n i m H. unfold iset. rewrite (ifind_none_iremove _ _ H). reflexivity. Qed.

(* the subscriptions of the map are those of n's instance plus those of the others *)
Lemma subs_split : forall n m i, (forall x, cnt_name x m <= 1) -> ifind n m = Some i ->
  forall k, cnt k (subs_of m) = cnt k (inst_subs i) + cnt k (subs_of (iremove n m)).
Proof.
  intros n. induction m as [|[x j] m IH]; intros i U F k; [discriminate|].
  cbn [ifind iremove cnt_name] in *.
  assert (U' : forall y, cnt_name y m <= 1) by (intro y; specialize (U y); lia).
  destruct (String.eqb n x) eqn:E.
  - inversion F; subst j. apply String.eqb_eq in E. subst x.
    assert (Z : cnt_name n m = 0) by (specialize (U n); rewrite String.eqb_refl in U; lia).
    rewrite (ifind_none_iremove _ _ (cnt_name_0_ifind _ _ Z)), subs_of_cons, cnt_app. reflexivity.
  - rewrite !subs_of_cons, !cnt_app, (IH i U' F k). lia.
Qed.

Lemma subs_iremove_le : forall n m k, (forall x, cnt_name x m <= 1) ->
  cnt k (subs_of (iremove n m)) <= cnt k (subs_of m).
Proof.
  intros n m k U. destruct (ifind n m) as [i|] eqn:F.
  - rewrite (subs_split _ _ _ U F k). lia.
  - rewrite (ifind_none_iremove _ _ F). lia.
Qed.

Lemma subs_iset : forall n i m k,
  cnt k (subs_of (iset n i m)) = cnt k (subs_of (iremove n m)) + cnt k (inst_subs i).
Proof.
  intros n i m k. unfold iset. rewrite subs_of_app, cnt_app, subs_of_cons, cnt_app. simpl. lia.
Qed.

(* ================================================================== *)
(* 3. the constructors                                                  *)

Lemma new_hook_no_panic : forall h, new_hook h <> Panic.
Proof.
  intros [| |w]; simpl; try discriminate. unfold new_webhook_executor.
  destruct (negb (webhook_url_ok w)); [discriminate|]. simpl.
  destruct (w_etag w); simpl; discriminate.
Qed.

Lemma hook_panics_false : forall h, hook_panics h = false.
Proof.
  intro h. unfold hook_panics. pose proof (new_hook_no_panic h) as N.
  destruct (new_hook h); simpl; congruence.
Qed.

(* what every call of a constructor guarantees, on any factory: no panic, and the
   factory has gained exactly the subscriptions of the instance handed out *)
Definition start_post (s : spec) (f : factory) (out : factory * res inst) : Prop :=
  snd out <> Panic /\
  (forall i, snd out = Ok i -> i_spec i = s /\ i_related i = []) /\
  (forall k, cnt k (fst out) = cnt k f + match snd out with Ok i => cnt k (i_subs i) | _ => 0 end).

Lemma post_same : forall s f, start_post s f (f, Err).
Proof.
  intros s f. unfold start_post. simpl. split; [discriminate|]. split; [discriminate|].
  intro k. lia.
Qed.

Lemma post_fail_closing : forall s f held f2,
  (forall k, cnt k held + cnt k f = cnt k f2) ->
  start_post s f (fail_closing held f2).
Proof.
  intros s f held f2 E. unfold fail_closing.
  destruct (release_all_ex held f2) as [g Hg].
  { intro k. specialize (E k). lia. }
  rewrite Hg. pose proof (release_all_cnt _ _ _ Hg) as C. unfold start_post. simpl.
  split; [discriminate|]. split; [discriminate|].
  intro k. specialize (C k). specialize (E k). lia.
Qed.

Lemma post_ok : forall s f held f2,
  (forall k, cnt k held + cnt k f = cnt k f2) ->
  start_post s f (f2, Ok (mkInst s held [])).
Proof.
  intros s f held f2 E. unfold start_post. simpl. split; [discriminate|]. split.
  { intros i Hi. inversion Hi; subst. simpl. auto. }
  intro k. specialize (E k). lia.
Qed.

Lemma start_composite_post : forall s f, start_post s f (start_composite s f).
Proof.
  intros s f. unfold start_composite.
  destruct (s_parents s) as [|p ps]; [apply post_same|].
  destruct (negb (ru_known p)); [apply post_same|].
  destruct (existsb strategy_unknown (s_children s)); [apply post_same|].
  destruct (negb (can_subscribe f p)); [apply post_same|].
  cbv zeta.
  destruct (open_informers (s_children s) [] (acquire (ru_key p) f)) as [[f2 kids] ok] eqn:Eo.
  assert (E : forall k, cnt k (kids ++ [ru_key p])%list + cnt k f = cnt k f2).
  { intro k. pose proof (open_informers_cnt _ _ _ _ _ _ Eo k) as B.
    unfold acquire in B. simpl in B. rewrite cnt_app. simpl. lia. }
  pose proof (post_fail_closing s f _ f2 E) as HF.
  destruct ok; simpl; [|exact HF].
  destruct (s_hooks s) as [h|]; [|exact HF].
  rewrite !hook_panics_false.
  destruct (hook_fails (h_sync h)); [exact HF|].
  destruct (hook_fails (h_finalize h)); [exact HF|].
  destruct (negb (ru_selector_ok p)); [exact HF|].
  destruct (hook_fails (h_customize h)); [exact HF|].
  apply post_ok; assumption.
Qed.

Lemma start_decorator_post : forall s f, start_post s f (start_decorator s f).
Proof.
  intros s f. unfold start_decorator.
  destruct (s_hooks s) as [h|]; [|apply post_same].
  rewrite !hook_panics_false.
  destruct (hook_fails (h_sync h)); [apply post_same|].
  destruct (hook_fails (h_finalize h)); [apply post_same|].
  destruct (hook_fails (h_customize h)); [apply post_same|].
  destruct (existsb _ (s_parents s)); [apply post_same|].
  destruct (existsb strategy_unknown (s_children s)); [apply post_same|].
  destruct (open_informers (s_parents s) [] f) as [[f1 pars] ok1] eqn:Eo1.
  assert (E1 : forall k, cnt k pars + cnt k f = cnt k f1).
  { intro k. pose proof (open_informers_cnt _ _ _ _ _ _ Eo1 k) as B. simpl in B. lia. }
  destruct ok1; simpl; [|apply post_fail_closing; exact E1].
  destruct (open_informers (s_children s) [] f1) as [[f2 kids] ok2] eqn:Eo2.
  assert (E : forall k, cnt k (kids ++ pars)%list + cnt k f = cnt k f2).
  { intro k. pose proof (open_informers_cnt _ _ _ _ _ _ Eo2 k) as B. simpl in B.
    specialize (E1 k). rewrite cnt_app. lia. }
  destruct ok2; simpl; [apply post_ok|apply post_fail_closing]; assumption.
Qed.

Lemma start_post_holds : forall fl s f, start_post s f (start fl s f).
Proof. intros [|] s f; [apply start_composite_post|apply start_decorator_post]. Qed.

(* ================================================================== *)
(* 4. the invariant of the reconcile loop                               *)

(* one entry per name; refCount[k] is the number of subscriptions to k held by instances *)
Definition Inv (st : state) : Prop :=
  (forall n, cnt_name n (insts st) <= 1) /\
  (forall k, cnt k (refs st) = cnt k (subs_of (insts st))).

(* a transition: the invariant again, and no panic *)
Definition pres (r : step_result) : Prop := Inv (state_of r) /\ outcome_of r <> RPanic.

(* expose the components of a concrete step result *)
Ltac unf := unfold state_of, outcome_of, actions_of in *.

Lemma Inv_init : Inv init.
Proof. split; intros; simpl; lia. Qed.

Lemma pres_same : forall st o a, Inv st -> o <> RPanic -> pres (st, o, a).
Proof. intros st o a I O. unfold pres. unf. simpl. auto. Qed.

Lemma stop_mid : forall st n i, Inv st -> ifind n (insts st) = Some i ->
  exists f, stop i (refs st) = Some f /\
    (forall k, cnt k f + cnt k (inst_subs i) = cnt k (refs st)) /\
    Inv (mkState (iremove n (insts st)) f).
Proof.
  intros st n i [U B] F. pose proof (subs_split _ _ _ U F) as S.
  destruct (release_all_ex (inst_subs i) (refs st)) as [f Hf].
  { intro k. specialize (S k). specialize (B k). lia. }
  exists f. pose proof (release_all_cnt _ _ _ Hf) as C.
  split; [exact Hf|]. split; [exact C|]. split; simpl.
  - intro n'. rewrite cnt_name_iremove. destruct (String.eqb n' n); [lia|apply U].
  - intro k. specialize (S k). specialize (B k). specialize (C k). lia.
Qed.

Lemma start_into_pres : forall fl n s st acts,
  Inv st -> ifind n (insts st) = None -> pres (start_into fl n s st acts).
Proof.
  intros fl n s st acts [U B] F. unfold start_into.
  destruct (start_post_holds fl s (refs st)) as [P1 [P3 P4]].
  destruct (start fl s (refs st)) as [g [i| |]]; unfold pres, Inv; unf; simpl in *.
  - destruct (P3 i eq_refl) as [_ Hr]. split; [split|discriminate].
    + intro n'. rewrite cnt_name_iset. destruct (String.eqb n' n); [lia|apply U].
    + intro k. rewrite subs_iset, (ifind_none_iremove _ _ F), (P4 k), (B k). unfold inst_subs.
      rewrite Hr, app_nil_r. reflexivity.
  - split; [split|discriminate]; [exact U|]. intro k. rewrite (P4 k), (B k). lia.
  - exfalso. apply P1. reflexivity.
Qed.

(* ---- stopIfSpecChanged ---------------------------------------------------------------- *)

Lemma sic_cases : forall n s st st1 acts, stop_if_changed n s st = Some (st1, acts) ->
  (st1 = st /\ acts = [] /\ ifind n (insts st) = None) \/
  (st1 = st /\ acts = [] /\ exists i, ifind n (insts st) = Some i /\ spec_eqb s (i_spec i) = true) \/
  (exists i f, ifind n (insts st) = Some i /\ spec_eqb s (i_spec i) = false /\
               stop i (refs st) = Some f /\
               st1 = mkState (iremove n (insts st)) f /\ acts = [Stopped n (s_id (i_spec i))]).
Proof.
  intros n s st st1 acts H. unfold stop_if_changed in H.
  destruct (ifind n (insts st)) as [i|] eqn:F.
  - destruct (spec_eqb s (i_spec i)) eqn:E.
    + inversion H; subst. right. left. eauto.
    + destruct (stop i (refs st)) as [f|] eqn:Hf; [|discriminate]. inversion H; subst.
      right. right. exists i, f. auto.
  - inversion H; subst. left. auto.
Qed.

Lemma sic_absent : forall n s st, ifind n (insts st) = None -> stop_if_changed n s st = Some (st, []).
Proof. intros n s st F. unfold stop_if_changed. rewrite F. reflexivity. Qed.

Lemma sic_equal : forall n s st i, ifind n (insts st) = Some i -> spec_eqb s (i_spec i) = true ->
  stop_if_changed n s st = Some (st, []).
Proof. intros n s st i F E. unfold stop_if_changed. rewrite F, E. reflexivity. Qed.

Lemma sic_changed : forall n s st i f, ifind n (insts st) = Some i -> spec_eqb s (i_spec i) = false ->
  stop i (refs st) = Some f ->
  stop_if_changed n s st = Some (mkState (iremove n (insts st)) f, [Stopped n (s_id (i_spec i))]).
Proof. intros n s st i f F E Hf. unfold stop_if_changed. rewrite F, E, Hf. reflexivity. Qed.

(* a second call finds nothing to do *)
Lemma sic_idem : forall n s st st1 acts, stop_if_changed n s st = Some (st1, acts) ->
  stop_if_changed n s st1 = Some (st1, []).
Proof.
  intros n s st st1 acts H.
  destruct (sic_cases _ _ _ _ _ H) as [[-> [_ F]]|[[-> [_ [i [F E]]]]|[i [f [_ [_ [_ [-> _]]]]]]]].
  - apply sic_absent. exact F.
  - apply (sic_equal _ _ _ _ F E).
  - apply sic_absent. simpl. apply ifind_iremove_same.
Qed.

Lemma sic_follows : forall n s st st1 acts, stop_if_changed n s st = Some (st1, acts) ->
  follows_specb n s st1 = true.
Proof.
  intros n s st st1 acts H. unfold follows_specb.
  destruct (sic_cases _ _ _ _ _ H) as [[-> [_ F]]|[[-> [_ [i [F E]]]]|[i [f [_ [_ [_ [-> _]]]]]]]].
  - rewrite F. reflexivity.
  - rewrite F. apply spec_eqb_sym. exact E.
  - simpl. rewrite ifind_iremove_same. reflexivity.
Qed.

Lemma sic_some : forall n s st, Inv st ->
  exists st1 acts, stop_if_changed n s st = Some (st1, acts) /\ Inv st1.
Proof.
  intros n s st I. unfold stop_if_changed. destruct (ifind n (insts st)) as [i|] eqn:F.
  - destruct (spec_eqb s (i_spec i)); [eauto|].
    destruct (stop_mid _ _ _ I F) as [f [Hf [_ I']]]. rewrite Hf. eauto.
  - eauto.
Qed.

(* ---- the step on a found spec, in terms of stop_if_changed ------------------------------- *)

Lemma step_sic_none : forall fl st n s crd, stop_if_changed n s st = None ->
  step fl st (Reconcile n (LFound s crd)) = (st, RPanic, []).
Proof.
  intros [|] st n s crd H; simpl; [|unfold reconcile_controller]; rewrite H; reflexivity.
Qed.

Lemma step_passes : forall fl st n s crd st1 acts, crd_passesb fl crd = true ->
  stop_if_changed n s st = Some (st1, acts) ->
  step fl st (Reconcile n (LFound s crd)) =
    match ifind n (insts st1) with
    | Some _ => (st1, ROk, acts)
    | None => start_into fl n s st1 acts
    end.
Proof.
  intros [|] st n s crd st1 acts C H.
  - destruct crd; try discriminate. simpl. rewrite H. unfold reconcile_controller.
    rewrite (sic_idem _ _ _ _ _ H). destruct (ifind n (insts st1)).
    + rewrite app_nil_r. reflexivity.
    + unfold start_into. destruct (start Composite s (refs st1)) as [g [i| |]]; simpl;
        rewrite ?app_nil_r; reflexivity.
  - simpl. unfold reconcile_controller. rewrite H. reflexivity.
Qed.

Lemma step_blocked : forall fl st n s crd st1 acts, crd_passesb fl crd = false ->
  stop_if_changed n s st = Some (st1, acts) ->
  exists o, step fl st (Reconcile n (LFound s crd)) = (st1, o, acts) /\ o <> RPanic.
Proof.
  intros [|] st n s [| | |] st1 acts C H; try discriminate; simpl; rewrite H; eexists;
    (split; [reflexivity|discriminate]).
Qed.

(* ---- every event preserves the invariant and does not panic ------------------------------ *)

Lemma found_pres : forall fl n s crd st, Inv st -> pres (step fl st (Reconcile n (LFound s crd))).
Proof.
  intros fl n s crd st I. destruct (sic_some n s st I) as [st1 [acts [H I1]]].
  destruct (crd_passesb fl crd) eqn:C.
  - rewrite (step_passes _ _ _ _ _ _ _ C H). destruct (ifind n (insts st1)) eqn:F1.
    + apply pres_same; [exact I1|discriminate].
    + apply start_into_pres; assumption.
  - destruct (step_blocked _ _ _ _ _ _ _ C H) as [o [E O]]. rewrite E. apply pres_same; assumption.
Qed.

Lemma reconcile_pres : forall fl n l st, Inv st -> pres (reconcile fl n l st).
Proof.
  intros fl n l st I. destruct l as [| |s crd].
  - simpl. destruct (ifind n (insts st)) as [i|] eqn:F.
    + destruct (stop_mid _ _ _ I F) as [f [Hf [_ I']]]. rewrite Hf.
      apply pres_same; [exact I'|discriminate].
    + apply pres_same; [exact I|discriminate].
  - apply pres_same; [exact I|discriminate].
  - apply (found_pres fl n s crd st I).
Qed.

Lemma related_pres : forall n r st, Inv st -> pres (related n r st).
Proof.
  intros n r st I. unfold related.
  destruct (ifind n (insts st)) as [i|] eqn:F; [|apply pres_same; [exact I|discriminate]].
  destruct (negb (customize_enabled (i_spec i))); [apply pres_same; [exact I|discriminate]|].
  destruct (negb (ru_known r)); [apply pres_same; [exact I|discriminate]|].
  destruct (memb (ru_key r) (i_related i)); [apply pres_same; [exact I|discriminate]|].
  destruct (negb (can_subscribe (refs st) r)); [apply pres_same; [exact I|discriminate]|].
  destruct I as [U B]. pose proof (subs_split _ _ _ U F) as S.
  unfold pres, Inv, acquire. unf. simpl. split; [split|discriminate].
  - intro n'. rewrite cnt_name_iset. destruct (String.eqb n' n); [lia|apply U].
  - intro k. rewrite subs_iset, (B k), (S k). unfold inst_subs. simpl. rewrite !cnt_app. simpl. lia.
Qed.

Lemma step_pres : forall fl st e, Inv st -> pres (step fl st e).
Proof.
  intros fl st e I. destruct e as [n l|n r]; [apply reconcile_pres|apply related_pres]; exact I.
Qed.

Lemma run_cons : forall fl st e h, run fl st (e :: h) = run fl (step_state fl st e) h.
Proof. reflexivity. Qed.

Lemma run_app : forall fl st a b, run fl st (a ++ b)%list = run fl (run fl st a) b.
Proof. intros fl st a b. unfold run. apply fold_left_app. Qed.

Lemma Inv_run : forall fl h st, Inv st -> Inv (run fl st h).
Proof.
  intros fl. induction h as [|e h IH]; intros st I; [exact I|].
  rewrite run_cons. apply IH. apply (step_pres fl st e I).
Qed.

Lemma Inv_reach : forall fl h, Inv (run fl init h).
Proof. intros fl h. apply Inv_run, Inv_init. Qed.

(* ================================================================== *)
(* 5. the theorems of Properties/C20.v                                  *)

Lemma balancedb_spec : forall st,
  balancedb st = true <-> (forall r, cnt r (refs st) = cnt r (all_subs st)).
Proof.
  intro st. unfold balancedb. rewrite forallb_forall. split.
  - intros H r. destruct (in_dec string_dec r (refs st ++ all_subs st)%list) as [I|N].
    + apply Nat.eqb_eq, H, I.
    + rewrite (not_in_cnt r (refs st)), (not_in_cnt r (all_subs st)); [reflexivity| |];
        intro J; apply N, in_or_app; auto.
  - intros H r _. apply Nat.eqb_eq, H.
Qed.

Lemma one_per_name : forall fl h, one_per_nameb (run fl init h) = true.
Proof. intros fl h. apply one_per_name_iff, (Inv_reach fl h). Qed.

Lemma no_double_free : forall fl h r,
  cnt r (all_subs (run fl init h)) <= cnt r (refs (run fl init h)).
Proof.
  intros fl h r. pose proof (proj2 (Inv_reach fl h) r) as B. unfold all_subs.
  fold (subs_of (insts (run fl init h))). lia.
Qed.

Lemma never_panics : forall fl h e, outcome_of (step fl (run fl init h) e) <> RPanic.
Proof. intros fl h e. apply (step_pres fl _ e (Inv_reach fl h)). Qed.

Lemma one_instance : forall fl h, C20_invb (run fl init h) = true.
Proof.
  intros fl h. unfold C20_invb. rewrite one_per_name. simpl. apply balancedb_spec.
  exact (proj2 (Inv_reach fl h)).
Qed.

Lemma noop_on_equal_spec : forall fl st n s crd i,
  ifind n (insts st) = Some i -> spec_eqb s (i_spec i) = true ->
  let r := step fl st (Reconcile n (LFound s crd)) in
  state_of r = st /\ actions_of r = [] /\ (crd_passesb fl crd = true -> outcome_of r = ROk).
Proof.
  intros fl st n s crd i F E. cbv zeta. pose proof (sic_equal _ _ _ _ F E) as H.
  destruct (crd_passesb fl crd) eqn:C.
  - rewrite (step_passes _ _ _ _ _ _ _ C H), F. unf. simpl. auto.
  - destruct (step_blocked _ _ _ _ _ _ _ C H) as [o [R _]]. rewrite R. unf. simpl.
    split; [reflexivity|]. split; [reflexivity|discriminate].
Qed.

Lemma stop_succeeds : forall fl h n i,
  ifind n (insts (run fl init h)) = Some i -> exists f, stop i (refs (run fl init h)) = Some f.
Proof.
  intros fl h n i F. destruct (stop_mid _ _ _ (Inv_reach fl h) F) as [f [Hf _]]. eauto.
Qed.

Lemma stop_counts : forall i f g r,
  stop i f = Some g -> cnt r g + cnt r (inst_subs i) = cnt r f.
Proof. intros i f g r H. apply (release_all_cnt _ _ _ H). Qed.

Lemma restart_on_change : forall fl st n s crd i f,
  ifind n (insts st) = Some i -> spec_eqb s (i_spec i) = false -> crd_passesb fl crd = true ->
  stop i (refs st) = Some f -> startableb fl s f = true ->
  let r := step fl st (Reconcile n (LFound s crd)) in
  exists i',
    start fl s f = (refs (state_of r), Ok i') /\
    i_spec i' = s /\ i_related i' = [] /\
    insts (state_of r) = iset n i' (insts st) /\
    ifind n (insts (state_of r)) = Some i' /\
    cnt_name n (insts (state_of r)) = 1 /\
    (forall n', n' <> n -> ifind n' (insts (state_of r)) = ifind n' (insts st)) /\
    outcome_of r = ROk /\
    actions_of r = [Stopped n (s_id (i_spec i)); Started n (s_id s)].
Proof.
  intros fl st n s crd i f F E C Hf S. cbv zeta.
  rewrite (step_passes _ _ _ _ _ _ _ C (sic_changed _ _ _ _ _ F E Hf)).
  cbn [insts]. rewrite ifind_iremove_same.
  unfold start_into. cbn [refs insts]. unfold startableb in S.
  destruct (start_post_holds fl s f) as [_ [P3 _]].
  destruct (start fl s f) as [g [i'| |]]; simpl in S; try discriminate.
  destruct (P3 i' eq_refl) as [Hs Hr]. exists i'.
  assert (EI : iset n i' (iremove n (insts st)) = iset n i' (insts st)).
  { unfold iset. rewrite iremove_idem. reflexivity. }
  unf. simpl. rewrite EI.
  split; [reflexivity|]. split; [exact Hs|]. split; [exact Hr|]. split; [reflexivity|].
  split; [apply ifind_iset_same|].
  split; [rewrite cnt_name_iset, String.eqb_refl; reflexivity|].
  split; [intros n' N; apply ifind_iset_other; exact N|].
  split; reflexivity.
Qed.

Lemma start_counts : forall fl s f g i r,
  start fl s f = (g, Ok i) -> cnt r g = cnt r f + cnt r (inst_subs i).
Proof.
  intros fl s f g i r St. destruct (start_post_holds fl s f) as [_ [P3 P4]].
  rewrite St in P3, P4. simpl in P3, P4. destruct (P3 i eq_refl) as [_ Hr].
  rewrite (P4 r). unfold inst_subs. rewrite Hr, app_nil_r. reflexivity.
Qed.

Lemma failed_start_counts : forall fl s f g r,
  start fl s f = (g, Err) -> cnt r g = cnt r f.
Proof.
  intros fl s f g r St. destruct (start_post_holds fl s f) as [_ [_ P4]].
  rewrite St in P4. simpl in P4. rewrite (P4 r). lia.
Qed.

Lemma stop_releases_gen : forall fl st n, Inv st ->
  let r := step fl st (Reconcile n LNotFound) in
  outcome_of r = ROk /\
  runningb n (state_of r) = false /\
  (forall n', n' <> n -> ifind n' (insts (state_of r)) = ifind n' (insts st)) /\
  (forall k, cnt k (refs (state_of r)) +
             cnt k (match ifind n (insts st) with Some i => inst_subs i | None => [] end)
             = cnt k (refs st)).
Proof.
  intros fl st n I. cbv zeta. unf. simpl. destruct (ifind n (insts st)) as [i|] eqn:F.
  - destruct (stop_mid _ _ _ I F) as [f [Hf [C _]]]. rewrite Hf. simpl.
    split; [reflexivity|]. split.
    { unfold runningb. simpl. rewrite ifind_iremove_same. reflexivity. }
    split; [|exact C]. intros n' N. apply ifind_iremove_other. exact N.
  - simpl. split; [reflexivity|]. split.
    { unfold runningb. rewrite F. reflexivity. }
    split; [reflexivity|]. intro k. simpl. lia.
Qed.

Lemma stop_releases : forall fl h n,
  let st := run fl init h in
  let r := step fl st (Reconcile n LNotFound) in
  outcome_of r = ROk /\
  runningb n (state_of r) = false /\
  (forall n', n' <> n -> ifind n' (insts (state_of r)) = ifind n' (insts st)) /\
  (forall k, cnt k (refs (state_of r)) +
             cnt k (match ifind n (insts st) with Some i => inst_subs i | None => [] end)
             = cnt k (refs st)).
Proof. intros fl h n. apply stop_releases_gen, Inv_reach. Qed.

(* ---- a whole lifetime ------------------------------------------------------------- *)

Lemma related_absent : forall fl n r st,
  ifind n (insts st) = None -> step_state fl st (Related n r) = st.
Proof. intros fl n r st F. unfold step_state. simpl. unfold related. rewrite F. reflexivity. Qed.

Lemma run_related_absent : forall fl n rs st,
  ifind n (insts st) = None -> run fl st (map (Related n) rs) = st.
Proof.
  intros fl n. induction rs as [|r rs IH]; intros st F; [reflexivity|].
  simpl map. rewrite run_cons, (related_absent _ _ _ _ F). apply IH. exact F.
Qed.

Lemma run_related_present : forall fl n (c : rkey -> nat) m rs st i,
  ifind n m = None -> insts st = (m ++ [(n, i)])%list ->
  (forall k, cnt k (refs st) = c k + cnt k (inst_subs i)) ->
  exists i', insts (run fl st (map (Related n) rs)) = (m ++ [(n, i')])%list /\
             forall k, cnt k (refs (run fl st (map (Related n) rs))) = c k + cnt k (inst_subs i').
Proof.
  intros fl n c m. induction rs as [|r rs IH]; intros st i F Hi Hc.
  - exists i. simpl. auto.
  - simpl map. rewrite run_cons.
    assert (H : exists i2, insts (step_state fl st (Related n r)) = (m ++ [(n, i2)])%list /\
                forall k, cnt k (refs (step_state fl st (Related n r))) = c k + cnt k (inst_subs i2)).
    { unfold step_state. simpl. unfold related.
      assert (Fi : ifind n (insts st) = Some i).
      { rewrite Hi, ifind_app, F. simpl. rewrite String.eqb_refl. reflexivity. }
      rewrite Fi.
      destruct (negb (customize_enabled (i_spec i))); [exists i; simpl; auto|].
      destruct (negb (ru_known r)); [exists i; simpl; auto|].
      destruct (memb (ru_key r) (i_related i)); [exists i; simpl; auto|].
      destruct (negb (can_subscribe (refs st) r)); [exists i; simpl; auto|].
      eexists. simpl. split.
      - unfold iset. rewrite Hi, iremove_app, (ifind_none_iremove _ _ F). simpl.
        rewrite String.eqb_refl, app_nil_r. reflexivity.
      - intro k. unfold acquire. simpl. rewrite (Hc k). unfold inst_subs. simpl.
        rewrite !cnt_app. simpl. lia. }
    destruct H as [i2 [Hi2 Hc2]]. apply (IH _ i2 F Hi2 Hc2).
Qed.

Lemma create_absent : forall fl n s st acts,
  ifind n (insts st) = None ->
  let st1 := state_of (start_into fl n s st acts) in
  (insts st1 = insts st /\ forall k, cnt k (refs st1) = cnt k (refs st)) \/
  (exists i, insts st1 = (insts st ++ [(n, i)])%list /\
             forall k, cnt k (refs st1) = cnt k (refs st) + cnt k (inst_subs i)).
Proof.
  intros fl n s st acts F. cbv zeta. unfold start_into. unf.
  destruct (start_post_holds fl s (refs st)) as [_ [P3 P4]].
  destruct (start fl s (refs st)) as [g [i| |]]; simpl in *.
  - right. exists i. destruct (P3 i eq_refl) as [_ Hr].
    split; [apply iset_fresh; exact F|]. intro k. rewrite P4. unfold inst_subs.
    rewrite Hr, app_nil_r. reflexivity.
  - left. split; [reflexivity|]. intro k. rewrite P4. lia.
  - left. split; [reflexivity|]. intro k. rewrite P4. lia.
Qed.

Lemma lifetime_gen : forall fl st n s crd rs,
  ifind n (insts st) = None ->
  let st' := run fl st (lifetime n s crd rs) in
  insts st' = insts st /\ (forall k, cnt k (refs st') = cnt k (refs st)).
Proof.
  intros fl st n s crd rs F. cbv zeta. unfold lifetime. rewrite run_cons, run_app.
  set (st1 := step_state fl st (Reconcile n (LFound s crd))).
  assert (H1 : (insts st1 = insts st /\ forall k, cnt k (refs st1) = cnt k (refs st)) \/
               (exists i, insts st1 = (insts st ++ [(n, i)])%list /\
                          forall k, cnt k (refs st1) = cnt k (refs st) + cnt k (inst_subs i))).
  { subst st1. unfold step_state. pose proof (sic_absent n s st F) as H.
    destruct (crd_passesb fl crd) eqn:C.
    - rewrite (step_passes _ _ _ _ _ _ _ C H), F. apply create_absent. exact F.
    - destruct (step_blocked _ _ _ _ _ _ _ C H) as [o [R _]]. rewrite R. left. simpl. auto. }
  destruct H1 as [[Hi Hc]|[i [Hi Hc]]].
  - assert (F1 : ifind n (insts st1) = None) by (rewrite Hi; exact F).
    rewrite (run_related_absent _ _ _ _ F1). unfold run. simpl. unfold step_state. simpl.
    rewrite F1. simpl. auto.
  - destruct (run_related_present fl n (fun k => cnt k (refs st)) (insts st) rs st1 i F Hi Hc)
      as [i' [Hi' Hc']].
    set (st2 := run fl st1 (map (Related n) rs)) in *.
    unfold run. simpl. unfold step_state. simpl.
    assert (F2 : ifind n (insts st2) = Some i').
    { rewrite Hi', ifind_app, F. simpl. rewrite String.eqb_refl. reflexivity. }
    rewrite F2.
    destruct (release_all_ex (inst_subs i') (refs st2)) as [g Hg].
    { intro k. rewrite (Hc' k). lia. }
    unfold stop. fold (inst_subs i'). rewrite Hg. simpl. split.
    + rewrite Hi', iremove_app, (ifind_none_iremove _ _ F). simpl.
      rewrite String.eqb_refl, app_nil_r. reflexivity.
    + intro k. pose proof (release_all_cnt _ _ _ Hg k) as C. rewrite (Hc' k) in C. lia.
Qed.

Lemma lifetime_is_identity : forall fl h n s crd rs,
  let st := run fl init h in
  runningb n st = false ->
  let st' := run fl st (lifetime n s crd rs) in
  insts st' = insts st /\ (forall k, cnt k (refs st') = cnt k (refs st)).
Proof.
  intros fl h n s crd rs st R. apply lifetime_gen.
  unfold runningb in R. destruct (ifind n (insts st)); [discriminate|reflexivity].
Qed.

(* ---- a configuration that cannot start ---------------------------------------------- *)

Lemma bad_config_gen : forall fl st n s crd,
  runningb n st = false -> startableb fl s (refs st) = false ->
  let r := step fl st (Reconcile n (LFound s crd)) in
  insts (state_of r) = insts st /\
  actions_of r = [] /\
  outcome_of r <> RPanic /\
  (crd_passesb fl crd = true -> outcome_of r = RErr) /\
  (forall k, cnt k (refs (state_of r)) = cnt k (refs st)).
Proof.
  intros fl st n s crd R S. cbv zeta. unfold runningb in R.
  destruct (ifind n (insts st)) as [i|] eqn:F; [discriminate|].
  pose proof (sic_absent n s st F) as H.
  destruct (crd_passesb fl crd) eqn:C.
  - rewrite (step_passes _ _ _ _ _ _ _ C H), F. unfold start_into.
    unfold startableb in S. destruct (start_post_holds fl s (refs st)) as [P1 [_ P4]]. unf.
    destruct (start fl s (refs st)) as [g [i| |]]; simpl in *; [discriminate| |congruence].
    split; [reflexivity|]. split; [reflexivity|]. split; [discriminate|]. split; [reflexivity|].
    intro k. rewrite (P4 k). lia.
  - destruct (step_blocked _ _ _ _ _ _ _ C H) as [o [E O]]. rewrite E. unf. simpl.
    split; [reflexivity|]. split; [reflexivity|]. split; [exact O|]. split; [discriminate|].
    intro k. reflexivity.
Qed.

Lemma bad_config_nothing_running : forall fl h n s crd,
  let st := run fl init h in
  runningb n st = false -> startableb fl s (refs st) = false ->
  let r := step fl st (Reconcile n (LFound s crd)) in
  insts (state_of r) = insts st /\
  actions_of r = [] /\
  outcome_of r <> RPanic /\
  (crd_passesb fl crd = true -> outcome_of r = RErr) /\
  (forall k, cnt k (refs (state_of r)) = cnt k (refs st)).
Proof. intros fl h n s crd st. apply bad_config_gen. Qed.

Lemma bad_crd_nothing_started : forall h n s crd,
  crd_passesb Composite crd = false ->
  let st := run Composite init h in
  let r := step Composite st (Reconcile n (LFound s crd)) in
  outcome_of r <> RPanic /\
  (forall id, ~ In (Started n id) (actions_of r)) /\
  (runningb n (state_of r) = true ->
     state_of r = st /\ actions_of r = [] /\
     exists i, ifind n (insts st) = Some i /\ spec_eqb s (i_spec i) = true).
Proof.
  intros h n s crd C st. cbv zeta.
  destruct (sic_some n s st (Inv_reach Composite h)) as [st1 [acts [H _]]].
  destruct (step_blocked _ _ _ _ _ _ _ C H) as [o [E O]]. rewrite E. unf. simpl.
  split; [exact O|]. unfold runningb.
  destruct (sic_cases _ _ _ _ _ H) as [[-> [-> F]]|[[-> [-> [i [F Eq]]]]|[i [f [_ [_ [_ [-> ->]]]]]]]].
  - split; [intros id []|]. rewrite F. discriminate.
  - split; [intros id []|]. intros _. split; [reflexivity|]. split; [reflexivity|]. eauto.
  - split.
    + intros id [J|[]]. discriminate.
    + simpl. rewrite ifind_iremove_same. discriminate.
Qed.

Lemma bad_update_gen : forall fl st n s crd i f,
  ifind n (insts st) = Some i -> spec_eqb s (i_spec i) = false ->
  stop i (refs st) = Some f ->
  crd_passesb fl crd = false \/ startableb fl s f = false ->
  let r := step fl st (Reconcile n (LFound s crd)) in
  outcome_of r <> RPanic /\
  (crd_passesb fl crd = true -> outcome_of r = RErr) /\
  runningb n (state_of r) = false /\
  insts (state_of r) = iremove n (insts st) /\
  actions_of r = [Stopped n (s_id (i_spec i))] /\
  (forall k, cnt k (refs (state_of r)) = cnt k f).
Proof.
  intros fl st n s crd i f F E Hf D. cbv zeta.
  pose proof (sic_changed _ _ _ _ _ F E Hf) as H.
  assert (R : runningb n (mkState (iremove n (insts st)) f) = false).
  { unfold runningb. simpl. rewrite ifind_iremove_same. reflexivity. }
  destruct (crd_passesb fl crd) eqn:C.
  - destruct D as [D|S]; [discriminate|].
    rewrite (step_passes _ _ _ _ _ _ _ C H). cbn [insts]. rewrite ifind_iremove_same.
    unfold start_into. cbn [refs insts]. unfold startableb in S.
    destruct (start_post_holds fl s f) as [P1 [_ P4]]. unf.
    destruct (start fl s f) as [g [i'| |]]; simpl in *; [discriminate| |congruence].
    split; [discriminate|]. split; [reflexivity|]. split; [exact R|].
    split; [reflexivity|]. split; [reflexivity|]. intro k. rewrite (P4 k). lia.
  - destruct (step_blocked _ _ _ _ _ _ _ C H) as [o [Eo O]]. rewrite Eo. unf. simpl.
    split; [exact O|]. split; [discriminate|]. split; [exact R|].
    split; [reflexivity|]. split; reflexivity.
Qed.

Lemma bad_update_stops_old : forall fl h n s crd i f,
  let st := run fl init h in
  ifind n (insts st) = Some i -> spec_eqb s (i_spec i) = false ->
  stop i (refs st) = Some f ->
  crd_passesb fl crd = false \/ startableb fl s f = false ->
  let r := step fl st (Reconcile n (LFound s crd)) in
  outcome_of r <> RPanic /\
  (crd_passesb fl crd = true -> outcome_of r = RErr) /\
  runningb n (state_of r) = false /\
  insts (state_of r) = iremove n (insts st) /\
  actions_of r = [Stopped n (s_id (i_spec i))] /\
  (forall k, cnt k (refs (state_of r)) = cnt k f).
Proof. intros fl h n s crd i f st. apply bad_update_gen. Qed.

(* ---- what runs follows the spec ------------------------------------------------------ *)

Lemma start_into_follows : forall fl n s st acts, ifind n (insts st) = None ->
  follows_specb n s (state_of (start_into fl n s st acts)) = true.
Proof.
  intros fl n s st acts F. unfold follows_specb, start_into. unf.
  destruct (start_post_holds fl s (refs st)) as [_ [P3 _]].
  destruct (start fl s (refs st)) as [g [i| |]]; simpl in *.
  - rewrite ifind_iset_same. destruct (P3 i eq_refl) as [Hs _]. rewrite Hs. apply spec_eqb_refl.
  - rewrite F. reflexivity.
  - rewrite F. reflexivity.
Qed.

Lemma follows_spec_any_state : forall fl st n s crd,
  outcome_of (step fl st (Reconcile n (LFound s crd))) <> RPanic ->
  follows_specb n s (state_of (step fl st (Reconcile n (LFound s crd)))) = true.
Proof.
  intros fl st n s crd. destruct (stop_if_changed n s st) as [[st1 acts]|] eqn:H.
  - intros _. pose proof (sic_follows _ _ _ _ _ H) as Fo.
    destruct (crd_passesb fl crd) eqn:C.
    + rewrite (step_passes _ _ _ _ _ _ _ C H). destruct (ifind n (insts st1)) eqn:F1.
      * exact Fo.
      * apply start_into_follows. exact F1.
    + destruct (step_blocked _ _ _ _ _ _ _ C H) as [o [E _]]. rewrite E. exact Fo.
  - rewrite (step_sic_none _ _ _ _ _ H). unf. simpl. congruence.
Qed.

Lemma follows_spec : forall fl h n s crd,
  follows_specb n s (state_of (step fl (run fl init h) (Reconcile n (LFound s crd)))) = true.
Proof. intros fl h n s crd. apply follows_spec_any_state, never_panics. Qed.

(* ================================================================== *)
(* hook client metrics: registration never fails, collectors are reused *)

Lemma mfind_app_some : forall k m m' id, mfind k m = Some id -> mfind k (m ++ m')%list = Some id.
Proof.
  induction m as [|[k' v] m IH]; simpl; intros m' id H; [discriminate|].
  destruct (String.eqb k k'); [exact H|apply IH; exact H].
Qed.

Lemma mfind_app_none : forall k m m', mfind k m = None -> mfind k (m ++ m')%list = mfind k m'.
Proof.
  induction m as [|[k' v] m IH]; simpl; intros m' H; [reflexivity|].
  destruct (String.eqb k k'); [discriminate|apply IH; exact H].
Qed.

Lemma memb_true_iff : forall k l, memb k l = true <-> In k l.
Proof.
  intros k l. unfold memb. rewrite existsb_exists. split.
  - intros [x [Hin Heq]]. apply String.eqb_eq in Heq. subst. exact Hin.
  - intro Hin. exists k. split; [exact Hin|apply String.eqb_refl].
Qed.

(* the cache knows exactly the keys the registry holds *)
Definition MInv (st : mstate) : Prop :=
  forall k, In k (m_registry st) <-> mfind k (m_cache st) <> None.

Lemma MInv_init : MInv minit.
Proof. intro k. simpl. split; [intros []|intro H; apply H; reflexivity]. Qed.

Lemma mstep_ok : forall st e, MInv st -> moutcome_of (mstep st e) = ROk /\ MInv (fst (fst (mstep st e))).
Proof.
  intros st [k|] HI; simpl; [|split; [reflexivity|exact HI]].
  destruct (mfind k (m_cache st)) as [id|] eqn:Hf; simpl; [split; [reflexivity|exact HI]|].
  destruct (memb k (m_registry st)) eqn:Hm.
  - apply memb_true_iff in Hm. apply HI in Hm. congruence.
  - simpl. split; [reflexivity|]. intro k0. simpl. split.
    + intros [Hk|Hin].
      * subst k0. rewrite (mfind_app_none _ _ _ Hf). simpl. rewrite String.eqb_refl. discriminate.
      * apply HI in Hin. destruct (mfind k0 (m_cache st)) as [v|] eqn:H0; [|congruence].
        rewrite (mfind_app_some _ _ _ _ H0). discriminate.
    + intro Hne. destruct (mfind k0 (m_cache st)) as [v|] eqn:H0.
      * right. apply HI. congruence.
      * rewrite (mfind_app_none _ _ _ H0) in Hne. simpl in Hne.
        destruct (String.eqb k0 k) eqn:He; [|congruence].
        apply String.eqb_eq in He. left. symmetry. exact He.
Qed.

Lemma MInv_run : forall h st, MInv st -> MInv (mrun st h).
Proof.
  induction h as [|e h IH]; intros st HI; [exact HI|].
  simpl. apply IH. apply mstep_ok. exact HI.
Qed.

Lemma metrics_never_fails : forall h e, moutcome_of (mstep (mrun minit h) e) = ROk.
Proof. intros h e. apply mstep_ok. apply MInv_run. exact MInv_init. Qed.

Lemma mstep_keeps : forall st e k id,
  mfind k (m_cache st) = Some id -> mfind k (m_cache (fst (fst (mstep st e)))) = Some id.
Proof.
  intros st [k'|] k id H; simpl; [|exact H].
  destruct (mfind k' (m_cache st)) as [id'|] eqn:Hf; simpl; [exact H|].
  destruct (memb k' (m_registry st)); simpl; apply mfind_app_some; exact H.
Qed.

Lemma mrun_keeps : forall h st k id,
  mfind k (m_cache st) = Some id -> mfind k (m_cache (mrun st h)) = Some id.
Proof.
  induction h as [|e h IH]; intros st k id H; [exact H|].
  simpl. apply IH. apply mstep_keeps. exact H.
Qed.

Lemma mreg_cached : forall st k id,
  mcollector_of (mstep st (MReg k)) = Some id ->
  mfind k (m_cache (fst (fst (mstep st (MReg k))))) = Some id.
Proof.
  intros st k id. unfold mcollector_of. simpl.
  destruct (mfind k (m_cache st)) as [id'|] eqn:Hf; simpl.
  - intro H. inversion H. subst. exact Hf.
  - destruct (memb k (m_registry st)); simpl; intro H; [discriminate|].
    inversion H. subst. rewrite (mfind_app_none _ _ _ Hf). simpl. rewrite String.eqb_refl. reflexivity.
Qed.

Lemma mrun_app : forall h1 h2 st, mrun st (h1 ++ h2)%list = mrun (mrun st h1) h2.
Proof. intros. unfold mrun. apply fold_left_app. Qed.

Lemma metrics_same_collector : forall h1 h2 k id,
  mcollector_of (mstep (mrun minit h1) (MReg k)) = Some id ->
  mcollector_of (mstep (mrun minit (h1 ++ MReg k :: h2)%list) (MReg k)) = Some id.
Proof.
  intros h1 h2 k id H. rewrite mrun_app. simpl.
  apply mreg_cached in H.
  pose proof (mrun_keeps h2 _ _ _ H) as Hk.
  unfold mcollector_of. simpl. unfold mrun in Hk. simpl in Hk. unfold mrun. rewrite Hk. reflexivity.
Qed.

Lemma metrics_always_a_collector : forall h k,
  exists id, mcollector_of (mstep (mrun minit h) (MReg k)) = Some id.
Proof.
  intros h k. pose proof (metrics_never_fails h (MReg k)) as Hok.
  unfold moutcome_of, mcollector_of in *. simpl in *.
  destruct (mfind k (m_cache (mrun minit h))) as [id|]; simpl in *; [exists id; reflexivity|].
  destruct (memb k (m_registry (mrun minit h))); simpl in *; [discriminate|eexists; reflexivity].
Qed.

(* ================================================================== *)
(* the ControllerRevision cache: nothing is hosted before it has synced *)

Definition GInv (gs : gstate) : Prop := g_rev_synced gs = false -> insts (g_state gs) = [].

Lemma step_empty_unsynced : forall e st,
  insts st = [] ->
  (forall n s, e <> Reconcile n (LFound s CrdOk)) ->
  insts (fst (fst (step Composite st e))) = [].
Proof.
  intros e st He Hne. destruct e as [n l|n r]; simpl.
  - destruct l as [| |s crd]; simpl.
    + rewrite He. simpl. exact He.
    + exact He.
    + unfold stop_if_changed. rewrite He. simpl.
      destruct crd; simpl; try exact He. exfalso. apply (Hne n s). reflexivity.
  - unfold related. rewrite He. simpl. exact He.
Qed.

(* once synced, the loop is the plain one *)
Lemma gstep_synced_is_step : forall fl st e,
  gstep fl (mkG st true) (GEvent e) =
  (let '(st', out, acts) := step fl st e in (mkG st' true, out, acts)).
Proof. intros fl st e. destruct fl; reflexivity. Qed.

Lemma gstep_plain : forall st e,
  (forall n s, e <> Reconcile n (LFound s CrdOk)) ->
  gstep Composite (mkG st false) (GEvent e) =
  (let '(st', out, acts) := step Composite st e in (mkG st' false, out, acts)).
Proof.
  intros st e Hne. destruct e as [n l|n r]; [|reflexivity].
  destruct l as [| |s crd]; try reflexivity.
  destruct crd; try reflexivity. exfalso. apply (Hne n s). reflexivity.
Qed.

Lemma gstep_GInv : forall gs ge, GInv gs -> GInv (fst (fst (gstep Composite gs ge))).
Proof.
  intros [st b] ge HI. destruct ge as [|e]; [intro H; discriminate|].
  destruct b.
  - rewrite gstep_synced_is_step. destruct (step Composite st e) as [[st' out] acts]. intro H. discriminate.
  - assert (He : insts st = []) by (apply HI; reflexivity).
    assert (Hcase : (exists n s, e = Reconcile n (LFound s CrdOk)) \/ (forall n s, e <> Reconcile n (LFound s CrdOk))).
    { destruct e as [n l|n r]; [|right; intros; discriminate].
      destruct l as [| |s crd]; try (right; intros; discriminate).
      destruct crd; try (right; intros; discriminate). left. exists n, s. reflexivity. }
    destruct Hcase as [[n [s ->]]|Hne].
    + simpl. unfold stop_if_changed. rewrite He. simpl. rewrite He. simpl. intros _. exact He.
    + rewrite (gstep_plain st e Hne).
      pose proof (step_empty_unsynced e st He Hne) as H.
      destruct (step Composite st e) as [[st' out] acts]. simpl in *. intros _. exact H.
Qed.

Lemma GInv_run : forall h gs, GInv gs -> GInv (grun Composite gs h).
Proof.
  induction h as [|e h IH]; intros gs HI; [exact HI|].
  simpl. apply IH. apply gstep_GInv. exact HI.
Qed.

(* In every reachable state of the composite reconcile loop: while the ControllerRevision
   informer has not synced, no hosted controller runs (so none can sync a parent). *)
Theorem C09_no_sync_before_revision_cache : forall h n,
  g_rev_synced (grun Composite ginit h) = false ->
  runningb n (g_state (grun Composite ginit h)) = false.
Proof.
  intros h n H. pose proof (GInv_run h ginit) as HI.
  assert (H0 : GInv ginit) by (intro; reflexivity).
  specialize (HI H0 H). unfold runningb. rewrite HI. reflexivity.
Qed.

