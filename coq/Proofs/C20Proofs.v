(* C20Proofs.v — proofs about Model/Meta.v: the reconcile loops hosting
   controller instances over the shared informer factory.  The factory and
   every list of subscriptions are reasoned about through [cnt] only. *)
From MC Require Import Model.Meta.
From Coq Require Import Lia Arith Bool List String ZArith Setoid.
Import ListNotations.

(* ================================================================== *)
(* 0. the comparison of specs is equality                              *)

Lemma list_eqb_eq {A} (e : A -> A -> bool) :
  (forall a b, e a b = true <-> a = b) ->
  forall l1 l2, list_eqb e l1 l2 = true <-> l1 = l2.
Proof.
  intros He. induction l1 as [|x l1 IH]; destruct l2 as [|y l2]; simpl;
    try (split; congruence).
  rewrite andb_true_iff, He, IH. split.
  - intros [-> ->]. reflexivity.
  - intro H. inversion H. auto.
Qed.

Lemma opt_eqb_eq {A} (e : A -> A -> bool) :
  (forall a b, e a b = true <-> a = b) ->
  forall o1 o2, opt_eqb e o1 o2 = true <-> o1 = o2.
Proof.
  intros He [x|] [y|]; simpl; try (split; congruence).
  rewrite He. split; congruence.
Qed.

Lemma svc_eqb_eq : forall a b, svc_eqb a b = true <-> a = b.
Proof.
  intros [a1 a2 a3 a4] [b1 b2 b3 b4]. unfold svc_eqb. simpl.
  rewrite !andb_true_iff, !Bool.eqb_true_iff. split.
  - intros [[[-> ->] ->] ->]. reflexivity.
  - intro H. inversion H. auto.
Qed.

Lemma tmo_eqb_eq : forall a b, tmo_eqb a b = true <-> a = b.
Proof. intros [] []; simpl; split; congruence. Qed.

Lemma etag_eqb_eq : forall a b, etag_eqb a b = true <-> a = b.
Proof.
  intros [| | |x y] [| | |x' y']; simpl; try (split; congruence).
  rewrite andb_true_iff, !Bool.eqb_true_iff. split.
  - intros [-> ->]. reflexivity.
  - intro H. inversion H. auto.
Qed.

Lemma wh_eqb_eq : forall a b, wh_eqb a b = true <-> a = b.
Proof.
  intros [a1 a2 a3 a4 a5] [b1 b2 b3 b4 b5]. unfold wh_eqb. simpl.
  rewrite !andb_true_iff, !Bool.eqb_true_iff, (opt_eqb_eq _ svc_eqb_eq), tmo_eqb_eq, etag_eqb_eq.
  split.
  - intros [[[[-> ->] ->] ->] ->]. reflexivity.
  - intro H. inversion H. auto 6.
Qed.

Lemma hook_eqb_eq : forall a b, hook_eqb a b = true <-> a = b.
Proof.
  intros [| |x] [| |y]; simpl; try (split; congruence).
  rewrite wh_eqb_eq. split; congruence.
Qed.

Lemma hooks_eqb_eq : forall a b, hooks_eqb a b = true <-> a = b.
Proof.
  intros [a1 a2 a3] [b1 b2 b3]. unfold hooks_eqb. simpl.
  rewrite !andb_true_iff, !hook_eqb_eq. split.
  - intros [[-> ->] ->]. reflexivity.
  - intro H. inversion H. auto.
Qed.

Lemma rule_eqb_eq : forall a b, rule_eqb a b = true <-> a = b.
Proof.
  intros [a1 a2 a3 a4] [b1 b2 b3 b4]. unfold rule_eqb. simpl.
  rewrite !andb_true_iff, !Bool.eqb_true_iff, String.eqb_eq. split.
  - intros [[[-> ->] ->] ->]. reflexivity.
  - intro H. inversion H. auto.
Qed.

Lemma spec_eqb_eq : forall a b, spec_eqb a b = true <-> a = b.
Proof.
  intros [a1 a2 a3 a4] [b1 b2 b3 b4]. unfold spec_eqb. simpl.
  rewrite !andb_true_iff, Z.eqb_eq, !(list_eqb_eq _ rule_eqb_eq), (opt_eqb_eq _ hooks_eqb_eq).
  split.
  - intros [[[-> ->] ->] ->]. reflexivity.
  - intro H. inversion H. auto.
Qed.

Lemma spec_eqb_refl : forall s, spec_eqb s s = true.
Proof. intro s. apply spec_eqb_eq. reflexivity. Qed.

Lemma spec_eqb_sym : forall a b, spec_eqb a b = true -> spec_eqb b a = true.
Proof. intros a b H. apply spec_eqb_eq in H. subst. apply spec_eqb_refl. Qed.

(* ================================================================== *)
(* 1. multisets of resource keys through cnt                            *)

Lemma cnt_app : forall k a b, cnt k (a ++ b)%list = cnt k a + cnt k b.
Proof.
  intros k a b. induction a as [|x a IH]; simpl; [reflexivity|]. rewrite IH. lia.
Qed.

Lemma memb_false_cnt : forall r l, memb r l = false -> cnt r l = 0.
Proof.
  intros r l. unfold memb. induction l as [|x l IH]; simpl; intro H; [reflexivity|].
  apply orb_false_iff in H. destruct H as [H1 H2]. rewrite H1. simpl. auto.
Qed.

Lemma memb_true_cnt : forall r l, memb r l = true -> 0 < cnt r l.
Proof.
  intros r l. unfold memb. induction l as [|x l IH]; simpl; intro H; [discriminate|].
  destruct (String.eqb r x) eqn:E; simpl in *; [lia|auto].
Qed.

Lemma not_in_cnt : forall r l, ~ In r l -> cnt r l = 0.
Proof.
  intros r l. induction l as [|x l IH]; simpl; intro H; [reflexivity|].
  destruct (String.eqb r x) eqn:E.
  - apply String.eqb_eq in E. subst. tauto.
  - simpl. apply IH. tauto.
Qed.

Lemma nodupb_cnt : forall l, nodupb l = true <-> forall k, cnt k l <= 1.
Proof.
  induction l as [|x l IH]; simpl.
  - split; auto.
  - rewrite andb_true_iff, negb_true_iff, IH. split.
    + intros [M N] k. destruct (String.eqb k x) eqn:E.
      * apply String.eqb_eq in E. subst. rewrite (memb_false_cnt _ _ M). lia.
      * specialize (N k). lia.
    + intro H. split.
      * destruct (memb x l) eqn:M; [|reflexivity]. apply memb_true_cnt in M.
        specialize (H x). rewrite String.eqb_refl in H. lia.
      * intro k. specialize (H k). lia.
Qed.

Lemma release_cnt : forall r f g, release r f = Some g ->
  forall k, cnt k g + (if String.eqb k r then 1 else 0) = cnt k f.
Proof.
  intros r. induction f as [|x f IH]; simpl; intros g H k; [discriminate|].
  destruct (String.eqb r x) eqn:E.
  - inversion H; subst. apply String.eqb_eq in E. subst. lia.
  - destruct (release r f) as [g'|] eqn:Er; [|discriminate]. inversion H; subst. simpl.
    specialize (IH _ eq_refl k). lia.
Qed.

Lemma release_ex : forall r f, 0 < cnt r f -> exists g, release r f = Some g.
Proof.
  intros r. induction f as [|x f IH]; simpl; intro H; [lia|].
  destruct (String.eqb r x); [eauto|]. simpl in H. destruct (IH H) as [g Hg]. rewrite Hg. eauto.
Qed.

Lemma release_all_cnt : forall l f g, release_all l f = Some g ->
  forall k, cnt k g + cnt k l = cnt k f.
Proof.
  induction l as [|a l IH]; simpl; intros f g H k.
  - inversion H; subst. lia.
  - destruct (release a f) as [f'|] eqn:Er; [|discriminate].
    specialize (IH _ _ H k). pose proof (release_cnt _ _ _ Er k). lia.
Qed.

Lemma release_all_ex : forall l f, (forall k, cnt k l <= cnt k f) -> exists g, release_all l f = Some g.
Proof.
  induction l as [|a l IH]; simpl; intros f H; [eauto|].
  destruct (release_ex a f) as [g Hg].
  { specialize (H a). rewrite String.eqb_refl in H. lia. }
  rewrite Hg. apply IH. intro k. pose proof (release_cnt _ _ _ Hg k). specialize (H k). lia.
Qed.

(* ---- InformerMap.Set and the constructor loops ------------------------------------ *)

Lemma imap_set_le : forall k r m,
  cnt k (imap_set r m) <= cnt k m + (if String.eqb k r then 1 else 0).
Proof.
  intros k r m. unfold imap_set. destruct (memb r m); [lia|]. rewrite cnt_app. simpl. lia.
Qed.

Lemma imap_set_eq : forall k r m, memb r m = false ->
  cnt k (imap_set r m) = cnt k m + (if String.eqb k r then 1 else 0).
Proof.
  intros k r m M. unfold imap_set. rewrite M, cnt_app. simpl. lia.
Qed.

Lemma open_informers_le : forall rs m f f' m' ok,
  open_informers rs m f = (f', m', ok) ->
  forall k, cnt k f <= cnt k f' /\ cnt k m' + cnt k f <= cnt k m + cnt k f'.
Proof.
  induction rs as [|r rs IH]; simpl; intros m f f' m' ok H k.
  - inversion H; subst. lia.
  - destruct (can_subscribe f r).
    + destruct (IH _ _ _ _ _ H k) as [A B]. unfold acquire in A, B. simpl in A, B.
      pose proof (imap_set_le k (ru_key r) m). lia.
    + inversion H; subst. lia.
Qed.

(* when no resource is named twice every subscription is kept in the map *)
Lemma open_informers_eq : forall rs m f f' m' ok,
  open_informers rs m f = (f', m', ok) ->
  nodupb (map ru_key rs) = true ->
  (forall k, 0 < cnt k (map ru_key rs) -> cnt k m = 0) ->
  forall k, cnt k m' + cnt k f = cnt k m + cnt k f'.
Proof.
  induction rs as [|r rs IH]; simpl; intros m f f' m' ok H D Z k.
  - inversion H; subst. lia.
  - destruct (can_subscribe f r).
    + apply andb_true_iff in D. destruct D as [D1 D2]. apply negb_true_iff in D1.
      assert (M : memb (ru_key r) m = false).
      { destruct (memb (ru_key r) m) eqn:M; [|reflexivity]. apply memb_true_cnt in M.
        specialize (Z (ru_key r)). rewrite String.eqb_refl in Z. lia. }
      assert (Z' : forall k0, 0 < cnt k0 (map ru_key rs) -> cnt k0 (imap_set (ru_key r) m) = 0).
      { intros k0 P. rewrite (imap_set_eq _ _ _ M). destruct (String.eqb k0 (ru_key r)) eqn:E.
        - apply String.eqb_eq in E. subst. rewrite (memb_false_cnt _ _ D1) in P. lia.
        - specialize (Z k0). rewrite E in Z. lia. }
      pose proof (IH _ _ _ _ _ H D2 Z' k) as B. unfold acquire in B. simpl in B.
      rewrite (imap_set_eq _ _ _ M) in B. lia.
    + inversion H; subst. lia.
Qed.
