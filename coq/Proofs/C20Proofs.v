(* C20Proofs.v — proofs about Model/Meta.v: the reconcile loops hosting
   controller instances over the shared informer factory.  The factory and
   every list of subscriptions are reasoned about through [cnt] only. *)
From MC Require Import Model.Meta.
From Coq Require Import Lia Arith Bool List String ZArith Setoid.
Import ListNotations.

(* ================================================================== *)
(* 0. the comparison of specs is equality                              *)

Lemma list_eqb_eq {A} (e : A -> A -> bool) :
  (forall a b, e a b = true <-> a = b) ->
  forall l1 l2, list_eqb e l1 l2 = true <-> l1 = l2.
Proof.
  intros He. induction l1 as [|x l1 IH]; destruct l2 as [|y l2]; simpl;
    try (split; congruence).
  rewrite andb_true_iff, He, IH. split.
  - intros [-> ->]. reflexivity.
  - intro H. inversion H. auto.
Qed.

Lemma opt_eqb_eq {A} (e : A -> A -> bool) :
  (forall a b, e a b = true <-> a = b) ->
  forall o1 o2, opt_eqb e o1 o2 = true <-> o1 = o2.
Proof.
  intros He [x|] [y|]; simpl; try (split; congruence).
  rewrite He. split; congruence.
Qed.

Lemma svc_eqb_eq : forall a b, svc_eqb a b = true <-> a = b.
Proof.
  intros [a1 a2 a3 a4] [b1 b2 b3 b4]. unfold svc_eqb. simpl.
  rewrite !andb_true_iff, !Bool.eqb_true_iff. split.
  - intros [[[-> ->] ->] ->]. reflexivity.
  - intro H. inversion H. auto.
Qed.

Lemma tmo_eqb_eq : forall a b, tmo_eqb a b = true <-> a = b.
Proof. intros [] []; simpl; split; congruence. Qed.

Lemma etag_eqb_eq : forall a b, etag_eqb a b = true <-> a = b.
Proof.
  intros [| | |x y] [| | |x' y']; simpl; try (split; congruence).
  rewrite andb_true_iff, !Bool.eqb_true_iff. split.
  - intros [-> ->]. reflexivity.
  - intro H. inversion H. auto.
Qed.

Lemma wh_eqb_eq : forall a b, wh_eqb a b = true <-> a = b.
Proof.
  intros [a1 a2 a3 a4 a5] [b1 b2 b3 b4 b5]. unfold wh_eqb. simpl.
  rewrite !andb_true_iff, !Bool.eqb_true_iff, (opt_eqb_eq _ svc_eqb_eq), tmo_eqb_eq, etag_eqb_eq.
  split.
  - intros [[[[-> ->] ->] ->] ->]. reflexivity.
  - intro H. inversion H. auto 6.
Qed.

Lemma hook_eqb_eq : forall a b, hook_eqb a b = true <-> a = b.
Proof.
  intros [| |x] [| |y]; simpl; try (split; congruence).
  rewrite wh_eqb_eq. split; congruence.
Qed.

Lemma hooks_eqb_eq : forall a b, hooks_eqb a b = true <-> a = b.
Proof.
  intros [a1 a2 a3] [b1 b2 b3]. unfold hooks_eqb. simpl.
  rewrite !andb_true_iff, !hook_eqb_eq. split.
  - intros [[-> ->] ->]. reflexivity.
  - intro H. inversion H. auto.
Qed.

Lemma rule_eqb_eq : forall a b, rule_eqb a b = true <-> a = b.
Proof.
  intros [a1 a2 a3 a4] [b1 b2 b3 b4]. unfold rule_eqb. simpl.
  rewrite !andb_true_iff, !Bool.eqb_true_iff, String.eqb_eq. split.
  - intros [[[-> ->] ->] ->]. reflexivity.
  - intro H. inversion H. auto.
Qed.

Lemma spec_eqb_eq : forall a b, spec_eqb a b = true <-> a = b.
Proof.
  intros [a1 a2 a3 a4] [b1 b2 b3 b4]. unfold spec_eqb. simpl.
  rewrite !andb_true_iff, Z.eqb_eq, !(list_eqb_eq _ rule_eqb_eq), (opt_eqb_eq _ hooks_eqb_eq).
  split.
  - intros [[[-> ->] ->] ->]. reflexivity.
  - intro H. inversion H. auto.
Qed.

Lemma spec_eqb_refl : forall s, spec_eqb s s = true.
Proof. intro s. apply spec_eqb_eq. reflexivity. Qed.

Lemma spec_eqb_sym : forall a b, spec_eqb a b = true -> spec_eqb b a = true.
Proof. intros a b H. apply spec_eqb_eq in H. subst. apply spec_eqb_refl. Qed.

(* ================================================================== *)
(* 1. multisets of resource keys through cnt                            *)

Lemma cnt_app : forall k a b, cnt k (a ++ b)%list = cnt k a + cnt k b.
Proof.
  intros k a b. induction a as [|x a IH]; simpl; [reflexivity|]. rewrite IH. lia.
Qed.

Lemma memb_false_cnt : forall r l, memb r l = false -> cnt r l = 0.
Proof.
  intros r l. unfold memb. induction l as [|x l IH]; simpl; intro H; [reflexivity|].
  apply orb_false_iff in H. destruct H as [H1 H2]. rewrite H1. simpl. auto.
Qed.

Lemma memb_true_cnt : forall r l, memb r l = true -> 0 < cnt r l.
Proof.
  intros r l. unfold memb. induction l as [|x l IH]; simpl; intro H; [discriminate|].
  destruct (String.eqb r x) eqn:E; simpl in *; [lia|auto].
Qed.

Lemma not_in_cnt : forall r l, ~ In r l -> cnt r l = 0.
Proof.
  intros r l. induction l as [|x l IH]; simpl; intro H; [reflexivity|].
  destruct (String.eqb r x) eqn:E.
  - apply String.eqb_eq in E. subst. tauto.
  - simpl. apply IH. tauto.
Qed.

Lemma nodupb_cnt : forall l, nodupb l = true <-> forall k, cnt k l <= 1.
Proof.
  induction l as [|x l IH]; simpl.
  - split; auto.
  - rewrite andb_true_iff, negb_true_iff, IH. split.
    + intros [M N] k. destruct (String.eqb k x) eqn:E.
      * apply String.eqb_eq in E. subst. rewrite (memb_false_cnt _ _ M). lia.
      * specialize (N k). lia.
    + intro H. split.
      * destruct (memb x l) eqn:M; [|reflexivity]. apply memb_true_cnt in M.
        specialize (H x). rewrite String.eqb_refl in H. lia.
      * intro k. specialize (H k). lia.
Qed.

Lemma release_cnt : forall r f g, release r f = Some g ->
  forall k, cnt k g + (if String.eqb k r then 1 else 0) = cnt k f.
Proof.
  intros r. induction f as [|x f IH]; simpl; intros g H k; [discriminate|].
  destruct (String.eqb r x) eqn:E.
  - inversion H; subst. apply String.eqb_eq in E. subst. lia.
  - destruct (release r f) as [g'|] eqn:Er; [|discriminate]. inversion H; subst. simpl.
    specialize (IH _ eq_refl k). lia.
Qed.

Lemma release_ex : forall r f, 0 < cnt r f -> exists g, release r f = Some g.
Proof.
  intros r. induction f as [|x f IH]; simpl; intro H; [lia|].
  destruct (String.eqb r x); [eauto|]. simpl in H. destruct (IH H) as [g Hg]. rewrite Hg. eauto.
Qed.

Lemma release_all_cnt : forall l f g, release_all l f = Some g ->
  forall k, cnt k g + cnt k l = cnt k f.
Proof.
  induction l as [|a l IH]; simpl; intros f g H k.
  - inversion H; subst. lia.
  - destruct (release a f) as [f'|] eqn:Er; [|discriminate].
    specialize (IH _ _ H k). pose proof (release_cnt _ _ _ Er k). lia.
Qed.

Lemma release_all_ex : forall l f, (forall k, cnt k l <= cnt k f) -> exists g, release_all l f = Some g.
Proof.
  induction l as [|a l IH]; simpl; intros f H; [eauto|].
  destruct (release_ex a f) as [g Hg].
  { specialize (H a). rewrite String.eqb_refl in H. lia. }
  rewrite Hg. apply IH. intro k. pose proof (release_cnt _ _ _ Hg k). specialize (H k). lia.
Qed.

(* ---- InformerMap.Set and the constructor loops ------------------------------------ *)

Lemma imap_set_le : forall k r m,
  cnt k (imap_set r m) <= cnt k m + (if String.eqb k r then 1 else 0).
Proof.
  intros k r m. unfold imap_set. destruct (memb r m); [lia|]. rewrite cnt_app. simpl. lia.
Qed.

Lemma imap_set_eq : forall k r m, memb r m = false ->
  cnt k (imap_set r m) = cnt k m + (if String.eqb k r then 1 else 0).
Proof.
  intros k r m M. unfold imap_set. rewrite M, cnt_app. simpl. lia.
Qed.

Lemma open_informers_le : forall rs m f f' m' ok,
  open_informers rs m f = (f', m', ok) ->
  forall k, cnt k f <= cnt k f' /\ cnt k m' + cnt k f <= cnt k m + cnt k f'.
Proof.
  induction rs as [|r rs IH]; simpl; intros m f f' m' ok H k.
  - inversion H; subst. lia.
  - destruct (can_subscribe f r).
    + destruct (IH _ _ _ _ _ H k) as [A B]. unfold acquire in A, B. simpl in A, B.
      pose proof (imap_set_le k (ru_key r) m). lia.
    + inversion H; subst. lia.
Qed.

(* when no resource is named twice every subscription is kept in the map *)
Lemma open_informers_eq : forall rs m f f' m' ok,
  open_informers rs m f = (f', m', ok) ->
  nodupb (map ru_key rs) = true ->
  (forall k, 0 < cnt k (map ru_key rs) -> cnt k m = 0) ->
  forall k, cnt k m' + cnt k f = cnt k m + cnt k f'.
Proof.
  induction rs as [|r rs IH]; simpl; intros m f f' m' ok H D Z k.
  - inversion H; subst. lia.
  - destruct (can_subscribe f r).
    + apply andb_true_iff in D. destruct D as [D1 D2]. apply negb_true_iff in D1.
      assert (M : memb (ru_key r) m = false).
      { destruct (memb (ru_key r) m) eqn:M; [|reflexivity]. apply memb_true_cnt in M.
        specialize (Z (ru_key r)). rewrite String.eqb_refl in Z. lia. }
      assert (Z' : forall k0, 0 < cnt k0 (map ru_key rs) -> cnt k0 (imap_set (ru_key r) m) = 0).
      { intros k0 P. rewrite (imap_set_eq _ _ _ M). destruct (String.eqb k0 (ru_key r)) eqn:E.
        - apply String.eqb_eq in E. subst. rewrite (memb_false_cnt _ _ D1) in P. lia.
        - specialize (Z k0). rewrite E in Z. lia. }
      pose proof (IH _ _ _ _ _ H D2 Z' k) as B. unfold acquire in B. simpl in B.
      rewrite (imap_set_eq _ _ _ M) in B. lia.
    + inversion H; subst. lia.
Qed.

(* ================================================================== *)
(* 2. the controller map                                                *)

Definition subs_of (m : list (cname * inst)) : list rkey :=
  flat_map (fun ni => inst_subs (snd ni)) m.

Lemma subs_of_cons : forall x j m, subs_of ((x, j) :: m) = (inst_subs j ++ subs_of m)%list.
Proof. reflexivity. Qed.

Lemma subs_of_app : forall a b, subs_of (a ++ b)%list = (subs_of a ++ subs_of b)%list.
Proof.
  intros a b. induction a as [|[x j] a IH]; [reflexivity|].
  rewrite <- app_comm_cons, !subs_of_cons, IH, app_assoc. reflexivity.
Qed.

Lemma cnt_name_fst : forall n m, cnt_name n m = cnt n (map fst m).
Proof.
  intros n m. induction m as [|[x j] m IH]; simpl; [reflexivity|]. rewrite IH. reflexivity.
Qed.

Lemma one_per_name_iff : forall st,
  one_per_nameb st = true <-> forall n, cnt_name n (insts st) <= 1.
Proof.
  intro st. unfold one_per_nameb. rewrite nodupb_cnt. split; intros H n.
  - rewrite cnt_name_fst. apply H.
  - rewrite <- cnt_name_fst. apply H.
Qed.

Lemma cnt_name_app : forall n a b, cnt_name n (a ++ b)%list = cnt_name n a + cnt_name n b.
Proof.
  intros n a b. induction a as [|[x j] a IH]; simpl; [reflexivity|]. rewrite IH. lia.
Qed.

Lemma cnt_name_iremove : forall n' n m,
  cnt_name n' (iremove n m) = if String.eqb n' n then 0 else cnt_name n' m.
Proof.
  intros n' n m. induction m as [|[x j] m IH]; simpl.
  - destruct (String.eqb n' n); reflexivity.
  - destruct (String.eqb n x) eqn:E.
    + apply String.eqb_eq in E. subst x. rewrite IH. destruct (String.eqb n' n); reflexivity.
    + simpl. rewrite IH. destruct (String.eqb n' n) eqn:E2; [|reflexivity].
      apply String.eqb_eq in E2. subst n'. rewrite E. reflexivity.
Qed.

Lemma cnt_name_iset : forall n' n i m,
  cnt_name n' (iset n i m) = if String.eqb n' n then 1 else cnt_name n' m.
Proof.
  intros n' n i m. unfold iset. rewrite cnt_name_app, cnt_name_iremove. simpl.
  destruct (String.eqb n' n); lia.
Qed.

Lemma cnt_name_0_ifind : forall n m, cnt_name n m = 0 -> ifind n m = None.
Proof.
  intros n m. induction m as [|[x j] m IH]; simpl; intro H; [reflexivity|].
  destruct (String.eqb n x); [simpl in H; lia|]. apply IH. lia.
Qed.

Lemma ifind_iremove_same : forall n m, ifind n (iremove n m) = None.
Proof.
  intros n m. apply cnt_name_0_ifind. rewrite cnt_name_iremove, String.eqb_refl. reflexivity.
Qed.

Lemma ifind_iremove_other : forall n' n m, n' <> n -> ifind n' (iremove n m) = ifind n' m.
Proof.
  intros n' n m N. induction m as [|[x j] m IH]; simpl; [reflexivity|].
  destruct (String.eqb n x) eqn:E.
  - apply String.eqb_eq in E. subst x. apply String.eqb_neq in N. rewrite N. exact IH.
  - simpl. rewrite IH. reflexivity.
Qed.

Lemma ifind_none_iremove : forall n m, ifind n m = None -> iremove n m = m.
Proof.
  intros n m. induction m as [|[x j] m IH]; simpl; intro H; [reflexivity|].
  destruct (String.eqb n x); [discriminate|]. rewrite (IH H). reflexivity.
Qed.

Lemma iremove_idem : forall n m, iremove n (iremove n m) = iremove n m.
Proof. intros n m. apply ifind_none_iremove, ifind_iremove_same. Qed.

Lemma ifind_app : forall n a b,
  ifind n (a ++ b)%list = match ifind n a with Some i => Some i | None => ifind n b end.
Proof.
  intros n a b. induction a as [|[x j] a IH]; simpl; [reflexivity|].
  destruct (String.eqb n x); [reflexivity|exact IH].
Qed.

Lemma iremove_app : forall n a b, iremove n (a ++ b)%list = (iremove n a ++ iremove n b)%list.
Proof.
  intros n a b. induction a as [|[x j] a IH]; simpl; [reflexivity|].
  destruct (String.eqb n x); rewrite IH; reflexivity.
Qed.

Lemma ifind_iset_same : forall n i m, ifind n (iset n i m) = Some i.
Proof.
  intros n i m. unfold iset. rewrite ifind_app, ifind_iremove_same. simpl.
  rewrite String.eqb_refl. reflexivity.
Qed.

Lemma ifind_iset_other : forall n' n i m, n' <> n -> ifind n' (iset n i m) = ifind n' m.
Proof.
  intros n' n i m N. unfold iset. rewrite ifind_app, (ifind_iremove_other _ _ _ N).
  destruct (ifind n' m); [reflexivity|]. simpl. apply String.eqb_neq in N. rewrite N. reflexivity.
Qed.

Lemma iset_fresh : forall n i m, ifind n m = None -> iset n i m = (m ++ [(n, i)])%list.
Proof. intros n i m H. unfold iset. rewrite (ifind_none_iremove _ _ H). reflexivity. Qed.

(* the subscriptions of the map are those of n's instance plus those of the others *)
Lemma subs_split : forall n m i, (forall x, cnt_name x m <= 1) -> ifind n m = Some i ->
  forall k, cnt k (subs_of m) = cnt k (inst_subs i) + cnt k (subs_of (iremove n m)).
Proof.
  intros n. induction m as [|[x j] m IH]; intros i U F k; [discriminate|].
  cbn [ifind iremove cnt_name] in *.
  assert (U' : forall y, cnt_name y m <= 1) by (intro y; specialize (U y); lia).
  destruct (String.eqb n x) eqn:E.
  - inversion F; subst j. apply String.eqb_eq in E. subst x.
    assert (Z : cnt_name n m = 0) by (specialize (U n); rewrite String.eqb_refl in U; lia).
    rewrite (ifind_none_iremove _ _ (cnt_name_0_ifind _ _ Z)), subs_of_cons, cnt_app. reflexivity.
  - rewrite !subs_of_cons, !cnt_app, (IH i U' F k). lia.
Qed.

Lemma subs_iremove_le : forall n m k, (forall x, cnt_name x m <= 1) ->
  cnt k (subs_of (iremove n m)) <= cnt k (subs_of m).
Proof.
  intros n m k U. destruct (ifind n m) as [i|] eqn:F.
  - rewrite (subs_split _ _ _ U F k). lia.
  - rewrite (ifind_none_iremove _ _ F). lia.
Qed.

Lemma subs_iset : forall n i m k,
  cnt k (subs_of (iset n i m)) = cnt k (subs_of (iremove n m)) + cnt k (inst_subs i).
Proof.
  intros n i m k. unfold iset. rewrite subs_of_app, cnt_app, subs_of_cons, cnt_app. simpl. lia.
Qed.

(* ================================================================== *)
(* 3. the constructors                                                  *)

Lemma new_hook_no_panic : forall h, new_hook h <> Panic.
Proof.
  intros [| |w]; simpl; try discriminate. unfold new_webhook_executor.
  destruct (negb (webhook_url_ok w)); [discriminate|]. simpl.
  destruct (w_etag w); simpl; discriminate.
Qed.

Lemma hook_panics_false : forall h, hook_panics h = false.
Proof.
  intro h. unfold hook_panics. pose proof (new_hook_no_panic h) as N.
  destruct (new_hook h); simpl; congruence.
Qed.

(* what every call of a constructor guarantees, on any factory *)
Definition start_post (s : spec) (f : factory) (out : factory * res inst) : Prop :=
  snd out <> Panic /\
  (forall k, cnt k f <= cnt k (fst out)) /\
  (forall i, snd out = Ok i ->
     i_spec i = s /\ i_related i = [] /\ forall k, cnt k (i_subs i) + cnt k f <= cnt k (fst out)) /\
  (spec_distinctb s = true ->
     forall k, cnt k (fst out) = cnt k f + match snd out with Ok i => cnt k (i_subs i) | _ => 0 end).

Lemma post_same : forall s f, start_post s f (f, Err).
Proof.
  intros s f. unfold start_post. simpl. split; [discriminate|]. split; [auto|].
  split; [discriminate|]. intros _ k. lia.
Qed.

Lemma post_fail_closing : forall s f held f2,
  (forall k, cnt k held + cnt k f <= cnt k f2) ->
  (spec_distinctb s = true -> forall k, cnt k held + cnt k f = cnt k f2) ->
  start_post s f (fail_closing held f2).
Proof.
  intros s f held f2 L E. unfold fail_closing.
  destruct (release_all_ex held f2) as [g Hg].
  { intro k. specialize (L k). lia. }
  rewrite Hg. pose proof (release_all_cnt _ _ _ Hg) as C. unfold start_post. simpl.
  split; [discriminate|]. split.
  { intro k. specialize (C k). specialize (L k). lia. }
  split; [discriminate|]. intros D k. specialize (C k). specialize (E D k). lia.
Qed.

Lemma post_ok : forall s f held f2,
  (forall k, cnt k held + cnt k f <= cnt k f2) ->
  (spec_distinctb s = true -> forall k, cnt k held + cnt k f = cnt k f2) ->
  start_post s f (f2, Ok (mkInst s held [])).
Proof.
  intros s f held f2 L E. unfold start_post. simpl. split; [discriminate|]. split.
  { intro k. specialize (L k). lia. }
  split.
  { intros i Hi. inversion Hi; subst. simpl. auto. }
  intros D k. specialize (E D k). lia.
Qed.

Lemma start_composite_post : forall s f, start_post s f (start_composite s f).
Proof.
  intros s f. unfold start_composite.
  destruct (s_parents s) as [|p ps]; [apply post_same|].
  destruct (negb (ru_known p)); [apply post_same|].
  destruct (existsb strategy_unknown (s_children s)); [apply post_same|].
  destruct (negb (can_subscribe f p)); [apply post_same|].
  cbv zeta.
  destruct (open_informers (s_children s) [] (acquire (ru_key p) f)) as [[f2 kids] ok] eqn:Eo.
  pose proof (open_informers_le _ _ _ _ _ _ Eo) as Hle.
  assert (L : forall k, cnt k (kids ++ [ru_key p])%list + cnt k f <= cnt k f2).
  { intro k. destruct (Hle k) as [_ B]. unfold acquire in B. simpl in B.
    rewrite cnt_app. simpl. lia. }
  assert (E : spec_distinctb s = true ->
              forall k, cnt k (kids ++ [ru_key p])%list + cnt k f = cnt k f2).
  { intros D k. unfold spec_distinctb in D. apply andb_true_iff in D. destruct D as [_ D].
    assert (B : cnt k kids + cnt k (acquire (ru_key p) f) = cnt k [] + cnt k f2).
    { apply (open_informers_eq _ _ _ _ _ _ Eo D). intros k0 _. reflexivity. }
    unfold acquire in B. simpl in B. rewrite cnt_app. simpl. lia. }
  pose proof (post_fail_closing s f _ f2 L E) as HF.
  destruct ok; simpl; [|exact HF].
  destruct (s_hooks s) as [h|]; [|exact HF].
  rewrite !hook_panics_false.
  destruct (hook_fails (h_sync h)); [exact HF|].
  destruct (hook_fails (h_finalize h)); [exact HF|].
  destruct (negb (ru_selector_ok p)); [exact HF|].
  destruct (hook_fails (h_customize h)); [exact HF|].
  apply post_ok; assumption.
Qed.

Lemma start_decorator_post : forall s f, start_post s f (start_decorator s f).
Proof.
  intros s f. unfold start_decorator.
  destruct (s_hooks s) as [h|]; [|apply post_same].
  rewrite !hook_panics_false.
  destruct (hook_fails (h_sync h)); [apply post_same|].
  destruct (hook_fails (h_finalize h)); [apply post_same|].
  destruct (hook_fails (h_customize h)); [apply post_same|].
  destruct (existsb _ (s_parents s)); [apply post_same|].
  destruct (existsb strategy_unknown (s_children s)); [apply post_same|].
  destruct (open_informers (s_parents s) [] f) as [[f1 pars] ok1] eqn:Eo1.
  pose proof (open_informers_le _ _ _ _ _ _ Eo1) as Hle1.
  assert (E1 : spec_distinctb s = true -> forall k, cnt k pars + cnt k f = cnt k f1).
  { intros D k. unfold spec_distinctb in D. apply andb_true_iff in D. destruct D as [D _].
    assert (B : cnt k pars + cnt k f = cnt k [] + cnt k f1).
    { apply (open_informers_eq _ _ _ _ _ _ Eo1 D). intros k0 _. reflexivity. }
    simpl in B. lia. }
  destruct ok1; simpl.
  2:{ apply post_fail_closing; [|exact E1]. intro k. destruct (Hle1 k) as [_ B]. simpl in B. lia. }
  destruct (open_informers (s_children s) [] f1) as [[f2 kids] ok2] eqn:Eo2.
  pose proof (open_informers_le _ _ _ _ _ _ Eo2) as Hle2.
  assert (L : forall k, cnt k (kids ++ pars)%list + cnt k f <= cnt k f2).
  { intro k. destruct (Hle1 k) as [_ B1]. destruct (Hle2 k) as [_ B2]. simpl in B1, B2.
    rewrite cnt_app. lia. }
  assert (E : spec_distinctb s = true -> forall k, cnt k (kids ++ pars)%list + cnt k f = cnt k f2).
  { intros D k. specialize (E1 D k).
    unfold spec_distinctb in D. apply andb_true_iff in D. destruct D as [_ D].
    assert (B : cnt k kids + cnt k f1 = cnt k [] + cnt k f2).
    { apply (open_informers_eq _ _ _ _ _ _ Eo2 D). intros k0 _. reflexivity. }
    simpl in B. rewrite cnt_app. lia. }
  destruct ok2; simpl; [apply post_ok|apply post_fail_closing]; assumption.
Qed.

Lemma start_post_holds : forall fl s f, start_post s f (start fl s f).
Proof. intros [|] s f; [apply start_composite_post|apply start_decorator_post]. Qed.
