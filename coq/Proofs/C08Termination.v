(* C08Termination.v — C08 "healthy rollouts finish", on the real rollout step:
   sync_rolling_update + prune of Model/Rolling.v iterated under a fair
   environment reaches RComplete within (number of pending children) rounds
   and then stays there with exactly one revision. *)
From MC Require Import Generated.
From MC Require Import Model.Rolling.
From MC Require Import Proofs.RollGate Proofs.RollClaims Proofs.RollMoves.
From Coq Require Import Lia.
Local Open Scope string_scope.
Local Open Scope list_scope.

(* ================================================================== *)
(* 0. more about the claims pass: a desired, unclaimed, rolling name    *)
(*    that a revision lists is still listed afterwards                  *)
(* ================================================================== *)

Lemma names_fold_mono ds i g kd names : forall ns0 cl0 ns1 cl1,
  fold_left (name_step ds i g kd) names (ns0, cl0) = (ns1, cl1) ->
  forall n, In n ns0 -> In n ns1.
Proof.
  intros ns0 cl0 ns1 cl1 Hf n Hin. apply names_fold_ok in Hf.
  destruct (no_added _ _ _ _ _ _ _ _ _ Hf) as (added & -> & _). apply in_or_app. now left.
Qed.

Lemma names_fold_keeps ds i g kd names : forall ns0 cl0 ns1 cl1,
  fold_left (name_step ds i g kd) names (ns0, cl0) = (ns1, cl1) ->
  forall n, In n names -> find_desired ds g kd n <> None -> claimant cl0 (g, kd, n) = None -> In n ns1.
Proof.
  induction names as [|name names IH]; intros ns0 cl0 ns1 cl1 Hf n Hin Hd Hc; [destruct Hin|].
  cbn [fold_left] in Hf.
  destruct (name_step ds i g kd (ns0, cl0) name) as [nm clm] eqn:Hs.
  unfold name_step in Hs.
  destruct (String.eqb name n) eqn:E.
  - apply String.eqb_eq in E. subst name.
    destruct (find_desired ds g kd n) as [d|]; [|congruence]. rewrite Hc in Hs. injection Hs as <- <-.
    eapply names_fold_mono; [exact Hf|]. apply in_or_app. right. now left.
  - apply String.eqb_neq in E. destruct Hin as [Hin|Hin]; [contradiction|].
    eapply IH; [exact Hf|exact Hin|exact Hd|].
    destruct (find_desired ds g kd name) as [d|]; [|injection Hs as <- <-; exact Hc].
    destruct (claimant cl0 (g, kd, name)) as [j|]; injection Hs as <- <-; [exact Hc|].
    rewrite claimant_set_other; [exact Hc|]. apply ck_eqb_neq. intros [= H]. contradiction.
Qed.

Lemma groups_fold_keeps c ds i cs : forall gs0 cl0 gs1 cl1,
  fold_left (group_step c ds i) cs (gs0, cl0) = (gs1, cl1) ->
  (forall k, lists_cs gs0 k = true -> lists_cs gs1 k = true) /\
  (forall g kd n, lists_cs cs (g, kd, n) = true -> is_rolling c g kd = true ->
                  find_desired ds g kd n <> None -> claimant cl0 (g, kd, n) = None ->
                  lists_cs gs1 (g, kd, n) = true).
Proof.
  induction cs as [|ck cs IH]; intros gs0 cl0 gs1 cl1 Hf; cbn [fold_left] in Hf.
  - injection Hf as <- <-. split; [auto|]. intros g kd n H. discriminate.
  - destruct (group_step c ds i (gs0, cl0) ck) as [gsm clm] eqn:Hs.
    destruct (IH gsm clm gs1 cl1 Hf) as [IHm IHk]. unfold group_step in Hs.
    destruct (negb (is_rolling c (ck_group ck) (ck_kind ck))) eqn:Hroll.
    + injection Hs as <- <-. split; [exact IHm|].
      intros g kd n Hl Hr Hd Hc. rewrite lists_cs_cons in Hl. apply Bool.orb_true_iff in Hl.
      destruct Hl as [Hl|Hl]; [|apply IHk; assumption].
      exfalso. unfold entry_lists in Hl. apply Bool.andb_true_iff in Hl. destruct Hl as [Hm _].
      apply gk_match_eq in Hm. destruct Hm as [<- <-]. apply Bool.negb_true_iff in Hroll. congruence.
    + destruct (fold_left (name_step ds i (ck_group ck) (ck_kind ck)) (ck_names ck) ([], cl0)) as [kept cl1'] eqn:Hn.
      pose proof (names_fold_keeps _ _ _ _ _ _ _ _ _ Hn) as Hkeep.
      apply names_fold_ok in Hn. destruct Hn as [Nm (added & Hk & Nnd & Nin & Nnew) Nnodup].
      cbn [app] in Hk. subst added.
      set (new := mkRck (ck_group ck) (ck_kind ck) kept) in *.
      assert (Hgsm : clm = cl1' /\ (forall k, lists_cs gs0 k = true -> lists_cs gsm k = true) /\
                     (forall n, In n kept -> lists_cs gsm (ck_group ck, ck_kind ck, n) = true)).
      { destruct kept as [|x kept'] eqn:Ek; injection Hs as <- <-.
        - split; [reflexivity|]. split; [auto|]. intros n [].
        - split; [reflexivity|]. split.
          + intros k Hl. rewrite lists_cs_app, Hl. reflexivity.
          + intros n Hn'. rewrite lists_cs_app. apply Bool.orb_true_iff. right.
            apply lists_cs_spec. exists new. split; [now left|]. repeat split; auto. }
      destruct Hgsm as (-> & Hm0 & Hkept). clear Hs.
      split; [intros k Hl; apply IHm, Hm0, Hl|].
      intros g kd n Hl Hr Hd Hc. rewrite lists_cs_cons in Hl. apply Bool.orb_true_iff in Hl.
      destruct Hl as [Hl|Hl].
      * unfold entry_lists in Hl. apply Bool.andb_true_iff in Hl. destruct Hl as [Hm Hn'].
        apply gk_match_eq in Hm. destruct Hm as [<- <-]. apply mem_str_In in Hn'.
        apply IHm, Hkept. apply Hkeep; assumption.
      * destruct (claimant cl1' (g, kd, n)) as [j|] eqn:Hcm; [|apply IHk; assumption].
        destruct (Nnew _ _ Hcm) as [H|(_ & _ & n' & Hn' & [= -> -> ->])]; [congruence|].
        apply IHm, Hkept, Hn'.
Qed.

Lemma claims_of_revision_keeps c ds i r cl r' cl' g kd n :
  claims_of_revision c ds i r cl = (r', cl') ->
  lists r (g, kd, n) = true -> is_rolling c g kd = true -> find_desired ds g kd n <> None ->
  claimant cl (g, kd, n) = None -> lists r' (g, kd, n) = true.
Proof.
  rewrite claims_of_revision_eq.
  destruct (fold_left (group_step c ds i) (rev_children r) ([], cl)) as [gs cl1] eqn:Hf.
  intros [= <- <-]. apply groups_fold_keeps in Hf. destruct Hf as [_ Hk]. unfold lists. cbn [rev_children].
  apply Hk.
Qed.

(* ================================================================== *)
(* 1. the head revision through the first pass                          *)
(* ================================================================== *)

Lemma move_at_resp k rem m p : pr_resp (move_at k rem m p) = pr_resp p.
Proof.
  destruct k as [[g kd] n]. unfold move_at, addf, remf, set_rev.
  destruct (Nat.eqb m 0); [reflexivity|]. destruct (rem m); reflexivity.
Qed.

(* the head keeps its hook answer and only gains names *)
Definition head_grows (q : prev) (prs : list prev) : Prop :=
  exists q' rest', prs = q' :: rest' /\ pr_desired q' = pr_desired q /\ pr_resp q' = pr_resp q /\
                   forall k, listsP q k = true -> listsP q' k = true.

Lemma head_grows_refl q rest : head_grows q (q :: rest).
Proof. exists q, rest. auto. Qed.

Lemma moved_head_grows q k rem prs prs' : moved k rem prs prs' -> head_grows q prs -> head_grows q prs'.
Proof.
  intros Hmv (q1 & rest1 & -> & Hd & Hr & Hl). pose proof (Hmv 0) as H0. cbn [nth_error option_map] in H0.
  destruct prs' as [|q' rest']; [discriminate|]. cbn [nth_error] in H0. injection H0 as ->.
  exists (move_at k rem 0 q1), rest'. split; [reflexivity|].
  rewrite move_at_desired, move_at_resp. split; [exact Hd|]. split; [exact Hr|].
  intros k' Hk'. destruct (ck_dec k k') as [<-|Hne]; [apply move_at_head|].
  rewrite move_at_other by exact Hne. apply Hl, Hk'.
Qed.

Lemma fp_step_head c pns observed q prs cl e prs' cl' :
  head_grows q prs -> fp_step c pns observed (prs, cl) e = (prs', cl') -> head_grows q prs'.
Proof.
  intros Hh Hs. destruct e as [[[av kind] name] dc]. unfold fp_step in Hs. cbv zeta in Hs.
  assert (Hsame : (prs, cl) = (prs', cl') -> head_grows q prs') by (intros [= <- <-]; exact Hh).
  destruct (negb (is_rolling c (group_of av) kind)); [auto|].
  destruct (claimant cl (group_of av, kind, name)) as [j|].
  - destruct j as [|i]; [auto|].
    destruct (find_observed pns observed (group_of av) kind name) as [child|]; [|auto].
    destruct (apply_update (obj_map child) (obj_map dc)) as [n| |]; auto.
    destruct (jeqb (JObj n) child); [|auto].
    injection Hs as <- <-.
    pose proof (moved_add_rem (group_of av, kind, name) i prs) as Hmv. unfold addf, remf in Hmv.
    eapply moved_head_grows; eauto.
  - injection Hs as <- <-.
    pose proof (moved_add (group_of av, kind, name) prs) as Hmv. unfold addf in Hmv.
    eapply moved_head_grows; eauto.
Qed.

Lemma fp_fold_head c pns observed q : forall l prs cl prs' cl',
  head_grows q prs -> fold_left (fp_step c pns observed) l (prs, cl) = (prs', cl') -> head_grows q prs'.
Proof.
  induction l as [|e l IH]; intros prs cl prs' cl' Hh Hf; cbn [fold_left] in Hf.
  - injection Hf as <- <-. exact Hh.
  - destruct (fp_step c pns observed (prs, cl) e) as [prs1 cl1] eqn:Hs.
    eapply IH; [|exact Hf]. eapply fp_step_head; eauto.
Qed.

(* ================================================================== *)
(* 2. the second pass, by cases                                         *)
(* ================================================================== *)

Definition key_of (pns : string) (o : json) : claim_key :=
  (group_of (get_api_version o), get_kind o, relative_name pns o).

(* the selection function of the second pass *)
Definition pend (c : ccfg) (pns : string) (cl : claims) (ch : option json) : bool :=
  match ch with
  | None => false
  | Some o =>
      is_rolling c (group_of (get_api_version o)) (get_kind o) &&
      negb (match claimant cl (key_of pns o) with Some O => true | _ => false end)
  end.

Lemma second_pass_cases c pns observed l rest cl prs' st :
  second_pass c pns observed (l :: rest) cl = (prs', st) ->
  (st = RComplete /\ prs' = l :: rest /\
   forall ch, In ch (hr_children (pr_resp l)) -> pend c pns cl ch = false) \/
  (exists why, st = RWaiting why /\ prs' = l :: rest /\
               should_continue_rolling c pns l observed = Some why) \/
  (exists o, st = RProgressing (get_kind o) (relative_name pns o) /\
             In (Some o) (hr_children (pr_resp l)) /\ pend c pns cl (Some o) = true /\
             prs' = addf (key_of pns o) l :: map (remf (key_of pns o)) rest).
Proof.
  unfold second_pass.
  match goal with |- context [find ?f ?l] => change f with (pend c pns cl) end.
  destruct (find (pend c pns cl) (hr_children (pr_resp l))) as [[o|]|] eqn:Hf.
  - apply find_some in Hf. destruct Hf as [Hin Hp]. cbv zeta.
    destruct (should_continue_rolling c pns l observed) as [why|] eqn:Hg.
    + intros [= <- <-]. right. left. exists why. auto.
    + intros [= <- <-]. right. right. exists o. split; [reflexivity|]. split; [exact Hin|]. split; [exact Hp|].
      rewrite map_id, update_nth_0. reflexivity.
  - apply find_some in Hf. destruct Hf as [_ Hp]. discriminate.
  - intros [= <- <-]. left. split; [reflexivity|]. split; [reflexivity|].
    intros ch Hin. eapply find_none in Hf; eauto.
Qed.

(* ================================================================== *)
(* 3. small facts                                                       *)
(* ================================================================== *)

Lemma simple_cs_gk_unique cs : simple_cs cs = true -> gk_unique cs = true.
Proof.
  induction cs as [|ck cs IH]; cbn [simple_cs gk_unique]; [auto|]. intros H.
  apply Bool.andb_true_iff in H. destruct H as [H H3]. apply Bool.andb_true_iff in H. destruct H as [H1 _].
  rewrite H1, IH by exact H3. reflexivity.
Qed.

Lemma count_children_acc cs : forall a, fold_left (fun n ck => n + List.length (ck_names ck)) cs a =
                                         a + fold_left (fun n ck => n + List.length (ck_names ck)) cs 0.
Proof.
  induction cs as [|ck cs IH]; intros a; cbn [fold_left]; [lia|].
  rewrite IH, (IH (0 + _)). lia.
Qed.

Lemma count_children_zero r : (forall k, lists r k = false) -> count_children r = 0.
Proof.
  unfold count_children, lists. induction (rev_children r) as [|ck cs IH]; intros H; cbn [fold_left]; [reflexivity|].
  rewrite count_children_acc.
  assert (Hn : ck_names ck = []).
  { destruct (ck_names ck) as [|n ns] eqn:E; [reflexivity|].
    specialize (H (ck_group ck, ck_kind ck, n)). rewrite lists_cs_cons in H.
    apply Bool.orb_false_iff in H. destruct H as [H _]. unfold entry_lists, gk_match in H.
    rewrite !String.eqb_refl, E in H. cbn [andb mem_str] in H. rewrite String.eqb_refl in H. discriminate. }
  rewrite Hn. cbn [List.length]. rewrite IH; [reflexivity|].
  intros k. specialize (H k). rewrite lists_cs_cons in H. apply Bool.orb_false_iff in H. tauto.
Qed.

Lemma filter_length_le {A} (P Q : A -> bool) l :
  (forall x, In x l -> Q x = true -> P x = true) -> List.length (filter Q l) <= List.length (filter P l).
Proof.
  induction l as [|a l IH]; intros H; cbn [filter]; [lia|].
  assert (IH' : List.length (filter Q l) <= List.length (filter P l)).
  { apply IH. intros x Hx. apply H. now right. }
  destruct (Q a) eqn:Eq.
  - rewrite (H a (or_introl eq_refl) Eq). cbn [List.length]. lia.
  - destruct (P a); cbn [List.length]; lia.
Qed.

Lemma filter_length_lt {A} (P Q : A -> bool) l x :
  (forall y, In y l -> Q y = true -> P y = true) -> In x l -> P x = true -> Q x = false ->
  List.length (filter Q l) < List.length (filter P l).
Proof.
  induction l as [|a l IH]; intros H Hin Hp Hq; [destruct Hin|]. cbn [filter].
  assert (Hl : forall y, In y l -> Q y = true -> P y = true) by (intros y Hy; apply H; now right).
  destruct Hin as [->|Hin].
  - rewrite Hp, Hq. cbn [List.length]. pose proof (filter_length_le P Q l Hl). lia.
  - specialize (IH Hl Hin Hp Hq). destruct (Q a) eqn:Eq.
    + rewrite (H a (or_introl eq_refl) Eq). cbn [List.length]. lia.
    + destruct (P a); cbn [List.length]; lia.
Qed.

Lemma child_ready_ext c pns l l' observed ck ck' name :
  ck_group ck = ck_group ck' -> ck_kind ck = ck_kind ck' -> pr_desired l = pr_desired l' ->
  child_ready c pns l observed ck name -> child_ready c pns l' observed ck' name.
Proof. unfold child_ready. intros <- <- <- H. exact H. Qed.

(* ================================================================== *)
(* 4. hypotheses on the input of a round (all boolean)                  *)
(* ================================================================== *)

(* no revision lists a (group, kind) twice (see C09_duplicate_group_counterexample) *)
Definition gk_unique_all (prs : list prev) : bool :=
  forallb (fun p => gk_unique (rev_children (pr_rev p))) prs.

(* pr_desired and the children of the hook answer describe the same children
   (pr_desired = relative_desired pns (hr_children …) in sync_revisions_rolling) *)
Definition desired_from_children (pns : string) (l : prev) : bool :=
  forallb (fun e => match e with (av, kd, n, _) =>
     existsb (fun ch => match ch with
                        | Some o => String.eqb (get_api_version o) av && String.eqb (get_kind o) kd &&
                                    String.eqb (relative_name pns o) n
                        | None => false end) (hr_children (pr_resp l)) end) (pr_desired l).

Definition children_desired (pns : string) (l : prev) : bool :=
  forallb (fun ch => match ch with
                     | Some o => match find_desired (pr_desired l) (group_of (get_api_version o)) (get_kind o)
                                                    (relative_name pns o) with Some _ => true | None => false end
                     | None => true end) (hr_children (pr_resp l)).

Definition head_wf (pns : string) (l : prev) : bool := desired_from_children pns l && children_desired pns l.

(* fairness: every desired child that the latest revision lists under a rolling kind is
   observed, up to date with the latest desired state, and healthy *)
Definition fair_head (c : ccfg) (pns : string) (observed : umap) (l : prev) : bool :=
  forallb (fun ck => negb (is_rolling c (ck_group ck) (ck_kind ck)) ||
     forallb (fun name => match find_desired (pr_desired l) (ck_group ck) (ck_kind ck) name with
                          | None => true
                          | Some _ => child_readyb c pns l observed ck name end) (ck_names ck))
          (rev_children (pr_rev l)).

Lemma dfc_spec pns l g kd n :
  desired_from_children pns l = true -> find_desired (pr_desired l) g kd n <> None ->
  exists o, In (Some o) (hr_children (pr_resp l)) /\ key_of pns o = (g, kd, n).
Proof.
  unfold desired_from_children, find_desired. intros Hd Hf.
  match type of Hf with context [find ?f ?l] => destruct (find f l) as [[[[a k] n'] x]|] eqn:E end; [|congruence].
  apply find_some in E. destruct E as [Hin Hp].
  apply Bool.andb_true_iff in Hp. destruct Hp as [Hp H3]. apply Bool.andb_true_iff in Hp. destruct Hp as [H1 H2].
  apply String.eqb_eq in H1, H2, H3. subst g kd n.
  rewrite forallb_forall in Hd. specialize (Hd _ Hin). cbv beta iota in Hd.
  apply existsb_exists in Hd. destruct Hd as ([o|] & Ho & He); [|discriminate].
  apply Bool.andb_true_iff in He. destruct He as [He E3]. apply Bool.andb_true_iff in He. destruct He as [E1 E2].
  apply String.eqb_eq in E1, E2, E3. exists o. split; [exact Ho|]. unfold key_of. congruence.
Qed.

Lemma cd_spec pns l o :
  children_desired pns l = true -> In (Some o) (hr_children (pr_resp l)) ->
  find_desired (pr_desired l) (group_of (get_api_version o)) (get_kind o) (relative_name pns o) <> None.
Proof.
  unfold children_desired. intros Hc Hin. rewrite forallb_forall in Hc. specialize (Hc _ Hin). cbv beta iota in Hc.
  destruct (find_desired (pr_desired l) (group_of (get_api_version o)) (get_kind o) (relative_name pns o));
    [discriminate|discriminate].
Qed.

Lemma fair_head_spec c pns observed l g kd n :
  fair_head c pns observed l = true ->
  lists (pr_rev l) (g, kd, n) = true -> is_rolling c g kd = true -> find_desired (pr_desired l) g kd n <> None ->
  child_ready c pns l observed (mkRck g kd []) n.
Proof.
  unfold fair_head. intros Hf Hl Hr Hd. apply lists_cs_spec in Hl. destruct Hl as (ck & Hck & Hg & Hk & Hn).
  rewrite forallb_forall in Hf. specialize (Hf ck Hck). cbv beta in Hf. rewrite Hg, Hk, Hr in Hf. cbn [negb orb] in Hf.
  rewrite forallb_forall in Hf. specialize (Hf n Hn). cbv beta in Hf.
  destruct (find_desired (pr_desired l) g kd n); [|congruence].
  apply child_readyb_spec in Hf. eapply child_ready_ext; [| | |exact Hf]; auto.
Qed.

(* ================================================================== *)
(* 5. keys listed anywhere stay rolling and desired through the first pass *)
(* ================================================================== *)

Definition good_key (c : ccfg) (ds : dlist) (k : claim_key) : Prop :=
  match k with (g, kd, n) => is_rolling c g kd = true /\ find_desired ds g kd n <> None end.

Definition all_keys (P : claim_key -> Prop) (prs : list prev) : Prop :=
  forall p k, In p prs -> listsP p k = true -> P k.

Lemma moved_all_keys (P : claim_key -> Prop) k rem prs prs' :
  moved k rem prs prs' -> P k -> all_keys P prs -> all_keys P prs'.
Proof.
  intros Hmv Hk Hall p' k' Hin Hl. apply In_nth_error in Hin. destruct Hin as [m Hm].
  destruct (moved_bwd _ _ _ _ _ _ Hmv Hm) as (p & Hp & ->).
  apply move_at_lists_sub in Hl. destruct Hl as [->|Hl]; [exact Hk|].
  eapply Hall; eauto. eapply nth_error_In; eauto.
Qed.

Lemma fp_step_keys c pns observed ds prs cl e prs' cl' :
  all_keys (good_key c ds) prs -> In e ds ->
  fp_step c pns observed (prs, cl) e = (prs', cl') -> all_keys (good_key c ds) prs'.
Proof.
  intros Hall Hin Hs. destruct e as [[[av kind] name] dc]. unfold fp_step in Hs. cbv zeta in Hs.
  pose proof (find_desired_in ds av kind name dc Hin) as Hd.
  assert (Hsame : (prs, cl) = (prs', cl') -> all_keys (good_key c ds) prs') by (intros [= <- <-]; exact Hall).
  destruct (negb (is_rolling c (group_of av) kind)) eqn:Hroll; [auto|]. apply Bool.negb_false_iff in Hroll.
  assert (Hgood : good_key c ds (group_of av, kind, name)) by (split; assumption).
  destruct (claimant cl (group_of av, kind, name)) as [j|].
  - destruct j as [|i]; [auto|].
    destruct (find_observed pns observed (group_of av) kind name) as [child|]; [|auto].
    destruct (apply_update (obj_map child) (obj_map dc)) as [n| |]; auto.
    destruct (jeqb (JObj n) child); [|auto].
    injection Hs as <- <-.
    pose proof (moved_add_rem (group_of av, kind, name) i prs) as Hmv. unfold addf, remf in Hmv.
    eapply moved_all_keys; eauto.
  - injection Hs as <- <-.
    pose proof (moved_add (group_of av, kind, name) prs) as Hmv. unfold addf in Hmv.
    eapply moved_all_keys; eauto.
Qed.

Lemma fp_fold_keys c pns observed ds : forall l prs cl prs' cl',
  (forall e, In e l -> In e ds) -> all_keys (good_key c ds) prs ->
  fold_left (fp_step c pns observed) l (prs, cl) = (prs', cl') -> all_keys (good_key c ds) prs'.
Proof.
  induction l as [|e l IH]; intros prs cl prs' cl' Hsub Hall Hf; cbn [fold_left] in Hf.
  - injection Hf as <- <-. exact Hall.
  - destruct (fp_step c pns observed (prs, cl) e) as [prs1 cl1] eqn:Hs.
    eapply IH; [| |exact Hf].
    + intros e' Hin. apply Hsub. now right.
    + eapply fp_step_keys; eauto. apply Hsub. now left.
Qed.

(* ================================================================== *)
(* 6. the state after the claims pass and the first pass                *)
(* ================================================================== *)

Lemma after_first_pass c pns observed latest rest prs1 cl1 prsA clA :
  gk_unique_all (latest :: rest) = true ->
  sync_revision_claims c (pr_desired latest) 0 (latest :: rest) [] = (prs1, cl1) ->
  first_pass c pns observed prs1 cl1 = (prsA, clA) ->
  inv (pr_desired latest) prsA clA /\
  all_keys (good_key c (pr_desired latest)) prsA /\
  exists qA restA, prsA = qA :: restA /\ pr_desired qA = pr_desired latest /\ pr_resp qA = pr_resp latest /\
    forall g kd n, lists (pr_rev latest) (g, kd, n) = true -> is_rolling c g kd = true ->
                   find_desired (pr_desired latest) g kd n <> None -> listsP qA (g, kd, n) = true.
Proof.
  intros Hgk Hc Hf. set (ds := pr_desired latest) in *.
  pose proof Hc as Hc0. cbn [sync_revision_claims] in Hc0.
  destruct (claims_of_revision c ds 0 (pr_rev latest) []) as [r1 cl1a] eqn:Hcr.
  destruct (sync_revision_claims c ds 1 rest cl1a) as [rest1 cl1b] eqn:Hrest.
  injection Hc0 as <- <-.
  set (latest1 := mkPrev (pr_parent latest) r1 (pr_resp latest) (pr_desired latest)) in *.
  pose proof (sync_revision_claims_ok _ _ _ _ _ _ _ Hc) as Hok.
  pose proof (sc_complete _ _ _ _ _ _ _ Hok) as Sc. destruct Hok as [Sl Ss Sm Sn Sli Snd].
  assert (Hinv : inv ds (latest1 :: rest1) cl1b).
  { constructor.
    - intros k' a b pa pb Ha Hb La Lb.
      exact (sync_revision_claims_excl _ _ _ _ _ _ _ k' a b pa pb Hc Ha Hb La Lb).
    - intros k' j Hk'. destruct (Sn k' j Hk') as [H|(_ & _ & p' & Hp & Hl)]; [discriminate|].
      rewrite Nat.sub_0_r in Hp. eauto.
    - exact Sc.
    - intros p' Hin. apply In_nth_error in Hin. destruct Hin as [m Hm].
      destruct (Ss m p' Hm) as (p & Hp & _ & _ & _ & _ & _ & _ & Hsim). apply Hsim.
      unfold gk_unique_all in Hgk. rewrite forallb_forall in Hgk. apply Hgk. eapply nth_error_In; eauto. }
  assert (Hkeys : all_keys (good_key c ds) (latest1 :: rest1)).
  { intros p [[g kd] n] Hin Hl. apply In_nth_error in Hin. destruct Hin as [m Hm].
    destruct (Sli m p g kd n Hm Hl) as (H1 & H2 & _). split; assumption. }
  rewrite first_pass_eq in Hf. change (pr_desired latest1) with ds in Hf.
  destruct (fp_fold_inv c pns observed ds ds _ _ _ _ (fun e H => H) Hinv ltac:(discriminate) Hf) as [HinvA _].
  pose proof (fp_fold_keys c pns observed ds ds _ _ _ _ (fun e H => H) Hkeys Hf) as HkeysA.
  pose proof (fp_fold_head c pns observed latest1 ds _ _ _ _ (head_grows_refl latest1 rest1) Hf)
    as (qA & restA & -> & HdA & HrA & HmA).
  split; [exact HinvA|]. split; [exact HkeysA|].
  exists qA, restA. split; [reflexivity|]. split; [exact HdA|]. split; [exact HrA|].
  intros g kd n Hl Hr Hd. apply HmA. unfold listsP, latest1. cbn [pr_rev].
  eapply claims_of_revision_keeps; eauto.
Qed.

(* after the first pass "the latest revision lists k" and "k's claimant is 0" coincide *)
Lemma head_lists_claimed c ds qA restA clA k :
  inv ds (qA :: restA) clA -> all_keys (good_key c ds) (qA :: restA) ->
  listsP qA k = true -> claimant clA k = Some 0.
Proof.
  intros Hinv Hkeys Hl. destruct k as [[g kd] n].
  destruct (Hkeys qA (g, kd, n) (or_introl eq_refl) Hl) as [_ Hd].
  pose proof (iv_complete _ _ _ Hinv qA g kd n (or_introl eq_refl) Hl Hd) as Hc.
  destruct (claimant clA (g, kd, n)) as [j|] eqn:E; [|congruence].
  destruct (iv_claim _ _ _ Hinv _ _ E) as (p & Hp & Hlp).
  f_equal. symmetry. eapply (iv_excl _ _ _ Hinv (g, kd, n) 0 j qA p); eauto.
Qed.

Lemma claimed_head_lists ds qA restA clA k :
  inv ds (qA :: restA) clA -> claimant clA k = Some 0 -> listsP qA k = true.
Proof.
  intros Hinv Hc. destruct (iv_claim _ _ _ Hinv _ _ Hc) as (p & Hp & Hl).
  cbn [nth_error] in Hp. injection Hp as <-. exact Hl.
Qed.

Lemma addf_lists_same k p : listsP (addf k p) k = true.
Proof. destruct k as [[g kd] n]. unfold addf, listsP, set_rev. cbn [pr_rev]. apply add_child_same. Qed.

Lemma addf_lists_mono k p k' : listsP p k' = true -> listsP (addf k p) k' = true.
Proof.
  intros H. destruct (ck_dec k k') as [<-|Hne]; [apply addf_lists_same|].
  destruct k as [[g kd] n]. unfold addf, listsP, set_rev. cbn [pr_rev].
  rewrite add_child_other by exact Hne. exact H.
Qed.

Lemma filter_none {A} (f : A -> bool) l : (forall x, In x l -> f x = false) -> filter f l = [].
Proof.
  induction l as [|a l IH]; intros H; cbn [filter]; [reflexivity|].
  rewrite (H a (or_introl eq_refl)). apply IH. intros x Hx. apply H. now right.
Qed.

(* ================================================================== *)
(* 7. one round                                                         *)
(* ================================================================== *)

(* a desired rolling child of the hook answer that the revision l does not list *)
Definition unl (c : ccfg) (pns : string) (l : prev) (ch : option json) : bool :=
  match ch with
  | None => false
  | Some o => is_rolling c (group_of (get_api_version o)) (get_kind o) && negb (listsP l (key_of pns o))
  end.

Definition with_status (s : json) (l : prev) : prev :=
  mkPrev (pr_parent l) (pr_rev l)
         (mkHR s (hr_children (pr_resp l)) (hr_resync (pr_resp l)) (hr_finalized (pr_resp l))) (pr_desired l).

Lemma round_core c pns observed latest rest prs2 st :
  gk_unique_all (latest :: rest) = true -> head_wf pns latest = true ->
  fair_head c pns observed latest = true ->
  sync_rolling_update c pns observed (latest :: rest) = Some (prs2, st) ->
  exists l3 rest3 s, prs2 = with_status s l3 :: rest3 /\
    pr_desired l3 = pr_desired latest /\ hr_children (pr_resp l3) = hr_children (pr_resp latest) /\
    gk_unique_all (l3 :: rest3) = true /\
    (forall g kd n, lists (pr_rev latest) (g, kd, n) = true -> is_rolling c g kd = true ->
                    find_desired (pr_desired latest) g kd n <> None -> listsP l3 (g, kd, n) = true) /\
    (st <> RComplete ->
     exists o, In (Some o) (hr_children (pr_resp latest)) /\ unl c pns latest (Some o) = true /\
               listsP l3 (key_of pns o) = true) /\
    (st = RComplete ->
     (forall o, In (Some o) (hr_children (pr_resp latest)) ->
                is_rolling c (group_of (get_api_version o)) (get_kind o) = true ->
                listsP l3 (key_of pns o) = true) /\
     forall p, In p rest3 -> count_children (pr_rev p) = 0).
Proof.
  intros Hgk Hwf Hfair Hsync. unfold head_wf in Hwf. apply Bool.andb_true_iff in Hwf. destruct Hwf as [Hdfc Hcd].
  unfold sync_rolling_update in Hsync.
  destruct (sync_revision_claims c (pr_desired latest) 0 (latest :: rest) []) as [prs1 cl1] eqn:Hc.
  destruct (first_pass c pns observed prs1 cl1) as [prsA clA] eqn:Hf.
  destruct (second_pass c pns observed prsA clA) as [prs3 st3] eqn:Hs2.
  destruct prs3 as [|l3 rest3]; [discriminate|].
  destruct (set_condition (hr_status (pr_resp l3)) "Updated" (rollout_condition st3 (rev_name (pr_rev l3))))
    as [status'|]; [|discriminate].
  injection Hsync as <- <-.
  destruct (after_first_pass _ _ _ _ _ _ _ _ _ Hgk Hc Hf)
    as (HinvA & HkeysA & qA & restA & -> & HdA & HrA & HmonoA).
  exists l3, rest3, status'. split; [reflexivity|].
  assert (HsimA : forall p, In p (qA :: restA) -> simple (pr_rev p) = true) by apply (iv_simple _ _ _ HinvA).
  assert (Hgku : forall prs, (forall p, In p prs -> simple (pr_rev p) = true) -> gk_unique_all prs = true).
  { intros prs H. unfold gk_unique_all. apply forallb_forall. intros p Hp. apply simple_cs_gk_unique, H, Hp. }
  destruct (second_pass_cases _ _ _ _ _ _ _ _ Hs2) as [(-> & Heq & Hnone)|[(why & -> & Heq & Hgate)|(o & -> & Ho & Hp & Heq)]].
  - (* complete *)
    injection Heq as -> ->.
    split; [exact HdA|]. split; [rewrite HrA; reflexivity|]. split; [apply Hgku, HsimA|]. split; [exact HmonoA|].
    split; [intros H; congruence|]. intros _.
    assert (Hall : forall o, In (Some o) (hr_children (pr_resp latest)) ->
                     is_rolling c (group_of (get_api_version o)) (get_kind o) = true ->
                     claimant clA (key_of pns o) = Some 0).
    { intros o Ho Hr. rewrite <- HrA in Ho. specialize (Hnone _ Ho). cbn [pend] in Hnone. rewrite Hr in Hnone.
      cbn [andb] in Hnone. apply Bool.negb_false_iff in Hnone.
      destruct (claimant clA (key_of pns o)) as [[|j]|]; try discriminate. reflexivity. }
    split.
    + intros o Ho Hr. eapply claimed_head_lists; eauto.
    + intros p Hin. apply count_children_zero. intros [[g kd] n].
      destruct (lists (pr_rev p) (g, kd, n)) eqn:Hl; [|reflexivity]. exfalso.
      destruct (HkeysA p (g, kd, n) (or_intror Hin) Hl) as [Hr Hd].
      destruct (dfc_spec pns latest g kd n Hdfc Hd) as (o & Ho & Hk).
      injection Hk as Hg Hkd Hn.
      assert (Hc0 : claimant clA (g, kd, n) = Some 0).
      { specialize (Hall o Ho). unfold key_of in Hall. rewrite Hg, Hkd, Hn in Hall. apply Hall, Hr. }
      pose proof (claimed_head_lists _ _ _ _ _ HinvA Hc0) as Hl0.
      apply In_nth_error in Hin. destruct Hin as [m Hm].
      pose proof (iv_excl _ _ _ HinvA (g, kd, n) 0 (S m) qA p eq_refl Hm Hl0 Hl). discriminate.
  - (* waiting *)
    injection Heq as -> ->.
    split; [exact HdA|]. split; [rewrite HrA; reflexivity|]. split; [apply Hgku, HsimA|]. split; [exact HmonoA|].
    split; [|intros H; discriminate]. intros _.
    destruct (gate_closed_witness _ _ _ _ _ Hgate) as (ck & name & Hck & Hroll & Hname & Hnot).
    assert (Hl : listsP qA (ck_group ck, ck_kind ck, name) = true).
    { apply lists_cs_spec. exists ck. auto. }
    destruct (HkeysA qA _ (or_introl eq_refl) Hl) as [_ Hd].
    destruct (dfc_spec pns latest _ _ _ Hdfc Hd) as (o & Ho & Hk).
    exists o. split; [exact Ho|]. rewrite Hk. split; [|exact Hl].
    injection Hk as Hg Hkd Hn. cbn [unl]. unfold key_of. rewrite Hg, Hkd, Hn, Hroll. cbn [andb].
    apply Bool.negb_true_iff. destruct (listsP latest (ck_group ck, ck_kind ck, name)) eqn:Hl0; [|reflexivity].
    exfalso. apply Hnot.
    eapply child_ready_ext; [| | |apply (fair_head_spec c pns observed latest _ _ _ Hfair Hl0 Hroll Hd)]; auto.
  - (* progressing *)
    assert (El3 : l3 = addf (key_of pns o) qA) by congruence.
    assert (Er3 : rest3 = map (remf (key_of pns o)) restA) by congruence.
    clear Heq Hs2. subst l3 rest3.
    assert (Hdl : pr_desired (addf (key_of pns o) qA) = pr_desired qA /\
                  pr_resp (addf (key_of pns o) qA) = pr_resp qA).
    { destruct (key_of pns o) as [[g kd] n]. split; reflexivity. }
    destruct Hdl as [Hdl Hrl].
    assert (Hmv : moved (key_of pns o) (fun _ => true) (qA :: restA)
                        (addf (key_of pns o) qA :: map (remf (key_of pns o)) restA)) by apply moved_head_tail.
    split; [rewrite Hdl; exact HdA|].
    split; [rewrite Hrl, HrA; reflexivity|].
    split; [apply Hgku; eapply moved_simple; eauto|].
    split; [intros g kd n Hl Hr Hd; apply addf_lists_mono, HmonoA; assumption|].
    split; [|intros H; discriminate]. intros _.
    rewrite HrA in Ho. exists o. split; [exact Ho|]. split; [|apply addf_lists_same].
    cbn [pend] in Hp. apply Bool.andb_true_iff in Hp. destruct Hp as [Hr Hnc]. cbn [unl]. rewrite Hr. cbn [andb].
    apply Bool.negb_true_iff. destruct (listsP latest (key_of pns o)) eqn:Hl0; [|reflexivity]. exfalso.
    pose proof (cd_spec pns latest o Hcd Ho) as Hd.
    pose proof (HmonoA _ _ _ Hl0 Hr Hd) as HlA.
    pose proof (head_lists_claimed c _ _ _ _ _ HinvA HkeysA HlA) as Hc0.
    unfold key_of in Hnc, Hc0. rewrite Hc0 in Hnc. discriminate.
Qed.

(* ================================================================== *)
(* 8. worlds, fair rounds, the measure                                  *)
(* ================================================================== *)

(* what a round of the rolling update sees: the observed children and the parent
   revisions with their hook answers, the latest first *)
Record rworld := mkW { w_observed : umap; w_prs : list prev }.

(* the measure: desired rolling children of the latest hook answer (in hook order) that the
   latest revision does not list *)
Definition mu (c : ccfg) (pns : string) (l : prev) : nat :=
  List.length (filter (unl c pns l) (hr_children (pr_resp l))).

Definition mu_w (c : ccfg) (pns : string) (w : rworld) : nat :=
  match w_prs w with [] => 0 | l :: _ => mu c pns l end.

Lemma mu_le_children c pns l : mu c pns l <= List.length (hr_children (pr_resp l)).
Proof. unfold mu. induction (hr_children (pr_resp l)) as [|a hc IH]; cbn [filter List.length]; [lia|].
       destruct (unl c pns l a); cbn [List.length]; lia. Qed.

(* the standing hypotheses on a world, all boolean: there is a latest revision; no revision
   lists a (group, kind) twice; pr_desired of the latest revision and the children of its hook
   answer agree; and the environment has been fair to the children the latest revision lists *)
Definition world_ok (c : ccfg) (pns : string) (w : rworld) : bool :=
  match w_prs w with
  | [] => false
  | l :: _ => gk_unique_all (w_prs w) && head_wf pns l && fair_head c pns (w_observed w) l
  end.

(* one fair round.  The controller runs sync_rolling_update and prunes (as
   sync_revisions_rolling does; manage_revisions persists exactly these revisions).  Then
   the environment acts: in the next round the revisions are the pruned ones, every hook
   answers as before (the status the latest hook returns is arbitrary: s), and every desired
   child the latest revision now lists has been brought to the latest desired state and is
   healthy (fair_head).  Nothing is assumed about the children of older revisions. *)
Definition fair_step (c : ccfg) (pns : string) (w : rworld) (st : rollout_state) (w' : rworld) : Prop :=
  exists prs2 l rest s,
    sync_rolling_update c pns (w_observed w) (w_prs w) = Some (prs2, st) /\
    prune prs2 = l :: rest /\
    w_prs w' = with_status s l :: rest /\
    fair_head c pns (w_observed w') (with_status s l) = true.

Lemma head_wf_ext pns l l' :
  pr_desired l = pr_desired l' -> hr_children (pr_resp l) = hr_children (pr_resp l') ->
  head_wf pns l = head_wf pns l'.
Proof. intros H1 H2. unfold head_wf, desired_from_children, children_desired. rewrite H1, H2. reflexivity. Qed.

Lemma forallb_filter {A} (g f : A -> bool) l : forallb g l = true -> forallb g (filter f l) = true.
Proof.
  induction l as [|a l IH]; cbn [forallb filter]; [auto|]. intros H. apply Bool.andb_true_iff in H.
  destruct H as [H1 H2]. destruct (f a); cbn [forallb]; [rewrite H1|]; auto.
Qed.

Lemma fair_step_facts c pns w st w' :
  world_ok c pns w = true -> fair_step c pns w st w' ->
  world_ok c pns w' = true /\
  (st <> RComplete -> mu_w c pns w' < mu_w c pns w) /\
  (st = RComplete -> mu_w c pns w' = 0 /\ List.length (w_prs w') = 1).
Proof.
  unfold world_ok, fair_step, mu_w. destruct (w_prs w) as [|latest rest0] eqn:Ew; [discriminate|].
  intros Hok (prs2 & l & rest & s & Hsync & Hprune & Hw' & Hfair').
  apply Bool.andb_true_iff in Hok. destruct Hok as [Hok Hfair]. apply Bool.andb_true_iff in Hok.
  destruct Hok as [Hgk Hwf].
  destruct (round_core _ _ _ _ _ _ _ Hgk Hwf Hfair Hsync)
    as (l3 & rest3 & s0 & -> & Hd3 & Hc3 & Hgk3 & Hmono & Hprog & Hcomp).
  cbn [prune] in Hprune. injection Hprune as <- <-. rewrite Hw'.
  pose proof Hwf as Hwf0. unfold head_wf in Hwf0. apply Bool.andb_true_iff in Hwf0. destruct Hwf0 as [_ Hcd].
  assert (Hsub : forall ch, In ch (hr_children (pr_resp latest)) ->
                   unl c pns l3 ch = true -> unl c pns latest ch = true).
  { intros [o|] Hin Hu; [|discriminate]. cbn [unl] in Hu |- *. apply Bool.andb_true_iff in Hu.
    destruct Hu as [Hr Hn]. rewrite Hr. cbn [andb]. apply Bool.negb_true_iff.
    destruct (listsP latest (key_of pns o)) eqn:Hl; [|reflexivity]. unfold key_of in Hl, Hn.
    rewrite (Hmono _ _ _ Hl Hr (cd_spec pns latest o Hcd Hin)) in Hn. discriminate. }
  assert (Hmu : mu c pns (with_status s (with_status s0 l3)) =
                List.length (filter (unl c pns l3) (hr_children (pr_resp latest)))).
  { unfold mu. cbn [with_status pr_resp hr_children]. rewrite Hc3. reflexivity. }
  split; [|split].
  - apply Bool.andb_true_iff. split; [|exact Hfair']. apply Bool.andb_true_iff. split.
    + unfold gk_unique_all in Hgk3 |- *. cbn [forallb with_status pr_rev] in Hgk3 |- *.
      apply Bool.andb_true_iff in Hgk3. destruct Hgk3 as [H1 H2]. rewrite H1. cbn [andb].
      apply forallb_filter, H2.
    + rewrite <- Hwf. apply head_wf_ext; [exact Hd3|exact Hc3].
  - intros Hst. rewrite Hmu. destruct (Hprog Hst) as (o & Ho & Hu & Hl3).
    unfold mu. apply filter_length_lt with (x := Some o); auto.
    cbn [unl]. rewrite Hl3. apply Bool.andb_false_r.
  - intros Hst. destruct (Hcomp Hst) as [Hall Hcount]. split.
    + rewrite Hmu. rewrite filter_none; [reflexivity|].
      intros [o|] Hin; [|reflexivity]. cbn [unl].
      destruct (is_rolling c (group_of (get_api_version o)) (get_kind o)) eqn:Hr; [|reflexivity].
      rewrite (Hall o Hin Hr). reflexivity.
    + rewrite filter_none; [reflexivity|]. intros p Hin. rewrite (Hcount p Hin). reflexivity.
Qed.

(* at measure 0 the round reports RComplete *)
Theorem C08_complete_at_zero c pns w st w' :
  world_ok c pns w = true -> fair_step c pns w st w' -> mu_w c pns w = 0 -> st = RComplete.
Proof.
  intros Hok Hstep Hz. destruct (fair_step_facts _ _ _ _ _ Hok Hstep) as (_ & Hlt & _).
  destruct st as [why|kd nm|]; [| |reflexivity]; (assert (H : mu_w c pns w' < mu_w c pns w) by (apply Hlt; discriminate); lia).
Qed.

(* a round that is not complete strictly decreases the measure; a complete round leaves
   exactly the latest revision *)
Theorem C08_fair_round_decreases c pns w st w' :
  world_ok c pns w = true -> fair_step c pns w st w' ->
  world_ok c pns w' = true /\
  (st <> RComplete -> mu_w c pns w' < mu_w c pns w) /\
  (st = RComplete -> mu_w c pns w' = 0 /\ List.length (w_prs w') = 1).
Proof. apply fair_step_facts. Qed.

(* ================================================================== *)
(* 9. termination                                                       *)
(* ================================================================== *)

(* a chain of fair rounds with the rollout states they report *)
Inductive fair_run (c : ccfg) (pns : string) : rworld -> list rollout_state -> rworld -> Prop :=
| fr_nil w : fair_run c pns w [] w
| fr_step w st w' sts w'' :
    fair_step c pns w st w' -> fair_run c pns w' sts w'' -> fair_run c pns w (st :: sts) w''.

Theorem C08_rollout_terminates_gen c pns w0 sts w :
  world_ok c pns w0 = true -> fair_run c pns w0 sts w ->
  world_ok c pns w = true /\
  (mu_w c pns w0 = 0 -> List.length (w_prs w0) = 1 -> List.length (w_prs w) = 1) /\
  exists pre post,
    sts = pre ++ post /\ List.length pre <= mu_w c pns w0 /\
    Forall (fun s => s <> RComplete) pre /\ Forall (fun s => s = RComplete) post /\
    (post <> [] -> List.length (w_prs w) = 1).
Proof.
  intros Hok Hrun. induction Hrun as [w|w st w' sts w'' Hstep Hrun IH].
  - split; [exact Hok|]. split; [auto|]. exists [], []. split; [reflexivity|]. split; [cbn; lia|].
    split; [constructor|]. split; [constructor|]. intros H. contradiction.
  - destruct (fair_step_facts _ _ _ _ _ Hok Hstep) as (Hok' & Hlt & Hcomp).
    destruct (IH Hok') as (Hokf & Hstay & pre & post & -> & Hlen & Hpre & Hpost & Hone).
    split; [exact Hokf|]. split.
    + intros Hz _. pose proof (C08_complete_at_zero _ _ _ _ _ Hok Hstep Hz) as ->.
      destruct (Hcomp eq_refl) as [Hz' Hl']. auto.
    + destruct st as [why|kd nm|].
      * exists (RWaiting why :: pre), post. split; [reflexivity|].
        assert (H : mu_w c pns w' < mu_w c pns w) by (apply Hlt; discriminate).
        split; [cbn [List.length]; lia|]. split; [constructor; [discriminate|exact Hpre]|]. auto.
      * exists (RProgressing kd nm :: pre), post. split; [reflexivity|].
        assert (H : mu_w c pns w' < mu_w c pns w) by (apply Hlt; discriminate).
        split; [cbn [List.length]; lia|]. split; [constructor; [discriminate|exact Hpre]|]. auto.
      * destruct (Hcomp eq_refl) as [Hz' Hl'].
        assert (pre = []) by (destruct pre; [reflexivity|cbn [List.length] in Hlen; lia]). subst pre.
        exists [], (RComplete :: post). split; [reflexivity|]. split; [cbn; lia|]. split; [constructor|].
        split; [constructor; [reflexivity|exact Hpost]|]. intros _. apply Hstay; assumption.
Qed.

(* THE THEOREM.  From a world that satisfies the standing hypotheses, any chain of fair rounds
   reports RComplete after at most mu_w w0 rounds — mu_w w0 <= the number of children the
   latest hook answer desires — and from then on every round reports RComplete; if the chain
   is longer than mu_w w0, the final world has exactly one revision (the latest). *)
Theorem C08_rollout_terminates c pns w0 sts w :
  world_ok c pns w0 = true -> fair_run c pns w0 sts w ->
  (forall j, mu_w c pns w0 <= j -> j < List.length sts -> nth j sts (RWaiting "") = RComplete) /\
  (mu_w c pns w0 < List.length sts -> List.length (w_prs w) = 1) /\
  mu_w c pns w0 <= match w_prs w0 with l :: _ => List.length (hr_children (pr_resp l)) | [] => 0 end.
Proof.
  intros Hok Hrun.
  destruct (C08_rollout_terminates_gen _ _ _ _ _ Hok Hrun) as (_ & _ & pre & post & -> & Hlen & _ & Hpost & Hone).
  split; [|split].
  - intros j Hj Hlt. rewrite app_length in Hlt. rewrite app_nth2 by lia.
    rewrite Forall_forall in Hpost. apply Hpost. apply nth_In. lia.
  - intros Hlt. apply Hone. rewrite app_length in Hlt. destruct post; [cbn in Hlt; lia|discriminate].
  - unfold mu_w. destruct (w_prs w0) as [|l r]; [lia|apply mu_le_children].
Qed.

(* ================================================================== *)
(* 10. the hypotheses are satisfiable: a 3-child rollout                *)
(* ================================================================== *)
(* kind Thing (RollingRecreate), children a b c; the old revision r1 lists all three at
   spec.v = 1, the latest revision r2 desires spec.v = 2.  The environment recreates the
   child that was moved and nothing else.  Rounds: a moves, b moves, c moves (and the emptied
   r1 is pruned), complete. *)
Definition ex_c : ccfg :=
  mkCfg "cc" "v1" "Parent" "parents" true true true (SelReqs [])
        [mkChild "v1" "things" "Thing" true method_rolling_recreate] true false
        [mkChild "v1" "things" "Thing" true method_rolling_recreate] false false [["spec"]] [].
Definition ex_thing (n : string) (v : Z) : json :=
  JObj [("apiVersion", JStr "v1"); ("kind", JStr "Thing"); ("metadata", JObj [("name", JStr n)]);
        ("spec", JObj [("v", JInt v)])].
Definition ex_live (n : string) (v : Z) : json := JObj (set_last_applied (obj_map (ex_thing n v)) (ex_thing n v)).
Definition ex_children (v : Z) : list (option json) := [Some (ex_thing "a" v); Some (ex_thing "b" v); Some (ex_thing "c" v)].
Definition ex_revobj (n : string) : json := JObj [("metadata", JObj [("name", JStr n)])].
Definition ex_latest : prev :=
  mkPrev JNull (mkRevision (ex_revobj "r2") (JObj []) []) (mkHR JNull (ex_children 2) JNull false)
         (relative_desired "" (ex_children 2)).
Definition ex_old : prev :=
  mkPrev JNull (mkRevision (ex_revobj "r1") (JObj []) [mkRck "" "Thing" ["a"; "b"; "c"]])
         (mkHR JNull (ex_children 1) JNull false) (relative_desired "" (ex_children 1)).
Definition ex_obs (va vb vc : Z) : umap :=
  [("v1", "Thing", [("a", ex_live "a" va); ("b", ex_live "b" vb); ("c", ex_live "c" vc)])].
(* the controller's part of a round, computed *)
Definition next_prs (w : rworld) : list prev :=
  match sync_rolling_update ex_c "" (w_observed w) (w_prs w) with Some (p, _) => prune p | None => [] end.
Definition ex_w0 := mkW (ex_obs 1 1 1) [ex_latest; ex_old].
Definition ex_w1 := mkW (ex_obs 2 1 1) (next_prs ex_w0).
Definition ex_w2 := mkW (ex_obs 2 2 1) (next_prs ex_w1).
Definition ex_w3 := mkW (ex_obs 2 2 2) (next_prs ex_w2).
Definition ex_w4 := mkW (ex_obs 2 2 2) (next_prs ex_w3).

Definition ex_prs2 (w : rworld) : list prev :=
  match sync_rolling_update ex_c "" (w_observed w) (w_prs w) with Some (p, _) => p | None => [] end.
Definition ex_head (w : rworld) : prev := hd ex_latest (prune (ex_prs2 w)).

Lemma fair_step_computed (w w' : rworld) (st : rollout_state) :
  (sync_rolling_update ex_c "" (w_observed w) (w_prs w) = Some (ex_prs2 w, st)) ->
  (prune (ex_prs2 w) = ex_head w :: tl (prune (ex_prs2 w))) ->
  (w_prs w' = with_status (hr_status (pr_resp (ex_head w))) (ex_head w) :: tl (prune (ex_prs2 w))) ->
  (fair_head ex_c "" (w_observed w') (with_status (hr_status (pr_resp (ex_head w))) (ex_head w)) = true) ->
  fair_step ex_c "" w st w'.
Proof.
  intros H1 H2 H3 H4.
  exists (ex_prs2 w), (ex_head w), (tl (prune (ex_prs2 w))), (hr_status (pr_resp (ex_head w))). auto.
Qed.

Example C08_three_child_rollout :
  world_ok ex_c "" ex_w0 = true /\ mu_w ex_c "" ex_w0 = 3 /\
  fair_run ex_c "" ex_w0
           [RProgressing "Thing" "a"; RProgressing "Thing" "b"; RProgressing "Thing" "c"; RComplete] ex_w4 /\
  List.length (w_prs ex_w4) = 1.
Proof.
  split; [vm_compute; reflexivity|]. split; [vm_compute; reflexivity|]. split; [|vm_compute; reflexivity].
  apply fr_step with (w' := ex_w1); [apply fair_step_computed; vm_compute; reflexivity|].
  apply fr_step with (w' := ex_w2); [apply fair_step_computed; vm_compute; reflexivity|].
  apply fr_step with (w' := ex_w3); [apply fair_step_computed; vm_compute; reflexivity|].
  apply fr_step with (w' := ex_w4); [apply fair_step_computed; vm_compute; reflexivity|].
  apply fr_nil.
Qed.

Print Assumptions claims_of_revision_keeps.
Print Assumptions round_core.
Print Assumptions C08_fair_round_decreases.
Print Assumptions C08_complete_at_zero.
Print Assumptions C08_rollout_terminates_gen.
Print Assumptions C08_rollout_terminates.
Print Assumptions C08_three_child_rollout.
