(* C02SSA.v — the C02 envelope for both apply strategies (dynamic apply and
   server-side apply): every request of a composite sync stays inside the
   envelope, without the hypothesis [ssa c = false] of C02Proofs.v.

   The two requests that server-side apply adds (ssa_child in Model/Composite.v):
   - VPatchJson (removal of the last-applied annotation) always targets a cached
     child that the parent controls or has just adopted;
   - VPatchApply carries [ssa_body parent d].  It has the parent's controller
     reference EXCEPT when the desired child d has a metadata that is present but
     not an object: SetOwnerReferences then silently does nothing.  The label
     check (enforce_labels) refuses every such child but one: "metadata": null.
     So the envelope as it stands (VPatchApply => has_controller_ref_of ...) is
     FALSE of the model (C02_calls_any_strategy_refuted); it is proved
       (a) under the assumption that the hook returns no child with a null
           metadata (C02_calls_any_strategy_partial), and
       (b) for every hook, for the envelope with the escape that VCreate already
           has: "or the body's metadata is not an object" (C02_calls_any_strategy_esc). *)
From MC Require Import Generated Model.Safe Model.TracePreds.
From MC Require Import Proofs.AssocLemmas Proofs.ObjLemmas Proofs.SafeLemmas Proofs.ApplyUpdateProofs
                       Proofs.C02Proofs.
Local Open Scope list_scope.

(* ---------- the side condition of the true variant ---------- *)
(* "metadata": null — the one malformed metadata that passes the label check *)
Definition meta_nonnull (o : json) : bool :=
  match alookup "metadata" (obj_map o) with Some JNull => false | _ => true end.

Definition metas_ok (cs : list (option json)) : bool :=
  forallb (fun ch => match ch with Some o => meta_nonnull o | None => true end) cs.

Definition hook_meta_ok (a : answer) : bool :=
  match a with
  | AHook body => match decode_composite body with Some r => metas_ok (hr_children r) | None => true end
  | _ => true
  end.

Definition sane_names_meta (cl : call) (a : answer) : Prop := sane_names cl a /\ hook_meta_ok a = true.

(* ---------- the envelope with the escape for apply ---------- *)
Definition apply_escape (cl : call) : bool :=
  match cl with
  | CApi q => match q_verb q with VPatchApply => negb (metadata_is_obj (q_body q)) | _ => false end
  | CHook _ _ => false
  end.

Definition C02_call_ok_esc (c : ccfg) (k : cache) (parent : json) (cl : call) : bool :=
  C02_call_ok c k parent cl || apply_escape cl.

(* ---------- owner references of the applied body ---------- *)
Definition json_is_obj (o : json) : bool := match o with JObj _ => true | _ => false end.

(* SetOwnerReferences has an effect: an object whose metadata is absent or an object *)
Definition owner_settable (d : json) : bool :=
  match d with
  | JObj m => match alookup "metadata" m with None | Some (JObj _) => true | Some _ => false end
  | _ => false
  end.

(* a child as the hook may return it under the side condition *)
Definition child_pre (d : json) : bool := json_is_obj d && meta_nonnull d.

Definition pres_ok (cs : list (option json)) : bool :=
  forallb (fun ch => match ch with Some o => child_pre o | None => true end) cs.

Lemma controlled_by_has_ref d u : controlled_by d u = true -> has_controller_ref_of d u = true.
Proof.
  unfold controlled_by, controller_of, has_controller_ref_of.
  destruct (find _ (get_owner_refs d)) as [r|] eqn:E; [|discriminate].
  intros Hu. apply find_some in E as [Hin Hc].
  apply existsb_exists. exists r. split; [exact Hin|].
  apply Bool.andb_true_iff. split; assumption.
Qed.

Lemma set_owner_refs_settable d refs ref uid :
  owner_settable d = true -> or_uid ref = uid -> or_controller ref = Some true ->
  has_controller_ref_of (set_owner_refs d (refs ++ [ref])) uid = true.
Proof.
  intros Hs Hu Hc. unfold owner_settable in Hs. destruct d as [| | | | | | |m]; try discriminate.
  unfold set_owner_refs.
  destruct (nested_set m _ _) as [m'|] eqn:E.
  - unfold has_controller_ref_of. rewrite (get_owner_refs_set _ _ _ E), existsb_app.
    apply Bool.orb_true_iff. right. cbn [existsb]. rewrite Hu, Hc, eqb_refl'. reflexivity.
  - rewrite nset2 in E. destruct (alookup "metadata" m) as [mv|]; [|discriminate].
    destruct mv; discriminate.
Qed.

(* whatever the desired child: the reference is there, or the metadata is not an object *)
Lemma ssa_body_owned p d :
  has_controller_ref_of (ssa_body p d) (get_uid p) || negb (metadata_is_obj (ssa_body p d)) = true.
Proof.
  unfold ssa_body. destruct (controlled_by d (get_uid p)) eqn:Ec.
  - rewrite (controlled_by_has_ref _ _ Ec). reflexivity.
  - apply create_body_owned; reflexivity.
Qed.

Lemma ssa_body_owned_settable p d :
  owner_settable d = true -> has_controller_ref_of (ssa_body p d) (get_uid p) = true.
Proof.
  intros Hs. unfold ssa_body. destruct (controlled_by d (get_uid p)) eqn:Ec.
  - apply controlled_by_has_ref. exact Ec.
  - apply set_owner_refs_settable; [exact Hs|reflexivity|reflexivity].
Qed.

(* ---------- what the decoder and the namespace defaulting keep ---------- *)
Lemma all_some_child_entry l : forall es, all_some (map child_entry l) = Some es ->
  forall o, In (Some o) es -> json_is_obj o = true.
Proof.
  induction l as [|j l IH]; intros es H o Hin; cbn [map all_some] in H.
  - inversion H; subst. destruct Hin.
  - destruct (child_entry j) as [e|] eqn:Ej; [|discriminate].
    destruct (all_some (map child_entry l)) as [r|] eqn:Er; [|discriminate].
    inversion H; subst. destruct Hin as [Hin|Hin]; [|eapply IH; eauto].
    subst e. unfold child_entry in Ej. destruct j; try discriminate.
    destruct (String.eqb _ _); [discriminate|]. inversion Ej; subst. reflexivity.
Qed.

Lemma decode_children_obj body r : decode_composite body = Some r ->
  forall o, In (Some o) (hr_children r) -> json_is_obj o = true.
Proof.
  unfold decode_composite. destruct body as [| | | | | | |m]; try discriminate.
  - intros [= <-] o [].
  - cbv zeta.
    destruct (negb (is_null (jget "status" m) || _)); [discriminate|].
    destruct (negb (is_null (jget "resyncAfterSeconds" m) || _)); [discriminate|].
    destruct (jget "finalized" m); try discriminate;
      (destruct (jget "children" m) as [| | | | | |l|]; try discriminate;
       [intros [= <-] o []|
        destruct (all_some (map child_entry l)) as [es|] eqn:E; [|discriminate];
        intros [= <-]; cbn [hr_children]; eapply all_some_child_entry; eauto]).
Qed.

Lemma set_ns_pre o ns : child_pre o = true -> child_pre (set_ns o ns) = true.
Proof.
  unfold child_pre, meta_nonnull. intros H. apply Bool.andb_true_iff in H as [Ho Hm].
  destruct o as [| | | | | | |m]; try discriminate. cbn [obj_map] in Hm.
  unfold set_ns. destruct (String.eqb ns "").
  - cbn [json_is_obj obj_map andb]. rewrite nremove2.
    destruct (alookup "metadata" m) as [mv|] eqn:E; [|now rewrite E].
    destruct mv; rewrite ?E; try reflexivity; try discriminate.
    now rewrite alookup_aset_same.
  - rewrite nset2. destruct (alookup "metadata" m) as [mv|] eqn:E.
    + destruct mv; cbn [json_is_obj obj_map andb]; rewrite ?E; try reflexivity; try discriminate.
      now rewrite alookup_aset_same.
    + cbn [json_is_obj obj_map andb]. now rewrite alookup_aset_same.
Qed.

Lemma pres_ok_default ns cs :
  metas_ok cs = true -> (forall o, In (Some o) cs -> json_is_obj o = true) ->
  pres_ok (map (default_ns ns)
               (filter (fun ch : option json => match ch with Some _ => true | None => false end) cs)) = true.
Proof.
  intros Hm Ho. unfold pres_ok. apply forallb_forall. intros x Hx.
  apply in_map_iff in Hx as (ch & <- & Hin). apply filter_In in Hin as [Hin Hsome].
  destruct ch as [o|]; [|discriminate]. cbn [default_ns].
  assert (Hpre : child_pre o = true).
  { unfold child_pre. rewrite (Ho o Hin). unfold metas_ok in Hm. rewrite forallb_forall in Hm.
    exact (Hm _ Hin). }
  destruct (String.eqb (get_ns o) ""); [apply set_ns_pre|]; exact Hpre.
Qed.

(* ---------- the label check refuses every other malformed metadata ---------- *)
Lemma enforce_labels_step2 c p sel d ds out :
  enforce_labels c p sel (d :: ds) = Some out ->
  exists d' r, out = d' :: r /\ enforce_labels c p sel ds = Some r /\
    nested_get (obj_map d) ["metadata"; "labels"] <> NErr /\
    (d' = d \/ exists m m' v, d = JObj m /\ nested_set m ["metadata"; "labels"] v = Some m' /\ d' = JObj m').
Proof.
  cbn [enforce_labels]. intros H.
  assert (Hbody : forall (strict : option smap),
    match strict with
    | None => None
    | Some ls =>
        let '(d', ls') :=
          if gen_selector c then
            match slookup "controller-uid" ls with
            | Some _ => (d, ls)
            | None =>
                let ls2 := ls ++ [("controller-uid", get_uid p)] in
                (match d with
                 | JObj m => match nested_set m ["metadata"; "labels"]
                                     (JObj (map (fun kv => (fst kv, JStr (snd kv))) ls2)) with
                             | Some m' => JObj m' | None => d end
                 | _ => d end, ls2)
            end
          else (d, ls) in
        if sel_matches sel ls' then
          match enforce_labels c p sel ds with
          | Some r => Some (d' :: r) | None => None end
        else None
    end = Some out ->
    exists d' r, out = d' :: r /\ enforce_labels c p sel ds = Some r /\
      (d' = d \/ exists m m' v, d = JObj m /\ nested_set m ["metadata"; "labels"] v = Some m' /\ d' = JObj m')).
  { clear H. intros strict Hs. destruct strict as [ls|]; [|discriminate].
    destruct (gen_selector c).
    - destruct (slookup "controller-uid" ls).
      + destruct (sel_matches sel ls); [|discriminate].
        destruct (enforce_labels c p sel ds) as [r|]; [|discriminate].
        inversion Hs; subst. eauto 10.
      + cbv beta iota zeta in Hs.
        destruct (sel_matches sel (ls ++ _)); [|discriminate].
        destruct (enforce_labels c p sel ds) as [r|]; [|discriminate].
        match type of Hs with Some (?x :: r) = Some out => remember x as d' eqn:Ed' end.
        injection Hs as <-. exists d', r. split; [reflexivity|]. split; [reflexivity|].
        destruct d as [| | | | | | |m]; try (left; exact Ed').
        destruct (nested_set m _ _) as [m'|] eqn:E in Ed'; [|left; exact Ed'].
        right. exists m, m'. eexists. split; [reflexivity|]. split; [exact E|exact Ed'].
    - destruct (sel_matches sel ls); [|discriminate].
      destruct (enforce_labels c p sel ds) as [r|]; [|discriminate].
      inversion Hs; subst. eauto 10. }
  destruct (nested_get (obj_map d) ["metadata"; "labels"]) as [v| |]; [| |discriminate].
  - destruct (Hbody _ H) as (d' & r & H1 & H2 & H3). exists d', r.
    split; [exact H1|]. split; [exact H2|]. split; [discriminate|exact H3].
  - destruct (Hbody (Some []) H) as (d' & r & H1 & H2 & H3). exists d', r.
    split; [exact H1|]. split; [exact H2|]. split; [discriminate|exact H3].
Qed.

Lemma enforce_labels_settable c p sel : forall ds0 ds,
  enforce_labels c p sel ds0 = Some ds ->
  Forall (fun d => child_pre d = true) ds0 ->
  Forall (fun d => owner_settable d = true) ds.
Proof.
  induction ds0 as [|d ds0 IH]; intros ds H Hall.
  - cbn in H. inversion H; subst. constructor.
  - apply enforce_labels_step2 in H as (d' & r & -> & Hr & Hne & Hd').
    inversion Hall as [|d0 l0 Hpre Hrest]; subst. constructor; [|apply IH; auto].
    destruct Hd' as [->|(m & m' & v & -> & Hset & ->)].
    + unfold child_pre, meta_nonnull in Hpre. apply Bool.andb_true_iff in Hpre as [Ho Hm].
      destruct d as [| | | | | | |m]; try discriminate. cbn [obj_map] in Hm, Hne.
      rewrite nget2 in Hne. unfold owner_settable.
      destruct (alookup "metadata" m) as [mv|]; [|reflexivity].
      destruct mv; try reflexivity; try discriminate; exfalso; apply Hne; reflexivity.
    + rewrite nset2 in Hset. unfold owner_settable.
      destruct (alookup "metadata" m) as [mv|].
      * destruct mv; try discriminate. inversion Hset; subst m'. now rewrite alookup_aset_same.
      * inversion Hset; subst m'. now rewrite alookup_aset_same.
Qed.

(* desired_map keeps a property of every child *)
Lemma desired_map_all (E : json -> Prop) cs : forall m m', desired_map cs m = Some m' ->
  (forall o, In (Some o) cs -> E o) ->
  umap_all (fun _ _ _ d => E d) m -> umap_all (fun _ _ _ d => E d) m'.
Proof.
  induction cs as [|ch cs IH]; intros m m' H Hcs Hm.
  - cbn in H. now inversion H; subst.
  - cbn [desired_map] in H. destruct ch as [o|]; [|discriminate].
    eapply IH; [exact H| |].
    + intros o' Hin. apply Hcs. now right.
    + apply umap_all_uinsert; [exact Hm|]. apply Hcs. now left.
Qed.

Section C02SSA.
  Variables (c : ccfg) (k : cache) (parent : json).
  Hypothesis Hcfg : cfg_wf c = true.
  Hypothesis Hcache : cache_wf c k = true.
  Hypothesis Huid : get_uid parent <> "".
  Hypothesis Hnames : cache_names_ok c k = true.
  (* strict = true : the hook returns no child with a null metadata; no escape.
     strict = false: any hook; apply requests may take the escape. *)
  Variable strict : bool.

  Definition G2 (cl : call) (a : answer) : Prop :=
    sane_names cl a /\ (strict = true -> hook_meta_ok a = true).

  Definition P2 (cl : call) : Prop :=
    (C02_call_ok c k parent cl = true \/ (strict = false /\ apply_escape cl = true)) /\
    call_strict c k parent cl = true.

  Notation SP2 Post h p := (safeP G2 (fun _ cl => P2 cl) Post h p).
  Notation TT := (fun _ _ => True).

  (* everything C02Proofs.v proves carries over *)
  Lemma lift_C02 {R} (Post : hist -> R -> Prop) h (p : prog R) :
    safeP sane_names (fun _ cl => P c k parent cl) Post h p -> SP2 Post h p.
  Proof.
    apply safeP_conseq.
    - intros cl a [H _]. exact H.
    - intros h' cl [H1 H2]. split; [left; exact H1|exact H2].
    - auto.
  Qed.

  Definition Dok (d : json) : Prop := strict = true -> owner_settable d = true.

  Lemma P2_hook hk body : P2 (CHook hk body).
  Proof. split; [left|]; reflexivity. Qed.

  Lemma P2_patch q o : q_verb q = VPatchJson -> find_cached c k q = Some o ->
    controlled_by o (get_uid parent) || is_orphan o = true -> P2 (CApi q).
  Proof.
    intros Hv Hf Hc. unfold P2, C02_call_ok, call_strict. rewrite Hv, Hf, Hc.
    split; [left; apply Bool.orb_true_r|reflexivity].
  Qed.

  Lemma P2_apply q : q_verb q = VPatchApply ->
    has_controller_ref_of (q_body q) (get_uid parent) = true \/
    (strict = false /\ metadata_is_obj (q_body q) = false) -> P2 (CApi q).
  Proof.
    intros Hv [Hc|[Hs Hm]]; unfold P2, C02_call_ok, call_strict, apply_escape; rewrite Hv.
    - split; [left|reflexivity]. rewrite Hc. cbn [orb]. apply Bool.orb_true_r.
    - split; [right|reflexivity]. split; [exact Hs|]. rewrite Hm. reflexivity.
  Qed.

  Lemma P2_child_patch kc o body : good c k parent kc o ->
    P2 (CApi (mkRq VPatchJson (ch_res kc) (eff_ns (ch_namespaced kc) (get_ns o)) (get_name o) body "" "")).
  Proof.
    intros (Hkc & Ho & Hc). apply P2_patch with (o := o); auto.
    apply (find_cached_hit c k Hcfg Hcache) with (kc := kc); auto.
  Qed.

  (* a desired child that is matched with an observed one: same name and namespace, and the
     observed one is a cached object the parent controls or has adopted *)
  Lemma matched_old kc av kd os n d old :
    lookup_kind c av kd = Some kc ->
    (forall n o, In (n, o) os -> obs_entry c k parent av kd n o) ->
    des_entry av kd n d -> olookup n os = Some old ->
    get_name d = get_name old /\ get_ns d = get_ns old /\
    exists kc', good c k parent kc' old /\ ch_res kc = ch_res kc' /\ ch_namespaced kc = ch_namespaced kc'.
  Proof.
    intros Hl Hos [Hqn Hns] Ho. apply olookup_in in Ho.
    destruct (Hos n old Ho) as (Hqo & Hav & Hkd & kc' & Hg).
    pose proof Hg as (Hkc' & Hoc & Hctl).
    destruct (cache_wf_obj c k Hcache kc' old Hkc' Hoc) as (Hav' & Hkd' & _).
    assert (Hl' : lookup_kind c (ch_api_version kc') (ch_kind kc') = Some kc) by congruence.
    destruct (known_kid_match c Hcfg kc' kc Hkc' Hl') as [Hr Hnsd].
    assert (Hq : qualified_name d = qualified_name old) by congruence.
    apply qualified_name_inj in Hq as [Hn1 Hn2]; auto;
      [|eapply (cache_name_ok c k Hnames); eauto].
    split; [exact Hn1|]. split; [exact Hn2|]. exists kc'. auto.
  Qed.

  (* ---------- hook ---------- *)
  Lemma call_hook_ok2 p obs rel h :
    SP2 (fun _ r => forall hr, r = HRResp hr ->
                    names_ok (hr_children hr) = true /\
                    (strict = true -> pres_ok (hr_children hr) = true)) h (call_hook c p obs rel).
  Proof.
    unfold call_hook. cbv zeta.
    destruct (negb _ && negb (has_sync c)); [constructor; discriminate|].
    constructor; [apply P2_hook|].
    intros a [[_ Hn] Hm]. destruct a as [o|e|body| |z]; try (constructor; discriminate).
    cbn [hook_names_ok] in Hn. cbn [hook_meta_ok] in Hm.
    destruct (decode_composite body) as [r|] eqn:Ed; [|constructor; discriminate].
    constructor. intros hr [= <-]. cbn [hr_children]. split.
    - apply names_ok_default.
      unfold names_ok in *. rewrite forallb_forall in *. intros x Hx. apply filter_In in Hx as [Hx _]. auto.
    - intros Hs. apply pres_ok_default; [auto|]. apply (decode_children_obj body r Ed).
  Qed.

  (* ---------- children ---------- *)
  Lemma update_children_ok2 kc av kd p os ds h : pinv c parent p ->
    lookup_kind c av kd = Some kc ->
    (forall n o, In (n, o) os -> obs_entry c k parent av kd n o) ->
    (forall n d, In (n, d) ds -> des_entry av kd n d) ->
    (forall n d, In (n, d) ds -> Dok d) ->
    SP2 TT h (update_children c kc p os ds).
  Proof.
    intros Hp Hl Hos Hds Hdk.
    destruct (ssa c) eqn:Hssa;
      [|apply lift_C02; apply (update_children_ok c k parent Hcfg Hcache Hssa Hnames) with (av := av) (kd := kd); auto].
    unfold update_children.
    apply safeP_foldM with (I := fun (_ : hist) (_ : bool) => True); [exact I|].
    intros h' failed [n d] Hin _. cbv beta zeta. cbn [fst snd]. rewrite Hssa.
    eapply safeP_bind with (Q := TT); [|intros; constructor; exact I].
    unfold ssa_child. cbv zeta.
    eapply safeP_bind with (Q := TT).
    - destruct (olookup n os) as [old|] eqn:Eo; [|constructor; exact I].
      destruct (get_annotation old last_applied_annotation); [|constructor; exact I].
      apply safeP_api; [|auto].
      destruct (matched_old kc av kd os n d old Hl Hos (Hds n d Hin) Eo)
        as (Hn1 & Hn2 & kc' & Hg & Hr & Hnsd).
      rewrite Hn1, Hn2, Hr, Hnsd. apply P2_child_patch. exact Hg.
    - intros h'' r1 _. destruct r1 as [o1|e1]; [|constructor; exact I].
      eapply safeP_bind with (Q := TT).
      + apply safeP_api; [|auto]. apply P2_apply; [reflexivity|]. cbn [q_body].
        destruct Hp as (_ & _ & Hpu). rewrite <- Hpu.
        destruct strict eqn:Es.
        * left. apply ssa_body_owned_settable. apply (Hdk n d Hin). exact Es.
        * pose proof (ssa_body_owned p d) as Hb. apply Bool.orb_true_iff in Hb as [Hb|Hb];
            [left; exact Hb|right]. split; [first [reflexivity|exact Es]|]. now apply Bool.negb_true_iff.
      + intros h3 r2 _. destruct r2; constructor; exact I.
  Qed.

  Lemma manage_children_ok2 p obs des h : pinv c parent p -> umap_ok c k parent obs ->
    umap_all des_entry des -> umap_all (fun _ _ _ d => Dok d) des ->
    SP2 TT h (manage_children c p obs des).
  Proof.
    intros Hp Hobs Hdes Hdk. unfold manage_children.
    eapply safeP_bind with (Q := TT).
    - apply safeP_foldM with (I := fun (_ : hist) (_ : bool) => True); [exact I|].
      intros h' failed [[av kd] os] Hin _. cbv beta iota.
      destruct (lookup_kind c av kd) as [kc|] eqn:El; [|constructor; exact I].
      eapply safeP_bind with (Q := TT); [|intros; constructor; exact I].
      apply lift_C02. apply (delete_children_ok c k parent Hcfg Hcache) with (av := av) (kd := kd); [exact El|].
      intros n o Ho. eapply Hobs; eauto.
    - intros h' f1 _.
      apply safeP_foldM with (I := fun (_ : hist) (_ : bool) => True); [exact I|].
      intros h'' failed [[av kd] ds] Hin _. cbv beta iota.
      destruct (lookup_kind c av kd) as [kc|] eqn:El; [|constructor; exact I].
      eapply safeP_bind with (Q := TT); [|intros; constructor; exact I].
      apply update_children_ok2 with (av := av) (kd := kd); [exact Hp|exact El| | |].
      + apply group_entries. exact Hobs.
      + intros n d Hd. eapply Hdes; eauto.
      + intros n d Hd. eapply Hdk; eauto.
  Qed.

  Lemma finish_sync_ok2 p obs r h : pinv c parent p -> umap_ok c k parent obs ->
    names_ok (hr_children r) = true -> (strict = true -> pres_ok (hr_children r) = true) ->
    SP2 TT h (finish_sync c p obs r).
  Proof.
    intros Hp Hobs Hn Hpre. unfold finish_sync.
    destruct (desired_map (hr_children r) []) as [desired0|] eqn:Edm; [|constructor; exact I].
    eapply safeP_bind with (Q := TT).
    { destruct (positive_number (hr_resync r)); [|constructor; exact I].
      unfold note. constructor; [apply P2_hook|]. intros; constructor; exact I. }
    intros h1 _ _.
    eapply safeP_bind with (Q := fun _ r => pinv_post c parent r).
    { destruct (hr_finalized r); [|constructor; intros o [= <-]; exact Hp].
      apply lift_C02. eapply safeP_post; [|apply (parent_au c k parent Huid); exact Hp].
      cbv beta. intros h' r' H o Hr. apply (H o Hr). apply remove_finalizer_uid. }
    intros h2 pr Hpr. destruct pr as [p2|e]; [|constructor; exact I].
    assert (Hp2 : pinv c parent p2) by (apply Hpr; reflexivity).
    destruct (make_selector c p2) as [sel|]; [|constructor; exact I].
    destruct (enforce_labels c p2 sel (uobjects desired0)) as [ds|] eqn:Eel; [|constructor; exact I].
    cbv zeta.
    eapply safeP_bind with (Q := TT).
    { destruct (negb (is_deleting p2) || should_finalize c p2); [|constructor; exact I].
      apply manage_children_ok2; auto.
      - apply umap_all_fold; [apply umap_all_nil|].
        assert (Hd0 : umap_all des_entry desired0).
        { eapply desired_map_ok; eauto. apply umap_all_nil. }
        assert (Hall : Forall (fun d => no_slash (get_name d) = true) ds).
        { eapply enforce_labels_names; eauto. apply Forall_forall. intros d Hd.
          apply uobjects_in in Hd as (av & kd & os & n & H1 & H2). eapply Hd0; eauto. }
        eapply Forall_impl; [|exact Hall]. cbv beta. intros d Hd. split; auto.
      - apply umap_all_fold; [apply umap_all_nil|].
        destruct strict eqn:Es; [|apply Forall_forall; intros d _ Hf; congruence].
        assert (Hd0 : umap_all (fun _ _ _ d => child_pre d = true) desired0).
        { eapply desired_map_all; [exact Edm| |apply umap_all_nil].
          intros o Ho. specialize (Hpre eq_refl). unfold pres_ok in Hpre.
          rewrite forallb_forall in Hpre. exact (Hpre _ Ho). }
        assert (Hall : Forall (fun d => owner_settable d = true) ds).
        { eapply enforce_labels_settable; eauto. apply Forall_forall. intros d Hd.
          apply uobjects_in in Hd as (av & kd & os & n & H1 & H2). eapply Hd0; eauto. }
        eapply Forall_impl; [|exact Hall]. cbv beta. intros d Hd _. exact Hd. }
    intros h3 failed _.
    eapply safeP_bind with (Q := TT);
      [apply lift_C02; apply (update_parent_status_ok c k parent Huid); exact Hp2|].
    intros h4 sr _. destruct sr as [o|e]; [|destruct e]; constructor; exact I.
  Qed.

  Lemma sync_parent_object_ok2 h : SP2 TT h (sync_parent_object c k parent).
  Proof.
    unfold sync_parent_object.
    destruct (ignores_parent c parent); [constructor; exact I|].
    eapply safeP_bind with (Q := fun _ r => pinv_post c parent r);
      [apply lift_C02; apply (sync_finalizer_ok c k parent Huid), pinv_refl|].
    intros h1 fr Hfr. destruct fr as [p1|e]; [|constructor; exact I].
    assert (Hp1 : pinv c parent p1) by (apply Hfr; reflexivity).
    destruct (ignores_parent c p1); [constructor; exact I|].
    eapply safeP_bind; [apply lift_C02; apply (claim_children_ok c k parent Hcfg Hcache); exact Hp1|].
    cbv beta. intros h2 oc Hoc. destruct oc as [observed|]; [|constructor; exact I].
    assert (Hobs : umap_ok c k parent observed) by (apply Hoc; reflexivity).
    unfold related_phase. cbn [bind].
    unfold hook_phase.
    eapply safeP_bind; [apply call_hook_ok2|].
    cbv beta. intros h3 hr Hhr. destruct hr as [| |n|r]; try (constructor; exact I).
    destruct (Hhr r eq_refl) as [Hn Hpre].
    apply finish_sync_ok2; auto.
  Qed.

End C02SSA.

(* ---------- the theorems ---------- *)

(* (a) the envelope as it stands, for hooks that return no child with a null metadata *)
Theorem C02_calls_any_strategy_partial : forall c k parent,
  k_parent k = Some parent -> cfg_wf c = true -> cache_wf c k = true ->
  get_uid parent <> "" -> cache_names_ok c k = true ->
  safe sane_names_meta (fun _ cl => C02_call_ok c k parent cl = true) [] (sync c k).
Proof.
  intros c k parent Hk Hcfg Hcache Huid Hnames. unfold sync. rewrite Hk.
  eapply safeP_safe. eapply safeP_conseq; [| |intros h r H; exact H|
    apply (sync_parent_object_ok2 c k parent Hcfg Hcache Huid Hnames true)].
  - intros cl a [H1 H2]. split; [exact H1|intros _; exact H2].
  - cbv beta. intros h cl [[H|[H _]] _]; [exact H|discriminate H].
Qed.

(* (b) for every hook: the envelope with "or the applied body's metadata is not an object" *)
Theorem C02_calls_any_strategy_esc : forall c k parent,
  k_parent k = Some parent -> cfg_wf c = true -> cache_wf c k = true ->
  get_uid parent <> "" -> cache_names_ok c k = true ->
  safe sane_names (fun _ cl => C02_call_ok_esc c k parent cl = true) [] (sync c k).
Proof.
  intros c k parent Hk Hcfg Hcache Huid Hnames. unfold sync. rewrite Hk.
  eapply safeP_safe. eapply safeP_conseq; [| |intros h r H; exact H|
    apply (sync_parent_object_ok2 c k parent Hcfg Hcache Huid Hnames false)].
  - intros cl a H. split; [exact H|discriminate].
  - cbv beta. intros h cl [[H|[_ H]] _]; unfold C02_call_ok_esc; rewrite H;
      [reflexivity|apply Bool.orb_true_r].
Qed.

(* deletes and creates without the "targets the parent" escape, for both strategies *)
Theorem C02_strict_any_strategy : forall c k parent,
  k_parent k = Some parent -> cfg_wf c = true -> cache_wf c k = true ->
  get_uid parent <> "" -> cache_names_ok c k = true ->
  safe sane_names (fun _ cl => call_strict c k parent cl = true) [] (sync c k).
Proof.
  intros c k parent Hk Hcfg Hcache Huid Hnames. unfold sync. rewrite Hk.
  eapply safeP_safe. eapply safeP_conseq; [| |intros h r H; exact H|
    apply (sync_parent_object_ok2 c k parent Hcfg Hcache Huid Hnames false)].
  - intros cl a H. split; [exact H|discriminate].
  - cbv beta. intros h cl [_ H]. exact H.
Qed.

(* reading the escaped envelope: an apply request that does not target the parent carries
   the parent's controller reference, or a metadata that is not an object (which every
   API server refuses) *)
Lemma C02_apply_owned c k parent q :
  C02_call_ok_esc c k parent (CApi q) = true -> q_verb q = VPatchApply -> targets_parent c parent q = false ->
  has_controller_ref_of (q_body q) (get_uid parent) = true \/ metadata_is_obj (q_body q) = false.
Proof.
  unfold C02_call_ok_esc, C02_call_ok, apply_escape. intros H Hv Ht. rewrite Ht, Hv in H. cbn [orb] in H.
  destruct (has_controller_ref_of _ _); [now left|].
  destruct (metadata_is_obj _); [cbn in H; discriminate H|now right].
Qed.

(* ... and a json patch names a cached object that the parent controls or has adopted *)
Lemma C02_patch_guarded c k parent q :
  C02_call_ok c k parent (CApi q) = true -> q_verb q = VPatchJson -> targets_parent c parent q = false ->
  exists o, find_cached c k q = Some o /\ (controlled_by o (get_uid parent) || is_orphan o = true).
Proof.
  unfold C02_call_ok. intros H Hv Ht. rewrite Ht, Hv in H. cbn [orb] in H.
  destruct (find_cached c k q) as [o|]; [|discriminate]. eauto.
Qed.

Print Assumptions C02_calls_any_strategy_partial.
Print Assumptions C02_calls_any_strategy_esc.
Print Assumptions C02_strict_any_strategy.
Print Assumptions C02_apply_owned.
Print Assumptions C02_patch_guarded.

(* ---------- the envelope as it stands is false under server-side apply ---------- *)
(* With the escape in the VPatchApply branch of C02_call_ok (as VCreate has it: a desired child
   whose metadata is not an object keeps no owner reference, SetOwnerReferences fails silently
   on it; such a request has no name and is refused) the envelope holds for both strategies. *)
Lemma C02_call_ok_esc_ok c k parent cl :
  C02_call_ok_esc c k parent cl = true -> C02_call_ok c k parent cl = true.
Proof.
  unfold C02_call_ok_esc, C02_call_ok, apply_escape. destruct cl as [q|hk b]; [|reflexivity].
  destruct (targets_parent c parent q); [reflexivity|]. cbn [orb].
  destruct (q_verb q); rewrite ?Bool.orb_false_r; auto;
    destruct (has_controller_ref_of _ _), (metadata_is_obj _); auto.
Qed.

Theorem C02_calls_any_strategy : forall c k parent,
  k_parent k = Some parent -> cfg_wf c = true -> cache_wf c k = true ->
  get_uid parent <> "" -> cache_names_ok c k = true ->
  safe sane_names (fun _ cl => C02_call_ok c k parent cl = true) [] (sync c k).
Proof.
  intros c k parent Hk Hcfg Hcache Huid Hnames.
  apply safeP_safe with (Post := fun _ _ => True).
  eapply safeP_conseq; [intros cl a H; exact H| |intros h r H; exact H|
    apply safe_safeP; apply (C02_calls_any_strategy_esc c k parent Hk Hcfg Hcache Huid Hnames)].
  cbv beta. intros h cl H. apply C02_call_ok_esc_ok. exact H.
Qed.


(* ---------- the hypotheses are satisfiable with ssa c = true ---------- *)
Module SSAExample.
  Definition kid : child_cfg := mkChild "v1" "things" "Thing" true "InPlace".
  Definition cfg : ccfg :=
    mkCfg "cc" "ctl.example.com/v1" "Parent" "parents" true true true sel_everything [kid] true false
          [kid] true false [["spec"]] [].
  Definition parent : json :=
    JObj [("apiVersion", JStr "ctl.example.com/v1"); ("kind", JStr "Parent");
          ("metadata", JObj [("name", JStr "p"); ("namespace", JStr "ns"); ("uid", JStr "uid-p");
                             ("generation", JInt 2)]);
          ("spec", JObj [("replicas", JInt 2)])].
  Definition pref : json :=
    JObj [("apiVersion", JStr "ctl.example.com/v1"); ("blockOwnerDeletion", JBool true);
          ("controller", JBool true); ("kind", JStr "Parent"); ("name", JStr "p"); ("uid", JStr "uid-p")].
  Definition child (name uid : string) (owners : list json) (ann : list (string * json)) (x : Z) : json :=
    JObj [("apiVersion", JStr "v1"); ("kind", JStr "Thing");
          ("metadata", JObj [("name", JStr name); ("namespace", JStr "ns"); ("uid", JStr uid);
                             ("labels", JObj [("controller-uid", JStr "uid-p")]);
                             ("annotations", JObj ann);
                             ("ownerReferences", JArr owners)]);
          ("spec", JObj [("x", JInt x)])].
  (* owned, still carries the last-applied record of dynamic apply: patched, then applied *)
  Definition child_a := child "a" "uid-a" [pref] [(last_applied_annotation, JStr "{}")] 1.
  (* owned, no longer desired: deleted *)
  Definition child_b := child "b" "uid-b" [pref] [] 1.
  (* matching orphan: adopted, then applied *)
  Definition child_o := child "o" "uid-o" [] [] 1.
  Definition desired (name : string) (x : Z) : json :=
    JObj [("apiVersion", JStr "v1"); ("kind", JStr "Thing");
          ("metadata", JObj [("name", JStr name)]); ("spec", JObj [("x", JInt x)])].
  Definition k0 : cache := mkCache (Some parent) [("things.v1", [child_a; child_b; child_o])].
  Definition hook_body : json :=
    JObj [("status", JObj [("ready", JInt 1)]);
          ("children", JArr [desired "a" 2; desired "c" 3; desired "o" 1])].

  (* a well-behaved API server and hook; the guard makes it sane by construction *)
  Definition base : env := fun _ cl =>
    match cl with
    | CHook _ _ => AHook hook_body
    | CApi q =>
        match q_verb q with
        | VGet => if String.eqb (q_res q) (p_res cfg) then AObj parent
                  else match find (fun o => String.eqb (get_name o) (q_name q)) (cached k0 (q_res q)) with
                       | Some o => AObj o | None => AFail ENotFound end
        | VDelete => AObj JNull
        | VPatchJson => AObj JNull
        | _ => AObj (q_body q)
        end
    end.
  Definition e0 : env := fun h cl =>
    let a := base h cl in if saneb cl a && hook_names_ok a && hook_meta_ok a then a else AFail EOther.

  Lemma saneb_sane cl a : saneb cl a = true -> sane cl a.
  Proof.
    destruct cl as [q|hk b]; destruct a; cbn; try exact (fun _ => I).
    destruct (q_verb q); try exact (fun _ => I); intro H;
      repeat (apply andb_prop in H; destruct H as [H ?]);
      repeat match goal with H : (_ =? _)%string = true |- _ => apply String.eqb_eq in H end.
    - split; assumption.
    - repeat split; try assumption.
      match goal with H : (_ || _) = true |- _ => apply orb_prop in H; destruct H as [H|H];
        apply String.eqb_eq in H; [left|right]; exact H end.
    - repeat split; try assumption.
      match goal with H : (_ || _) = true |- _ => apply orb_prop in H; destruct H as [H|H];
        apply String.eqb_eq in H; [left|right]; exact H end.
  Qed.

  Lemma e0_sane_names_meta : forall h cl, sane_names_meta cl (e0 h cl).
  Proof.
    intros h cl. unfold e0.
    destruct (saneb cl (base h cl) && hook_names_ok (base h cl) && hook_meta_ok (base h cl)) eqn:E.
    - apply andb_prop in E. destruct E as [E E3]. apply andb_prop in E. destruct E as [E1 E2].
      split; [split; [apply saneb_sane; exact E1|exact E2]|exact E3].
    - split; [split|]; [destruct cl as [q|]; [cbn; destruct (q_verb q); exact I|exact I]|reflexivity|reflexivity].
  Qed.

  Definition the_calls : list call := rev (map fst (fst (run (sync cfg k0) e0 []))).
  Definition verbs_of (l : list call) : list verb :=
    flat_map (fun cl => match cl with CApi q => [q_verb q] | _ => [] end) l.
End SSAExample.

(* every hypothesis of C02_calls_any_strategy_partial / _esc at once, under server-side apply *)
Example C02_any_strategy_hyps_sat :
  k_parent SSAExample.k0 = Some SSAExample.parent /\ cfg_wf SSAExample.cfg = true /\
  cache_wf SSAExample.cfg SSAExample.k0 = true /\ get_uid SSAExample.parent <> "" /\
  cache_names_ok SSAExample.cfg SSAExample.k0 = true /\ ssa SSAExample.cfg = true /\
  (forall h cl, sane_names_meta cl (SSAExample.e0 h cl)).
Proof.
  split; [reflexivity|]. split; [vm_compute; reflexivity|]. split; [vm_compute; reflexivity|].
  split; [vm_compute; discriminate|]. split; [vm_compute; reflexivity|]. split; [reflexivity|].
  exact SSAExample.e0_sane_names_meta.
Qed.

(* the run on that world: the orphan is adopted (GET parent, GET, PUT), b is deleted, the
   last-applied annotation is taken off a, then a, c and o are applied, then the status *)
Example C02_any_strategy_run_verbs :
  SSAExample.verbs_of SSAExample.the_calls =
  [VGet; VGet; VUpdate; VDelete; VPatchJson; VPatchApply; VPatchApply; VPatchApply; VGet; VUpdateStatus].
Proof. vm_compute. reflexivity. Qed.

(* the json patch goes to the cached, controlled child a; every applied body carries the
   parent's controller reference; no request takes an escape *)
Example C02_any_strategy_run_requests :
  map (fun cl => match cl with
                 | CApi q => (q_name q, q_ns q,
                              match find_cached SSAExample.cfg SSAExample.k0 q with
                              | Some o => get_uid o | None => "" end)
                 | _ => ("", "", "") end)
      (filter (fun cl => match cl with CApi q => verb_eqb (q_verb q) VPatchJson | _ => false end)
              SSAExample.the_calls) = [("a", "ns", "uid-a")] /\
  map (fun cl => match cl with
                 | CApi q => (q_name q, has_controller_ref_of (q_body q) "uid-p", metadata_is_obj (q_body q))
                 | _ => ("", false, false) end)
      (filter (fun cl => match cl with CApi q => verb_eqb (q_verb q) VPatchApply | _ => false end)
              SSAExample.the_calls) = [("a", true, true); ("c", true, true); ("o", true, true)] /\
  forallb (C02_call_ok SSAExample.cfg SSAExample.k0 SSAExample.parent) SSAExample.the_calls = true /\
  existsb apply_escape SSAExample.the_calls = false.
Proof. vm_compute. repeat split; reflexivity. Qed.

(* the same conclusion from the theorem and soundness of [safe] with respect to [run] *)
Example C02_any_strategy_run_by_theorem :
  Forall (fun hc => C02_call_ok SSAExample.cfg SSAExample.k0 SSAExample.parent (snd hc) = true)
         (calls_with_history (fst (run (sync SSAExample.cfg SSAExample.k0) SSAExample.e0 []))).
Proof.
  destruct C02_any_strategy_hyps_sat as (Hk & Hcfg & Hcache & Huid & Hnames & _ & He).
  apply (safe_run sane_names_meta (fun _ cl => C02_call_ok SSAExample.cfg SSAExample.k0 SSAExample.parent cl = true));
    [|exact He].
  apply C02_calls_any_strategy_partial; assumption.
Qed.

Print Assumptions C02_calls_any_strategy.
Print Assumptions C02_any_strategy_hyps_sat.
Print Assumptions C02_any_strategy_run_requests.
Print Assumptions C02_any_strategy_run_by_theorem.
