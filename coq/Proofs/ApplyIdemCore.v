(* ApplyIdemCore.v — idempotence of merge: applying desired again on the result,
   with desired as the last-applied record, changes nothing (Leibniz equality).
   Parametric core + list-map-free instance; counterexample to the unrestricted
   statement (explicit null in desired over an observed list map). *)
From MC Require Import Generated Model.Json Model.Apply Model.ApplyLaws.
From MC Require Import Proofs.AssocLemmas Proofs.AssocLemmas2 Proofs.ApplyProofs Proofs.ApplyBase.
From MC Require Import Proofs.ApplyCore.

(* ---------- counterexamples to the statement as given ---------- *)
(* ORIGINAL STATEMENT (false):
   Theorem idempotent : forall d o l r, Hb d o l = true -> wf_json d = true ->
     wf_json o = true -> wf_json l = true -> merge d o l = Ok r ->
     exists r', merge d r d = Ok r' /\ jeqb r r' = true. *)

(* desired null over an observed list map all of whose items were last applied:
   the first merge yields [] (mergeListMap's make([]interface{},0)), the second
   sees no list map in [] and yields the nil slice, i.e. null. *)
Definition cex1_o := JArr [JObj [("name", JStr "a")]].

Example idempotent_cex :
  ~ (forall d o l r, Hb d o l = true -> wf_json d = true -> wf_json o = true ->
       wf_json l = true -> merge d o l = Ok r ->
       exists r', merge d r d = Ok r' /\ jeqb r r' = true).
Proof.
  intros H.
  destruct (H JNull cex1_o cex1_o (JArr [])) as (r' & Hm & He); try (vm_compute; reflexivity).
  vm_compute in Hm. inversion Hm; subst r'. vm_compute in He. discriminate.
Qed.

(* the same below an object key *)
Example idempotent_cex_nested :
  let d := JObj [("a", JNull)] in
  let o := JObj [("a", cex1_o)] in
  Hb d o o = true /\ wf_json d = true /\ wf_json o = true /\
  merge d o o = Ok (JObj [("a", JArr [])]) /\
  merge d (JObj [("a", JArr [])]) d = Ok (JObj [("a", JNull)]) /\
  jeqb (JObj [("a", JArr [])]) (JObj [("a", JNull)]) = false.
Proof. vm_compute. repeat split; reflexivity. Qed.

(* desired null over an observed list map: the survivors are re-keyed by a
   different conventional key on the second apply, and one is clobbered *)
Example idempotent_cex_rekey :
  let o := JArr [JObj [("name", JStr "a"); ("port", JInt 1)];
                 JObj [("name", JStr "b"); ("port", JInt 1)];
                 JObj [("name", JStr "c")]] in
  let l := JArr [JObj [("name", JStr "c")]] in
  let r := JArr [JObj [("name", JStr "a"); ("port", JInt 1)];
                 JObj [("name", JStr "b"); ("port", JInt 1)]] in
  let r2 := JArr [JObj [("name", JStr "b"); ("port", JInt 1)];
                  JObj [("name", JStr "b"); ("port", JInt 1)]] in
  Hb JNull o l = true /\ wf_json o = true /\ wf_json l = true /\
  merge JNull o l = Ok r /\ merge JNull r JNull = Ok r2 /\ jeqb r r2 = false.
Proof. vm_compute. repeat split; reflexivity. Qed.

(* ---------- the extra hypothesis: no explicit null over a list map ---------- *)
Fixpoint null_ok (d o l : json) {struct d} : bool :=
  match d with
  | JObj dm =>
      let om := obj_or_nil o in
      let lm := obj_or_nil l in
      (fix go (dm : amap) : bool :=
         match dm with
         | [] => true
         | (k, dv) :: dm' => null_ok dv (jget k om) (jget k lm) && go dm'
         end) dm
  | JArr dl =>
      let ol := arr_or_nil o in
      let ll := arr_or_nil l in
      match detect_key ol ll dl with
      | None => true
      | Some key =>
          (fix go (dl : list json) : bool :=
             match dl with
             | [] => true
             | it :: dl' =>
                 match item_key key it with
                 | Some k => null_ok it (find_item_or_null key k ol) (find_item_or_null key k ll)
                 | None => true
                 end && go dl'
             end) dl
      end
  | JNull =>
      match o with
      | JArr ol => match detect_key ol (arr_or_nil l) [] with None => true | Some _ => false end
      | _ => true
      end
  | _ => true
  end.

Lemma null_ok_obj dm o l :
  null_ok (JObj dm) o l =
  forallb (fun kv => null_ok (snd kv) (jget (fst kv) (obj_or_nil o)) (jget (fst kv) (obj_or_nil l))) dm.
Proof.
  cbn [null_ok]. cbv zeta.
  induction dm as [|[k dv] dm IH]; [reflexivity|].
  cbn [forallb fst snd]. now rewrite <- IH.
Qed.

(* ---------- self merge: merge d d d = d ---------- *)
Section SelfCore.
  Variable Y : json -> bool.
  Hypothesis Y_obj : forall dm k dv, Y (JObj dm) = true -> In (k, dv) dm -> Y dv = true.

  Definition self_stmt (s : json) : Prop :=
    self_wf s = true -> wf_json s = true -> Y s = true -> merge s s s = Ok s.

  Hypothesis lm_self : forall sl key,
    Forall self_stmt sl -> self_wf (JArr sl) = true -> wf_json (JArr sl) = true ->
    Y (JArr sl) = true -> detect_key sl sl sl = Some key ->
    merge (JArr sl) (JArr sl) (JArr sl) = Ok (JArr sl).

  Lemma merge_self_core : forall d, self_stmt d.
  Proof.
    induction d as [| b | z | s | s | j IH | sl IH | sm IH] using json_ind'; intros Hs Hw HY.
    1-6: reflexivity.
    - destruct (detect_key sl sl sl) as [key|] eqn:E.
      + eapply lm_self; eauto.
      + rewrite merge_arr_arr. cbv zeta. cbn [arr_or_nil]. now rewrite E.
    - rewrite merge_obj_obj. cbv zeta. cbn [obj_or_nil].
      rewrite remove_last_all_kept by (intros k Hk; now apply ahas_In_keys).
      rewrite mobj_aux_fix; [reflexivity|].
      intros k dv Hin. exists dv.
      pose proof (wf_obj_nodup _ Hw) as Hnd.
      rewrite (jget_nodup_In k dv sm Hnd Hin). split.
      + rewrite Forall_forall in IH. apply (IH (k, dv) Hin).
        * rewrite self_wf_obj in Hs. apply andb_split in Hs as [_ Hs].
          apply (forallb_In _ _ _ Hs Hin).
        * apply (wf_obj_In sm k dv Hw Hin).
        * eapply Y_obj; eauto.
      + now apply alookup_nodup_In.
  Qed.
End SelfCore.

(* ---------- idempotence core ---------- *)
Section IdemCore.
  Variable X : json -> json -> json -> bool.
  Hypothesis X_obj : forall dm o l k dv,
    X (JObj dm) o l = true -> In (k, dv) dm ->
    X dv (jget k (obj_or_nil o)) (jget k (obj_or_nil l)) = true.
  Hypothesis X_null : forall ol l,
    X JNull (JArr ol) l = true -> detect_key ol (arr_or_nil l) [] = None.
  Hypothesis self_merge : forall d o l,
    self_wf d = true -> wf_json d = true -> X d o l = true -> merge d d d = Ok d.

  Definition idem_hyps (s o l : json) : Prop :=
    self_wf s = true /\ Hb' s o l = true /\ wf_json s = true /\ wf_json o = true /\
    wf_json l = true /\ X s o l = true.

  Definition idem_stmt (s : json) : Prop :=
    forall o l r, idem_hyps s o l -> merge s o l = Ok r -> merge s r s = Ok r.

  Hypothesis lm_idem : forall sl ol l key r,
    Forall idem_stmt sl -> idem_hyps (JArr sl) (JArr ol) l ->
    detect_key ol (arr_or_nil l) sl = Some key ->
    merge (JArr sl) (JArr ol) l = Ok r -> merge (JArr sl) r (JArr sl) = Ok r.

  Lemma idem_hyps_obj sm om l k dv :
    idem_hyps (JObj sm) (JObj om) l -> In (k, dv) sm ->
    idem_hyps dv (jget k om) (jget k (obj_or_nil l)).
  Proof.
    intros (Hs & Hh & Hw & Hwo & Hwl & HX) Hin.
    rewrite self_wf_obj in Hs. apply andb_split in Hs as [Hnd Hs].
    rewrite Hb'_obj in Hh. apply andb_split in Hh as [_ Hh].
    repeat split.
    - apply (forallb_In _ _ _ Hs Hin).
    - apply (forallb_In _ _ _ Hh Hin).
    - apply (wf_obj_In sm k dv Hw Hin).
    - now apply wf_jget.
    - apply wf_jget. now apply wf_obj_or_nil.
    - apply (X_obj sm (JObj om) l k dv HX Hin).
  Qed.

  Lemma idem_self d o l : idem_hyps d o l -> merge d d d = Ok d.
  Proof. intros (Hs & _ & Hw & _ & _ & HX). eapply self_merge; eauto. Qed.

  Lemma idem_core : forall d, idem_stmt d.
  Proof.
    induction d as [| b | z | s | s | j IH | sl IH | sm IH] using json_ind';
      intros o l r HH Hm.
    - (* null *)
      destruct o as [| | | | | |ol|om]; try (cbn in Hm; inversion Hm; subst; reflexivity).
      destruct HH as (_ & _ & _ & _ & _ & HX). apply X_null in HX.
      cbn [merge] in Hm. cbv zeta in Hm. rewrite HX in Hm. inversion Hm; subst. reflexivity.
    - apply merge_scalar_des in Hm; [subst; reflexivity|reflexivity].
    - apply merge_scalar_des in Hm; [subst; reflexivity|reflexivity].
    - apply merge_scalar_des in Hm; [subst; reflexivity|reflexivity].
    - apply merge_scalar_des in Hm; [subst; reflexivity|reflexivity].
    - apply merge_scalar_des in Hm; [subst; reflexivity|reflexivity].
    - (* desired array *)
      destruct o as [| | | | | |ol|om];
        try (rewrite merge_nc in Hm by reflexivity; inversion Hm; subst; eapply idem_self; eauto);
        try (cbn in Hm; discriminate).
      destruct (detect_key ol (arr_or_nil l) sl) as [key|] eqn:E.
      + eapply lm_idem; eauto.
      + rewrite merge_arr_arr in Hm. cbv zeta in Hm. rewrite E in Hm.
        inversion Hm; subst. eapply idem_self; eauto.
    - (* desired object *)
      destruct o as [| | | | | |ol|om];
        try (rewrite merge_nc in Hm by reflexivity; inversion Hm; subst; eapply idem_self; eauto);
        try (cbn in Hm; discriminate).
      rewrite merge_obj_obj in Hm. cbv zeta in Hm.
      destruct (mobj_aux _ _ sm _) as [m| |] eqn:EM; try discriminate.
      inversion Hm; subst r. clear Hm.
      pose proof HH as (Hs & _).
      rewrite self_wf_obj in Hs. apply andb_split in Hs as [Hnd _].
      rewrite merge_obj_obj. cbv zeta. cbn [obj_or_nil].
      rewrite remove_last_all_kept by (intros k Hk; now apply ahas_In_keys).
      rewrite mobj_aux_fix; [reflexivity|].
      intros k dv Hin.
      destruct (mobj_aux_In _ _ _ _ _ EM Hnd k dv Hin) as (rk & Hrk & Hl).
      rewrite jget_remove_last_keep in Hrk by (eapply ahas_nodup_In; eauto).
      exists rk. split; [|exact Hl].
      unfold jget at 1. rewrite Hl. rewrite (jget_nodup_In k dv sm Hnd Hin).
      rewrite Forall_forall in IH. apply (IH (k, dv) Hin _ _ _ (idem_hyps_obj _ _ _ _ _ HH Hin) Hrk).
  Qed.
End IdemCore.

(* ---------- instance 1: list-map-free fragment ---------- *)
Definition X_nolm (d o l : json) : bool := no_listmap d o l && no_self_listmap d.

Lemma no_self_listmap_Y_obj dm k dv :
  no_self_listmap (JObj dm) = true -> In (k, dv) dm -> no_self_listmap dv = true.
Proof. rewrite no_self_listmap_obj. intros H Hin. apply (forallb_In _ _ _ H Hin). Qed.

Lemma merge_self_nolistmap d :
  self_wf d = true -> wf_json d = true -> no_self_listmap d = true -> merge d d d = Ok d.
Proof.
  apply (merge_self_core no_self_listmap no_self_listmap_Y_obj).
  intros sl key _ _ _ HY E. cbn [no_self_listmap] in HY. rewrite E in HY. discriminate.
Qed.

Theorem idempotent_nolistmap : forall d o l r,
  no_listmap d o l = true -> no_self_listmap d = true ->
  Hb d o l = true -> wf_json d = true -> wf_json o = true -> wf_json l = true ->
  merge d o l = Ok r -> merge d r d = Ok r.
Proof.
  intros d o l r HX HY Hh Hw Hwo Hwl Hm. unfold Hb in Hh. apply andb_split in Hh as [Hs Hh].
  eapply (idem_core X_nolm); eauto.
  - intros dm o0 l0 k dv H Hin. unfold X_nolm in *. apply andb_split in H as [H1 H2].
    rewrite (no_listmap_X_obj _ _ _ _ _ H1 Hin), (no_self_listmap_Y_obj _ _ _ H2 Hin). reflexivity.
  - intros ol l0 H. unfold X_nolm in H. apply andb_split in H as [H _].
    cbn [no_listmap] in H. destruct (detect_key ol (arr_or_nil l0) []); [discriminate|reflexivity].
  - intros d0 o0 l0 Hs0 Hw0 H. unfold X_nolm in H. apply andb_split in H as [_ H].
    now apply merge_self_nolistmap.
  - intros sl ol l0 key r0 _ (_ & _ & _ & _ & _ & H) E _. unfold X_nolm in H.
    apply andb_split in H as [H _]. exfalso. eapply no_listmap_arr_absurd; eauto.
  - unfold X_nolm. repeat split; auto. now rewrite HX, HY.
Qed.

Corollary idempotent_nolistmap_jeqb : forall d o l r,
  no_listmap d o l = true -> no_self_listmap d = true ->
  Hb d o l = true -> wf_json d = true -> wf_json o = true -> wf_json l = true ->
  merge d o l = Ok r -> exists r', merge d r d = Ok r' /\ r' = r.
Proof. intros. exists r. split; [eapply idempotent_nolistmap; eauto|reflexivity]. Qed.

Print Assumptions idempotent_cex.
Print Assumptions idempotent_nolistmap.
