(* C14Proofs.v - proofs about Model/Events.v against Model/EventSpec.v. *)
From MC Require Import Model.Events Model.EventSpec.
Local Open Scope list_scope.

(* ---------- generic list facts ---------- *)
Lemma find_unique {A} (P : A -> bool) (l : list A) (a : A) :
  In a l -> P a = true -> (forall b, In b l -> P b = true -> b = a) -> find P l = Some a.
Proof.
  induction l as [|x l IH]; intros Hin Hp Hu; [contradiction|].
  cbn. destruct (P x) eqn:Hx.
  - f_equal. apply Hu; [now left|exact Hx].
  - destruct Hin as [->|Hin]; [congruence|].
    apply IH; auto. intros b Hb. apply Hu. now right.
Qed.

Lemma nodup_map_inj {A B} (f : A -> B) (l : list A) (a b : A) :
  NoDup (map f l) -> In a l -> In b l -> f a = f b -> a = b.
Proof.
  induction l as [|x l IH]; intros Hn Ha Hb Hf; [contradiction|].
  cbn in Hn. inversion Hn as [|? ? Hnotin Hn']; subst.
  destruct Ha as [->|Ha], Hb as [->|Hb]; auto.
  - exfalso. apply Hnotin. rewrite Hf. now apply in_map.
  - exfalso. apply Hnotin. rewrite <- Hf. now apply in_map.
Qed.

Lemma find_In {A} (P : A -> bool) (l : list A) (a : A) :
  find P l = Some a -> In a l /\ P a = true.
Proof. apply find_some. Qed.

Lemma eqb_eq_s a b : String.eqb a b = true -> a = b.
Proof. apply String.eqb_eq. Qed.

Lemma eqb_refl_s a : String.eqb a a = true.
Proof. apply String.eqb_refl. Qed.

(* ---------- splitting strings ---------- *)
Lemma split_at_none c s : no_char c s = true -> split_at c s = None.
Proof.
  induction s as [|a s IH]; intros H; [reflexivity|].
  cbn in *. apply andb_true_iff in H. destruct H as [Ha Hs].
  destruct (Ascii.eqb a c); [discriminate|]. now rewrite (IH Hs).
Qed.

Lemma split_at_app c s t :
  no_char c s = true -> split_at c (s ++ String c t)%string = Some (s, t).
Proof.
  induction s as [|a s IH]; intros H.
  - cbn. now rewrite Ascii.eqb_refl.
  - cbn in *. apply andb_true_iff in H. destruct H as [Ha Hs].
    destruct (Ascii.eqb a c); [discriminate|]. now rewrite (IH Hs).
Qed.

Lemma append_assoc_s (a b c : string) : ((a ++ b) ++ c = a ++ (b ++ c))%string.
Proof. induction a as [|x a IH]; cbn; [reflexivity|now rewrite IH]. Qed.

(* ---------- composite keys ---------- *)
Lemma split_lookup_key ns n :
  no_char slash ns = true -> no_char slash n = true ->
  split_meta_key (lookup_key ns n) = Some (ns, n).
Proof.
  intros Hns Hn. unfold split_meta_key, lookup_key.
  destruct (String.eqb ns "") eqn:E.
  - apply eqb_eq_s in E. subst. now rewrite (split_at_none _ _ Hn).
  - change (ns ++ "/" ++ n)%string with (ns ++ String slash n)%string.
    rewrite (split_at_app _ _ _ Hns). now rewrite (split_at_none _ _ Hn).
Qed.

Lemma key_of_lookup o : key_of o = lookup_key (get_ns o) (get_name o).
Proof. reflexivity. Qed.

Lemma key_roundtrip o :
  no_char slash (get_ns o) = true -> no_char slash (get_name o) = true ->
  split_meta_key (key_of o) = Some (get_ns o, get_name o).
Proof. intros. rewrite key_of_lookup. now apply split_lookup_key. Qed.

Lemma lookup_key_inj ns n ns' n' :
  no_char slash ns = true -> no_char slash n = true ->
  no_char slash ns' = true -> no_char slash n' = true ->
  lookup_key ns n = lookup_key ns' n' -> ns = ns' /\ n = n'.
Proof.
  intros H1 H2 H3 H4 E.
  pose proof (split_lookup_key ns n H1 H2) as A.
  pose proof (split_lookup_key ns' n' H3 H4) as B.
  rewrite E in A. rewrite A in B. now inversion B.
Qed.

(* ---------- decorator keys ---------- *)
Lemma d_key_roundtrip o :
  no_char colon (get_api_version o) = true -> no_char colon (get_kind o) = true ->
  no_char colon (get_ns o) = true ->
  split_parent_queue_key (d_key_of o) = Some (get_api_version o, get_kind o, get_ns o, get_name o).
Proof.
  intros Ha Hk Hn. unfold split_parent_queue_key, d_key_of.
  change (get_api_version o ++ ":" ++ get_kind o ++ ":" ++ get_ns o ++ ":" ++ get_name o)%string
    with (get_api_version o ++ String colon (get_kind o ++ String colon (get_ns o ++ String colon (get_name o))))%string.
  rewrite (split_at_app _ _ _ Ha), (split_at_app _ _ _ Hk), (split_at_app _ _ _ Hn). reflexivity.
Qed.

Lemma d_tombstone_key_parses c k o :
  d_cares c o = true ->
  no_char colon (get_api_version o) = true -> no_char colon (get_kind o) = true ->
  no_char colon (get_ns o) = true ->
  exists q, d_on_parent_event c (EDeleteTombstone k o) = [q] /\
            split_parent_queue_key q = Some (get_api_version o, get_kind o, get_ns o, get_name o).
Proof.
  intros Hc Ha Hk Hn. exists (d_key_of o). split; [|now apply d_key_roundtrip].
  cbn. now rewrite Hc.
Qed.

(* ====================== composite ====================== *)

Lemma enqueue_obj_sound c o k :
  In k (enqueue_parent c (WObj o)) -> k = key_of o /\ cares (e_cc c) o = true.
Proof.
  cbn. destruct (cares (e_cc c) o) eqn:E; cbn; [|tauto].
  intros [<-|[]]. auto.
Qed.

Lemma enqueue_obj_complete c o : cares (e_cc c) o = true -> enqueue_parent c (WObj o) = [key_of o].
Proof. intros H. cbn. now rewrite H. Qed.

Lemma enqueue_obj_unmatched c o : cares (e_cc c) o = false -> enqueue_parent c (WObj o) = [].
Proof. intros H. cbn. now rewrite H. Qed.

Lemma update_sound c old cur k :
  In k (update_parent c old cur) -> k = key_of cur /\ cares (e_cc c) cur = true.
Proof.
  unfold update_parent. destruct (ignore_status_changes c && status_only old cur); [intros []|].
  apply enqueue_obj_sound.
Qed.

(* (d) *)
Lemma status_only_spec old cur :
  status_only old cur = true <->
  (get_generation old = get_generation cur /\ labels_equal old cur = true /\
   annotations_equal old cur = true /\ is_deleting cur = false).
Proof.
  unfold status_only. rewrite !andb_true_iff, Z.eqb_eq, negb_true_iff. tauto.
Qed.

Lemma update_noignore c old cur :
  ignore_status_changes c = false -> update_parent c old cur = enqueue_parent c (WObj cur).
Proof. intros H. unfold update_parent. now rewrite H. Qed.

Lemma update_ignore_dropped c old cur :
  ignore_status_changes c = true ->
  get_generation old = get_generation cur -> labels_equal old cur = true ->
  annotations_equal old cur = true -> is_deleting cur = false ->
  update_parent c old cur = [].
Proof.
  intros H G L A D. unfold update_parent. rewrite H.
  assert (S : status_only old cur = true) by (apply status_only_spec; auto).
  now rewrite S.
Qed.

Lemma update_ignore_kept c old cur :
  ignore_status_changes c = true ->
  (get_generation old <> get_generation cur \/ labels_equal old cur = false \/
   annotations_equal old cur = false \/ is_deleting cur = true) ->
  update_parent c old cur = enqueue_parent c (WObj cur).
Proof.
  intros H K. unfold update_parent. rewrite H.
  destruct (status_only old cur) eqn:S; [|reflexivity].
  apply status_only_spec in S. destruct S as (G & L & A & D).
  destruct K as [K|[K|[K|K]]]; congruence.
Qed.

Lemma update_ignore_iff c old cur :
  ignore_status_changes c = true -> cares (e_cc c) cur = true ->
  (update_parent c old cur = [] <->
   (get_generation old = get_generation cur /\ labels_equal old cur = true /\
    annotations_equal old cur = true /\ is_deleting cur = false)).
Proof.
  intros H C. rewrite <- status_only_spec. unfold update_parent. rewrite H. cbn [andb].
  destruct (status_only old cur); [tauto|].
  rewrite (enqueue_obj_complete _ _ C). split; discriminate.
Qed.

(* (a) *)
Lemma resync_nothing c parents ev :
  is_resync ev = true -> handle c parents SChild ev = [].
Proof.
  destruct ev; cbn; try discriminate. intros H. unfold on_child_update. now rewrite H.
Qed.

Lemma child_update_resync c parents old cur :
  get_rv old = get_rv cur -> on_child_update c parents old cur = [].
Proof. intros H. unfold on_child_update. rewrite H. now rewrite eqb_refl_s. Qed.

(* resolveControllerRef *)
Lemma resolve_sound c parents ns r p :
  resolve_controller_ref c parents ns r = Some p ->
  In p parents /\
  group_of (or_api_version r) = group_of (p_api_version (e_cc c)) /\
  or_kind r = p_kind (e_cc c) /\
  key_of p = lookup_key (if p_namespaced (e_cc c) then ns else "") (or_name r) /\
  get_uid p = or_uid r /\ cares (e_cc c) p = true.
Proof.
  unfold resolve_controller_ref.
  destruct (String.eqb (group_of (or_api_version r)) (group_of (p_api_version (e_cc c)))) eqn:G; cbn [negb]; [|discriminate].
  destruct (String.eqb (or_kind r) (p_kind (e_cc c))) eqn:K; cbn [negb]; [|discriminate].
  destruct (cache_get parents _) as [q|] eqn:F; [|discriminate].
  destruct (String.eqb (get_uid q) (or_uid r)) eqn:U; cbn [negb]; [|discriminate].
  destruct (cares (e_cc c) q) eqn:C; [|discriminate].
  intros E. inversion E; subst q. apply find_In in F. destruct F as [Hin Hk].
  repeat split; auto using eqb_eq_s.
Qed.

Lemma ref_names_key c ns r p :
  ref_names c ns r p = true ->
  key_of p = lookup_key (if p_namespaced (e_cc c) then ns else "") (or_name r).
Proof.
  unfold ref_names. rewrite !andb_true_iff. intros ((((_ & _) & N) & _) & S).
  apply eqb_eq_s in N. rewrite key_of_lookup, N.
  destruct (p_namespaced (e_cc c)); apply eqb_eq_s in S; now rewrite S.
Qed.

Lemma resolve_complete c parents ns r p :
  NoDup (map key_of parents) -> In p parents ->
  ref_names c ns r p = true -> cares (e_cc c) p = true ->
  resolve_controller_ref c parents ns r = Some p.
Proof.
  intros Hn Hin R C. pose proof (ref_names_key _ _ _ _ R) as Hk.
  unfold ref_names in R. rewrite !andb_true_iff in R. destruct R as ((((G & K) & N) & U) & S).
  unfold resolve_controller_ref. rewrite G, K. cbn [negb].
  unfold cache_get.
  rewrite (find_unique (fun q => String.eqb (key_of q) _) parents p Hin).
  - apply eqb_eq_s in U. rewrite <- U, eqb_refl_s. cbn [negb]. now rewrite C.
  - rewrite Hk. apply eqb_refl_s.
  - intros b Hb Eb. apply eqb_eq_s in Eb.
    apply (nodup_map_inj key_of parents b p Hn Hb Hin). congruence.
Qed.

Lemma wake_owner_complete c parents child r p :
  NoDup (map key_of parents) -> In p parents ->
  ref_names c (get_ns child) r p = true -> cares (e_cc c) p = true ->
  wake_owner c parents child r = [key_of p].
Proof.
  intros Hn Hin R C. unfold wake_owner.
  rewrite (resolve_complete _ _ _ _ _ Hn Hin R C). now apply enqueue_obj_complete.
Qed.

(* a controlled child wakes at most the one parent the reference resolves to *)
Lemma wake_owner_sound c parents child r :
  wake_owner c parents child r = [] \/
  exists p, wake_owner c parents child r = [key_of p] /\ In p parents /\
            group_of (or_api_version r) = group_of (p_api_version (e_cc c)) /\
            or_kind r = p_kind (e_cc c) /\
            key_of p = lookup_key (if p_namespaced (e_cc c) then get_ns child else "") (or_name r) /\
            get_uid p = or_uid r /\ cares (e_cc c) p = true.
Proof.
  unfold wake_owner. destruct (resolve_controller_ref c parents (get_ns child) r) as [p|] eqn:E; [|now left].
  right. exists p. apply resolve_sound in E. destruct E as (A & B & C & D & F & G).
  rewrite (enqueue_obj_complete _ _ G). repeat split; auto.
Qed.

(* the child handlers on a child with a controller reference *)
Lemma child_ref_handle c parents ev r :
  controller_of (ev_obj ev) = Some r ->
  handle c parents SChild ev = [] \/
  handle c parents SChild ev = wake_owner c parents (ev_obj ev) r.
Proof.
  intros Hr. destruct ev as [o|old cur|o|k o]; cbn in *.
  - unfold on_child_add, on_child_delete. cbn. rewrite Hr. destruct (is_deleting o); now right.
  - unfold on_child_update. destruct (String.eqb (get_rv old) (get_rv cur)); [now left|].
    unfold on_child_add, on_child_delete. cbn. rewrite Hr. destruct (is_deleting cur); now right.
  - unfold on_child_delete. cbn. rewrite Hr. now right.
  - unfold on_child_delete. cbn. rewrite Hr. now right.
Qed.

Lemma child_ref_handle_live c parents ev r :
  controller_of (ev_obj ev) = Some r -> is_resync ev = false ->
  handle c parents SChild ev = wake_owner c parents (ev_obj ev) r.
Proof.
  intros Hr Hs. destruct ev as [o|old cur|o|k o]; cbn in *.
  - unfold on_child_add, on_child_delete. cbn. rewrite Hr. now destruct (is_deleting o).
  - unfold on_child_update. rewrite Hs.
    unfold on_child_add, on_child_delete. cbn. rewrite Hr. now destruct (is_deleting cur).
  - unfold on_child_delete. cbn. now rewrite Hr.
  - unfold on_child_delete. cbn. now rewrite Hr.
Qed.

(* (c) *)
Lemma controlled_child_sound c parents ev r :
  controller_of (ev_obj ev) = Some r ->
  handle c parents SChild ev = [] \/
  exists p, handle c parents SChild ev = [key_of p] /\ In p parents /\
            group_of (or_api_version r) = group_of (p_api_version (e_cc c)) /\
            or_kind r = p_kind (e_cc c) /\
            key_of p = lookup_key (if p_namespaced (e_cc c) then get_ns (ev_obj ev) else "") (or_name r) /\
            get_uid p = or_uid r /\ cares (e_cc c) p = true.
Proof.
  intros Hr. destruct (child_ref_handle c parents ev r Hr) as [E|E]; [now left|].
  rewrite E. apply wake_owner_sound.
Qed.

Lemma wrong_kind_nothing c parents ev r :
  controller_of (ev_obj ev) = Some r ->
  (or_kind r <> p_kind (e_cc c) \/ group_of (or_api_version r) <> group_of (p_api_version (e_cc c))) ->
  handle c parents SChild ev = [].
Proof.
  intros Hr W. destruct (controlled_child_sound c parents ev r Hr) as [E|(p & _ & _ & G & K & _)]; [exact E|].
  destruct W; congruence.
Qed.

Lemma wrong_uid_nothing c parents ev r :
  controller_of (ev_obj ev) = Some r ->
  (forall p, In p parents ->
     key_of p = lookup_key (if p_namespaced (e_cc c) then get_ns (ev_obj ev) else "") (or_name r) ->
     get_uid p <> or_uid r) ->
  handle c parents SChild ev = [].
Proof.
  intros Hr W. destruct (controlled_child_sound c parents ev r Hr) as [E|(p & _ & Hin & _ & _ & Hk & U & _)]; [exact E|].
  exfalso. exact (W p Hin Hk U).
Qed.

Lemma key_lookup_names c ns r p :
  slash_free p = true -> no_char slash ns = true -> no_char slash (or_name r) = true ->
  group_of (or_api_version r) = group_of (p_api_version (e_cc c)) ->
  or_kind r = p_kind (e_cc c) ->
  key_of p = lookup_key (if p_namespaced (e_cc c) then ns else "") (or_name r) ->
  get_uid p = or_uid r ->
  ref_names c ns r p = true.
Proof.
  intros Hp Hns Hn G K Hk U. unfold slash_free in Hp. apply andb_true_iff in Hp. destruct Hp as [P1 P2].
  rewrite key_of_lookup in Hk.
  assert (Hpns : no_char slash (if p_namespaced (e_cc c) then ns else "") = true)
    by (destruct (p_namespaced (e_cc c)); auto).
  destruct (lookup_key_inj _ _ _ _ P1 P2 Hpns Hn Hk) as [E1 E2].
  unfold ref_names. rewrite G, K, <- E2, <- U, !eqb_refl_s. cbn [andb].
  destruct (p_namespaced (e_cc c)); rewrite E1; apply eqb_refl_s.
Qed.

Lemma forallb_In {A} (f : A -> bool) l a : forallb f l = true -> In a l -> f a = true.
Proof. intros H Hin. rewrite forallb_forall in H. auto. Qed.

(* completeness *)
Lemma complete c parents s ev p :
  NoDup (map key_of parents) -> event_wf ev = true ->
  In p (candidates parents s ev) -> affects c s ev p = true ->
  In (key_of p) (handle c parents s ev).
Proof.
  intros Hn Hwf Hin Ha. destruct s.
  - (* parent events *)
    cbn in Ha. rewrite !andb_true_iff in Ha. destruct Ha as [[Hk Hc] Hd].
    apply eqb_eq_s in Hk. rewrite Hk. apply negb_true_iff in Hd.
    destruct ev as [o|old cur|o|k o]; cbn in *.
    + rewrite Hc. now left.
    + unfold update_parent. unfold status_only. rewrite Hd. cbn. rewrite Hc. now left.
    + rewrite Hc. now left.
    + rewrite Hc. apply eqb_eq_s in Hwf. subst. now left.
  - (* child events *)
    cbn [candidates] in Hin. cbn [affects] in Ha. rewrite !andb_true_iff in Ha.
    destruct Ha as [[Hr Hc] Hm]. apply negb_true_iff in Hr.
    destruct (controller_of (ev_obj ev)) as [r|] eqn:Hcr.
    + rewrite (child_ref_handle_live c parents ev r Hcr Hr).
      rewrite (wake_owner_complete _ _ _ _ _ Hn Hin Hm Hc). now left.
    + rewrite !andb_true_iff in Hm. destruct Hm as [[Hdel Hdg] Hsel].
      apply negb_true_iff in Hdel. apply negb_true_iff in Hdg.
      assert (Hpot : In p (find_potential_parents c parents (ev_obj ev))).
      { unfold find_potential_parents. apply filter_In. split; [exact Hin|].
        unfold orphan_selected in Hsel. apply andb_true_iff in Hsel. destruct Hsel as [Hl Hs].
        unfold listed, parent_selects. rewrite Hl. cbn [andb]. exact Hs. }
      assert (Hfm : In (key_of p)
                (flat_map (fun q => enqueue_parent c (WObj q)) (find_potential_parents c parents (ev_obj ev)))).
      { apply in_flat_map. exists p. split; [exact Hpot|]. rewrite (enqueue_obj_complete _ _ Hc). now left. }
      destruct ev as [o|old cur|o|k o]; cbn in *; try discriminate.
      * unfold on_child_add. rewrite Hdg, Hcr. exact Hfm.
      * unfold on_child_update. rewrite Hr. unfold on_child_add. rewrite Hdg, Hcr. exact Hfm.
Qed.

(* soundness: every queued key is the key of an affected candidate *)
Lemma sound c parents s ev k :
  names_ok parents s ev = true -> event_wf ev = true ->
  In k (handle c parents s ev) ->
  exists p, In p (candidates parents s ev) /\ key_of p = k /\ affects c s ev p = true.
Proof.
  intros Hok Hwf Hin. destruct s.
  - exists (ev_obj ev). split; [now left|].
    destruct ev as [o|old cur|o|k' o]; cbn in *.
    + destruct (cares (e_cc c) o) eqn:C; [|contradiction]. destruct Hin as [<-|[]].
      rewrite eqb_refl_s. auto.
    + unfold update_parent in Hin. unfold status_only in Hin.
      destruct (ignore_status_changes c && _) eqn:D; [contradiction|].
      apply enqueue_obj_sound in Hin. destruct Hin as [-> C]. rewrite eqb_refl_s, C. auto.
    + destruct (cares (e_cc c) o) eqn:C; [|contradiction]. destruct Hin as [<-|[]].
      rewrite eqb_refl_s. auto.
    + destruct (cares (e_cc c) o) eqn:C; [|contradiction]. destruct Hin as [<-|[]].
      apply eqb_eq_s in Hwf. subst k'. rewrite eqb_refl_s. auto.
  - cbn [names_ok] in Hok. rewrite !andb_true_iff in Hok. destruct Hok as [[Hps Hns] Hrn].
    destruct (is_resync ev) eqn:Hrs; [rewrite (resync_nothing _ _ _ Hrs) in Hin; contradiction|].
    destruct (controller_of (ev_obj ev)) as [r|] eqn:Hcr.
    + rewrite (child_ref_handle_live c parents ev r Hcr Hrs) in Hin.
      destruct (wake_owner_sound c parents (ev_obj ev) r) as [E|(p & E & Hp & G & K & Hk & U & C)];
        rewrite E in Hin; [contradiction|].
      destruct Hin as [<-|[]]. exists p. split; [exact Hp|]. split; [reflexivity|].
      cbn [affects]. rewrite Hrs, C, Hcr. cbn [negb andb].
      apply key_lookup_names; auto. apply (forallb_In _ _ _ Hps Hp).
    + assert (Hor : ev_is_delete ev = false /\ is_deleting (ev_obj ev) = false /\
                    In k (flat_map (fun q => enqueue_parent c (WObj q))
                                   (find_potential_parents c parents (ev_obj ev)))).
      { destruct ev as [o|old cur|o|k' o]; cbn in *.
        - unfold on_child_add, on_child_delete in Hin. cbn in Hin. rewrite Hcr in Hin.
          destruct (is_deleting o); [contradiction|auto].
        - unfold on_child_update in Hin. rewrite Hrs in Hin.
          unfold on_child_add, on_child_delete in Hin. cbn in Hin. rewrite Hcr in Hin.
          destruct (is_deleting cur); [contradiction|auto].
        - unfold on_child_delete in Hin. cbn in Hin. rewrite Hcr in Hin. contradiction.
        - unfold on_child_delete in Hin. cbn in Hin. rewrite Hcr in Hin. contradiction. }
      destruct Hor as (Hd & Hdg & Hfm). apply in_flat_map in Hfm. destruct Hfm as (p & Hpot & Hk).
      apply enqueue_obj_sound in Hk. destruct Hk as [-> C].
      unfold find_potential_parents in Hpot. apply filter_In in Hpot. destruct Hpot as [Hp Hf].
      exists p. split; [exact Hp|]. split; [reflexivity|].
      cbn [affects]. rewrite Hrs, C, Hcr, Hd, Hdg. cbn [negb andb].
      unfold orphan_selected. unfold listed, parent_selects in Hf. exact Hf.
Qed.

(* (b): parent delete tombstones included *)
Lemma enqueue_tomb_sound c k o q :
  In q (enqueue_parent c (WTomb k o)) -> q = k /\ cares (e_cc c) o = true.
Proof.
  cbn. destruct (cares (e_cc c) o) eqn:E; cbn; [|tauto]. intros [<-|[]]. auto.
Qed.

Lemma unmatched_never_queued c parents ev :
  unmatched_parent_event c SParent ev = true -> handle c parents SParent ev = [].
Proof.
  intros Hu. cbn in Hu. apply negb_true_iff in Hu.
  destruct ev as [o|old cur|o|k o]; cbn in *.
  - now rewrite Hu.
  - unfold update_parent. destruct (_ && _); [reflexivity|]. cbn. now rewrite Hu.
  - now rewrite Hu.
  - now rewrite Hu.
Qed.

Lemma unmatched_tombstone_sound c k o :
  cares (e_cc c) o = false -> on_parent_event c (EDeleteTombstone k o) = [].
Proof. intros H. cbn. now rewrite H. Qed.

(* the objects of the non-vacuity examples *)
Definition cex_cfg : ecfg :=
  mkECfg (mkCfg "c" "ctl.example.com/v1" "Thing" "things" true true false
                (SelReqs [mkReq "tier" OpIn ["a"]]) [] true false [] false false [] []) false.
Definition cex_parent : json :=
  JObj [("apiVersion", JStr "ctl.example.com/v1"); ("kind", JStr "Thing");
        ("metadata", JObj [("name", JStr "p"); ("namespace", JStr "ns"); ("uid", JStr "u1");
                           ("labels", JObj [("tier", JStr "b")])])].

(* ====================== decorator ====================== *)
Lemma d_enqueue_obj_sound c o k :
  In k (d_enqueue_parent c (WObj o)) -> k = d_key_of o /\ d_cares c o = true.
Proof.
  cbn. destruct (d_cares c o) eqn:E; cbn; [|tauto]. intros [<-|[]]. auto.
Qed.

Lemma d_enqueue_obj_complete c o : d_cares c o = true -> d_enqueue_parent c (WObj o) = [d_key_of o].
Proof. intros H. cbn. now rewrite H. Qed.

Lemma d_update_sound c old cur k :
  In k (d_update_parent c old cur) -> k = d_key_of cur /\ d_cares c cur = true.
Proof.
  unfold d_update_parent. destruct (d_ignores_status c old && status_only old cur); [intros []|].
  apply d_enqueue_obj_sound.
Qed.

Lemma d_update_noignore c old cur :
  d_ignores_status c old = false -> d_update_parent c old cur = d_enqueue_parent c (WObj cur).
Proof. intros H. unfold d_update_parent. now rewrite H. Qed.

Lemma d_update_ignore_iff c old cur :
  d_ignores_status c old = true -> d_cares c cur = true ->
  (d_update_parent c old cur = [] <->
   (get_generation old = get_generation cur /\ labels_equal old cur = true /\
    annotations_equal old cur = true /\ is_deleting cur = false)).
Proof.
  intros H C. rewrite <- status_only_spec. unfold d_update_parent. rewrite H. cbn [andb].
  destruct (status_only old cur); [tauto|].
  rewrite (d_enqueue_obj_complete _ _ C). split; discriminate.
Qed.

Lemma d_update_ignore_kept c old cur :
  d_ignores_status c old = true -> status_only old cur = false ->
  d_update_parent c old cur = d_enqueue_parent c (WObj cur).
Proof. intros H S. unfold d_update_parent. now rewrite H, S. Qed.

Lemma d_resync_nothing c parents ev :
  is_resync ev = true -> d_handle c parents SChild ev = [].
Proof.
  destruct ev; cbn; try discriminate. intros H. unfold d_on_child_update. now rewrite H.
Qed.

Lemma d_child_update_resync c parents old cur :
  get_rv old = get_rv cur -> d_on_child_update c parents old cur = [].
Proof. intros H. unfold d_on_child_update. rewrite H. now rewrite eqb_refl_s. Qed.

Lemma d_resolve_sound c parents ns r p :
  d_resolve_controller_ref c parents ns r = Some p ->
  exists rule, d_ref_rule c r = Some rule /\ In p parents /\
    get_api_version p = dp_api_version rule /\ get_kind p = dp_kind rule /\
    group_of (dp_api_version rule) = d_group_of (or_api_version r) /\ dp_kind rule = or_kind r /\
    key_of p = lookup_key (if dp_namespaced rule then ns else "") (or_name r) /\
    get_uid p = or_uid r /\ d_cares c p = true.
Proof.
  unfold d_resolve_controller_ref, d_ref_rule.
  destruct (last_rule _ c) as [rule|] eqn:R; [|discriminate].
  destruct (d_cache_get rule parents _) as [q|] eqn:F; [|discriminate].
  destruct (String.eqb (get_uid q) (or_uid r)) eqn:U; cbn [negb]; [|discriminate].
  destruct (d_cares c q) eqn:C; [|discriminate].
  intros E. inversion E; subst q. exists rule. split; [reflexivity|].
  apply find_In in F. destruct F as [Hin Hk]. rewrite !andb_true_iff in Hk. destruct Hk as [[A K] Q].
  unfold last_rule in R. apply find_In in R. destruct R as [_ R]. apply andb_true_iff in R. destruct R as [G K'].
  repeat split; auto using eqb_eq_s.
Qed.

Lemma d_ref_names_key c ns r p rule :
  d_ref_rule c r = Some rule -> d_ref_names c ns r p = true ->
  get_api_version p = dp_api_version rule /\ get_kind p = dp_kind rule /\
  key_of p = lookup_key (if dp_namespaced rule then ns else "") (or_name r) /\ get_uid p = or_uid r.
Proof.
  intros R. unfold d_ref_names. rewrite R. rewrite !andb_true_iff. intros ((((A & K) & N) & U) & S).
  apply eqb_eq_s in A, K, N, U. repeat split; auto.
  rewrite key_of_lookup, N. destruct (dp_namespaced rule); apply eqb_eq_s in S; now rewrite S.
Qed.

Lemma d_resolve_complete c parents ns r p :
  NoDup (map d_slot parents) -> In p parents ->
  d_ref_names c ns r p = true -> d_cares c p = true ->
  d_resolve_controller_ref c parents ns r = Some p.
Proof.
  intros Hn Hin R C. unfold d_ref_names in R.
  destruct (d_ref_rule c r) as [rule|] eqn:Hr; [|discriminate].
  assert (R' : d_ref_names c ns r p = true) by (unfold d_ref_names; now rewrite Hr).
  destruct (d_ref_names_key _ _ _ _ _ Hr R') as (A & K & Hk & U).
  unfold d_resolve_controller_ref. unfold d_ref_rule in Hr. rewrite Hr.
  unfold d_cache_get.
  rewrite (find_unique _ parents p Hin).
  - rewrite U, eqb_refl_s. cbn [negb]. now rewrite C.
  - rewrite A, K, Hk, !eqb_refl_s. reflexivity.
  - intros b Hb Eb. rewrite !andb_true_iff in Eb. destruct Eb as [[A' K'] Q'].
    apply eqb_eq_s in A', K', Q'.
    apply (nodup_map_inj d_slot parents b p Hn Hb Hin). unfold d_slot. congruence.
Qed.

Lemma d_wake_owner_sound c parents child r :
  d_wake_owner c parents child r = [] \/
  exists p rule, d_wake_owner c parents child r = [d_key_of p] /\ d_ref_rule c r = Some rule /\ In p parents /\
    get_api_version p = dp_api_version rule /\ get_kind p = dp_kind rule /\
    group_of (dp_api_version rule) = d_group_of (or_api_version r) /\ dp_kind rule = or_kind r /\
    key_of p = lookup_key (if dp_namespaced rule then get_ns child else "") (or_name r) /\
    get_uid p = or_uid r /\ d_cares c p = true.
Proof.
  unfold d_wake_owner. destruct (d_resolve_controller_ref c parents (get_ns child) r) as [p|] eqn:E; [|now left].
  right. apply d_resolve_sound in E. destruct E as (rule & R & A & B & C & D & F & G & H & I).
  exists p, rule. rewrite (d_enqueue_obj_complete _ _ I). repeat split; auto.
Qed.

Lemma d_child_ref_handle c parents ev r :
  controller_of (ev_obj ev) = Some r ->
  d_handle c parents SChild ev = [] \/
  d_handle c parents SChild ev = d_wake_owner c parents (ev_obj ev) r.
Proof.
  intros Hr. destruct ev as [o|old cur|o|k o]; cbn in *.
  - unfold d_on_child_add, d_on_child_delete. cbn. rewrite Hr. destruct (is_deleting o); now right.
  - unfold d_on_child_update. destruct (String.eqb (get_rv old) (get_rv cur)); [now left|].
    unfold d_on_child_add, d_on_child_delete. cbn. rewrite Hr. destruct (is_deleting cur); now right.
  - unfold d_on_child_delete. cbn. rewrite Hr. now right.
  - unfold d_on_child_delete. cbn. rewrite Hr. now right.
Qed.

Lemma d_child_ref_handle_live c parents ev r :
  controller_of (ev_obj ev) = Some r -> is_resync ev = false ->
  d_handle c parents SChild ev = d_wake_owner c parents (ev_obj ev) r.
Proof.
  intros Hr Hs. destruct ev as [o|old cur|o|k o]; cbn in *.
  - unfold d_on_child_add, d_on_child_delete. cbn. rewrite Hr. now destruct (is_deleting o).
  - unfold d_on_child_update. rewrite Hs.
    unfold d_on_child_add, d_on_child_delete. cbn. rewrite Hr. now destruct (is_deleting cur).
  - unfold d_on_child_delete. cbn. now rewrite Hr.
  - unfold d_on_child_delete. cbn. now rewrite Hr.
Qed.

Lemma d_orphan_nothing c parents ev :
  controller_of (ev_obj ev) = None -> d_handle c parents SChild ev = [].
Proof.
  intros Hr. destruct ev as [o|old cur|o|k o]; cbn in *.
  - unfold d_on_child_add, d_on_child_delete. cbn. rewrite Hr. now destruct (is_deleting o).
  - unfold d_on_child_update. destruct (String.eqb _ _); [reflexivity|].
    unfold d_on_child_add, d_on_child_delete. cbn. rewrite Hr. now destruct (is_deleting cur).
  - unfold d_on_child_delete. cbn. now rewrite Hr.
  - unfold d_on_child_delete. cbn. now rewrite Hr.
Qed.

Lemma d_controlled_child_sound c parents ev r :
  controller_of (ev_obj ev) = Some r ->
  d_handle c parents SChild ev = [] \/
  exists p rule, d_handle c parents SChild ev = [d_key_of p] /\ d_ref_rule c r = Some rule /\ In p parents /\
    get_api_version p = dp_api_version rule /\ get_kind p = dp_kind rule /\
    group_of (dp_api_version rule) = d_group_of (or_api_version r) /\ dp_kind rule = or_kind r /\
    key_of p = lookup_key (if dp_namespaced rule then get_ns (ev_obj ev) else "") (or_name r) /\
    get_uid p = or_uid r /\ d_cares c p = true.
Proof.
  intros Hr. destruct (d_child_ref_handle c parents ev r Hr) as [E|E]; [now left|].
  rewrite E. apply d_wake_owner_sound.
Qed.

Lemma d_wrong_kind_nothing c parents ev r :
  controller_of (ev_obj ev) = Some r -> d_ref_rule c r = None ->
  d_handle c parents SChild ev = [].
Proof.
  intros Hr W. destruct (d_controlled_child_sound c parents ev r Hr) as [E|(p & rule & _ & R & _)]; [exact E|].
  congruence.
Qed.

Lemma d_wrong_uid_nothing c parents ev r rule :
  controller_of (ev_obj ev) = Some r -> d_ref_rule c r = Some rule ->
  (forall p, In p parents -> get_api_version p = dp_api_version rule -> get_kind p = dp_kind rule ->
     key_of p = lookup_key (if dp_namespaced rule then get_ns (ev_obj ev) else "") (or_name r) ->
     get_uid p <> or_uid r) ->
  d_handle c parents SChild ev = [].
Proof.
  intros Hr R W.
  destruct (d_controlled_child_sound c parents ev r Hr) as [E|(p & rule' & _ & R' & Hin & A & K & _ & _ & Hk & U & _)];
    [exact E|].
  rewrite R in R'. inversion R'; subst rule'. exfalso. exact (W p Hin A K Hk U).
Qed.

Lemma d_complete c parents s ev p :
  NoDup (map d_slot parents) ->
  In p (candidates parents s ev) -> d_affects c s ev p = true ->
  In (d_key_of p) (d_handle c parents s ev).
Proof.
  intros Hn Hin Ha. destruct s.
  - cbn in Ha. rewrite !andb_true_iff in Ha. destruct Ha as [[Hk Hc] Hd].
    apply eqb_eq_s in Hk. rewrite Hk. apply negb_true_iff in Hd.
    destruct ev as [o|old cur|o|k o]; cbn in *.
    + rewrite Hc. now left.
    + unfold d_update_parent. unfold status_only. rewrite Hd. cbn. rewrite Hc. now left.
    + rewrite Hc. now left.
    + rewrite Hc. now left.
  - cbn [candidates] in Hin. cbn [d_affects] in Ha. rewrite !andb_true_iff in Ha.
    destruct Ha as [[Hr Hc] Hm]. apply negb_true_iff in Hr.
    destruct (controller_of (ev_obj ev)) as [r|] eqn:Hcr; [|discriminate].
    rewrite (d_child_ref_handle_live c parents ev r Hcr Hr).
    unfold d_wake_owner. rewrite (d_resolve_complete _ _ _ _ _ Hn Hin Hm Hc).
    rewrite (d_enqueue_obj_complete _ _ Hc). now left.
Qed.

Lemma d_key_lookup_names c ns r p rule :
  d_ref_rule c r = Some rule ->
  slash_free p = true -> no_char slash ns = true -> no_char slash (or_name r) = true ->
  get_api_version p = dp_api_version rule -> get_kind p = dp_kind rule ->
  key_of p = lookup_key (if dp_namespaced rule then ns else "") (or_name r) ->
  get_uid p = or_uid r ->
  d_ref_names c ns r p = true.
Proof.
  intros R Hp Hns Hn A K Hk U. unfold slash_free in Hp. apply andb_true_iff in Hp. destruct Hp as [P1 P2].
  rewrite key_of_lookup in Hk.
  assert (Hpns : no_char slash (if dp_namespaced rule then ns else "") = true)
    by (destruct (dp_namespaced rule); auto).
  destruct (lookup_key_inj _ _ _ _ P1 P2 Hpns Hn Hk) as [E1 E2].
  unfold d_ref_names. rewrite R, A, K, <- E2, <- U, !eqb_refl_s. cbn [andb].
  destruct (dp_namespaced rule); rewrite E1; apply eqb_refl_s.
Qed.

Lemma d_sound c parents s ev k :
  names_ok parents s ev = true ->
  In k (d_handle c parents s ev) ->
  exists p, In p (candidates parents s ev) /\ d_key_of p = k /\ d_affects c s ev p = true.
Proof.
  intros Hok Hin. destruct s.
  - exists (ev_obj ev). split; [now left|].
    destruct ev as [o|old cur|o|k' o]; cbn in *.
    + destruct (d_cares c o) eqn:C; [|contradiction]. destruct Hin as [<-|[]].
      rewrite eqb_refl_s. auto.
    + unfold d_update_parent in Hin. unfold status_only in Hin.
      destruct (d_ignores_status c old && _) eqn:D; [contradiction|].
      apply d_enqueue_obj_sound in Hin. destruct Hin as [-> C]. rewrite eqb_refl_s, C. auto.
    + destruct (d_cares c o) eqn:C; [|contradiction]. destruct Hin as [<-|[]].
      rewrite eqb_refl_s. auto.
    + destruct (d_cares c o) eqn:C; [|contradiction]. destruct Hin as [<-|[]].
      rewrite eqb_refl_s. auto.
  - cbn [names_ok] in Hok. rewrite !andb_true_iff in Hok. destruct Hok as [[Hps Hns] Hrn].
    destruct (is_resync ev) eqn:Hrs; [rewrite (d_resync_nothing _ _ _ Hrs) in Hin; contradiction|].
    destruct (controller_of (ev_obj ev)) as [r|] eqn:Hcr.
    + rewrite (d_child_ref_handle_live c parents ev r Hcr Hrs) in Hin.
      destruct (d_wake_owner_sound c parents (ev_obj ev) r)
        as [E|(p & rule & E & R & Hp & A & K & G & K' & Hk & U & C)]; rewrite E in Hin; [contradiction|].
      destruct Hin as [<-|[]]. exists p. split; [exact Hp|]. split; [reflexivity|].
      cbn [d_affects]. rewrite Hrs, C, Hcr. cbn [negb andb].
      eapply d_key_lookup_names; eauto. apply (forallb_In _ _ _ Hps Hp).
    + rewrite (d_orphan_nothing _ _ _ Hcr) in Hin. contradiction.
Qed.

Lemma d_enqueue_tomb_sound c k o q :
  In q (d_enqueue_parent c (WTomb k o)) -> q = d_key_of o /\ d_cares c o = true.
Proof.
  cbn. destruct (d_cares c o) eqn:E; cbn; [|tauto]. intros [<-|[]]. auto.
Qed.

Lemma d_unmatched_never_queued c parents ev :
  d_unmatched_parent_event c SParent ev = true -> d_handle c parents SParent ev = [].
Proof.
  intros Hu. cbn in Hu. apply negb_true_iff in Hu.
  destruct ev as [o|old cur|o|k o]; cbn in *.
  - now rewrite Hu.
  - unfold d_update_parent. destruct (_ && _); [reflexivity|]. cbn. now rewrite Hu.
  - now rewrite Hu.
  - now rewrite Hu.
Qed.

Lemma d_unmatched_tombstone_sound c k o :
  d_cares c o = false -> d_on_parent_event c (EDeleteTombstone k o) = [].
Proof. intros H. cbn. now rewrite H. Qed.

Definition d_cex_cfg : dcfg :=
  mkDCfg "d" [mkDP "ctl.example.com/v1" "Thing" "things" true (SelReqs [mkReq "tier" OpIn ["a"]]) sel_everything false].

(* ====================== related objects ====================== *)
Lemma related_event_spec c a parents ev p :
  In p (on_related_event c a parents ev) <-> In p parents /\ related_affects c a ev p = true.
Proof.
  unfold related_affects.
  destruct ev as [o|old cur|o|k o]; cbn [on_related_event is_resync ev_states negb andb];
    try (unfold find_related_parents; rewrite filter_In; tauto).
  destruct (String.eqb (get_rv old) (get_rv cur)); cbn [negb andb].
  - split; [intros []|intros [_ H]; discriminate].
  - unfold find_related_parents. rewrite filter_In. tauto.
Qed.

Lemma related_resync_nothing c a parents ev :
  is_resync ev = true -> on_related_event c a parents ev = [].
Proof. destruct ev; cbn; try discriminate. intros H. now rewrite H. Qed.

Lemma related_keys_complete cc c a parents ev p :
  In p parents -> related_affects c a ev p = true -> cares (e_cc cc) p = true ->
  In (key_of p) (related_keys cc c a parents ev).
Proof.
  intros Hin Ha Hc. unfold related_keys. apply in_flat_map. exists p. split.
  - apply related_event_spec. auto.
  - rewrite (enqueue_obj_complete _ _ Hc). now left.
Qed.

Lemma related_keys_sound cc c a parents ev k :
  In k (related_keys cc c a parents ev) ->
  exists p, In p parents /\ key_of p = k /\ related_affects c a ev p = true /\ cares (e_cc cc) p = true.
Proof.
  unfold related_keys. intros H. apply in_flat_map in H. destruct H as (p & Hp & Hk).
  apply related_event_spec in Hp. destruct Hp as [Hin Ha].
  apply enqueue_obj_sound in Hk. destruct Hk as [-> Hc]. exists p. auto.
Qed.
