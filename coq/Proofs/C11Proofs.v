(* C11Proofs.v — the parent status update: what is written, when nothing is
   written, how often, and that it is attempted after child errors. *)
From MC Require Import Model.Safe Model.TracePreds.
From MC Require Import Proofs.AssocLemmas Proofs.ObjLemmas Proofs.SafeLemmas.
From Coq Require Import Lia.
Local Open Scope list_scope.

Definition pns (c : ccfg) (parent : json) : string := eff_ns (p_namespaced c) (get_ns parent).
Definition status_get (c : ccfg) (parent : json) : call := CApi (rq_get (p_res c) (pns c parent) (get_name parent)).
Definition status_put (c : ccfg) (parent : json) (body : json) : call :=
  CApi (rq_put (p_has_status c) (p_res c) (pns c parent) (get_name parent) body).

(* (a)+(b): a call of update_parent_status is the GET of the parent, or the PUT of
   "cur with .status replaced by the desired status", where cur is the answer of
   the GET immediately before, has the uid of the parent we synced, and does not
   already carry the desired status *)
Definition C11_phi (c : ccfg) (parent st : json) (h : hist) (cl : call) : Prop :=
  cl = status_get c parent \/
  exists cur rest,
    h = (status_get c parent, AObj cur) :: rest /\
    cl = status_put c parent (JObj (aset "status" (desired_status parent st) (obj_map cur))) /\
    get_uid cur = get_uid parent /\
    jeqb (jget "status" (obj_map cur)) (desired_status parent st) = false.

Theorem C11_status_calls (G : call -> answer -> Prop) c parent st h :
  safe G (C11_phi c parent st) h (update_parent_status c parent st).
Proof.
  apply safeP_safe with (Post := fun _ _ => True).
  unfold update_parent_status. cbv zeta.
  apply safeP_atomic_update with (h0 := h); auto with safe.
  - intros h' _. left. reflexivity.
  - intros h' cur upd _ _ Hu Hf. right. exists cur, h'.
    destruct (jeqb (jget "status" (obj_map cur)) (desired_status parent st)) eqn:Ej; [discriminate|].
    inversion Hf; subst upd. split; [reflexivity|]. split; [reflexivity|]. auto.
Qed.

(* in particular: the write is a status write exactly when the parent has the status
   subresource, and nothing but .status differs from what was read *)
Corollary C11_put_only_status c parent st h cl :
  C11_phi c parent st h cl -> forall q, cl = CApi q -> q_verb q <> VGet ->
  q_verb q = (if p_has_status c then VUpdateStatus else VUpdate) /\
  exists cur, (exists rest, h = (status_get c parent, AObj cur) :: rest) /\
              forall key, key <> "status" -> alookup key (obj_map (q_body q)) = alookup key (obj_map cur).
Proof.
  intros [->|(cur & rest & Hh & -> & Hu & Hj)] q Hq Hv.
  - inversion Hq; subst q. cbn in Hv. congruence.
  - inversion Hq; subst q. split; [reflexivity|]. exists cur. split; [eauto|].
    intros key Hk. cbn [q_body rq_put obj_map]. now apply alookup_aset_other.
Qed.

(* (b) as a statement about the program: when the object read already has the desired
   status the update returns without a second call *)
Lemma C11_no_put_when_equal c parent st cur :
  get_uid cur = get_uid parent ->
  jeqb (jget "status" (obj_map cur)) (desired_status parent st) = true ->
  exists k, update_parent_status c parent st = Do (status_get c parent) k /\ k (AObj cur) = Ret (ROk cur).
Proof.
  intros Hu Hj. unfold update_parent_status. cbv zeta. unfold retry_steps.
  cbn [atomic_update]. unfold api at 1. cbn [bind]. eexists. split; [reflexivity|].
  cbn [bind]. rewrite Hu, eqb_refl'. cbn [negb]. rewrite Hj. reflexivity.
Qed.

(* (c) at most retry_steps GETs and retry_steps PUTs *)
Definition is_get_call (cl : call) : bool :=
  match cl with CApi q => verb_eqb (q_verb q) VGet | _ => false end.
Definition is_put_call (cl : call) : bool :=
  match cl with CApi q => verb_eqb (q_verb q) VUpdate || verb_eqb (q_verb q) VUpdateStatus | _ => false end.

Lemma is_put_rq_put st res ns name body : is_put_call (CApi (rq_put st res ns name body)) = true.
Proof. destruct st; reflexivity. Qed.
Lemma is_get_rq_put st res ns name body : is_get_call (CApi (rq_put st res ns name body)) = false.
Proof. destruct st; reflexivity. Qed.

Lemma atomic_update_gets fuel res ns name uid st f :
  at_most is_get_call fuel (atomic_update fuel res ns name uid st f).
Proof.
  induction fuel as [|n IH]; cbn [atomic_update]; [constructor|].
  unfold api at 1. cbn [bind]. apply am_count; [reflexivity|].
  assert (Hretry : at_most is_get_call n
            (match n with O => Ret (RErr EConflict) | S _ => atomic_update n res ns name uid st f end)).
  { destruct n; [constructor|exact IH]. }
  intros a. destruct a as [cur|e|b| |z]; cbn [bind]; try constructor.
  - destruct (negb (String.eqb (get_uid cur) uid)); [constructor|].
    destruct (f cur) as [upd|]; [|constructor].
    unfold api at 1. cbn [bind]. apply am_skip; [apply is_get_rq_put|].
    intros a2. destruct a2 as [o|e|b| |z]; cbn [bind]; try constructor.
    destruct e; try constructor. exact Hretry.
  - destruct e; try constructor. exact Hretry.
Qed.

Lemma atomic_update_puts fuel res ns name uid st f :
  at_most is_put_call fuel (atomic_update fuel res ns name uid st f).
Proof.
  induction fuel as [|n IH]; cbn [atomic_update]; [constructor|].
  unfold api at 1. cbn [bind]. apply am_skip; [reflexivity|].
  assert (Hretry : at_most is_put_call n
            (match n with O => Ret (RErr EConflict) | S _ => atomic_update n res ns name uid st f end)).
  { destruct n; [constructor|exact IH]. }
  assert (Hretry' : at_most is_put_call (S n)
            (match n with O => Ret (RErr EConflict) | S _ => atomic_update n res ns name uid st f end)).
  { eapply at_most_le; [exact Hretry|lia]. }
  intros a. destruct a as [cur|e|b| |z]; cbn [bind]; try constructor.
  - destruct (negb (String.eqb (get_uid cur) uid)); [constructor|].
    destruct (f cur) as [upd|]; [|constructor].
    unfold api at 1. cbn [bind]. apply am_count; [apply is_put_rq_put|].
    intros a2. destruct a2 as [o|e|b| |z]; cbn [bind]; try constructor.
    destruct e; try constructor. exact Hretry.
  - destruct e; try constructor. exact Hretry'.
Qed.

Theorem C11_bounded c parent st :
  at_most is_get_call retry_steps (update_parent_status c parent st) /\
  at_most is_put_call retry_steps (update_parent_status c parent st).
Proof. split; [apply atomic_update_gets|apply atomic_update_puts]. Qed.

Corollary C11_bounded_run c parent st (e : env) :
  count_calls is_get_call (fst (run (update_parent_status c parent st) e [])) <= 4 /\
  count_calls is_put_call (fst (run (update_parent_status c parent st) e [])) <= 4.
Proof. split; apply at_most_run; apply C11_bounded. Qed.

(* (d) the status phase follows child management unconditionally *)
Lemma run_bind {A B} (p : prog A) (f : A -> prog B) (e : env) : forall h,
  run (bind p f) e h = run (f (snd (run p e h))) e (fst (run p e h)).
Proof.
  induction p as [a|cl k IH]; intros h; cbn [bind run]; [reflexivity|]. cbv zeta. apply IH.
Qed.

Definition children_phase (c : ccfg) (p : json) (obs desired : umap) : prog bool :=
  if negb (is_deleting p) || should_finalize c p then manage_children c p obs desired else Ret false.

Definition status_result (failed : bool) (sr : apires) : sync_result :=
  match sr with
  | RErr ENotFound | RErr EConflict => if failed then SErr else SDone
  | RErr _ => SErr
  | ROk _ => if failed then SErr else SDone
  end.

Definition status_tail (c : ccfg) (p st : json) (failed : bool) : prog sync_result :=
  sr <~ update_parent_status c p st ;; Ret (status_result failed sr).

Definition after_labels (c : ccfg) (p : json) (obs : umap) (r : hook_resp) (ds : list json) : prog sync_result :=
  failed <~ children_phase c p obs (fold_left (fun m o => uinsert o m) ds []) ;;
  status_tail c p (hr_status r) failed.

Lemma bind_ext {A B} (p : prog A) (f g : A -> prog B) :
  (forall a, forall e h, run (f a) e h = run (g a) e h) -> forall e h, run (bind p f) e h = run (bind p g) e h.
Proof. intros H e h. rewrite !run_bind. apply H. Qed.

(* finish_sync is: guards, then children, then status *)
Lemma finish_sync_run c parent observed r (e : env) h :
  run (finish_sync c parent observed r) e h =
  run (match desired_map (hr_children r) [] with
       | None => Ret SPanic
       | Some desired0 =>
           _ <~ (if positive_number (hr_resync r) then note "resync" (hr_resync r) else Ret tt) ;;
           pr <~ (if hr_finalized r
                  then atomic_update retry_steps (p_res c) (eff_ns (p_namespaced c) (get_ns parent))
                         (get_name parent) (get_uid parent) false (remove_finalizer (finalizer_name c))
                  else Ret (ROk parent)) ;;
           match pr with
           | RErr _ => Ret SErr
           | ROk parent =>
               match make_selector c parent with
               | None => Ret SErr
               | Some sel =>
                   match enforce_labels c parent sel (uobjects desired0) with
                   | None => Ret SErr
                   | Some ds => after_labels c parent observed r ds
                   end
               end
           end
       end) e h.
Proof.
  unfold finish_sync. destruct (desired_map (hr_children r) []) as [d0|]; [|reflexivity].
  apply bind_ext. intros _ e1 h1. apply bind_ext. intros pr e2 h2.
  destruct pr as [p2|err]; [|reflexivity].
  destruct (make_selector c p2) as [sel|]; [|reflexivity].
  destruct (enforce_labels c p2 sel (uobjects d0)) as [ds|]; [|reflexivity].
  cbv zeta. unfold after_labels, children_phase, status_tail.
  apply bind_ext. intros failed e3 h3. apply bind_ext. intros sr e4 h4.
  destruct sr as [o|err]; [reflexivity|]. destruct err; reflexivity.
Qed.

(* whatever the children phase returned (failed or not), the status update is run from
   the history the children phase ended in, and the sync result is SErr when children
   failed and the status write succeeded *)
Theorem C11_status_after_children c p obs r ds (e : env) h :
  let ch := run (children_phase c p obs (fold_left (fun m o => uinsert o m) ds [])) e h in
  let stt := run (update_parent_status c p (hr_status r)) e (fst ch) in
  run (after_labels c p obs r ds) e h = (fst stt, status_result (snd ch) (snd stt)).
Proof.
  cbv zeta. unfold after_labels. rewrite run_bind. unfold status_tail. rewrite run_bind.
  cbn [run]. reflexivity.
Qed.

Corollary C11_child_error_reported c p obs r ds (e : env) h o :
  snd (run (children_phase c p obs (fold_left (fun m o => uinsert o m) ds [])) e h) = true ->
  snd (run (update_parent_status c p (hr_status r)) e
           (fst (run (children_phase c p obs (fold_left (fun m o => uinsert o m) ds [])) e h))) = ROk o ->
  snd (run (after_labels c p obs r ds) e h) = SErr.
Proof.
  intros Hf Hs. rewrite C11_status_after_children. cbn [snd]. rewrite Hf, Hs. reflexivity.
Qed.

(* with the current model (status NotFound / Conflict no longer masks a child failure):
   a child failure always surfaces, whatever the outcome of the status write *)
Corollary C11_child_error_always_reported c p obs r ds (e : env) h :
  snd (run (children_phase c p obs (fold_left (fun m o => uinsert o m) ds [])) e h) = true ->
  snd (run (after_labels c p obs r ds) e h) = SErr.
Proof.
  intros Hf. rewrite C11_status_after_children. cbn [snd]. rewrite Hf.
  unfold status_result. destruct (snd (run (update_parent_status c p (hr_status r)) e _)) as [o|err];
    [reflexivity|destruct err; reflexivity].
Qed.

(* the status phase always talks to the server: its first step is the GET of the parent *)
Lemma C11_status_starts_with_get c p st :
  exists k, update_parent_status c p st = Do (status_get c p) k.
Proof.
  unfold update_parent_status. cbv zeta. unfold retry_steps. cbn [atomic_update].
  unfold api at 1. cbn [bind]. eexists. reflexivity.
Qed.

Print Assumptions C11_status_calls.
Print Assumptions C11_put_only_status.
Print Assumptions C11_no_put_when_equal.
Print Assumptions C11_bounded_run.
Print Assumptions finish_sync_run.
Print Assumptions C11_status_after_children.
Print Assumptions C11_child_error_reported.
Print Assumptions C11_child_error_always_reported.
