(* C03Proofs.v — C03: what the hook sees.
   convert / convert_group / uinit / uinsert (Model/HookIO.v), the map built
   by claim_children, relative names, GVK text, namespace defaulting. *)
From MC Require Import Generated.
From MC Require Import Model.Composite.
From MC Require Import Proofs.AssocLemmas.
From Coq Require Import Lia.
Local Open Scope string_scope.
Local Open Scope list_scope.

(* ================================================================== *)
(* generic list / association-list facts                               *)
(* ================================================================== *)

Lemma fold_left_ext {A B} (f g : A -> B -> A) (l : list B) :
  (forall acc b, f acc b = g acc b) -> forall acc, fold_left f l acc = fold_left g l acc.
Proof.
  intros Hfg. induction l as [|b l IH]; intros acc; [reflexivity|].
  cbn [fold_left]. rewrite Hfg. apply IH.
Qed.

Lemma fold_left_filter {A B} (p : B -> bool) (f : A -> B -> A) (l : list B) :
  forall acc, fold_left (fun acc b => if p b then f acc b else acc) l acc =
              fold_left f (filter p l) acc.
Proof.
  induction l as [|b l IH]; intros acc; [reflexivity|].
  cbn [fold_left filter]. destruct (p b); [cbn [fold_left]|]; apply IH.
Qed.

Lemma alookup_app k (m1 m2 : amap) :
  alookup k (m1 ++ m2) = match alookup k m1 with Some v => Some v | None => alookup k m2 end.
Proof.
  induction m1 as [|[k' v'] m1 IH]; [reflexivity|].
  cbn [app alookup]. destruct (String.eqb k k'); [reflexivity | exact IH].
Qed.

Lemma aset_absent_app k v (m : amap) : alookup k m = None -> aset k v m = m ++ [(k, v)].
Proof.
  induction m as [|[k' v'] m IH]; [reflexivity|].
  cbn [alookup aset app]. destruct (String.eqb k k'); [discriminate|].
  intros H. rewrite IH by exact H. reflexivity.
Qed.

(* setting pairwise distinct fresh keys one after the other just appends *)
Lemma fold_aset_nodup {A} (key : A -> string) (val : A -> json) (l : list A) :
  forall acc,
  NoDup (map key l) ->
  (forall a, In a l -> alookup (key a) acc = None) ->
  fold_left (fun acc a => aset (key a) (val a) acc) l acc = acc ++ map (fun a => (key a, val a)) l.
Proof.
  induction l as [|a l IH]; intros acc Hnd Hfresh.
  - cbn [fold_left map]. rewrite app_nil_r. reflexivity.
  - cbn [fold_left map]. cbn [map] in Hnd. inversion Hnd as [|x xs Hnotin Hnd']; subst x xs.
    rewrite aset_absent_app by (apply Hfresh; left; reflexivity).
    rewrite IH.
    + rewrite <- app_assoc. reflexivity.
    + exact Hnd'.
    + intros a' Hin. rewrite alookup_app.
      rewrite Hfresh by (right; exact Hin).
      cbn [alookup]. destruct (String.eqb (key a') (key a)) eqn:E; [|reflexivity].
      apply String.eqb_eq in E. exfalso. apply Hnotin. rewrite <- E.
      apply in_map. exact Hin.
Qed.

(* in a list with distinct keys, lookup is membership *)
Lemma alookup_In_nodup k v (m : amap) :
  NoDup (map fst m) -> (alookup k m = Some v <-> In (k, v) m).
Proof.
  induction m as [|[k' v'] m IH]; intros Hnd.
  - cbn [alookup In]. split; [discriminate | intros []].
  - cbn [map fst] in Hnd. inversion Hnd as [|x xs Hnotin Hnd']; subst x xs.
    cbn [alookup In]. destruct (String.eqb k k') eqn:E.
    + apply String.eqb_eq in E. subst k'. split.
      * intros H. injection H as H. subst v'. left. reflexivity.
      * intros [H | H].
        -- injection H as H. subst v'. reflexivity.
        -- exfalso. apply Hnotin. change k with (fst (k, v)). apply in_map. exact H.
    + apply String.eqb_neq in E. rewrite (IH Hnd'). split.
      * intros H. right. exact H.
      * intros [H | H]; [injection H as H1 H2; subst k'; contradiction E; reflexivity | exact H].
Qed.

Lemma NoDup_map_filter {A B} (f : A -> B) (p : A -> bool) (l : list A) :
  NoDup (map f l) -> NoDup (map f (filter p l)).
Proof.
  induction l as [|a l IH]; intros Hnd; [exact Hnd|].
  cbn [map] in Hnd. inversion Hnd as [|x xs Hnotin Hnd']; subst x xs.
  cbn [filter]. destruct (p a).
  - cbn [map]. apply NoDup_cons; [|apply IH; exact Hnd'].
    intros Hin. apply Hnotin. apply in_map_iff in Hin. destruct Hin as [a' [Hfa Hin]].
    apply filter_In in Hin. destruct Hin as [Hin _].
    rewrite <- Hfa. apply in_map. exact Hin.
  - apply IH. exact Hnd'.
Qed.

Lemma length_append (a b : string) :
  String.length (a ++ b)%string = String.length a + String.length b.
Proof. induction a as [|ch a IH]; [reflexivity|]. cbn [append String.length]. rewrite IH. reflexivity. Qed.

(* ================================================================== *)
(* 4. gvk_text                                                         *)
(* ================================================================== *)

Theorem gvk_text_spec av kd : gvk_text av kd = (kd ++ "." ++ av)%string.
Proof. reflexivity. Qed.

Lemma split_at_some ch s x y : split_at ch s = Some (x, y) -> s = (x ++ String ch y)%string.
Proof.
  revert x. induction s as [|a s IH]; intros x H; [discriminate|].
  cbn [split_at] in H. destruct (Ascii.eqb a ch) eqn:E.
  - apply Ascii.eqb_eq in E. subst a. injection H as Hx Hy. subst x y. reflexivity.
  - destruct (split_at ch s) as [[x' y']|] eqn:Hs; [|discriminate].
    injection H as Hx Hy. subst x y. cbn [append]. f_equal. apply IH. reflexivity.
Qed.

(* core group: no slash in the apiVersion, the key is Kind.version *)
Theorem gvk_text_core av kd :
  split_at slash av = None ->
  group_of av = "" /\ version_of av = av /\ gvk_text av kd = (kd ++ "." ++ version_of av)%string.
Proof.
  intros H. unfold group_of, version_of. rewrite H. repeat split.
Qed.

(* named group: the key is Kind.group/version *)
Theorem gvk_text_group av kd g v :
  split_at slash av = Some (g, v) ->
  group_of av = g /\ version_of av = v /\ gvk_text av kd = (kd ++ "." ++ g ++ "/" ++ v)%string.
Proof.
  intros H. unfold group_of, version_of. rewrite H. repeat split.
  unfold gvk_text. rewrite (split_at_some _ _ _ _ H). reflexivity.
Qed.

Example gvk_text_core_ex : gvk_text "v1" "Pod" = "Pod.v1".
Proof. reflexivity. Qed.
Example gvk_text_group_ex : gvk_text "apps/v1" "Deployment" = "Deployment.apps/v1".
Proof. reflexivity. Qed.

(* the text determines (apiVersion, kind) when kinds contain no dot *)
Fixpoint no_dot (s : string) : bool :=
  match s with
  | EmptyString => true
  | String a s' => negb (Ascii.eqb a "."%char) && no_dot s'
  end.

Lemma gvk_text_inj av1 kd1 av2 kd2 :
  no_dot kd1 = true -> no_dot kd2 = true ->
  gvk_text av1 kd1 = gvk_text av2 kd2 -> av1 = av2 /\ kd1 = kd2.
Proof.
  unfold gvk_text. revert kd2. induction kd1 as [|a kd1 IH]; intros kd2 H1 H2 Heq.
  - destruct kd2 as [|b kd2].
    + cbn [append] in Heq. injection Heq as Heq. split; [exact Heq | reflexivity].
    + cbn [append] in Heq. injection Heq as Hb _. subst b.
      cbn [no_dot] in H2. rewrite Ascii.eqb_refl in H2. discriminate.
  - destruct kd2 as [|b kd2].
    + cbn [append] in Heq. injection Heq as Ha _. subst a.
      cbn [no_dot] in H1. rewrite Ascii.eqb_refl in H1. discriminate.
    + cbn [append] in Heq. injection Heq as Hab Heq. subst b.
      cbn [no_dot] in H1, H2.
      apply Bool.andb_true_iff in H1. destruct H1 as [_ H1].
      apply Bool.andb_true_iff in H2. destruct H2 as [_ H2].
      destruct (IH kd2 H1 H2 Heq) as [Hav Hkd]. split; [exact Hav | f_equal; exact Hkd].
Qed.

(* ================================================================== *)
(* 3. relative_name                                                    *)
(* ================================================================== *)

Theorem relative_name_qualified pns o :
  pns = "" -> get_ns o <> "" ->
  relative_name pns o = (get_ns o ++ "/" ++ get_name o)%string.
Proof.
  intros Hp Hn. unfold relative_name. subst pns. apply String.eqb_neq in Hn.
  rewrite Hn. reflexivity.
Qed.

Theorem relative_name_plain pns o :
  pns <> "" \/ get_ns o = "" -> relative_name pns o = get_name o.
Proof.
  intros H. unfold relative_name. destruct H as [H | H].
  - apply String.eqb_neq in H. rewrite H. reflexivity.
  - rewrite H. rewrite Bool.andb_false_r. reflexivity.
Qed.

Theorem relative_name_spec pns o :
  relative_name pns o = (get_ns o ++ "/" ++ get_name o)%string <-> (pns = "" /\ get_ns o <> "").
Proof.
  split.
  - intros Heq.
    destruct (String.eqb pns "") eqn:Ep; destruct (String.eqb (get_ns o) "") eqn:En.
    + exfalso. apply String.eqb_eq in En.
      rewrite relative_name_plain in Heq by (right; exact En).
      apply (f_equal String.length) in Heq. rewrite !length_append in Heq.
      cbn [String.length] in Heq. lia.
    + apply String.eqb_eq in Ep. apply String.eqb_neq in En. split; assumption.
    + exfalso. apply String.eqb_neq in Ep.
      rewrite relative_name_plain in Heq by (left; exact Ep).
      apply (f_equal String.length) in Heq. rewrite !length_append in Heq.
      cbn [String.length] in Heq. lia.
    + exfalso. apply String.eqb_neq in Ep.
      rewrite relative_name_plain in Heq by (left; exact Ep).
      apply (f_equal String.length) in Heq. rewrite !length_append in Heq.
      cbn [String.length] in Heq. lia.
  - intros [Hp Hn]. apply relative_name_qualified; assumption.
Qed.

Corollary relative_name_else pns o :
  ~ (pns = "" /\ get_ns o <> "") -> relative_name pns o = get_name o.
Proof.
  intros H. apply relative_name_plain.
  destruct (String.eqb pns "") eqn:Ep.
  - apply String.eqb_eq in Ep. right.
    destruct (String.eqb (get_ns o) "") eqn:En.
    + apply String.eqb_eq in En. exact En.
    + apply String.eqb_neq in En. exfalso. apply H. split; assumption.
  - apply String.eqb_neq in Ep. left. exact Ep.
Qed.

(* ================================================================== *)
(* 2. convert_group                                                    *)
(* ================================================================== *)

(* the objects a parent in namespace pns gets to see *)
Definition seen (pns : string) (kv : string * json) : bool :=
  String.eqb pns "" || String.eqb pns (get_ns (snd kv)).

Definition rel_key (pns : string) (kv : string * json) : string := relative_name pns (snd kv).

Lemma seen_iff pns kv : seen pns kv = true <-> (pns = "" \/ get_ns (snd kv) = pns).
Proof.
  unfold seen. rewrite Bool.orb_true_iff, !String.eqb_eq. split.
  - intros [H | H]; [left; exact H | right; symmetry; exact H].
  - intros [H | H]; [left; exact H | right; symmetry; exact H].
Qed.

Lemma convert_group_fold pns os :
  convert_group pns os =
  JObj (fold_left (fun acc kv => aset (rel_key pns kv) (snd kv) acc) (filter (seen pns) os) []).
Proof.
  unfold convert_group. f_equal.
  rewrite <- fold_left_filter. apply fold_left_ext. intros acc kv. reflexivity.
Qed.

(* with distinct relative names the wire group is the list of seen objects, in order *)
Theorem convert_group_nodup pns os :
  NoDup (map (rel_key pns) (filter (seen pns) os)) ->
  convert_group pns os = JObj (map (fun kv => (rel_key pns kv, snd kv)) (filter (seen pns) os)).
Proof.
  intros Hnd. rewrite convert_group_fold. f_equal.
  rewrite fold_aset_nodup; [reflexivity | exact Hnd | intros a _; reflexivity].
Qed.

Theorem convert_group_spec pns (os : list (string * json)) n o :
  NoDup (map (rel_key pns) (filter (seen pns) os)) ->
  (alookup n (obj_map (convert_group pns os)) = Some o <->
   exists key, In (key, o) os /\ relative_name pns o = n /\ (pns = "" \/ get_ns o = pns)).
Proof.
  intros Hnd. rewrite (convert_group_nodup pns os Hnd). cbn [obj_map].
  set (l := map (fun kv => (rel_key pns kv, snd kv)) (filter (seen pns) os)).
  assert (Hl : NoDup (map fst l)).
  { unfold l. rewrite map_map. cbn [fst]. exact Hnd. }
  rewrite (alookup_In_nodup n o l Hl). unfold l. rewrite in_map_iff. split.
  - intros [[key o'] [Heq Hin]]. unfold rel_key in Heq. cbn [snd] in Heq.
    injection Heq as Hn Ho. subst o'.
    apply filter_In in Hin. destruct Hin as [Hin Hseen].
    apply seen_iff in Hseen. cbn [snd] in Hseen.
    exists key. split; [exact Hin|]. split; [exact Hn | exact Hseen].
  - intros [key [Hin [Hn Hseen]]]. exists (key, o). split.
    + unfold rel_key. cbn [snd]. rewrite Hn. reflexivity.
    + apply filter_In. split; [exact Hin|]. apply seen_iff. cbn [snd]. exact Hseen.
Qed.

(* the hypothesis as requested: distinct relative names over all objects of the group *)
Corollary convert_group_spec_all pns (os : list (string * json)) n o :
  NoDup (map (rel_key pns) os) ->
  (alookup n (obj_map (convert_group pns os)) = Some o <->
   exists key, In (key, o) os /\ relative_name pns o = n /\ (pns = "" \/ get_ns o = pns)).
Proof.
  intros Hnd. apply convert_group_spec. apply NoDup_map_filter. exact Hnd.
Qed.

(* without the distinctness hypothesis the last object of a name wins *)
Example convert_group_last_wins :
  let a := JObj [("metadata", JObj [("name", JStr "x")]); ("v", JInt 1)] in
  let b := JObj [("metadata", JObj [("name", JStr "x")]); ("v", JInt 2)] in
  alookup "x" (obj_map (convert_group "" [("k1", a); ("k2", b)])) = Some b.
Proof. vm_compute. reflexivity. Qed.

Theorem convert_group_empty pns : convert_group pns [] = JObj [].
Proof. reflexivity. Qed.

(* objects of another namespace are never shown to a namespaced parent *)
Theorem convert_group_only_seen pns (os : list (string * json)) :
  convert_group pns os = convert_group pns (filter (seen pns) os).
Proof.
  rewrite !convert_group_fold. f_equal. f_equal.
  induction os as [|kv os IH]; [reflexivity|].
  cbn [filter]. destruct (seen pns kv) eqn:E; [|exact IH].
  cbn [filter]. rewrite E. f_equal. exact IH.
Qed.

(* ================================================================== *)
(* 1. convert: one entry per group                                     *)
(* ================================================================== *)

Definition group_key (g : group) : string * string := (fst (fst g), snd (fst g)).
Definition gvk_of (g : group) : string := gvk_text (fst (fst g)) (snd (fst g)).
Definition group_entry (pns : string) (g : group) : string * json :=
  (gvk_of g, convert_group pns (snd g)).
Definition ukeys (m : umap) : list (string * string) := map group_key m.

Lemma convert_fold pns m :
  convert pns m =
  JObj (fold_left (fun acc g => aset (gvk_of g) (convert_group pns (snd g)) acc) m []).
Proof.
  unfold convert. f_equal. apply fold_left_ext.
  intros acc [[av kd] os]. reflexivity.
Qed.

(* YOUR WORDING: "for a umap m whose group keys (apiVersion, kind) are pairwise
   distinct, convert pns m is a JObj with exactly one entry per group".
   Distinct (apiVersion, kind) pairs can have the same text when a kind
   contains a dot; the later group then overwrites the earlier one. *)
Example convert_has_every_group_counterexample :
  let m : umap := [("c", "A.b", []); ("b.c", "A", [])] in
  NoDup (ukeys m) /\ convert "" m = JObj [("A.b.c", JObj [])].
Proof.
  split; [|vm_compute; reflexivity].
  apply NoDup_cons; [|apply NoDup_cons; [intros []|apply NoDup_nil]].
  intros [H | []]. discriminate H.
Qed.

(* the closest true statement: distinct GVK texts *)
Theorem convert_has_every_group_partial pns m :
  nodup_str (map gvk_of m) = true ->
  convert pns m = JObj (map (group_entry pns) m).
Proof.
  intros Hnd. apply nodup_str_NoDup in Hnd.
  rewrite convert_fold. f_equal.
  rewrite fold_aset_nodup; [reflexivity | exact Hnd | intros a _; reflexivity].
Qed.

(* distinct (apiVersion, kind) pairs with dot-free kinds have distinct texts *)
Definition kinds_no_dot (m : umap) : bool := forallb (fun g => no_dot (snd (fst g))) m.

Lemma gvk_nodup_of_keys m :
  kinds_no_dot m = true -> NoDup (ukeys m) -> NoDup (map gvk_of m).
Proof.
  unfold kinds_no_dot, ukeys. induction m as [|g m IH]; intros Hk Hnd; [apply NoDup_nil|].
  cbn [forallb] in Hk. apply Bool.andb_true_iff in Hk. destruct Hk as [Hg Hk].
  cbn [map] in Hnd. inversion Hnd as [|x xs Hnotin Hnd']; subst x xs.
  cbn [map]. apply NoDup_cons; [|apply IH; assumption].
  intros Hin. apply in_map_iff in Hin. destruct Hin as [g' [Heq Hin]].
  apply Hnotin. apply in_map_iff. exists g'. split; [|exact Hin].
  assert (Hg' : no_dot (snd (fst g')) = true).
  { rewrite forallb_forall in Hk. apply (Hk g' Hin). }
  unfold gvk_of in Heq. destruct (gvk_text_inj _ _ _ _ Hg' Hg Heq) as [Hav Hkd].
  unfold group_key. rewrite Hav, Hkd. reflexivity.
Qed.

Theorem convert_has_every_group pns m :
  kinds_no_dot m = true -> NoDup (ukeys m) ->
  convert pns m = JObj (map (group_entry pns) m).
Proof.
  intros Hk Hnd. apply convert_has_every_group_partial.
  apply nodup_str_NoDup. apply gvk_nodup_of_keys; assumption.
Qed.

(* consequences: exactly one entry per group, found under its GVK text,
   also when the group is empty *)
Corollary convert_entry_count pns m :
  nodup_str (map gvk_of m) = true ->
  List.length (obj_map (convert pns m)) = List.length m.
Proof.
  intros Hnd. rewrite (convert_has_every_group_partial pns m Hnd). cbn [obj_map].
  apply map_length.
Qed.

Corollary convert_lookup_group pns m av kd os :
  nodup_str (map gvk_of m) = true ->
  In (av, kd, os) m ->
  alookup (gvk_text av kd) (obj_map (convert pns m)) = Some (convert_group pns os).
Proof.
  intros Hnd Hin. rewrite (convert_has_every_group_partial pns m Hnd). cbn [obj_map].
  apply alookup_In_nodup.
  - rewrite map_map. cbn [group_entry fst]. apply nodup_str_NoDup. exact Hnd.
  - apply in_map_iff. exists (av, kd, os). split; [reflexivity | exact Hin].
Qed.

Corollary convert_empty_group_present pns m av kd :
  nodup_str (map gvk_of m) = true ->
  In (av, kd, []) m ->
  alookup (gvk_text av kd) (obj_map (convert pns m)) = Some (JObj []).
Proof.
  intros Hnd Hin. rewrite (convert_lookup_group pns m av kd [] Hnd Hin). reflexivity.
Qed.

Corollary convert_lookup_only_groups pns m key j :
  nodup_str (map gvk_of m) = true ->
  alookup key (obj_map (convert pns m)) = Some j ->
  exists av kd os, In (av, kd, os) m /\ key = gvk_text av kd /\ j = convert_group pns os.
Proof.
  intros Hnd Hl. rewrite (convert_has_every_group_partial pns m Hnd) in Hl. cbn [obj_map] in Hl.
  apply alookup_In_nodup in Hl.
  - apply in_map_iff in Hl. destruct Hl as [[[av kd] os] [Heq Hin]].
    unfold group_entry, gvk_of in Heq. cbn [fst snd] in Heq. injection Heq as Hk Hj.
    exists av, kd, os. split; [exact Hin|]. split; symmetry; assumption.
  - rewrite map_map. cbn [group_entry fst]. apply nodup_str_NoDup. exact Hnd.
Qed.

(* ---- uinit / uinsert: the group keys of the map ---- *)

Definition has_key (av kd : string) (m : umap) : bool :=
  existsb (fun g => String.eqb av (fst (fst g)) && String.eqb kd (snd (fst g))) m.

Lemma has_key_In av kd m : has_key av kd m = true <-> In (av, kd) (ukeys m).
Proof.
  unfold has_key, ukeys. rewrite existsb_exists, in_map_iff. split.
  - intros [g [Hin Hg]]. apply Bool.andb_true_iff in Hg. destruct Hg as [Ha Hk].
    apply String.eqb_eq in Ha. apply String.eqb_eq in Hk.
    exists g. split; [|exact Hin]. unfold group_key. rewrite <- Ha, <- Hk. reflexivity.
  - intros [g [Hg Hin]]. exists g. split; [exact Hin|].
    unfold group_key in Hg. injection Hg as Ha Hk. rewrite Ha, Hk, !String.eqb_refl. reflexivity.
Qed.

Lemma uinit_keys av kd m :
  ukeys (uinit av kd m) = if has_key av kd m then ukeys m else ukeys m ++ [(av, kd)].
Proof.
  unfold ukeys, has_key. induction m as [|[[av' kd'] os] m IH]; [reflexivity|].
  cbn [uinit existsb fst snd].
  destruct (String.eqb av av' && String.eqb kd kd') eqn:E; [reflexivity|].
  cbn [orb map]. rewrite IH.
  destruct (existsb (fun g => String.eqb av (fst (fst g)) && String.eqb kd (snd (fst g))) m); reflexivity.
Qed.

Lemma uinsert_at_keys av kd n o m :
  ukeys (uinsert_at av kd n o m) = if has_key av kd m then ukeys m else ukeys m ++ [(av, kd)].
Proof.
  unfold ukeys, has_key. induction m as [|[[av' kd'] os] m IH]; [reflexivity|].
  cbn [uinsert_at existsb fst snd].
  destruct (String.eqb av av' && String.eqb kd kd') eqn:E; [reflexivity|].
  cbn [orb map]. rewrite IH.
  destruct (existsb (fun g => String.eqb av (fst (fst g)) && String.eqb kd (snd (fst g))) m); reflexivity.
Qed.

Lemma NoDup_snoc {A} (l : list A) (x : A) : NoDup l -> ~ In x l -> NoDup (l ++ [x]).
Proof.
  intros Hnd Hx. induction Hnd as [|y l Hy Hnd IH].
  - cbn [app]. apply NoDup_cons; [intros []|apply NoDup_nil].
  - cbn [app]. apply NoDup_cons.
    + intros Hin. apply in_app_or in Hin. destruct Hin as [Hin | [Hin | []]].
      * contradiction.
      * subst y. apply Hx. left. reflexivity.
    + apply IH. intros Hin. apply Hx. right. exact Hin.
Qed.

Lemma keys_step_NoDup av kd (ks : list (string * string)) (b : bool) :
  (b = true <-> In (av, kd) ks) -> NoDup ks -> NoDup (if b then ks else ks ++ [(av, kd)]).
Proof.
  intros Hb Hnd. destruct b; [exact Hnd|]. apply NoDup_snoc; [exact Hnd|].
  intros Hin. apply Hb in Hin. discriminate.
Qed.

Theorem uinit_NoDup av kd m : NoDup (ukeys m) -> NoDup (ukeys (uinit av kd m)).
Proof. intros H. rewrite uinit_keys. apply keys_step_NoDup; [apply has_key_In | exact H]. Qed.

Theorem uinsert_NoDup o m : NoDup (ukeys m) -> NoDup (ukeys (uinsert o m)).
Proof.
  intros H. unfold uinsert. rewrite uinsert_at_keys.
  apply keys_step_NoDup; [apply has_key_In | exact H].
Qed.

Theorem uinit_has av kd m : In (av, kd) (ukeys (uinit av kd m)).
Proof.
  rewrite uinit_keys. destruct (has_key av kd m) eqn:E.
  - apply has_key_In. exact E.
  - apply in_or_app. right. left. reflexivity.
Qed.

Theorem uinit_keeps av kd m x : In x (ukeys m) -> In x (ukeys (uinit av kd m)).
Proof.
  intros H. rewrite uinit_keys. destruct (has_key av kd m); [exact H|].
  apply in_or_app. left. exact H.
Qed.

Theorem uinsert_keeps o m x : In x (ukeys m) -> In x (ukeys (uinsert o m)).
Proof.
  intros H. unfold uinsert. rewrite uinsert_at_keys.
  destruct (has_key (get_api_version o) (get_kind o) m); [exact H|].
  apply in_or_app. left. exact H.
Qed.

Lemma fold_uinsert_keeps (os : list json) m x :
  In x (ukeys m) -> In x (ukeys (fold_left (fun m o => uinsert o m) os m)).
Proof.
  revert m. induction os as [|o os IH]; intros m H; [exact H|].
  cbn [fold_left]. apply IH. apply uinsert_keeps. exact H.
Qed.

Lemma fold_uinsert_NoDup (os : list json) m :
  NoDup (ukeys m) -> NoDup (ukeys (fold_left (fun m o => uinsert o m) os m)).
Proof.
  revert m. induction os as [|o os IH]; intros m H; [exact H|].
  cbn [fold_left]. apply IH. apply uinsert_NoDup. exact H.
Qed.

(* a freshly initialised group is empty: uinit then no insert gives JObj [] on the wire *)
Theorem uinit_fresh_empty av kd m :
  has_key av kd m = false -> In (av, kd, []) (uinit av kd m).
Proof.
  unfold has_key. induction m as [|[[av' kd'] os] m IH]; intros H.
  - left. reflexivity.
  - cbn [existsb fst snd] in H. apply Bool.orb_false_iff in H. destruct H as [E H].
    cbn [uinit]. rewrite E. right. apply IH. exact H.
Qed.

(* ---- results of programs ---- *)
Inductive post {R} (Q : R -> Prop) : prog R -> Prop :=
| post_ret r : Q r -> post Q (Ret r)
| post_do c k : (forall a, post Q (k a)) -> post Q (Do c k).

Lemma post_bind {A B} (Q : A -> Prop) (Q' : B -> Prop) (p : prog A) (f : A -> prog B) :
  post Q p -> (forall a, Q a -> post Q' (f a)) -> post Q' (bind p f).
Proof.
  intros Hp Hf. induction Hp as [r Hq | c k Hk IH].
  - cbn [bind]. apply Hf. exact Hq.
  - cbn [bind]. apply post_do. exact IH.
Qed.

Lemma post_true {R} (p : prog R) : post (fun _ => True) p.
Proof. induction p as [r | c k IH]; [apply post_ret; exact I | apply post_do; exact IH]. Qed.

Lemma post_foldM {A S} (I : S -> Prop) (f : S -> A -> prog S) (l : list A) :
  (forall s a, In a l -> I s -> post I (f s a)) ->
  forall s, I s -> post I (foldM f l s).
Proof.
  induction l as [|a l IH]; intros Hf s Hi.
  - cbn [foldM]. apply post_ret. exact Hi.
  - cbn [foldM]. apply post_bind with (Q := I).
    + apply Hf; [left; reflexivity | exact Hi].
    + intros s' Hi'. apply IH; [|exact Hi'].
      intros s0 a0 Hin. apply Hf. right. exact Hin.
Qed.

Lemma post_run {R} (Q : R -> Prop) (p : prog R) (e : env) hist :
  post Q p -> Q (snd (run p e hist)).
Proof.
  intros Hp. revert hist. induction Hp as [r Hq | c k Hk IH]; intros hist.
  - cbn [run snd]. exact Hq.
  - cbn [run]. apply IH.
Qed.

(* the observed map handed to the hook: a group for every configured child
   kind (even when nothing was claimed), no group twice *)
Definition kid_key (kc : child_cfg) : string * string := (ch_api_version kc, ch_kind kc).

Definition observed_ok (ks : list child_cfg) (r : option umap) : Prop :=
  forall m, r = Some m ->
            NoDup (ukeys m) /\ forall kc, In kc ks -> In (kid_key kc) (ukeys m).

Theorem claim_children_every_kind c k parent :
  post (observed_ok (kids c)) (claim_children c k parent).
Proof.
  unfold claim_children. destruct (make_selector c parent) as [sel|];
    [|apply post_ret; intros m Hm; discriminate].
  (* generalise the kid list and the accumulator *)
  assert (Hgen : forall (ks done : list child_cfg) (acc : option umap),
             observed_ok done acc ->
             post (observed_ok (done ++ ks))
               (foldM (fun (acc : option umap) (kc : child_cfg) =>
                  match acc with
                  | None => Ret None
                  | Some m =>
                      let all := filter (visible c parent) (cached k (ch_res kc)) in
                      '(_, claimed, failed) <~ foldM (claim_one c kc parent sel) all (None, [], false) ;;
                      if failed then Ret None
                      else Ret (Some (fold_left (fun m o => uinsert o m) claimed
                                                 (uinit (ch_api_version kc) (ch_kind kc) m)))
                  end) ks acc)).
  { induction ks as [|kc ks IH]; intros done acc Hacc.
    - cbn [foldM]. rewrite app_nil_r. apply post_ret. exact Hacc.
    - cbn [foldM]. apply post_bind with (Q := observed_ok (done ++ [kc])).
      + destruct acc as [m|]; [|apply post_ret; intros m Hm; discriminate].
        destruct (Hacc m eq_refl) as [Hnd Hall].
        apply post_bind with (Q := fun _ => True); [apply post_true|].
        intros [[once claimed] failed] _.
        destruct failed; [apply post_ret; intros m' Hm'; discriminate|].
        apply post_ret. intros m' Hm'. injection Hm' as Hm'. subst m'. split.
        * apply fold_uinsert_NoDup. apply uinit_NoDup. exact Hnd.
        * intros kc' Hin. apply fold_uinsert_keeps.
          apply in_app_or in Hin. destruct Hin as [Hin | [Hin | []]].
          -- apply uinit_keeps. apply Hall. exact Hin.
          -- subst kc'. apply uinit_has.
      + intros acc' Hacc'. replace (done ++ kc :: ks) with ((done ++ [kc]) ++ ks).
        * apply IH. exact Hacc'.
        * rewrite <- app_assoc. reflexivity. }
  apply (Hgen (kids c) [] (Some [])).
  intros m Hm. injection Hm as Hm. subst m. split; [apply NoDup_nil | intros kc []].
Qed.

(* hence on the wire: whenever claiming succeeds, the children object sent to
   the hook has an entry for every configured child kind *)
Corollary claim_children_wire c k parent (e : env) m kc :
  result_of (claim_children c k parent) e = Some m ->
  kinds_no_dot m = true ->
  In kc (kids c) ->
  exists os, In (ch_api_version kc, ch_kind kc, os) m /\
             alookup (gvk_text (ch_api_version kc) (ch_kind kc)) (obj_map (convert (get_ns parent) m))
             = Some (convert_group (get_ns parent) os).
Proof.
  intros Hres Hk Hin.
  pose proof (post_run _ _ e [] (claim_children_every_kind c k parent)) as Hp.
  unfold result_of in Hres. destruct (Hp m Hres) as [Hnd Hall].
  specialize (Hall kc Hin). unfold ukeys in Hall. apply in_map_iff in Hall.
  destruct Hall as [[[av kd] os] [Hkey Hing]]. unfold group_key, kid_key in Hkey.
  cbn [fst snd] in Hkey. injection Hkey as Hav Hkd. subst av kd.
  exists os. split; [exact Hing|].
  apply convert_lookup_group; [|exact Hing].
  apply nodup_str_NoDup. apply gvk_nodup_of_keys; assumption.
Qed.

(* ================================================================== *)
(* 5. default_ns                                                       *)
(* ================================================================== *)

(* SetNamespace silently does nothing when metadata is present and not a map *)
Definition meta_ok (o : json) : bool :=
  match o with
  | JObj m => match alookup "metadata" m with
              | None | Some (JObj _) => true
              | Some _ => false end
  | _ => false
  end.

Lemma nested_get_set2' m a b v m' :
  nested_set m [a; b] v = Some m' -> nested_get m' [a; b] = NFound v.
Proof.
  cbn [nested_set]. destruct (alookup a m) as [x|] eqn:Ha.
  - destruct x; try discriminate. intros H. injection H as H. subst m'.
    cbn [nested_get]. rewrite alookup_aset_same. rewrite alookup_aset_same. reflexivity.
  - intros H. injection H as H. subst m'.
    cbn [nested_get]. rewrite alookup_aset_same. cbn [aset alookup].
    rewrite String.eqb_refl. reflexivity.
Qed.

Theorem default_ns_none pns : default_ns pns None = None.
Proof. reflexivity. Qed.

(* a child that names its namespace is left alone *)
Theorem default_ns_has_ns pns o :
  get_ns o <> "" -> default_ns pns (Some o) = Some o.
Proof.
  intros H. unfold default_ns. apply String.eqb_neq in H. rewrite H. reflexivity.
Qed.

(* a child without namespace gets the parent's *)
Theorem default_ns_sets pns o :
  get_ns o = "" -> pns <> "" -> meta_ok o = true ->
  exists m m', o = JObj m /\
               nested_set m ["metadata"; "namespace"] (JStr pns) = Some m' /\
               default_ns pns (Some o) = Some (JObj m') /\
               get_ns (JObj m') = pns.
Proof.
  intros Hns Hp Hok. destruct o as [| | | | | | |m]; try discriminate Hok.
  unfold meta_ok in Hok.
  assert (Hset : exists m', nested_set m ["metadata"; "namespace"] (JStr pns) = Some m').
  { cbn [nested_set]. destruct (alookup "metadata" m) as [x|].
    - destruct x; try discriminate Hok. eexists. reflexivity.
    - eexists. reflexivity. }
  destruct Hset as [m' Hm']. exists m, m'. split; [reflexivity|]. split; [exact Hm'|].
  split.
  - unfold default_ns. rewrite Hns. rewrite String.eqb_refl.
    unfold set_ns. apply String.eqb_neq in Hp. rewrite Hp. rewrite Hm'. reflexivity.
  - unfold get_ns, nested_string. cbn [obj_map]. rewrite (nested_get_set2' _ _ _ _ _ Hm'). reflexivity.
Qed.

(* metadata present but not a map (or the child is not an object): unchanged *)
Theorem default_ns_unsettable pns o :
  get_ns o = "" -> pns <> "" -> meta_ok o = false -> default_ns pns (Some o) = Some o.
Proof.
  intros Hns Hp Hok. unfold default_ns. rewrite Hns, String.eqb_refl.
  unfold set_ns. apply String.eqb_neq in Hp.
  destruct o as [| | | | | | |m]; try reflexivity. rewrite Hp.
  unfold meta_ok in Hok. cbn [nested_set].
  destruct (alookup "metadata" m) as [x|]; [|discriminate Hok].
  destruct x; try reflexivity. discriminate Hok.
Qed.

(* cluster-scoped parent (pns = ""): the namespace field is removed, the
   namespace stays empty *)
Theorem default_ns_cluster_parent o :
  get_ns o = "" ->
  default_ns "" (Some o) =
  Some (match o with JObj m => JObj (nested_remove m ["metadata"; "namespace"]) | _ => o end).
Proof.
  intros Hns. unfold default_ns. rewrite Hns. cbn [String.eqb]. unfold set_ns.
  destruct o; reflexivity.
Qed.

(* YOUR WORDING: "... otherwise unchanged" is false in that last case: an
   explicit empty namespace field is dropped *)
Example default_ns_spec_counterexample :
  let o := JObj [("metadata", JObj [("namespace", JStr "")])] in
  get_ns o = "" /\ default_ns "" (Some o) = Some (JObj [("metadata", JObj [])]).
Proof. vm_compute. split; reflexivity. Qed.

Lemma get_ns_after_remove m :
  get_ns (JObj (nested_remove m ["metadata"; "namespace"])) = "".
Proof.
  unfold get_ns, nested_string. cbn [obj_map nested_remove].
  destruct (alookup "metadata" m) as [x|] eqn:Hm.
  - destruct x; try (cbn [nested_get]; rewrite Hm; reflexivity).
    cbn [nested_get]. rewrite alookup_aset_same. rewrite alookup_aremove.
    cbn [String.eqb Ascii.eqb Bool.eqb]. reflexivity.
  - cbn [nested_get]. rewrite Hm. reflexivity.
Qed.

(* the closest true summary: boolean side conditions *)
Theorem default_ns_spec_partial pns o :
  (* sets the parent's namespace exactly when it can *)
  (String.eqb (get_ns o) "" && negb (String.eqb pns "") && meta_ok o = true ->
   exists o', default_ns pns (Some o) = Some o' /\ get_ns o' = pns) /\
  (* otherwise unchanged, unless the parent is cluster-scoped *)
  (String.eqb (get_ns o) "" && negb (String.eqb pns "") && meta_ok o = false ->
   negb (String.eqb (get_ns o) "" && String.eqb pns "") = true ->
   default_ns pns (Some o) = Some o) /\
  (* cluster-scoped parent, child without namespace: the field is removed, the namespace stays empty *)
  (String.eqb (get_ns o) "" && String.eqb pns "" = true ->
   exists o', default_ns pns (Some o) = Some o' /\ get_ns o' = "").
Proof.
  split; [|split].
  - intros H. apply Bool.andb_true_iff in H. destruct H as [H Hok].
    apply Bool.andb_true_iff in H. destruct H as [Hns Hp].
    apply String.eqb_eq in Hns. apply Bool.negb_true_iff in Hp. apply String.eqb_neq in Hp.
    destruct (default_ns_sets pns o Hns Hp Hok) as [m [m' [_ [_ [Hd Hg]]]]].
    exists (JObj m'). split; assumption.
  - intros H1 H2.
    destruct (String.eqb (get_ns o) "") eqn:Hns.
    + apply String.eqb_eq in Hns.
      destruct (String.eqb pns "") eqn:Hp; [discriminate H2|].
      apply String.eqb_neq in Hp. cbn [negb andb] in H1.
      apply default_ns_unsettable; assumption.
    + apply String.eqb_neq in Hns. apply default_ns_has_ns. exact Hns.
  - intros H. apply Bool.andb_true_iff in H. destruct H as [Hns Hp].
    apply String.eqb_eq in Hns. apply String.eqb_eq in Hp. subst pns.
    rewrite (default_ns_cluster_parent o Hns).
    eexists. split; [reflexivity|].
    destruct o; try exact Hns. apply get_ns_after_remove.
Qed.

(* ================================================================== *)
(* the hook sees only claimed objects                                  *)
(* ================================================================== *)

Lemma oset_In n o (os : list (string * json)) n' o' :
  In (n', o') (oset n o os) -> (n' = n /\ o' = o) \/ In (n', o') os.
Proof.
  induction os as [|[k v] os IH]; cbn [oset].
  - intros [H | []]. injection H as H1 H2. left. split; symmetry; assumption.
  - destruct (String.eqb n k).
    + intros [H | H].
      * injection H as H1 H2. left. split; symmetry; assumption.
      * right. right. exact H.
    + intros [H | H].
      * right. left. exact H.
      * destruct (IH H) as [H' | H']; [left; exact H' | right; right; exact H'].
Qed.

Lemma uobjects_cons av kd os (m : umap) :
  uobjects ((av, kd, os) :: m) = map snd os ++ uobjects m.
Proof. reflexivity. Qed.

Lemma uinit_objects av kd m x : In x (uobjects (uinit av kd m)) -> In x (uobjects m).
Proof.
  induction m as [|[[av' kd'] os] m IH]; cbn [uinit].
  - intros H. exact H.
  - destruct (String.eqb av av' && String.eqb kd kd'); [intros H; exact H|].
    rewrite !uobjects_cons. intros H. apply in_app_or in H. apply in_or_app.
    destruct H as [H | H]; [left; exact H | right; apply IH; exact H].
Qed.

Lemma uinsert_at_objects av kd n o m x :
  In x (uobjects (uinsert_at av kd n o m)) -> x = o \/ In x (uobjects m).
Proof.
  induction m as [|[[av' kd'] os] m IH]; cbn [uinsert_at].
  - intros [H | []]. left. symmetry. exact H.
  - destruct (String.eqb av av' && String.eqb kd kd').
    + rewrite !uobjects_cons. intros H. apply in_app_or in H. destruct H as [H | H].
      * apply in_map_iff in H. destruct H as [[n' o'] [Hx Hin]]. cbn [snd] in Hx. subst o'.
        destruct (oset_In _ _ _ _ _ Hin) as [[_ Ho] | Hin'].
        -- left. exact Ho.
        -- right. apply in_or_app. left. apply in_map_iff. exists (n', x). split; [reflexivity | exact Hin'].
      * right. apply in_or_app. right. exact H.
    + rewrite !uobjects_cons. intros H. apply in_app_or in H. destruct H as [H | H].
      * right. apply in_or_app. left. exact H.
      * destruct (IH H) as [H' | H']; [left; exact H' | right; apply in_or_app; right; exact H'].
Qed.

Lemma fold_uinsert_objects (claimed : list json) m x :
  In x (uobjects (fold_left (fun m o => uinsert o m) claimed m)) ->
  In x claimed \/ In x (uobjects m).
Proof.
  revert m. induction claimed as [|o os IH]; intros m H.
  - right. exact H.
  - cbn [fold_left] in H. destruct (IH _ H) as [H' | H'].
    + left. right. exact H'.
    + unfold uinsert in H'. destruct (uinsert_at_objects _ _ _ _ _ _ H') as [Hx | Hx].
      * left. left. symmetry. exact Hx.
      * right. exact Hx.
Qed.

(* claim_one only ever appends its own object, and only when keeping or adopting it *)
Lemma claim_one_claimed c kc parent sel once claimed failed o :
  post (fun st' => snd (fst st') = claimed \/
                   (snd (fst st') = claimed ++ [o] /\
                    (claim_decision (get_uid parent) (is_deleting parent) sel o = ClKeep \/
                     claim_decision (get_uid parent) (is_deleting parent) sel o = ClAdopt)))
       (claim_one c kc parent sel (once, claimed, failed) o).
Proof.
  unfold claim_one.
  destruct (claim_decision (get_uid parent) (is_deleting parent) sel o) eqn:Hd.
  - apply post_ret. right. split; [reflexivity | left; reflexivity].
  - apply post_ret. left. reflexivity.
  - apply post_bind with (Q := fun _ => True); [apply post_true|].
    intros r _. destruct r as [x|e]; [apply post_ret; left; reflexivity|].
    destruct e; apply post_ret; left; reflexivity.
  - apply post_bind with (Q := fun _ => True); [apply post_true|].
    intros [once' can] _. destruct can; cbn [negb].
    + apply post_bind with (Q := fun _ => True); [apply post_true|].
      intros r _. destruct r as [x|e].
      * apply post_ret. right. split; [reflexivity | right; reflexivity].
      * destruct e; apply post_ret; left; reflexivity.
    + apply post_ret. left. reflexivity.
Qed.

Definition claimable (parent : json) (sel : selector) (all : list json) (x : json) : Prop :=
  In x all /\
  (claim_decision (get_uid parent) (is_deleting parent) sel x = ClKeep \/
   claim_decision (get_uid parent) (is_deleting parent) sel x = ClAdopt).

Lemma claim_fold_claimed c kc parent sel all :
  post (fun st => Forall (claimable parent sel all) (snd (fst st)))
       (foldM (claim_one c kc parent sel) all (None, [], false)).
Proof.
  apply post_foldM with (I := fun st => Forall (claimable parent sel all) (snd (fst st)));
    [|apply Forall_nil].
  intros [[once claimed] failed] o Hin Hi. cbn [fst snd] in Hi.
  assert (Hweak : forall p : prog (option bool * list json * bool),
             post (fun st' => snd (fst st') = claimed \/
                   (snd (fst st') = claimed ++ [o] /\
                    (claim_decision (get_uid parent) (is_deleting parent) sel o = ClKeep \/
                     claim_decision (get_uid parent) (is_deleting parent) sel o = ClAdopt))) p ->
             post (fun st => Forall (claimable parent sel all) (snd (fst st))) p).
  { intros p Hp. induction Hp as [r Hq | cl kk Hk IH].
    - apply post_ret. destruct Hq as [Hq | [Hq Hd]]; rewrite Hq.
      + exact Hi.
      + apply Forall_app. split; [exact Hi|].
        apply Forall_cons; [split; assumption | apply Forall_nil].
    - apply post_do. exact IH. }
  apply Hweak. apply claim_one_claimed.
Qed.

(* every object in the observed map is a cached, visible object of a configured
   child resource whose claim decision was Keep or Adopt *)
Definition observed_only_claimed (c : ccfg) (k : cache) (parent : json) (sel : selector)
           (r : option umap) : Prop :=
  forall m, r = Some m ->
  forall x, In x (uobjects m) ->
  exists kc, In kc (kids c) /\
             claimable parent sel (filter (visible c parent) (cached k (ch_res kc))) x.

Theorem claim_children_only_claimed c k parent sel :
  make_selector c parent = Some sel ->
  post (observed_only_claimed c k parent sel) (claim_children c k parent).
Proof.
  intros Hsel. unfold claim_children. rewrite Hsel.
  assert (Hgen : forall (ks : list child_cfg) (acc : option umap),
             incl ks (kids c) ->
             observed_only_claimed c k parent sel acc ->
             post (observed_only_claimed c k parent sel)
               (foldM (fun (acc : option umap) (kc : child_cfg) =>
                  match acc with
                  | None => Ret None
                  | Some m =>
                      let all := filter (visible c parent) (cached k (ch_res kc)) in
                      '(_, claimed, failed) <~ foldM (claim_one c kc parent sel) all (None, [], false) ;;
                      if failed then Ret None
                      else Ret (Some (fold_left (fun m o => uinsert o m) claimed
                                                 (uinit (ch_api_version kc) (ch_kind kc) m)))
                  end) ks acc)).
  { induction ks as [|kc ks IH]; intros acc Hincl Hacc.
    - cbn [foldM]. apply post_ret. exact Hacc.
    - cbn [foldM]. apply post_bind with (Q := observed_only_claimed c k parent sel).
      + destruct acc as [m|]; [|apply post_ret; intros m Hm; discriminate].
        eapply post_bind; [apply claim_fold_claimed|].
        intros [[once claimed] failed] Hcl. cbn [fst snd] in Hcl.
        destruct failed; [apply post_ret; intros m' Hm'; discriminate|].
        apply post_ret. intros m' Hm' x Hx. injection Hm' as Hm'. subst m'.
        destruct (fold_uinsert_objects _ _ _ Hx) as [Hin | Hin].
        * exists kc. split; [apply Hincl; left; reflexivity|].
          rewrite Forall_forall in Hcl. apply Hcl. exact Hin.
        * apply uinit_objects in Hin. apply (Hacc m eq_refl x Hin).
      + intros acc' Hacc'. apply IH; [|exact Hacc'].
        intros y Hy. apply Hincl. right. exact Hy. }
  apply Hgen; [apply incl_refl|].
  intros m Hm x Hx. injection Hm as Hm. subst m. destruct Hx.
Qed.

Print Assumptions gvk_text_spec.
Print Assumptions gvk_text_core.
Print Assumptions gvk_text_group.
Print Assumptions gvk_text_inj.
Print Assumptions relative_name_spec.
Print Assumptions relative_name_else.
Print Assumptions convert_group_nodup.
Print Assumptions convert_group_spec.
Print Assumptions convert_group_spec_all.
Print Assumptions convert_group_only_seen.
Print Assumptions convert_has_every_group_counterexample.
Print Assumptions convert_has_every_group_partial.
Print Assumptions convert_has_every_group.
Print Assumptions convert_entry_count.
Print Assumptions convert_lookup_group.
Print Assumptions convert_empty_group_present.
Print Assumptions convert_lookup_only_groups.
Print Assumptions uinit_NoDup.
Print Assumptions uinsert_NoDup.
Print Assumptions uinit_fresh_empty.
Print Assumptions claim_children_every_kind.
Print Assumptions claim_children_wire.
Print Assumptions claim_children_only_claimed.
Print Assumptions default_ns_has_ns.
Print Assumptions default_ns_sets.
Print Assumptions default_ns_unsettable.
Print Assumptions default_ns_cluster_parent.
Print Assumptions default_ns_spec_counterexample.
Print Assumptions default_ns_spec_partial.
