(* RollClaims.v — the pure claim bookkeeping of the rolling update
   (Model/Rolling.v claims_of_revision / sync_revision_claims): helper for
   C09Proofs.v item 3. *)
From MC Require Import Generated.
From MC Require Import Model.Rolling.
From Coq Require Import Lia.
Local Open Scope string_scope.
Local Open Scope list_scope.

(* ------------------------------------------------------------------ *)
(* keys                                                                *)
(* ------------------------------------------------------------------ *)

Lemma ck_eqb_eq a b : ck_eqb a b = true <-> a = b.
Proof.
  destruct a as [[g1 k1] n1], b as [[g2 k2] n2]. unfold ck_eqb.
  rewrite !Bool.andb_true_iff, !String.eqb_eq. split.
  - intros [[-> ->] ->]. reflexivity.
  - intros [= -> -> ->]. auto.
Qed.

Lemma ck_eqb_refl a : ck_eqb a a = true.
Proof. apply ck_eqb_eq. reflexivity. Qed.

Lemma ck_eqb_neq a b : ck_eqb a b = false <-> a <> b.
Proof.
  split.
  - intros H Heq. apply ck_eqb_eq in Heq. congruence.
  - intros H. destruct (ck_eqb a b) eqn:E; [|reflexivity]. apply ck_eqb_eq in E. contradiction.
Qed.

Lemma ck_dec (a b : claim_key) : {a = b} + {a <> b}.
Proof. destruct (ck_eqb a b) eqn:E; [left; apply ck_eqb_eq, E|right; apply ck_eqb_neq, E]. Qed.

(* ------------------------------------------------------------------ *)
(* claimant / set_claim                                                *)
(* ------------------------------------------------------------------ *)

Lemma claimant_none_notin cl k : claimant cl k = None <-> ~ In k (map fst cl).
Proof.
  unfold claimant. induction cl as [|[k' i'] cl IH]; cbn [find map fst In].
  - split; [intros _ []|reflexivity].
  - destruct (ck_eqb k' k) eqn:E.
    + apply ck_eqb_eq in E. subst k'. split; [discriminate|]. intros H. exfalso. apply H. now left.
    + apply ck_eqb_neq in E. rewrite IH. split.
      * intros H [H1|H1]; [contradiction|]. apply H. exact H1.
      * intros H H1. apply H. now right.
Qed.

Lemma claimant_app_new cl k i k' :
  claimant (cl ++ [(k, i)]) k' =
  match claimant cl k' with Some j => Some j | None => if ck_eqb k k' then Some i else None end.
Proof.
  unfold claimant. induction cl as [|[k0 i0] cl IH]; cbn [find app fst snd].
  - destruct (ck_eqb k k'); reflexivity.
  - destruct (ck_eqb k0 k'); [reflexivity|]. exact IH.
Qed.

(* set_claim on an unclaimed key appends *)
Lemma set_claim_fresh cl k i : claimant cl k = None -> set_claim cl k i = cl ++ [(k, i)].
Proof.
  intros H. unfold set_claim.
  destruct (existsb (fun p => ck_eqb (fst p) k) cl) eqn:E; [|reflexivity].
  apply existsb_exists in E. destruct E as ([k0 i0] & Hin & Hk). cbn [fst] in Hk.
  apply ck_eqb_eq in Hk. subst k0. apply claimant_none_notin in H. exfalso. apply H.
  apply in_map_iff. exists (k, i0). auto.
Qed.

Lemma claimant_set_same cl k i : claimant (set_claim cl k i) k = Some i.
Proof.
  unfold set_claim. destruct (existsb (fun p => ck_eqb (fst p) k) cl) eqn:E.
  - unfold claimant. induction cl as [|[k0 i0] cl IH]; [discriminate|].
    cbn [existsb fst] in E. cbn [map find fst snd].
    destruct (ck_eqb k0 k) eqn:E0.
    + cbn [fst]. rewrite ck_eqb_refl. reflexivity.
    + cbn [fst]. rewrite E0. cbn [orb] in E. apply IH. exact E.
  - rewrite claimant_app_new, ck_eqb_refl.
    destruct (claimant cl k) eqn:Hc; [|reflexivity].
    unfold claimant in Hc. destruct (find (fun p => ck_eqb (fst p) k) cl) as [p|] eqn:Hf; [|discriminate].
    apply find_some in Hf. destruct Hf as [Hin Hp].
    assert (existsb (fun p => ck_eqb (fst p) k) cl = true) by (apply existsb_exists; eauto). congruence.
Qed.

Lemma claimant_set_other cl k i k' : ck_eqb k k' = false -> claimant (set_claim cl k i) k' = claimant cl k'.
Proof.
  intros Hne. unfold set_claim. destruct (existsb (fun p => ck_eqb (fst p) k) cl) eqn:E.
  - clear E. unfold claimant. induction cl as [|[k0 i0] cl IH]; [reflexivity|].
    cbn [map find fst snd]. destruct (ck_eqb k0 k) eqn:E0.
    + apply ck_eqb_eq in E0. subst k0. cbn [fst]. rewrite Hne. exact IH.
    + cbn [fst]. destruct (ck_eqb k0 k'); [reflexivity|exact IH].
  - rewrite claimant_app_new, Hne. destruct (claimant cl k'); reflexivity.
Qed.

Lemma set_claim_fresh_nodup cl k i :
  claimant cl k = None -> NoDup (map fst cl) -> NoDup (map fst (set_claim cl k i)).
Proof.
  intros Hc Hnd. rewrite set_claim_fresh by exact Hc. rewrite map_app. cbn [map fst].
  apply claimant_none_notin in Hc.
  induction (map fst cl) as [|x l IH]; cbn [app].
  - constructor; [intros []|constructor].
  - inversion Hnd as [|x' l' Hx Hl]; subst. constructor.
    + intros Hin. apply in_app_or in Hin. destruct Hin as [Hin|[Hin|[]]]; [contradiction|].
      apply Hc. left. symmetry. exact Hin.
    + apply IH; [|exact Hl]. intros Hin. apply Hc. right. exact Hin.
Qed.

(* ------------------------------------------------------------------ *)
(* which keys a revision lists                                         *)
(* ------------------------------------------------------------------ *)

Definition gk_match (g kd : string) (ck : rck) : bool :=
  String.eqb (ck_group ck) g && String.eqb (ck_kind ck) kd.

Definition lists_cs (cs : list rck) (k : claim_key) : bool :=
  match k with (g, kd, n) => existsb (fun ck => gk_match g kd ck && mem_str n (ck_names ck)) cs end.

Definition lists (r : revision) (k : claim_key) : bool := lists_cs (rev_children r) k.

Lemma lists_cs_app cs1 cs2 k : lists_cs (cs1 ++ cs2) k = lists_cs cs1 k || lists_cs cs2 k.
Proof. destruct k as [[g kd] n]. unfold lists_cs. apply existsb_app. Qed.

Lemma mem_str_In n l : mem_str n l = true <-> In n l.
Proof.
  induction l as [|x l IH]; cbn [mem_str In]; [split; [discriminate|intros []]|].
  rewrite Bool.orb_true_iff, String.eqb_eq, IH. split; intros [H|H]; auto.
Qed.

Lemma lists_cs_spec cs g kd n :
  lists_cs cs (g, kd, n) = true <->
  exists ck, In ck cs /\ ck_group ck = g /\ ck_kind ck = kd /\ In n (ck_names ck).
Proof.
  unfold lists_cs. rewrite existsb_exists. split.
  - intros (ck & Hin & H). apply Bool.andb_true_iff in H. destruct H as [H Hn].
    unfold gk_match in H. apply Bool.andb_true_iff in H. destruct H as [Hg Hk].
    apply String.eqb_eq in Hg, Hk. apply mem_str_In in Hn. exists ck. auto.
  - intros (ck & Hin & Hg & Hk & Hn). exists ck. split; [exact Hin|].
    unfold gk_match. rewrite Hg, Hk, !String.eqb_refl. cbn [andb]. apply mem_str_In. exact Hn.
Qed.

(* ------------------------------------------------------------------ *)
(* claims_of_revision, unfolded into named steps                       *)
(* ------------------------------------------------------------------ *)

Definition dlist := list (string * string * string * json).

Definition name_step (ds : dlist) (i : nat) (g kd : string) (a : nat * claims) (name : string) : nat * claims :=
  let '(n, cla) := a in
  match find_desired ds g kd name with
  | None => (n, cla)
  | Some _ =>
      match claimant cla (g, kd, name) with
      | Some _ => (n, cla)
      | None => (S n, set_claim cla (g, kd, name) i)
      end
  end.

Definition group_step (c : ccfg) (ds : dlist) (i : nat) (acc : list rck * claims) (ck : rck) : list rck * claims :=
  let '(gs, cl0) := acc in
  if negb (is_rolling c (ck_group ck) (ck_kind ck)) then (gs, cl0) else
  let '(kept, cl1) := fold_left (name_step ds i (ck_group ck) (ck_kind ck)) (ck_names ck) (O, cl0) in
  match kept with
  | O => (gs, cl1)
  | _ => (gs ++ [ck], cl1)
  end.

Lemma claims_of_revision_eq c ds i r cl :
  claims_of_revision c ds i r cl =
  let '(groups, cl') := fold_left (group_step c ds i) (rev_children r) ([], cl) in
  (mkRevision (rev_obj r) (rev_patch r) groups, cl').
Proof. reflexivity. Qed.

(* what one pass over the names of a group establishes *)
Record names_ok (ds : dlist) (i : nat) (g kd : string) (names : list string)
       (n0 : nat) (cl0 : claims) (n1 : nat) (cl1 : claims) : Prop := {
  no_mono : forall k j, claimant cl0 k = Some j -> claimant cl1 k = Some j;
  no_new : forall k j, claimant cl1 k = Some j ->
             claimant cl0 k = Some j \/
             (claimant cl0 k = None /\ j = i /\ n0 < n1 /\ exists name, In name names /\ k = (g, kd, name));
  no_complete : forall name, In name names -> find_desired ds g kd name <> None ->
                  claimant cl1 (g, kd, name) <> None;
  no_count : n0 <= n1;
  no_nodup : NoDup (map fst cl0) -> NoDup (map fst cl1)
}.

Lemma names_fold_ok ds i g kd names : forall n0 cl0 n1 cl1,
  fold_left (name_step ds i g kd) names (n0, cl0) = (n1, cl1) ->
  names_ok ds i g kd names n0 cl0 n1 cl1.
Proof.
  induction names as [|name names IH]; intros n0 cl0 n1 cl1 Hf; cbn [fold_left] in Hf.
  - injection Hf as <- <-. constructor; auto; try (intros name []).
  - destruct (name_step ds i g kd (n0, cl0) name) as [nm clm] eqn:Hs.
    specialize (IH nm clm n1 cl1 Hf). destruct IH as [Im In_ Ic Icnt Ind].
    unfold name_step in Hs.
    destruct (find_desired ds g kd name) as [d|] eqn:Hd.
    + destruct (claimant cl0 (g, kd, name)) as [j0|] eqn:Hc0.
      * injection Hs as <- <-. constructor; auto.
        -- intros k j Hk. destruct (In_ k j Hk) as [H|(H1 & H2 & H3 & nm' & H4 & H5)]; [left; exact H|].
           right. repeat split; auto. exists nm'. split; [right; exact H4|exact H5].
        -- intros nm' [<-|Hin] Hdes; [|apply Ic; assumption].
           rewrite (Im _ _ Hc0). discriminate.
      * injection Hs as <- <-. constructor.
        -- intros k j Hk. apply Im. destruct (ck_eqb (g, kd, name) k) eqn:E.
           ++ apply ck_eqb_eq in E. subst k. congruence.
           ++ rewrite claimant_set_other by exact E. exact Hk.
        -- intros k j Hk. destruct (In_ k j Hk) as [H|(H1 & H2 & H3 & nm' & H4 & H5)].
           ++ destruct (ck_eqb (g, kd, name) k) eqn:E.
              ** apply ck_eqb_eq in E. subst k. rewrite claimant_set_same in H. injection H as <-.
                 right. repeat split; auto; try lia. exists name. split; [now left|reflexivity].
              ** rewrite claimant_set_other in H by exact E. left. exact H.
           ++ destruct (ck_eqb (g, kd, name) k) eqn:E.
              ** apply ck_eqb_eq in E. rewrite <- E in H1. rewrite claimant_set_same in H1. discriminate.
              ** rewrite claimant_set_other in H1 by exact E. right. repeat split; auto; try lia.
                 exists nm'. split; [right; exact H4|exact H5].
        -- intros nm' [<-|Hin] Hdes; [|apply Ic; assumption].
           rewrite (Im _ i (claimant_set_same cl0 (g, kd, name) i)). discriminate.
        -- lia.
        -- intros Hnd. apply Ind. apply set_claim_fresh_nodup; assumption.
    + injection Hs as <- <-. constructor; auto.
      * intros k j Hk. destruct (In_ k j Hk) as [H|(H1 & H2 & H3 & nm' & H4 & H5)]; [left; exact H|].
        right. repeat split; auto. exists nm'. split; [right; exact H4|exact H5].
      * intros nm' [<-|Hin] Hdes; [congruence|apply Ic; assumption].
Qed.

(* what one pass over the groups of a revision establishes *)
Record groups_ok (c : ccfg) (ds : dlist) (i : nat) (cs : list rck)
       (gs0 : list rck) (cl0 : claims) (gs1 : list rck) (cl1 : claims) : Prop := {
  go_mono : forall k j, claimant cl0 k = Some j -> claimant cl1 k = Some j;
  go_new : forall k j, claimant cl1 k = Some j ->
             claimant cl0 k = Some j \/ (claimant cl0 k = None /\ j = i /\ lists_cs gs1 k = true);
  go_kept : exists add, gs1 = gs0 ++ add /\
              (forall ck, In ck add -> In ck cs /\ is_rolling c (ck_group ck) (ck_kind ck) = true) /\
              (forall g kd n, lists_cs add (g, kd, n) = true -> find_desired ds g kd n <> None ->
                              claimant cl1 (g, kd, n) <> None);
  go_nodup : NoDup (map fst cl0) -> NoDup (map fst cl1)
}.

Lemma groups_fold_ok c ds i cs : forall gs0 cl0 gs1 cl1,
  fold_left (group_step c ds i) cs (gs0, cl0) = (gs1, cl1) ->
  groups_ok c ds i cs gs0 cl0 gs1 cl1.
Proof.
  induction cs as [|ck cs IH]; intros gs0 cl0 gs1 cl1 Hf; cbn [fold_left] in Hf.
  - injection Hf as <- <-. constructor; auto.
    exists []. rewrite app_nil_r. split; [reflexivity|]. split; [intros ck []|].
    intros g kd n H. discriminate.
  - destruct (group_step c ds i (gs0, cl0) ck) as [gsm clm] eqn:Hs.
    specialize (IH gsm clm gs1 cl1 Hf). destruct IH as [Im In_ (add & Hadd & Hsub & Hcomp) Ind].
    unfold group_step in Hs.
    destruct (negb (is_rolling c (ck_group ck) (ck_kind ck))) eqn:Hroll.
    + injection Hs as <- <-. constructor; auto.
      exists add. split; [exact Hadd|]. split; [|exact Hcomp].
      intros ck' Hin. destruct (Hsub ck' Hin) as [H1 H2]. split; [right; exact H1|exact H2].
    + apply Bool.negb_false_iff in Hroll.
      destruct (fold_left (name_step ds i (ck_group ck) (ck_kind ck)) (ck_names ck) (0, cl0)) as [kept cl1'] eqn:Hn.
      apply names_fold_ok in Hn. destruct Hn as [Nm Nn Nc Ncnt Nnd].
      assert (Hgsm : gsm = gs0 ++ (if Nat.eqb kept 0 then [] else [ck]) /\ clm = cl1').
      { destruct kept; injection Hs as <- <-; cbn [Nat.eqb]; [rewrite app_nil_r|]; auto. }
      destruct Hgsm as [-> ->]. clear Hs.
      constructor.
      * intros k j Hk. apply Im, Nm, Hk.
      * intros k j Hk. destruct (In_ k j Hk) as [H|H]; [|right].
        -- destruct (Nn k j H) as [H'|(H1 & H2 & H3 & nm & H4 & H5)]; [left; exact H'|].
           right. split; [exact H1|]. split; [exact H2|].
           rewrite Hadd. destruct kept; [lia|]. cbn [Nat.eqb].
           rewrite !lists_cs_app. subst k.
           assert (Hl : lists_cs [ck] (ck_group ck, ck_kind ck, nm) = true).
           { apply lists_cs_spec. exists ck. repeat split; auto. now left. }
           rewrite Hl. rewrite Bool.orb_true_r. reflexivity.
        -- destruct H as (H1 & H2 & H3). split; [|split; assumption].
           destruct (claimant cl0 k) as [j0|] eqn:Hc0; [|reflexivity].
           rewrite (Nm _ _ Hc0) in H1. discriminate.
      * exists ((if Nat.eqb kept 0 then [] else [ck]) ++ add). split; [rewrite Hadd, app_assoc; reflexivity|].
        split.
        -- intros ck' Hin. apply in_app_or in Hin. destruct Hin as [Hin|Hin].
           ++ destruct (Nat.eqb kept 0); [destruct Hin|]. destruct Hin as [<-|[]]. split; [now left|exact Hroll].
           ++ destruct (Hsub ck' Hin) as [H1 H2]. split; [right; exact H1|exact H2].
        -- intros g kd n Hl Hdes. rewrite lists_cs_app in Hl. apply Bool.orb_true_iff in Hl.
           destruct Hl as [Hl|Hl]; [|apply Hcomp; assumption].
           destruct (Nat.eqb kept 0); [discriminate|].
           apply lists_cs_spec in Hl. destruct Hl as (ck' & [<-|[]] & <- & <- & Hn').
           specialize (Nc n Hn' Hdes).
           destruct (claimant cl1' (ck_group ck, ck_kind ck, n)) as [j|] eqn:Hc; [|congruence].
           rewrite (Im _ _ Hc). discriminate.
      * intros Hnd. apply Ind, Nnd, Hnd.
Qed.

(* ------------------------------------------------------------------ *)
(* claims_of_revision                                                  *)
(* ------------------------------------------------------------------ *)

Record rev_claims_ok (c : ccfg) (ds : dlist) (i : nat) (r : revision) (cl : claims)
       (r' : revision) (cl' : claims) : Prop := {
  rc_obj : rev_obj r' = rev_obj r /\ rev_patch r' = rev_patch r;
  (* an existing claimant is never changed *)
  rc_mono : forall k j, claimant cl k = Some j -> claimant cl' k = Some j;
  (* a new claimant is this revision, and the revision still lists the key *)
  rc_new : forall k j, claimant cl' k = Some j ->
             claimant cl k = Some j \/ (claimant cl k = None /\ j = i /\ lists r' k = true);
  (* the groups kept are rolling groups of the original, unfiltered *)
  rc_sub : forall ck, In ck (rev_children r') ->
             In ck (rev_children r) /\ is_rolling c (ck_group ck) (ck_kind ck) = true;
  (* every listed key that the latest revision desires has a claimant *)
  rc_complete : forall g kd n, lists r' (g, kd, n) = true -> find_desired ds g kd n <> None ->
                  claimant cl' (g, kd, n) <> None;
  rc_nodup : NoDup (map fst cl) -> NoDup (map fst cl')
}.

Lemma claims_of_revision_ok c ds i r cl r' cl' :
  claims_of_revision c ds i r cl = (r', cl') -> rev_claims_ok c ds i r cl r' cl'.
Proof.
  rewrite claims_of_revision_eq.
  destruct (fold_left (group_step c ds i) (rev_children r) ([], cl)) as [gs cl1] eqn:Hf.
  intros [= <- <-]. apply groups_fold_ok in Hf. destruct Hf as [Gm Gn (add & Hadd & Hsub & Hcomp) Gnd].
  cbn [app] in Hadd. subst add.
  constructor; auto.
Qed.

(* ------------------------------------------------------------------ *)
(* sync_revision_claims                                                *)
(* ------------------------------------------------------------------ *)

Record sync_claims_ok (c : ccfg) (ds : dlist) (i : nat) (prs : list prev) (cl : claims)
       (prs' : list prev) (cl' : claims) : Prop := {
  sc_len : List.length prs' = List.length prs;
  sc_same : forall m p', nth_error prs' m = Some p' ->
              exists p, nth_error prs m = Some p /\ pr_parent p' = pr_parent p /\
                        pr_resp p' = pr_resp p /\ pr_desired p' = pr_desired p /\
                        rev_obj (pr_rev p') = rev_obj (pr_rev p) /\
                        rev_patch (pr_rev p') = rev_patch (pr_rev p) /\
                        forall ck, In ck (rev_children (pr_rev p')) ->
                                   In ck (rev_children (pr_rev p)) /\
                                   is_rolling c (ck_group ck) (ck_kind ck) = true;
  sc_mono : forall k j, claimant cl k = Some j -> claimant cl' k = Some j;
  sc_new : forall k j, claimant cl' k = Some j ->
             claimant cl k = Some j \/
             (claimant cl k = None /\ i <= j /\
              exists p', nth_error prs' (j - i) = Some p' /\ lists (pr_rev p') k = true);
  sc_complete : forall p' g kd n, In p' prs' -> lists (pr_rev p') (g, kd, n) = true ->
                  find_desired ds g kd n <> None -> claimant cl' (g, kd, n) <> None;
  sc_nodup : NoDup (map fst cl) -> NoDup (map fst cl')
}.

Lemma sync_revision_claims_ok c ds prs : forall i cl prs' cl',
  sync_revision_claims c ds i prs cl = (prs', cl') -> sync_claims_ok c ds i prs cl prs' cl'.
Proof.
  induction prs as [|p rest IH]; intros i cl prs' cl' Hs; cbn [sync_revision_claims] in Hs.
  - injection Hs as <- <-. constructor; auto;
      try (intros m p' H; destruct m; discriminate); try (intros p' g kd n []).
  - destruct (claims_of_revision c ds i (pr_rev p) cl) as [r1 cl1] eqn:Hc.
    destruct (sync_revision_claims c ds (S i) rest cl1) as [rest' cl2] eqn:Hr.
    injection Hs as <- <-.
    apply claims_of_revision_ok in Hc. destruct Hc as [[Ro Rp] Rm Rn Rs Rc Rnd].
    apply IH in Hr. destruct Hr as [Sl Ss Sm Sn Sc Snd].
    constructor.
    + cbn [List.length]. rewrite Sl. reflexivity.
    + intros m p' Hm. destruct m as [|m]; cbn [nth_error] in Hm |- *.
      * injection Hm as <-. exists p. cbn [pr_parent pr_resp pr_desired pr_rev]. repeat split; auto.
        apply Rs; assumption. apply Rs; assumption.
      * apply Ss. exact Hm.
    + intros k j Hk. apply Sm, Rm, Hk.
    + intros k j Hk. destruct (Sn k j Hk) as [H|(H1 & H2 & p' & H3 & H4)].
      * destruct (Rn k j H) as [H'|(H1 & H2 & H3)]; [left; exact H'|].
        right. split; [exact H1|]. split; [lia|]. subst j. rewrite Nat.sub_diag. cbn [nth_error].
        eexists. split; [reflexivity|]. exact H3.
      * right. split.
        -- destruct (claimant cl k) as [j0|] eqn:Hc0; [|reflexivity]. rewrite (Rm _ _ Hc0) in H1. discriminate.
        -- split; [lia|]. replace (j - i) with (S (j - S i)) by lia. cbn [nth_error]. eauto.
    + intros p' g kd n [<-|Hin] Hl Hdes.
      * cbn [pr_rev] in Hl. specialize (Rc g kd n Hl Hdes).
        destruct (claimant cl1 (g, kd, n)) as [j|] eqn:Hc1; [|congruence].
        rewrite (Sm _ _ Hc1). discriminate.
      * eapply Sc; eauto.
    + intros Hnd. apply Snd, Rnd, Hnd.
Qed.

Print Assumptions claims_of_revision_ok.
Print Assumptions sync_revision_claims_ok.
