(* RollClaims.v — the pure claim bookkeeping of the rolling update
   (Model/Rolling.v claims_of_revision / sync_revision_claims): helper for
   C09Proofs.v item 3. *)
From MC Require Import Generated.
From MC Require Import Model.Rolling.
From Coq Require Import Lia.
Local Open Scope string_scope.
Local Open Scope list_scope.

(* ------------------------------------------------------------------ *)
(* keys                                                                *)
(* ------------------------------------------------------------------ *)

Lemma ck_eqb_eq a b : ck_eqb a b = true <-> a = b.
Proof.
  destruct a as [[g1 k1] n1], b as [[g2 k2] n2]. unfold ck_eqb.
  rewrite !Bool.andb_true_iff, !String.eqb_eq. split.
  - intros [[-> ->] ->]. reflexivity.
  - intros [= -> -> ->]. auto.
Qed.

Lemma ck_eqb_refl a : ck_eqb a a = true.
Proof. apply ck_eqb_eq. reflexivity. Qed.

Lemma ck_eqb_neq a b : ck_eqb a b = false <-> a <> b.
Proof.
  split.
  - intros H Heq. apply ck_eqb_eq in Heq. congruence.
  - intros H. destruct (ck_eqb a b) eqn:E; [|reflexivity]. apply ck_eqb_eq in E. contradiction.
Qed.

Lemma ck_dec (a b : claim_key) : {a = b} + {a <> b}.
Proof. destruct (ck_eqb a b) eqn:E; [left; apply ck_eqb_eq, E|right; apply ck_eqb_neq, E]. Qed.

(* ------------------------------------------------------------------ *)
(* claimant / set_claim                                                *)
(* ------------------------------------------------------------------ *)

Lemma claimant_none_notin cl k : claimant cl k = None <-> ~ In k (map fst cl).
Proof.
  unfold claimant. induction cl as [|[k' i'] cl IH]; cbn [find map fst In].
  - split; [intros _ []|reflexivity].
  - destruct (ck_eqb k' k) eqn:E.
    + apply ck_eqb_eq in E. subst k'. split; [discriminate|]. intros H. exfalso. apply H. now left.
    + apply ck_eqb_neq in E. rewrite IH. split.
      * intros H [H1|H1]; [contradiction|]. apply H. exact H1.
      * intros H H1. apply H. now right.
Qed.

Lemma claimant_app_new cl k i k' :
  claimant (cl ++ [(k, i)]) k' =
  match claimant cl k' with Some j => Some j | None => if ck_eqb k k' then Some i else None end.
Proof.
  unfold claimant. induction cl as [|[k0 i0] cl IH]; cbn [find app fst snd].
  - destruct (ck_eqb k k'); reflexivity.
  - destruct (ck_eqb k0 k'); [reflexivity|]. exact IH.
Qed.

(* set_claim on an unclaimed key appends *)
Lemma set_claim_fresh cl k i : claimant cl k = None -> set_claim cl k i = cl ++ [(k, i)].
Proof.
  intros H. unfold set_claim.
  destruct (existsb (fun p => ck_eqb (fst p) k) cl) eqn:E; [|reflexivity].
  apply existsb_exists in E. destruct E as ([k0 i0] & Hin & Hk). cbn [fst] in Hk.
  apply ck_eqb_eq in Hk. subst k0. apply claimant_none_notin in H. exfalso. apply H.
  apply in_map_iff. exists (k, i0). auto.
Qed.

Lemma claimant_set_same cl k i : claimant (set_claim cl k i) k = Some i.
Proof.
  unfold set_claim. destruct (existsb (fun p => ck_eqb (fst p) k) cl) eqn:E.
  - unfold claimant. induction cl as [|[k0 i0] cl IH]; [discriminate|].
    cbn [existsb fst] in E. cbn [map find fst snd].
    destruct (ck_eqb k0 k) eqn:E0.
    + cbn [fst]. rewrite ck_eqb_refl. reflexivity.
    + cbn [fst]. rewrite E0. cbn [orb] in E. apply IH. exact E.
  - rewrite claimant_app_new, ck_eqb_refl.
    destruct (claimant cl k) eqn:Hc; [|reflexivity].
    unfold claimant in Hc. destruct (find (fun p => ck_eqb (fst p) k) cl) as [p|] eqn:Hf; [|discriminate].
    apply find_some in Hf. destruct Hf as [Hin Hp].
    assert (existsb (fun p => ck_eqb (fst p) k) cl = true) by (apply existsb_exists; eauto). congruence.
Qed.

Lemma claimant_set_other cl k i k' : ck_eqb k k' = false -> claimant (set_claim cl k i) k' = claimant cl k'.
Proof.
  intros Hne. unfold set_claim. destruct (existsb (fun p => ck_eqb (fst p) k) cl) eqn:E.
  - clear E. unfold claimant. induction cl as [|[k0 i0] cl IH]; [reflexivity|].
    cbn [map find fst snd]. destruct (ck_eqb k0 k) eqn:E0.
    + apply ck_eqb_eq in E0. subst k0. cbn [fst]. rewrite Hne. exact IH.
    + cbn [fst]. destruct (ck_eqb k0 k'); [reflexivity|exact IH].
  - rewrite claimant_app_new, Hne. destruct (claimant cl k'); reflexivity.
Qed.

Lemma set_claim_fresh_nodup cl k i :
  claimant cl k = None -> NoDup (map fst cl) -> NoDup (map fst (set_claim cl k i)).
Proof.
  intros Hc Hnd. rewrite set_claim_fresh by exact Hc. rewrite map_app. cbn [map fst].
  apply claimant_none_notin in Hc.
  induction (map fst cl) as [|x l IH]; cbn [app].
  - constructor; [intros []|constructor].
  - inversion Hnd as [|x' l' Hx Hl]; subst. constructor.
    + intros Hin. apply in_app_or in Hin. destruct Hin as [Hin|[Hin|[]]]; [contradiction|].
      apply Hc. left. symmetry. exact Hin.
    + apply IH; [|exact Hl]. intros Hin. apply Hc. right. exact Hin.
Qed.

(* ------------------------------------------------------------------ *)
(* which keys a revision lists                                         *)
(* ------------------------------------------------------------------ *)

Definition gk_match (g kd : string) (ck : rck) : bool :=
  String.eqb (ck_group ck) g && String.eqb (ck_kind ck) kd.

Definition lists_cs (cs : list rck) (k : claim_key) : bool :=
  match k with (g, kd, n) => existsb (fun ck => gk_match g kd ck && mem_str n (ck_names ck)) cs end.

Definition lists (r : revision) (k : claim_key) : bool := lists_cs (rev_children r) k.

Lemma lists_cs_app cs1 cs2 k : lists_cs (cs1 ++ cs2) k = lists_cs cs1 k || lists_cs cs2 k.
Proof. destruct k as [[g kd] n]. unfold lists_cs. apply existsb_app. Qed.

Lemma mem_str_In n l : mem_str n l = true <-> In n l.
Proof.
  induction l as [|x l IH]; cbn [mem_str In]; [split; [discriminate|intros []]|].
  rewrite Bool.orb_true_iff, String.eqb_eq, IH. split; intros [H|H]; auto.
Qed.

Lemma lists_cs_spec cs g kd n :
  lists_cs cs (g, kd, n) = true <->
  exists ck, In ck cs /\ ck_group ck = g /\ ck_kind ck = kd /\ In n (ck_names ck).
Proof.
  unfold lists_cs. rewrite existsb_exists. split.
  - intros (ck & Hin & H). apply Bool.andb_true_iff in H. destruct H as [H Hn].
    unfold gk_match in H. apply Bool.andb_true_iff in H. destruct H as [Hg Hk].
    apply String.eqb_eq in Hg, Hk. apply mem_str_In in Hn. exists ck. auto.
  - intros (ck & Hin & Hg & Hk & Hn). exists ck. split; [exact Hin|].
    unfold gk_match. rewrite Hg, Hk, !String.eqb_refl. cbn [andb]. apply mem_str_In. exact Hn.
Qed.

(* a revision lists each (group, kind) once / and each name once *)
Fixpoint gk_unique (cs : list rck) : bool :=
  match cs with
  | [] => true
  | ck :: cs' => negb (existsb (gk_match (ck_group ck) (ck_kind ck)) cs') && gk_unique cs'
  end.

Fixpoint simple_cs (cs : list rck) : bool :=
  match cs with
  | [] => true
  | ck :: cs' => negb (existsb (gk_match (ck_group ck) (ck_kind ck)) cs') &&
                 nodup_str (ck_names ck) && simple_cs cs'
  end.

Definition simple (r : revision) : bool := simple_cs (rev_children r).

(* ------------------------------------------------------------------ *)
(* claims_of_revision, unfolded into named steps                       *)
(* ------------------------------------------------------------------ *)

Definition dlist := list (string * string * string * json).

Definition name_step (ds : dlist) (i : nat) (g kd : string) (a : list string * claims) (name : string)
  : list string * claims :=
  let '(ns, cla) := a in
  match find_desired ds g kd name with
  | None => (ns, cla)
  | Some _ =>
      match claimant cla (g, kd, name) with
      | Some _ => (ns, cla)
      | None => (ns ++ [name], set_claim cla (g, kd, name) i)
      end
  end.

Definition group_step (c : ccfg) (ds : dlist) (i : nat) (acc : list rck * claims) (ck : rck) : list rck * claims :=
  let '(gs, cl0) := acc in
  if negb (is_rolling c (ck_group ck) (ck_kind ck)) then (gs, cl0) else
  let '(kept, cl1) := fold_left (name_step ds i (ck_group ck) (ck_kind ck)) (ck_names ck) ([], cl0) in
  match kept with
  | [] => (gs, cl1)
  | _ => (gs ++ [mkRck (ck_group ck) (ck_kind ck) kept], cl1)
  end.

Lemma claims_of_revision_eq c ds i r cl :
  claims_of_revision c ds i r cl =
  let '(groups, cl') := fold_left (group_step c ds i) (rev_children r) ([], cl) in
  (mkRevision (rev_obj r) (rev_patch r) groups, cl').
Proof. reflexivity. Qed.

Lemma mem_str_false_notin n l : mem_str n l = false <-> ~ In n l.
Proof.
  rewrite <- mem_str_In. destruct (mem_str n l).
  - split; [discriminate|intros H; exfalso; apply H; reflexivity].
  - split; [intros _ H; discriminate|reflexivity].
Qed.

(* what one pass over the names of a group establishes: the names kept are exactly the
   names newly claimed, in order *)
Record names_ok (ds : dlist) (i : nat) (g kd : string) (names : list string)
       (ns0 : list string) (cl0 : claims) (ns1 : list string) (cl1 : claims) : Prop := {
  no_mono : forall k j, claimant cl0 k = Some j -> claimant cl1 k = Some j;
  no_added : exists added, ns1 = ns0 ++ added /\ nodup_str added = true /\
      (forall n, In n added -> In n names /\ find_desired ds g kd n <> None /\
                               claimant cl0 (g, kd, n) = None /\ claimant cl1 (g, kd, n) = Some i) /\
      (forall k j, claimant cl1 k = Some j ->
         claimant cl0 k = Some j \/
         (claimant cl0 k = None /\ j = i /\ exists n, In n added /\ k = (g, kd, n)));
  no_nodup : NoDup (map fst cl0) -> NoDup (map fst cl1)
}.

Lemma names_fold_ok ds i g kd names : forall ns0 cl0 ns1 cl1,
  fold_left (name_step ds i g kd) names (ns0, cl0) = (ns1, cl1) ->
  names_ok ds i g kd names ns0 cl0 ns1 cl1.
Proof.
  induction names as [|name names IH]; intros ns0 cl0 ns1 cl1 Hf; cbn [fold_left] in Hf.
  - injection Hf as <- <-. constructor; auto.
    exists []. rewrite app_nil_r. split; [reflexivity|]. split; [reflexivity|]. split; [intros n []|].
    intros k j Hk. left. exact Hk.
  - destruct (name_step ds i g kd (ns0, cl0) name) as [nm clm] eqn:Hs.
    specialize (IH nm clm ns1 cl1 Hf). destruct IH as [Im (added & Hadd & Hnd & Hin & Hnew) Ind].
    unfold name_step in Hs.
    assert (Hskip : (ns0, cl0) = (nm, clm) -> names_ok ds i g kd (name :: names) ns0 cl0 ns1 cl1).
    { intros [= <- <-]. constructor; auto.
      exists added. split; [exact Hadd|]. split; [exact Hnd|]. split; [|exact Hnew].
      intros n Hn. destruct (Hin n Hn) as (H1 & H2 & H3 & H4). repeat split; auto. now right. }
    destruct (find_desired ds g kd name) as [d|] eqn:Hd; [|auto].
    destruct (claimant cl0 (g, kd, name)) as [j0|] eqn:Hc0; [auto|].
    injection Hs as <- <-. clear Hskip.
    assert (Hset : claimant (set_claim cl0 (g, kd, name) i) (g, kd, name) = Some i) by apply claimant_set_same.
    constructor.
    + intros k j Hk. apply Im. destruct (ck_eqb (g, kd, name) k) eqn:E.
      * apply ck_eqb_eq in E. subst k. congruence.
      * rewrite claimant_set_other by exact E. exact Hk.
    + exists (name :: added). split; [rewrite Hadd, <- app_assoc; reflexivity|]. split; [|split].
      * cbn [nodup_str]. rewrite Hnd, Bool.andb_true_r. apply Bool.negb_true_iff.
        apply mem_str_false_notin. intros Hn. destruct (Hin name Hn) as (_ & _ & H3 & _). congruence.
      * intros n [<-|Hn].
        -- split; [now left|]. split; [congruence|]. split; [exact Hc0|]. apply Im. exact Hset.
        -- destruct (Hin n Hn) as (H1 & H2 & H3 & H4). split; [now right|]. split; [exact H2|]. split; [|exact H4].
           destruct (claimant cl0 (g, kd, n)) as [j|] eqn:E; [|reflexivity].
           destruct (ck_eqb (g, kd, name) (g, kd, n)) eqn:E2.
           ++ apply ck_eqb_eq in E2. rewrite <- E2 in H3. congruence.
           ++ rewrite claimant_set_other in H3 by exact E2. congruence.
      * intros k j Hk. destruct (Hnew k j Hk) as [H|(H1 & H2 & n & H3 & H4)].
        -- destruct (ck_eqb (g, kd, name) k) eqn:E.
           ++ apply ck_eqb_eq in E. subst k. rewrite Hset in H. injection H as <-.
              right. split; [exact Hc0|]. split; [reflexivity|]. exists name. split; [now left|reflexivity].
           ++ rewrite claimant_set_other in H by exact E. left. exact H.
        -- destruct (ck_eqb (g, kd, name) k) eqn:E.
           ++ apply ck_eqb_eq in E. rewrite <- E in H1. congruence.
           ++ rewrite claimant_set_other in H1 by exact E. right. split; [exact H1|]. split; [exact H2|].
              exists n. split; [now right|exact H4].
    + intros Hnd0. apply Ind. apply set_claim_fresh_nodup; assumption.
Qed.

(* what one pass over the groups of a revision establishes *)
Record groups_ok (c : ccfg) (ds : dlist) (i : nat) (cs : list rck)
       (gs0 : list rck) (cl0 : claims) (gs1 : list rck) (cl1 : claims) : Prop := {
  go_mono : forall k j, claimant cl0 k = Some j -> claimant cl1 k = Some j;
  go_kept : exists add, gs1 = gs0 ++ add /\
      (forall g kd n, lists_cs add (g, kd, n) = true ->
         is_rolling c g kd = true /\ find_desired ds g kd n <> None /\
         claimant cl0 (g, kd, n) = None /\ claimant cl1 (g, kd, n) = Some i /\
         lists_cs cs (g, kd, n) = true) /\
      (forall k j, claimant cl1 k = Some j ->
         claimant cl0 k = Some j \/ (claimant cl0 k = None /\ j = i /\ lists_cs add k = true)) /\
      (forall g kd, existsb (gk_match g kd) add = true -> existsb (gk_match g kd) cs = true) /\
      (gk_unique cs = true -> simple_cs add = true);
  go_nodup : NoDup (map fst cl0) -> NoDup (map fst cl1)
}.

Lemma claimant_none_back (cl0 cl1 : claims) k :
  (forall j, claimant cl0 k = Some j -> claimant cl1 k = Some j) -> claimant cl1 k = None -> claimant cl0 k = None.
Proof. intros Hm H1. destruct (claimant cl0 k) as [j|] eqn:E; [|reflexivity]. rewrite (Hm j eq_refl) in H1. discriminate. Qed.

Lemma groups_fold_ok c ds i cs : forall gs0 cl0 gs1 cl1,
  fold_left (group_step c ds i) cs (gs0, cl0) = (gs1, cl1) ->
  groups_ok c ds i cs gs0 cl0 gs1 cl1.
Proof.
  induction cs as [|ck cs IH]; intros gs0 cl0 gs1 cl1 Hf; cbn [fold_left] in Hf.
  - injection Hf as <- <-. constructor; auto.
    exists []. rewrite app_nil_r. split; [reflexivity|]. split; [intros g kd n H; discriminate|].
    split; [intros k j Hk; left; exact Hk|]. split; [intros g kd H; discriminate|reflexivity].
  - destruct (group_step c ds i (gs0, cl0) ck) as [gsm clm] eqn:Hs.
    specialize (IH gsm clm gs1 cl1 Hf).
    destruct IH as [Im (add & Hadd & Hlst & Hnew & Hgk & Hsim) Ind].
    unfold group_step in Hs.
    destruct (negb (is_rolling c (ck_group ck) (ck_kind ck))) eqn:Hroll.
    + injection Hs as <- <-. constructor; auto.
      exists add. split; [exact Hadd|]. split; [|split; [exact Hnew|split]].
      * intros g kd n Hl. destruct (Hlst g kd n Hl) as (H1 & H2 & H3 & H4 & H5).
        repeat split; auto. rewrite (lists_cs_app [ck] cs). rewrite H5. apply Bool.orb_true_r.
      * intros g kd H. cbn [existsb]. rewrite (Hgk g kd H). apply Bool.orb_true_r.
      * cbn [gk_unique]. intros H. apply Bool.andb_true_iff in H. apply Hsim, H.
    + apply Bool.negb_false_iff in Hroll.
      destruct (fold_left (name_step ds i (ck_group ck) (ck_kind ck)) (ck_names ck) ([], cl0)) as [kept cl1'] eqn:Hn.
      apply names_fold_ok in Hn. destruct Hn as [Nm (added & Hk & Nnd & Nin & Nnew) Nnodup].
      cbn [app] in Hk. subst added.
      set (new := mkRck (ck_group ck) (ck_kind ck) kept) in *.
      set (hd := match kept with [] => [] | _ => [new] end).
      assert (Hgsm : gsm = gs0 ++ hd /\ clm = cl1').
      { unfold hd. destruct kept; injection Hs as <- <-; [rewrite app_nil_r|]; auto. }
      destruct Hgsm as [-> ->]. clear Hs.
      assert (Hhd : forall g kd n, lists_cs hd (g, kd, n) = true ->
                      g = ck_group ck /\ kd = ck_kind ck /\ In n kept).
      { intros g kd n Hl. unfold hd in Hl. destruct kept as [|x kept']; [discriminate|].
        apply lists_cs_spec in Hl. destruct Hl as (ck' & [<-|[]] & Hg & Hkd & Hn'). cbn in Hg, Hkd, Hn'. auto. }
      assert (Hhd' : forall n, In n kept -> lists_cs hd (ck_group ck, ck_kind ck, n) = true).
      { intros n Hn'. unfold hd. destruct kept as [|x kept']; [destruct Hn'|].
        apply lists_cs_spec. exists new. split; [now left|]. repeat split; auto. }
      constructor.
      * intros k j Hk. apply Im, Nm, Hk.
      * exists (hd ++ add). split; [rewrite Hadd, app_assoc; reflexivity|]. split; [|split; [|split]].
        -- intros g kd n Hl. rewrite lists_cs_app in Hl. apply Bool.orb_true_iff in Hl. destruct Hl as [Hl|Hl].
           ++ destruct (Hhd g kd n Hl) as (-> & -> & Hn').
              destruct (Nin n Hn') as (H1 & H2 & H3 & H4).
              split; [exact Hroll|]. split; [exact H2|]. split; [exact H3|]. split; [apply Im; exact H4|].
              rewrite (lists_cs_app [ck] cs).
              replace (lists_cs [ck] (ck_group ck, ck_kind ck, n)) with true; [reflexivity|].
              symmetry. apply lists_cs_spec. exists ck. split; [now left|]. auto.
           ++ destruct (Hlst g kd n Hl) as (H1 & H2 & H3 & H4 & H5).
              split; [exact H1|]. split; [exact H2|]. split; [|split; [exact H4|]].
              ** apply (claimant_none_back cl0 cl1'); [intros j; apply Nm|exact H3].
              ** rewrite (lists_cs_app [ck] cs). rewrite H5. apply Bool.orb_true_r.
        -- intros k j Hk. destruct (Hnew k j Hk) as [H|(H1 & H2 & H3)].
           ++ destruct (Nnew k j H) as [H'|(H1 & H2 & n & H3 & H4)]; [left; exact H'|].
              right. split; [exact H1|]. split; [exact H2|]. subst k.
              rewrite lists_cs_app, (Hhd' n H3). reflexivity.
           ++ right. split; [apply (claimant_none_back cl0 cl1'); [intros j'; apply Nm|exact H1]|].
              split; [exact H2|]. rewrite lists_cs_app, H3. apply Bool.orb_true_r.
        -- intros g kd H. rewrite existsb_app in H. cbn [existsb]. apply Bool.orb_true_iff in H.
           destruct H as [H|H]; [|rewrite (Hgk g kd H); apply Bool.orb_true_r].
           unfold hd in H. destruct kept; [discriminate|]. cbn [existsb] in H. rewrite Bool.orb_false_r in H.
           unfold gk_match in H |- *. cbn [ck_group ck_kind new] in H. rewrite H. reflexivity.
        -- cbn [gk_unique]. intros H. apply Bool.andb_true_iff in H. destruct H as [H1 H2].
           specialize (Hsim H2). unfold hd. destruct kept as [|x kept'] eqn:Ek; [exact Hsim|].
           cbn [app simple_cs]. rewrite Hsim, Bool.andb_true_r. cbn [new ck_group ck_kind ck_names].
           rewrite Nnd, Bool.andb_true_r. apply Bool.negb_true_iff.
           destruct (existsb (gk_match (ck_group ck) (ck_kind ck)) add) eqn:E; [|reflexivity].
           apply Hgk in E. apply Bool.negb_true_iff in H1. congruence.
      * intros Hnd. apply Ind, Nnodup, Hnd.
Qed.

(* ------------------------------------------------------------------ *)
(* claims_of_revision                                                  *)
(* ------------------------------------------------------------------ *)

Record rev_claims_ok (c : ccfg) (ds : dlist) (i : nat) (r : revision) (cl : claims)
       (r' : revision) (cl' : claims) : Prop := {
  rc_obj : rev_obj r' = rev_obj r /\ rev_patch r' = rev_patch r;
  (* an existing claimant is never changed *)
  rc_mono : forall k j, claimant cl k = Some j -> claimant cl' k = Some j;
  (* a new claimant is this revision, and the revision lists the key *)
  rc_new : forall k j, claimant cl' k = Some j ->
             claimant cl k = Some j \/ (claimant cl k = None /\ j = i /\ lists r' k = true);
  (* what the revision lists afterwards: rolling, desired by the latest revision, newly
     claimed by this revision, and listed before *)
  rc_listed : forall g kd n, lists r' (g, kd, n) = true ->
                is_rolling c g kd = true /\ find_desired ds g kd n <> None /\
                claimant cl (g, kd, n) = None /\ claimant cl' (g, kd, n) = Some i /\
                lists r (g, kd, n) = true;
  rc_gk : forall g kd, existsb (gk_match g kd) (rev_children r') = true ->
                       existsb (gk_match g kd) (rev_children r) = true;
  rc_simple : gk_unique (rev_children r) = true -> simple r' = true;
  rc_nodup : NoDup (map fst cl) -> NoDup (map fst cl')
}.

Lemma claims_of_revision_ok c ds i r cl r' cl' :
  claims_of_revision c ds i r cl = (r', cl') -> rev_claims_ok c ds i r cl r' cl'.
Proof.
  rewrite claims_of_revision_eq.
  destruct (fold_left (group_step c ds i) (rev_children r) ([], cl)) as [gs cl1] eqn:Hf.
  intros [= <- <-]. apply groups_fold_ok in Hf.
  destruct Hf as [Gm (add & Hadd & Hlst & Hnew & Hgk & Hsim) Gnd].
  cbn [app] in Hadd. subst add.
  constructor; auto.
Qed.

(* ------------------------------------------------------------------ *)
(* sync_revision_claims                                                *)
(* ------------------------------------------------------------------ *)

Record sync_claims_ok (c : ccfg) (ds : dlist) (i : nat) (prs : list prev) (cl : claims)
       (prs' : list prev) (cl' : claims) : Prop := {
  sc_len : List.length prs' = List.length prs;
  sc_same : forall m p', nth_error prs' m = Some p' ->
              exists p, nth_error prs m = Some p /\ pr_parent p' = pr_parent p /\
                        pr_resp p' = pr_resp p /\ pr_desired p' = pr_desired p /\
                        rev_obj (pr_rev p') = rev_obj (pr_rev p) /\
                        rev_patch (pr_rev p') = rev_patch (pr_rev p) /\
                        (forall k, lists (pr_rev p') k = true -> lists (pr_rev p) k = true) /\
                        (gk_unique (rev_children (pr_rev p)) = true -> simple (pr_rev p') = true);
  sc_mono : forall k j, claimant cl k = Some j -> claimant cl' k = Some j;
  sc_new : forall k j, claimant cl' k = Some j ->
             claimant cl k = Some j \/
             (claimant cl k = None /\ i <= j /\
              exists p', nth_error prs' (j - i) = Some p' /\ lists (pr_rev p') k = true);
  (* a listed key is rolling, desired by the latest revision, and claimed by exactly the
     revision that lists it *)
  sc_listed : forall m p' g kd n, nth_error prs' m = Some p' -> lists (pr_rev p') (g, kd, n) = true ->
                is_rolling c g kd = true /\ find_desired ds g kd n <> None /\
                claimant cl (g, kd, n) = None /\ claimant cl' (g, kd, n) = Some (i + m);
  sc_nodup : NoDup (map fst cl) -> NoDup (map fst cl')
}.

Lemma sync_revision_claims_ok c ds prs : forall i cl prs' cl',
  sync_revision_claims c ds i prs cl = (prs', cl') -> sync_claims_ok c ds i prs cl prs' cl'.
Proof.
  induction prs as [|p rest IH]; intros i cl prs' cl' Hs; cbn [sync_revision_claims] in Hs.
  - injection Hs as <- <-. constructor; auto;
      try (intros m p' H; destruct m; discriminate);
      try (intros m p' g kd n H; destruct m; discriminate).
  - destruct (claims_of_revision c ds i (pr_rev p) cl) as [r1 cl1] eqn:Hc.
    destruct (sync_revision_claims c ds (S i) rest cl1) as [rest' cl2] eqn:Hr.
    injection Hs as <- <-.
    apply claims_of_revision_ok in Hc. destruct Hc as [[Ro Rp] Rm Rn Rl Rg Rs Rnd].
    apply IH in Hr. destruct Hr as [Sl Ss Sm Sn Sli Snd].
    constructor.
    + cbn [List.length]. rewrite Sl. reflexivity.
    + intros m p' Hm. destruct m as [|m]; cbn [nth_error] in Hm |- *.
      * injection Hm as <-. exists p. cbn [pr_parent pr_resp pr_desired pr_rev]. repeat split; auto.
        intros [[g kd] n] Hl. apply (Rl g kd n Hl).
      * apply Ss. exact Hm.
    + intros k j Hk. apply Sm, Rm, Hk.
    + intros k j Hk. destruct (Sn k j Hk) as [H|(H1 & H2 & p' & H3 & H4)].
      * destruct (Rn k j H) as [H'|(H1 & H2 & H3)]; [left; exact H'|].
        right. split; [exact H1|]. split; [lia|]. subst j. rewrite Nat.sub_diag. cbn [nth_error].
        eexists. split; [reflexivity|]. exact H3.
      * right. split; [apply (claimant_none_back cl cl1); [intros j'; apply Rm|exact H1]|].
        split; [lia|]. replace (j - i) with (S (j - S i)) by lia. cbn [nth_error]. eauto.
    + intros m p' g kd n Hm Hl. destruct m as [|m]; cbn [nth_error] in Hm.
      * injection Hm as <-. cbn [pr_rev] in Hl. destruct (Rl g kd n Hl) as (H1 & H2 & H3 & H4 & _).
        rewrite Nat.add_0_r. repeat split; auto.
      * destruct (Sli m p' g kd n Hm Hl) as (H1 & H2 & H3 & H4).
        split; [exact H1|]. split; [exact H2|]. split.
        -- apply (claimant_none_back cl cl1); [intros j'; apply Rm|exact H3].
        -- rewrite H4. f_equal. lia.
    + intros Hnd. apply Snd, Rnd, Hnd.
Qed.

(* the old completeness fact follows: a listed key has a claimant *)
Lemma sc_complete c ds i prs cl prs' cl' :
  sync_claims_ok c ds i prs cl prs' cl' ->
  forall p' g kd n, In p' prs' -> lists (pr_rev p') (g, kd, n) = true ->
    find_desired ds g kd n <> None -> claimant cl' (g, kd, n) <> None.
Proof.
  intros Hok p' g kd n Hin Hl _. apply In_nth_error in Hin. destruct Hin as [m Hm].
  destruct (sc_listed _ _ _ _ _ _ _ Hok m p' g kd n Hm Hl) as (_ & _ & _ & H). congruence.
Qed.

(* two revisions of the result never list the same key *)
Lemma sync_revision_claims_excl c ds i prs cl prs' cl' k a b pa pb :
  sync_revision_claims c ds i prs cl = (prs', cl') ->
  nth_error prs' a = Some pa -> nth_error prs' b = Some pb ->
  lists (pr_rev pa) k = true -> lists (pr_rev pb) k = true -> a = b.
Proof.
  intros Hs Ha Hb La Lb. apply sync_revision_claims_ok in Hs. destruct k as [[g kd] n].
  destruct (sc_listed _ _ _ _ _ _ _ Hs a pa g kd n Ha La) as (_ & _ & _ & H1).
  destruct (sc_listed _ _ _ _ _ _ _ Hs b pb g kd n Hb Lb) as (_ & _ & _ & H2).
  rewrite H1 in H2. injection H2 as H2. lia.
Qed.

Print Assumptions claims_of_revision_ok.
Print Assumptions sync_revision_claims_ok.
Print Assumptions sync_revision_claims_excl.
