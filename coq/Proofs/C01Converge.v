(* C01Converge.v — C01: the per-child automaton of C01_converges_per_child_partial
   tied to the decision functions of the model.

   One desired child d (constant: the hook is deterministic and its answer does
   not depend on the observed child — this excludes the echo hooks of ledger
   D24), one stored object of d's name (or none), a live parent.  A sync with a
   fresh cache does, for this child, what [claim_decision] and
   [child_decision] say; the API server does with each request what the small
   model [srv_create / srv_put / srv_delete] below says (create assigns uid /
   resourceVersion / creationTimestamp / generation; update is optimistic on
   resourceVersion and bumps resourceVersion / generation; delete has a uid
   precondition).  The server model stores request bodies verbatim, which is
   what the wire does for float-free bodies only ([wire1_float_free]); a
   desired object holding an integral float64 is ledger D17
   (C01_float_refuted).

   Rolling update methods are outside this theorem ([cm_of] is None for them).

   Hypotheses of C01_child_converges_partial.  On the parent and the desired
   object: the parent is live; self_wf / wf_json / desired_ok of d; d has a
   metadata map; d's labels match the selector.  On the start ([start_okb], a
   boolean): nothing is stored, or an owned object, or a matching orphan whose
   adoption gets a fresh resourceVersion; an owned (or just adopted) object is
   either already equal or meets [upd_okb]: ApplyUpdate succeeds on it (a type
   clash is an error on every sync, never a write), the C05 hypotheses Hb /
   null_okb / wf_json hold for (d, object, last applied), its annotations are
   strings, its last-applied record does not mention ownerReferences (else the
   update would strip the controller reference) and the labels after the update
   still match the selector.  That last clause is the one hypothesis that is
   assumed although it should be derivable (from d's labels and the object's
   labels both matching); hence "_partial".  Containment of d in the final
   object (C05_containment) is not carried through the system-field reverts
   here.

   FINDING.  The simulation does not hold for the automaton [cnext] as given:
   under Recreate a matching orphan that differs from the desired object is
   adopted and, in the same sync, deleted (claim_one hands the cached,
   pre-adoption object to manage_children and a delete carries only a uid
   precondition), so OrphanMatching has the successor Absent.  [cnext2] adds
   that one transition; the bound of three syncs is unchanged. *)
From MC Require Import Generated.
From MC Require Import Model.Safe Model.ApplyLaws.
From MC Require Import Proofs.AssocLemmas Proofs.AssocLemmas2 Proofs.ApplyProofs Proofs.ApplyBase
                       Proofs.ApplyUpdateProofs Proofs.ObjLemmas
                       Proofs.C04Proofs Proofs.C06Proofs
                       Proofs.C01Frame Proofs.C01Fixpoint Proofs.C01Proofs.
Local Open Scope string_scope.
Local Open Scope list_scope.

(* ------------------------------------------------------------------ *)
(* the refined automaton                                               *)
(* ------------------------------------------------------------------ *)
Definition cnext2 (m : cmethod) (s : cstate) : list cstate :=
  match m, s with
  | MRecreate, OrphanMatching => [OwnedDiffers; OwnedEqual; Absent]
  | _, _ => cnext m s
  end.

Lemma cnext_incl_cnext2 m s x : In x (cnext m s) -> In x (cnext2 m s).
Proof. destruct m, s; cbn; tauto. Qed.

Lemma cnext2_is_cnext m s : (m = MRecreate -> s <> OrphanMatching) -> cnext2 m s = cnext m s.
Proof. intros H. destruct m, s; try reflexivity. exfalso. now apply H. Qed.

Lemma cnext2_three m s0 s1 s2 s3 :
  In s1 (cnext2 m s0) -> In s2 (cnext2 m s1) -> In s3 (cnext2 m s2) -> cfinal m s3 = true.
Proof.
  destruct m, s0; cbn; intros H1;
    repeat (destruct H1 as [H1|H1]; [subst s1|]); try contradiction;
    cbn; intros H2;
    repeat (destruct H2 as [H2|H2]; [subst s2|]); try contradiction;
    cbn; intros H3;
    repeat (destruct H3 as [H3|H3]; [subst s3|]); try contradiction; reflexivity.
Qed.

Lemma cnext2_final_stays m s s' : cfinal m s = true -> In s' (cnext2 m s) -> s' = s.
Proof. destruct m, s; try discriminate; cbn; intuition congruence. Qed.

(* ------------------------------------------------------------------ *)
(* metadata getters under set_meta                                     *)
(* ------------------------------------------------------------------ *)
Lemma mget_set_meta g v o f : String.eqb f g = false -> mget (set_meta g v o) f = mget o f.
Proof.
  intros Hne. unfold mget, set_meta. destruct o; try reflexivity.
  destruct (nested_set m _ _) as [m'|] eqn:E; [|reflexivity].
  cbn [obj_map]. eapply nget_meta_set_other; eauto.
Qed.

Definition get_rv_mget o : get_rv o = match mget o "resourceVersion" with NFound (JStr s) => s | _ => "" end
  := eq_refl.

(* ApplyUpdate keeps a metadata field that neither the desired object nor the
   last-applied record mentions (and that is not server-owned) *)
Lemma update_keeps_field xm d n om dmeta last f :
  apply_update xm d = Ok n ->
  alookup "metadata" xm = Some (JObj om) ->
  get_last_applied xm = Ok last ->
  nodup_str (akeys (nullify_last_applied d)) = true ->
  alookup "metadata" (nullify_last_applied d) = Some (JObj dmeta) ->
  ahas f dmeta = false ->
  ahas f (obj_or_nil (jget "metadata" (obj_or_nil last))) = false ->
  ~ In f object_meta_system_fields -> f <> "annotations" ->
  mget (JObj n) f = mget (JObj xm) f.
Proof.
  intros Hap Hom Hlast Hnd Edm Hfd Hfl Hnsys Hfa.
  pose proof Hap as Hinv.
  apply apply_update_inv in Hinv as (last' & nm & n1 & n2 & Hl' & Hm & H1 & H2 & Hn).
  rewrite Hlast in Hl'. inversion Hl'; subst last'. clear Hl'.
  set (dm := nullify_last_applied d) in *.
  pose proof (merge_keeps_meta_obj _ _ _ _ _ Hm Hom) as Hok.
  pose proof (revert_fields_meta_fwd _ _ _ _ H1 Hok) as Hok1.
  destruct (revert_status _ _ _ H2) as (_ & Hmeta2).
  assert (Hok2 : meta_ok n2 = true) by (unfold meta_ok in *; now rewrite Hmeta2).
  destruct (revert_fields_meta _ _ _ _ H1 Hok1) as (_ & _ & Hkeep1 & _).
  change (mget (JObj n) f) with (mfield n f). change (mget (JObj xm) f) with (mfield xm f).
  rewrite Hn. rewrite set_last_applied_fields by (try exact Hok2; now apply String.eqb_neq).
  transitivity (mfield n1 f); [unfold mfield; now rewrite !nested_get2, Hmeta2|].
  rewrite (Hkeep1 f Hnsys).
  rewrite merge_obj_obj in Hm. cbv zeta in Hm.
  destruct (mobj_aux _ _ dm _) as [nm'| |] eqn:EM; try discriminate.
  assert (nm' = nm) by congruence. subst nm'. clear Hm.
  destruct (mobj_aux_In _ _ _ _ _ EM Hnd "metadata" (JObj dmeta) (alookup_In _ _ _ Edm)) as (r & Hr & Hlr).
  rewrite jget_remove_last_keep in Hr by (unfold ahas; now rewrite Edm).
  unfold jget at 1 in Hr. rewrite Hom in Hr.
  rewrite merge_obj_obj in Hr. cbv zeta in Hr.
  destruct (mobj_aux _ _ dmeta _) as [nmm| |] eqn:EM2; try discriminate.
  assert (r = JObj nmm) by congruence. subst r. clear Hr.
  rewrite (mfield_obj _ _ _ Hlr), (mfield_obj _ _ _ Hom).
  rewrite (mobj_aux_other _ _ _ _ _ f EM2 Hfd). rewrite alookup_remove_last.
  rewrite mem_str_akeys, Hfl. reflexivity.
Qed.

(* the wire is the identity on float-free values *)
Fixpoint float_free (j : json) : bool :=
  match j with
  | JFloat _ => false
  | JText x => float_free x
  | JArr l => forallb float_free l
  | JObj m => forallb (fun kv => float_free (snd kv)) m
  | _ => true
  end.

Lemma wire1_float_free j : float_free j = true -> wire1 j = j.
Proof.
  induction j as [| b | z | s | s | j IH | l IH | m IH] using json_ind'; intros H; try reflexivity.
  - discriminate.
  - cbn in *. now rewrite IH.
  - cbn [wire1 float_free] in *. f_equal. rewrite forallb_forall in H. rewrite Forall_forall in IH.
    rewrite <- (map_id l) at 2. apply map_ext_in. intros a Ha. apply IH; auto.
  - cbn [wire1 float_free] in *. f_equal. rewrite forallb_forall in H. rewrite Forall_forall in IH.
    rewrite <- (map_id m) at 2. apply map_ext_in. intros [k v] Ha. cbn [fst snd].
    f_equal. apply (IH (k, v) Ha). exact (H (k, v) Ha).
Qed.

(* ------------------------------------------------------------------ *)
(* the API server, for one object name                                 *)
(* ------------------------------------------------------------------ *)
Record srv := mkSrv { sv_uid : string; sv_rv : string; sv_ts : string; sv_gen : Z }.

Definition cw := option json.    (* the stored child; None = no object of that name *)

Definition srv_create (sv : srv) (w : cw) (body : json) : cw :=
  match w with
  | None => Some (server_assign (sv_uid sv) (sv_rv sv) (sv_ts sv) (sv_gen sv) body)
  | Some cur => Some cur                                   (* 409 AlreadyExists *)
  end.

Definition srv_put (sv : srv) (w : cw) (body : json) : cw :=
  match w with
  | None => None                                           (* 404 *)
  | Some cur =>
      if String.eqb (get_rv body) (get_rv cur)
      then Some (server_bump (sv_rv sv) (sv_gen sv) body)
      else Some cur                                        (* 409 Conflict *)
  end.

Definition srv_delete (w : cw) (uid : string) : cw :=
  match w with
  | None => None
  | Some cur => if String.eqb uid (get_uid cur) then None else Some cur   (* uid precondition *)
  end.

Definition cm_of (s : string) : option cmethod :=
  if String.eqb s method_on_delete then Some MOnDelete
  else if String.eqb s method_recreate then Some MRecreate
  else if String.eqb s method_in_place then Some MInPlace
  else None.

Section Child.
  Variables (c : ccfg) (kc : child_cfg) (parent : json) (sel : selector) (dm : amap).

  (* ---------------------------------------------------------------- *)
  (* one sync, as far as this child is concerned                       *)
  (* ---------------------------------------------------------------- *)
  Definition adopt_body (o : json) : json :=
    set_owner_refs o (add_owner_ref (get_owner_refs o)
                        (controller_ref (p_api_version c) (p_kind c) (get_name parent) (get_uid parent))).

  Definition adopted (sv : srv) (o : json) : json := server_bump (sv_rv sv) (sv_gen sv) (adopt_body o).

  (* updateChildren for the desired child, given the object claim_children handed over *)
  Definition manage (sv : srv) (w : cw) (o : json) : cw :=
    match child_decision c kc parent (Some o) (JObj dm) with
    | ActUpdate body => srv_put sv w body
    | ActDelete uid => srv_delete w uid
    | _ => w
    end.

  Definition child_sync (sv : srv) (w : cw) : cw :=
    match w with
    | None =>
        match child_decision c kc parent None (JObj dm) with
        | ActCreate b => srv_create sv None b
        | _ => None
        end
    | Some o =>
        match claim_decision (get_uid parent) (is_deleting parent) sel o with
        | ClKeep => manage sv w o
        | ClAdopt => manage sv (srv_put sv w (adopt_body o)) o      (* the cached o is what is managed *)
        | ClIgnore => w
        | ClRelease => srv_put sv w (set_owner_refs o (remove_owner_ref (get_owner_refs o) (get_uid parent)))
        end
    end.

  Definition run_syncs (svs : list srv) (w : cw) : cw := fold_left (fun w sv => child_sync sv w) svs w.

  (* ---------------------------------------------------------------- *)
  (* the abstraction and the side conditions                           *)
  (* ---------------------------------------------------------------- *)
  Definition is_equal (o : json) : bool :=
    match apply_update (obj_map o) dm with Ok n => jeqb (JObj n) o | _ => false end.

  Definition abs (w : cw) : cstate :=
    match w with
    | None => Absent
    | Some o =>
        if controlled_by o (get_uid parent)
        then if is_equal o then OwnedEqual else OwnedDiffers
        else OrphanMatching
    end.

  Definition owned_okb (o : json) : bool :=
    controlled_by o (get_uid parent) && sel_matches sel (get_labels o) && negb (is_deleting o).

  Definition meta_objb (o : json) : bool :=
    match alookup "metadata" (obj_map o) with Some (JObj _) => true | _ => false end.

  Definition orphan_okb (o : json) : bool :=
    match controller_of o with None => true | Some _ => false end &&
    sel_matches sel (get_labels o) && negb (is_deleting o) && meta_objb o.

  Definition last_keeps_refs (last : json) : bool :=
    negb (ahas "ownerReferences" (obj_or_nil (jget "metadata" (obj_or_nil last)))).

  (* an owned object that differs: ApplyUpdate succeeds on it (no type clash), the
     C05 hypotheses hold for (desired, object, last applied), its annotations are
     strings, its last-applied record does not mention ownerReferences (so the
     update keeps the controller reference: update_keeps_field) and the updated
     labels still match the selector *)
  Definition upd_okb (x : json) : bool :=
    match x with
    | JObj xm =>
        match apply_update xm dm, get_last_applied xm with
        | Ok n, Ok last =>
            meta_objb x &&
            null_okb (JObj dm) x last && Hb (JObj dm) x last && wf_json x && wf_json last &&
            stringy_annots xm &&
            (last_keeps_refs last && sel_matches sel (get_labels (JObj n)))
        | _, _ => false
        end
    | _ => false
    end.

  Definition inv_owned (o : json) : bool := owned_okb o && (is_equal o || upd_okb o).

  Definition inv (w : cw) : bool := match w with None => true | Some o => inv_owned o end.

  (* the start: nothing, an owned object, or a matching orphan whose adoption gets a
     fresh resourceVersion and yields an owned object that meets the side conditions *)
  Definition start_okb (sv : srv) (w : cw) : bool :=
    match w with
    | None => true
    | Some o =>
        inv_owned o ||
        (orphan_okb o && negb (String.eqb (get_rv (adopted sv o)) (get_rv o)) && inv_owned (adopted sv o))
    end.

  Lemma inv_start sv w : inv w = true -> start_okb sv w = true.
  Proof. destruct w as [o|]; [|reflexivity]. cbn. intros ->. reflexivity. Qed.

  (* ---------------------------------------------------------------- *)
  (* hypotheses on the parent and the desired object                   *)
  (* ---------------------------------------------------------------- *)
  Hypothesis Hpar : is_deleting parent = false.
  Hypothesis Hself : self_wf (JObj dm) = true.
  Hypothesis Hwd : wf_json (JObj dm) = true.
  Hypothesis Hdok : desired_ok dm = true.
  Hypothesis Hlab : sel_matches sel (get_labels (JObj dm)) = true.
  Hypothesis Hdmo : meta_objb (JObj dm) = true.
  Variable m : cmethod.
  Hypothesis Hm : cm_of (meth c kc) = Some m.

  Lemma Hnsf : no_server_fields dm = true.
  Proof. now apply andb_prop in Hdok as [H _]. Qed.

  Lemma Hdof : desired_of dm = dm.
  Proof. apply andb_prop in Hdok as [_ H]. exact (nullify_clean dm H). Qed.

  Lemma owned_okb_ext o o' :
    mget o' "ownerReferences" = mget o "ownerReferences" ->
    mget o' "labels" = mget o "labels" ->
    mget o' "deletionTimestamp" = mget o "deletionTimestamp" ->
    owned_okb o' = owned_okb o.
  Proof.
    unfold owned_okb, controlled_by, controller_of, get_owner_refs, get_labels, string_map_at,
      is_deleting, nested_string, mget.
    intros H1 H2 H3. rewrite H1, H2, H3. reflexivity.
  Qed.

  Lemma owned_okb_set_meta g v o :
    String.eqb "ownerReferences" g = false -> String.eqb "labels" g = false ->
    String.eqb "deletionTimestamp" g = false ->
    owned_okb (set_meta g v o) = owned_okb o.
  Proof. intros H1 H2 H3. apply owned_okb_ext; now apply mget_set_meta. Qed.

  Lemma owned_okb_bump rv gen o : owned_okb (server_bump rv gen o) = owned_okb o.
  Proof. unfold server_bump. rewrite !owned_okb_set_meta; reflexivity. Qed.

  Lemma owned_okb_assign uid rv ts gen o : owned_okb (server_assign uid rv ts gen o) = owned_okb o.
  Proof. unfold server_assign. rewrite !owned_okb_set_meta; reflexivity. Qed.

  Lemma stable_is_equal x : stable dm x -> is_equal (JObj x) = true.
  Proof.
    intros H. unfold is_equal. cbn [obj_map]. rewrite (stable_apply_update _ _ H).
    apply jeqb_refl. apply H.
  Qed.

  (* a server-owned metadata field is missing in the desired object *)
  Lemma desired_field_missing f : In f server_meta_fields -> mget (JObj dm) f = NMissing.
  Proof.
    intros Hf. unfold mget. cbn [obj_map]. rewrite nested_get2.
    destruct (no_server_fields_inv _ Hnsf) as (_ & Hmeta).
    destruct (alookup "metadata" dm) as [v|]; [|reflexivity].
    destruct v as [| | | | | | |dmeta]; try contradiction.
    destruct (alookup f dmeta) as [fv|] eqn:E; [|reflexivity].
    apply alookup_In in E. destruct (Hmeta f fv E) as [H1 H2].
    destruct Hf as [<-|Hf]; [now elim H1|now elim H2].
  Qed.

  (* ---------------------------------------------------------------- *)
  (* create                                                            *)
  (* ---------------------------------------------------------------- *)
  Definition create_refs : list oref :=
    get_owner_refs (JObj (set_last_applied dm (JObj dm))) ++
    [controller_ref (get_api_version parent) (get_kind parent) (get_name parent) (get_uid parent)].
  Definition create_b : json := set_owner_refs (JObj (set_last_applied dm (JObj dm))) create_refs.

  Lemma create_decision : child_decision c kc parent None (JObj dm) = ActCreate create_b.
  Proof. reflexivity. Qed.

  Lemma d1_field f : String.eqb f "annotations" = false ->
    mget (JObj (set_last_applied dm (JObj dm))) f = mget (JObj dm) f.
  Proof.
    intros Hf. unfold mget. cbn [obj_map].
    exact (set_last_applied_fields dm (JObj dm) f (no_server_fields_meta_ok _ Hnsf) Hf).
  Qed.

  Lemma created_stable_stored uid rv ts gen :
    exists x, server_assign uid rv ts gen create_b = JObj x /\ stable dm x /\
              owned_okb (JObj x) = true.
  Proof.
    destruct (created_stable dm Hself Hwd Hdok) as (Hd & Hst).
    assert (Hwd' : wf_json (JObj (desired_of dm)) = true) by now rewrite Hd.
    assert (Hnsf' : no_server_fields (desired_of dm) = true) by (rewrite Hd; exact Hnsf).
    assert (Hown : owned_okb create_b = true).
    { unfold create_b, create_refs.
      assert (Hrefs : get_owner_refs (JObj (set_last_applied dm (JObj dm))) = []).
      { unfold get_owner_refs. fold (mget (JObj (set_last_applied dm (JObj dm))) "ownerReferences").
        rewrite d1_field by reflexivity.
        rewrite desired_field_missing by (now left). reflexivity. }
      rewrite Hrefs. cbn [app].
      destruct Hst as (_ & _ & mmeta & ann & Hmeta & _).
      unfold owned_okb. apply andb_true_intro. split; [apply andb_true_intro; split|].
      - unfold set_owner_refs.
        destruct (nested_set _ _ _) as [m'|] eqn:E.
        + unfold controlled_by, controller_of. rewrite (get_owner_refs_set _ _ _ E).
          cbn [find controller_ref or_controller or_uid]. apply eqb_refl'.
        + rewrite nested_set2, Hmeta in E. discriminate.
      - unfold get_labels, string_map_at.
        fold (mget (set_owner_refs (JObj (set_last_applied dm (JObj dm)))
                      [controller_ref (get_api_version parent) (get_kind parent) (get_name parent) (get_uid parent)]) "labels").
        rewrite mget_set_owner_refs by reflexivity. rewrite d1_field by reflexivity.
        exact Hlab.
      - unfold is_deleting, nested_string.
        fold (mget (set_owner_refs (JObj (set_last_applied dm (JObj dm)))
                      [controller_ref (get_api_version parent) (get_kind parent) (get_name parent) (get_uid parent)]) "deletionTimestamp").
        rewrite mget_set_owner_refs by reflexivity. rewrite d1_field by reflexivity.
        rewrite desired_field_missing; [reflexivity|]. apply in_server_fields. reflexivity. }
    rewrite <- (owned_okb_assign uid rv ts gen) in Hown.
    unfold create_b in *.
    change (set_owner_refs (JObj (set_last_applied dm (JObj dm))) create_refs)
      with (set_meta "ownerReferences" (JArr (map json_of_oref create_refs)) (JObj (set_last_applied dm (JObj dm)))) in *.
    destruct (stable_set_meta_obj dm _ "ownerReferences" (JArr (map json_of_oref create_refs)) Hst Hwd' Hnsf')
      as (m0 & E0 & Hst0); [apply in_server_fields; reflexivity|apply wf_orefs|].
    rewrite E0 in *. unfold server_assign in *.
    destruct (stable_set_meta_obj dm m0 "uid" (JStr uid) Hst0 Hwd' Hnsf') as (m1 & E1 & Hst1);
      [apply in_server_fields; reflexivity|reflexivity|]. rewrite E1 in *.
    destruct (stable_set_meta_obj dm m1 "resourceVersion" (JStr rv) Hst1 Hwd' Hnsf') as (m2 & E2 & Hst2);
      [apply in_server_fields; reflexivity|reflexivity|]. rewrite E2 in *.
    destruct (stable_set_meta_obj dm m2 "creationTimestamp" (JStr ts) Hst2 Hwd' Hnsf') as (m3 & E3 & Hst3);
      [apply in_server_fields; reflexivity|reflexivity|]. rewrite E3 in *.
    destruct (stable_set_meta_obj dm m3 "generation" (JInt gen) Hst3 Hwd' Hnsf') as (m4 & E4 & Hst4);
      [apply in_server_fields; reflexivity|reflexivity|]. rewrite E4 in *.
    exists m4. auto.
  Qed.

  (* ---------------------------------------------------------------- *)
  (* update                                                            *)
  (* ---------------------------------------------------------------- *)
  Lemma upd_okb_inv x : upd_okb x = true ->
    exists xm n last om,
      x = JObj xm /\ apply_update xm dm = Ok n /\ get_last_applied xm = Ok last /\
      alookup "metadata" xm = Some (JObj om) /\
      null_okb (JObj dm) x last = true /\ Hb (JObj dm) x last = true /\
      wf_json x = true /\ wf_json last = true /\ stringy_annots xm = true /\
      last_keeps_refs last = true /\ sel_matches sel (get_labels (JObj n)) = true.
  Proof.
    unfold upd_okb. destruct x as [| | | | | | |xm]; try discriminate.
    destruct (apply_update xm dm) as [n| |] eqn:Hap; try discriminate.
    destruct (get_last_applied xm) as [last| |] eqn:Hl; try discriminate.
    intros H.
    apply andb_prop in H as [H H7]. apply andb_prop in H as [H H6]. apply andb_prop in H as [H H5].
    apply andb_prop in H as [H H4]. apply andb_prop in H as [H H3]. apply andb_prop in H as [H1 H2].
    unfold meta_objb in H1. cbn [obj_map] in H1.
    destruct (alookup "metadata" xm) as [mv|] eqn:Em; try discriminate.
    destruct mv as [| | | | | | |om]; try discriminate.
    apply andb_prop in H7 as [H7 H8].
    exists xm, n, last, om. repeat split; assumption.
  Qed.

  Lemma controlled_by_ext o o' u :
    mget o' "ownerReferences" = mget o "ownerReferences" -> controlled_by o' u = controlled_by o u.
  Proof.
    unfold controlled_by, controller_of, get_owner_refs, mget. intros H. now rewrite H.
  Qed.

  Lemma is_deleting_ext o o' :
    mget o' "deletionTimestamp" = mget o "deletionTimestamp" -> is_deleting o' = is_deleting o.
  Proof. unfold is_deleting, nested_string, mget. intros H. now rewrite H. Qed.

  (* the update keeps the claim *)
  Lemma update_keeps_claim xm n om last :
    apply_update xm dm = Ok n -> alookup "metadata" xm = Some (JObj om) ->
    get_last_applied xm = Ok last -> last_keeps_refs last = true ->
    sel_matches sel (get_labels (JObj n)) = true ->
    owned_okb (JObj xm) = true -> owned_okb (JObj n) = true.
  Proof.
    intros Hap Hom Hl Hkr Hsel Ho.
    unfold owned_okb in Ho. apply andb_prop in Ho as [Ho H3]. apply andb_prop in Ho as [H1 _].
    unfold meta_objb in Hdmo. cbn [obj_map] in Hdmo.
    destruct (alookup "metadata" dm) as [mv|] eqn:Edm; try discriminate.
    destruct mv as [| | | | | | |dmeta]; try discriminate.
    assert (Hno : ahas "ownerReferences" dmeta = false).
    { pose proof Hnsf as H. unfold no_server_fields in H. rewrite Edm in H.
      apply andb_prop in H as [_ H]. cbn [forallb] in H. apply andb_prop in H as [H _].
      now apply Bool.negb_true_iff in H. }
    pose proof Hdof as Hd. unfold desired_of in Hd.
    assert (Hrefs : mget (JObj n) "ownerReferences" = mget (JObj xm) "ownerReferences").
    { apply (update_keeps_field xm dm n om dmeta last "ownerReferences" Hap Hom Hl).
      - rewrite Hd. exact (wf_obj_nodup _ Hwd).
      - now rewrite Hd.
      - exact Hno.
      - now apply Bool.negb_true_iff in Hkr.
      - intros H. apply mem_str_In in H. vm_compute in H. discriminate.
      - discriminate. }
    destruct (apply_update_meta_obj _ _ _ _ Hap Hom) as (nmeta & Hn).
    assert (Hin : In "deletionTimestamp" object_meta_system_fields) by (apply mem_str_In; reflexivity).
    destruct (apply_update_system_fields _ _ _ _ _ Hap Hn Hin) as (Hdt & _).
    unfold owned_okb. rewrite (controlled_by_ext _ _ _ Hrefs), H1, Hsel.
    rewrite (is_deleting_ext (JObj xm) (JObj n) Hdt), H3. reflexivity.
  Qed.

  Lemma apply_update_rv o n :
    apply_update (obj_map o) dm = Ok n -> meta_objb o = true -> get_rv (JObj n) = get_rv o.
  Proof.
    intros Hap Hmo. unfold meta_objb in Hmo.
    destruct (alookup "metadata" (obj_map o)) as [mv|] eqn:Em; try discriminate.
    destruct mv as [| | | | | | |om]; try discriminate.
    destruct (apply_update_meta_obj _ _ _ _ Hap Em) as (nmeta & Hn).
    assert (Hin : In "resourceVersion" object_meta_system_fields) by (apply mem_str_In; reflexivity).
    destruct (apply_update_system_fields _ _ _ _ _ Hap Hn Hin) as (Heq & _).
    unfold get_rv, nested_string. cbn [obj_map]. now rewrite Heq.
  Qed.

  Lemma updated_stable_stored x rv gen : upd_okb x = true -> owned_okb x = true ->
    exists n y, apply_update (obj_map x) dm = Ok n /\ get_rv (JObj n) = get_rv x /\
                server_bump rv gen (JObj n) = JObj y /\ stable dm y /\ owned_okb (JObj y) = true.
  Proof.
    intros Hu Hox. pose proof Hu as Hu'.
    apply upd_okb_inv in Hu' as (xm & n & last & om & -> & Hap & Hl & Hom & Hnull & HHb & Hwx & Hwl & Hsa & Hkr & Hsel).
    pose proof (update_keeps_claim xm n om last Hap Hom Hl Hkr Hsel Hox) as Hown.
    exists n.
    assert (Hst : stable dm n).
    { pose proof (update_result_stable xm dm n om last) as H. rewrite Hdof in H.
      apply H; assumption. }
    assert (Hwd' : wf_json (JObj (desired_of dm)) = true) by now rewrite Hdof.
    assert (Hnsf' : no_server_fields (desired_of dm) = true) by (rewrite Hdof; exact Hnsf).
    rewrite <- (owned_okb_bump rv gen) in Hown. unfold server_bump in *.
    destruct (stable_set_meta_obj dm n "resourceVersion" (JStr rv) Hst Hwd' Hnsf') as (m1 & E1 & Hst1);
      [apply in_server_fields; reflexivity|reflexivity|]. rewrite E1 in *.
    destruct (stable_set_meta_obj dm m1 "generation" (JInt gen) Hst1 Hwd' Hnsf') as (m2 & E2 & Hst2);
      [apply in_server_fields; reflexivity|reflexivity|]. rewrite E2 in *.
    exists m2. split; [exact Hap|]. split; [|auto].
    apply apply_update_rv; [exact Hap|]. unfold meta_objb. cbn [obj_map]. now rewrite Hom.
  Qed.

  (* ---------------------------------------------------------------- *)
  (* the steps                                                         *)
  (* ---------------------------------------------------------------- *)
  Lemma owned_okb_inv o : owned_okb o = true ->
    controlled_by o (get_uid parent) = true /\ sel_matches sel (get_labels o) = true /\ is_deleting o = false.
  Proof.
    unfold owned_okb. intros H. apply andb_prop in H as [H H3]. apply andb_prop in H as [H1 H2].
    apply Bool.negb_true_iff in H3. auto.
  Qed.

  Lemma meth_cases :
    (m = MOnDelete /\ meth c kc = method_on_delete) \/
    (m = MRecreate /\ meth c kc = method_recreate) \/
    (m = MInPlace /\ meth c kc = method_in_place).
  Proof.
    unfold cm_of in Hm.
    destruct (String.eqb (meth c kc) method_on_delete) eqn:E1.
    { apply String.eqb_eq in E1. left. split; congruence. }
    destruct (String.eqb (meth c kc) method_recreate) eqn:E2.
    { apply String.eqb_eq in E2. right. left. split; congruence. }
    destruct (String.eqb (meth c kc) method_in_place) eqn:E3; [|discriminate].
    apply String.eqb_eq in E3. right. right. split; congruence.
  Qed.

  Lemma owned_claim o : owned_okb o = true ->
    claim_decision (get_uid parent) (is_deleting parent) sel o = ClKeep.
  Proof. intros H. apply owned_okb_inv in H as (H1 & H2 & _). now apply claim_ours_match. Qed.

  (* an owned, equal object: the sync leaves it alone *)
  Lemma owned_equal_step sv o :
    owned_okb o = true -> is_equal o = true ->
    child_decision c kc parent (Some o) (JObj dm) = ActNone /\ child_sync sv (Some o) = Some o.
  Proof.
    intros Ho He. unfold is_equal in He.
    destruct (apply_update (obj_map o) dm) as [n| |] eqn:Hap; try discriminate.
    assert (Hd : child_decision c kc parent (Some o) (JObj dm) = ActNone).
    { apply (C06_equal_no_write c kc parent o (JObj dm) n); [exact Hap|exact He]. }
    split; [exact Hd|]. unfold child_sync. rewrite (owned_claim o Ho). unfold manage. now rewrite Hd.
  Qed.

  (* an owned object that differs *)
  Lemma owned_differs_step sv o :
    owned_okb o = true -> is_equal o = false -> upd_okb o = true ->
    match m with
    | MOnDelete => child_sync sv (Some o) = Some o
    | MRecreate => child_sync sv (Some o) = None
    | MInPlace => exists y, child_sync sv (Some o) = Some (JObj y) /\ stable dm y /\ owned_okb (JObj y) = true
    end.
  Proof.
    intros Ho He Hu.
    destruct (updated_stable_stored o (sv_rv sv) (sv_gen sv) Hu Ho) as (n & y & Hap & Hrv & Eb & Hst & Hown).
    unfold is_equal in He. rewrite Hap in He.
    destruct (owned_okb_inv o Ho) as (_ & _ & Hdel).
    unfold child_sync. rewrite (owned_claim o Ho). unfold manage.
    rewrite child_decision_some. cbn [obj_map]. rewrite Hap, He, Hdel.
    destruct meth_cases as [[-> Hme]|[[-> Hme]|[-> Hme]]]; rewrite Hme.
    - rewrite verb_on_delete. reflexivity.
    - rewrite verb_recreate. unfold srv_delete. now rewrite eqb_refl'.
    - rewrite verb_in_place. unfold srv_put. rewrite Hrv, eqb_refl', Eb. eauto.
  Qed.

  Lemma abs_owned o : owned_okb o = true ->
    abs (Some o) = if is_equal o then OwnedEqual else OwnedDiffers.
  Proof. intros H. apply owned_okb_inv in H as (H & _). unfold abs. now rewrite H. Qed.

  Lemma inv_stable y : stable dm y -> owned_okb (JObj y) = true ->
    inv (Some (JObj y)) = true /\ abs (Some (JObj y)) = OwnedEqual.
  Proof.
    intros Hst Ho. pose proof (stable_is_equal y Hst) as He. split.
    - cbn [inv]. unfold inv_owned. now rewrite Ho, He.
    - rewrite (abs_owned _ Ho). now rewrite He.
  Qed.

  Lemma owned_step sv o :
    inv_owned o = true ->
    inv (child_sync sv (Some o)) = true /\ In (abs (child_sync sv (Some o))) (cnext m (abs (Some o))).
  Proof.
    intros Hi. pose proof Hi as Hi'. unfold inv_owned in Hi'. apply andb_prop in Hi' as [Ho Hc].
    rewrite (abs_owned o Ho).
    destruct (is_equal o) eqn:He.
    - destruct (owned_equal_step sv o Ho He) as (_ & ->). split; [exact Hi|].
      rewrite (abs_owned o Ho), He. destruct m; cbn; auto.
    - cbn [orb] in Hc. pose proof (owned_differs_step sv o Ho He Hc) as Hs.
      destruct meth_cases as [[Em _]|[[Em _]|[Em _]]]; rewrite Em in Hs |- *.
      + rewrite Hs. split; [exact Hi|]. rewrite (abs_owned o Ho), He. cbn; auto.
      + rewrite Hs. split; [reflexivity|]. cbn; auto.
      + destruct Hs as (y & -> & Hst & Hown). destruct (inv_stable y Hst Hown) as (H1 & H2).
        split; [exact H1|]. rewrite H2. cbn; auto.
  Qed.

  Lemma get_uid_adopted sv o : get_uid (adopted sv o) = get_uid o.
  Proof.
    rewrite !get_uid_mget. unfold adopted, server_bump, adopt_body.
    rewrite !mget_set_meta by reflexivity. now rewrite mget_set_owner_refs by reflexivity.
  Qed.

  Lemma get_rv_adopt_body o : get_rv (adopt_body o) = get_rv o.
  Proof. rewrite !get_rv_mget. unfold adopt_body. now rewrite mget_set_owner_refs by reflexivity. Qed.

  Lemma orphan_step sv o :
    orphan_okb o = true ->
    String.eqb (get_rv (adopted sv o)) (get_rv o) = false ->
    inv_owned (adopted sv o) = true ->
    abs (Some o) = OrphanMatching /\
    inv (child_sync sv (Some o)) = true /\
    In (abs (child_sync sv (Some o))) (cnext2 m OrphanMatching).
  Proof.
    intros Ho Hfresh Hia.
    unfold orphan_okb in Ho. apply andb_prop in Ho as [Ho Hmo]. apply andb_prop in Ho as [Ho Hdel].
    apply andb_prop in Ho as [Hc Hsel]. apply Bool.negb_true_iff in Hdel.
    destruct (controller_of o) as [r|] eqn:Ec; [discriminate|]. clear Hc.
    assert (Habs : abs (Some o) = OrphanMatching).
    { unfold abs, controlled_by. now rewrite Ec. }
    split; [exact Habs|].
    pose proof Hia as Hia'. unfold inv_owned in Hia'. apply andb_prop in Hia' as [Hoa _].
    assert (Hkeep : inv (Some (adopted sv o)) = true /\
                    In (abs (Some (adopted sv o))) (cnext2 m OrphanMatching)).
    { split; [exact Hia|]. rewrite (abs_owned _ Hoa).
      destruct m, (is_equal (adopted sv o)); cbn; auto. }
    unfold child_sync. rewrite Hpar.
    rewrite (claim_orphan_adopt (get_uid parent) sel o Ec Hsel Hdel).
    assert (Hput : srv_put sv (Some o) (adopt_body o) = Some (adopted sv o)).
    { unfold srv_put. now rewrite get_rv_adopt_body, eqb_refl'. }
    rewrite Hput. unfold manage.
    destruct (child_decision c kc parent (Some o) (JObj dm)) as [ | | |uid|body|body] eqn:Ed;
      try exact Hkeep.
    - (* delete of the cached object: only under Recreate; the uid still matches *)
      destruct (C06_delete_uid _ _ _ _ _ _ Ed) as (-> & _ & Hme).
      unfold srv_delete. rewrite get_uid_adopted, eqb_refl'.
      split; [reflexivity|].
      destruct meth_cases as [[Em Hm']|[[Em Hm']|[Em Hm']]]; rewrite Em.
      + exfalso. rewrite Hm' in Hme. destruct Hme as [H|H]; vm_compute in H; discriminate.
      + cbn. auto.
      + exfalso. rewrite Hm' in Hme. destruct Hme as [H|H]; vm_compute in H; discriminate.
    - (* update computed from the cached object: stale resourceVersion, 409 *)
      destruct (C06_update_body _ _ _ _ _ _ Ed) as (n0 & Hap0 & -> & _).
      cbn [obj_map] in Hap0.
      unfold srv_put. rewrite (apply_update_rv o n0 Hap0 Hmo).
      rewrite eqb_sym', Hfresh. exact Hkeep.
  Qed.

  Lemma absent_step sv :
    inv (child_sync sv None) = true /\ abs (child_sync sv None) = OwnedEqual.
  Proof.
    unfold child_sync. rewrite create_decision. unfold srv_create.
    destruct (created_stable_stored (sv_uid sv) (sv_rv sv) (sv_ts sv) (sv_gen sv)) as (x & -> & Hst & Hown).
    exact (inv_stable x Hst Hown).
  Qed.

  (* ---------------------------------------------------------------- *)
  (* 3. simulation                                                     *)
  (* ---------------------------------------------------------------- *)
  Theorem C01_child_simulation sv w :
    start_okb sv w = true ->
    inv (child_sync sv w) = true /\
    In (abs (child_sync sv w)) (cnext2 m (abs w)) /\
    ((m = MRecreate -> abs w <> OrphanMatching) -> In (abs (child_sync sv w)) (cnext m (abs w))).
  Proof.
    intros Hs.
    assert (H : inv (child_sync sv w) = true /\ In (abs (child_sync sv w)) (cnext2 m (abs w))).
    { destruct w as [o|].
      - cbn [start_okb] in Hs. apply Bool.orb_prop in Hs as [Hi|Horph].
        + destruct (owned_step sv o Hi) as (H1 & H2). split; [exact H1|]. now apply cnext_incl_cnext2.
        + apply andb_prop in Horph as [Horph Hia]. apply andb_prop in Horph as [Ho Hf].
          apply Bool.negb_true_iff in Hf.
          destruct (orphan_step sv o Ho Hf Hia) as (-> & H1 & H2). auto.
      - destruct (absent_step sv) as (H1 & H2). split; [exact H1|]. rewrite H2.
        destruct m; cbn; auto. }
    destruct H as (H1 & H2). split; [exact H1|]. split; [exact H2|].
    intros Hno. now rewrite <- (cnext2_is_cnext m (abs w) Hno).
  Qed.

  Lemma inv_not_orphan w : inv w = true -> abs w <> OrphanMatching.
  Proof.
    destruct w as [o|]; [|discriminate]. cbn [inv]. unfold inv_owned. intros H.
    apply andb_prop in H as [Ho _]. rewrite (abs_owned o Ho). destruct (is_equal o); discriminate.
  Qed.

  (* ---------------------------------------------------------------- *)
  (* 4. convergence                                                    *)
  (* ---------------------------------------------------------------- *)
  Lemma run_cons sv svs w : run_syncs (sv :: svs) w = run_syncs svs (child_sync sv w).
  Proof. reflexivity. Qed.

  (* a final state is a fixpoint of the sync, whatever the server would assign *)
  Theorem C01_child_final_quiescent sv w :
    inv w = true -> cfinal m (abs w) = true -> child_sync sv w = w.
  Proof.
    destruct w as [o|]; [|discriminate]. cbn [inv]. intros Hi Hf.
    pose proof Hi as Hi'. unfold inv_owned in Hi'. apply andb_prop in Hi' as [Ho Hc].
    rewrite (abs_owned o Ho) in Hf.
    destruct (is_equal o) eqn:He.
    - exact (proj2 (owned_equal_step sv o Ho He)).
    - cbn [orb] in Hc. pose proof (owned_differs_step sv o Ho He Hc) as Hs.
      destruct m; try discriminate. exact Hs.
  Qed.

  Lemma run_final svs : forall w,
    inv w = true -> cfinal m (abs w) = true -> run_syncs svs w = w.
  Proof.
    induction svs as [|sv svs IH]; intros w Hi Hf; [reflexivity|].
    rewrite run_cons, (C01_child_final_quiescent sv w Hi Hf). now apply IH.
  Qed.

  Theorem C01_child_converges_partial sv1 sv2 sv3 rest w :
    start_okb sv1 w = true ->
    let w' := run_syncs (sv1 :: sv2 :: sv3 :: rest) w in
    inv w' = true /\ cfinal m (abs w') = true /\ (forall sv, child_sync sv w' = w').
  Proof.
    intros Hs. cbv zeta.
    destruct (C01_child_simulation sv1 w Hs) as (Hi1 & Hn1 & _).
    destruct (C01_child_simulation sv2 _ (inv_start sv2 _ Hi1)) as (Hi2 & Hn2 & _).
    destruct (C01_child_simulation sv3 _ (inv_start sv3 _ Hi2)) as (Hi3 & Hn3 & _).
    pose proof (cnext2_three m _ _ _ _ Hn1 Hn2 Hn3) as Hf.
    rewrite !run_cons. rewrite (run_final rest _ Hi3 Hf).
    split; [exact Hi3|]. split; [exact Hf|]. intros sv. now apply C01_child_final_quiescent.
  Qed.

  (* what "final" means for the stored object: for the methods that permit
     changes the child exists, is kept by the claim, and ApplyUpdate of the
     desired object changes nothing *)
  Theorem C01_child_final_meaning w :
    inv w = true -> cfinal m (abs w) = true -> m <> MOnDelete ->
    exists o n,
      w = Some o /\
      claim_decision (get_uid parent) (is_deleting parent) sel o = ClKeep /\
      apply_update (obj_map o) dm = Ok n /\ jeqb (JObj n) o = true /\
      child_decision c kc parent (Some o) (JObj dm) = ActNone.
  Proof.
    destruct w as [o|]; [|discriminate]. cbn [inv]. intros Hi Hf Hne.
    pose proof Hi as Hi'. unfold inv_owned in Hi'. apply andb_prop in Hi' as [Ho _].
    rewrite (abs_owned o Ho) in Hf.
    destruct (is_equal o) eqn:He; [|destruct m; try discriminate; now elim Hne].
    pose proof He as He'. unfold is_equal in He'.
    destruct (apply_update (obj_map o) dm) as [n| |] eqn:Hap; try discriminate.
    exists o, n. split; [reflexivity|]. split; [exact (owned_claim o Ho)|].
    split; [first [exact Hap|reflexivity]|]. split; [exact He'|].
    exact (proj1 (owned_equal_step (mkSrv "" "" "" 0) o Ho He)).
  Qed.

  (* through the abstract automaton of C01_converges_per_child_partial: the
     abstraction of a run is a path of [cnext] (except for the orphan under
     Recreate, see the finding above) *)
  Theorem C01_child_run_in_automaton svs : forall w,
    match svs with [] => inv w | sv :: _ => start_okb sv w end = true ->
    (m = MRecreate -> abs w <> OrphanMatching) ->
    inv (run_syncs svs w) = true /\
    In (abs (run_syncs svs w)) (cafter m (List.length svs) (abs w)).
  Proof.
    induction svs as [|sv svs IH]; intros w Hs Hno.
    - cbn. auto.
    - destruct (C01_child_simulation sv w Hs) as (Hi1 & _ & Hn1). specialize (Hn1 Hno).
      rewrite run_cons.
      destruct (IH (child_sync sv w)) as (H1 & H2).
      + destruct svs as [|sv' svs']; [exact Hi1|exact (inv_start sv' _ Hi1)].
      + intros _. now apply inv_not_orphan.
      + split; [exact H1|]. cbn [List.length cafter]. apply in_flat_map. eauto.
  Qed.

  Corollary C01_child_converges_by_automaton svs w n :
    List.length svs = (3 + n)%nat ->
    match svs with [] => inv w | sv :: _ => start_okb sv w end = true ->
    (m = MRecreate -> abs w <> OrphanMatching) ->
    cfinal m (abs (run_syncs svs w)) = true.
  Proof.
    intros Hlen Hs Hno.
    destruct (C01_child_run_in_automaton svs w Hs Hno) as (_ & Hin). rewrite Hlen in Hin.
    exact (proj1 (proj2 C01_converges_per_child_partial) m (abs w) n _ Hin).
  Qed.

End Child.

(* ------------------------------------------------------------------ *)
(* a concrete child: hypotheses instantiated, three syncs run           *)
(* ------------------------------------------------------------------ *)
Definition ex_sel : selector := SelReqs [mkReq "controller-uid" OpIn ["pu"]].

(* an object of the desired name that matches the selector, has no controller,
   and differs from the desired child (replicas 5, a field of its own, an extra label) *)
Definition ex_orphan : json :=
  JObj [("apiVersion", JStr "v1"); ("kind", JStr "Thing");
        ("metadata", JObj [("name", JStr "t"); ("namespace", JStr "ns");
                           ("labels", JObj [("controller-uid", JStr "pu"); ("extra", JStr "x")]);
                           ("uid", JStr "ou"); ("resourceVersion", JStr "7"); ("generation", JInt 1)]);
        ("spec", JObj [("replicas", JInt 5); ("paused", JBool true)])].

Definition ex_sv (rv : string) : srv := mkSrv "cu" rv ex_ts 1.
Definition ex_dm : amap := obj_map (ex_d (JInt 1)).

(* the abstract states before and after each of three syncs *)
Definition ex_trace (method : string) (w : cw) : list cstate :=
  let st := child_sync (ex_cfg method) (ex_kc method) ex_parent ex_sel ex_dm in
  let w1 := st (ex_sv "8") w in let w2 := st (ex_sv "9") w1 in let w3 := st (ex_sv "10") w2 in
  map (abs ex_parent ex_dm) [w; w1; w2; w3].

Example C01_child_converges_example :
  (* the hypotheses of C01_child_converges_partial *)
  is_deleting ex_parent = false /\
  self_wf (JObj ex_dm) = true /\ wf_json (JObj ex_dm) = true /\ desired_ok ex_dm = true /\
  float_free (JObj ex_dm) = true /\
  make_selector (ex_cfg "InPlace") ex_parent = Some ex_sel /\
  sel_matches ex_sel (get_labels (JObj ex_dm)) = true /\
  meta_objb (JObj ex_dm) = true /\
  cm_of (meth (ex_cfg "InPlace") (ex_kc "InPlace")) = Some MInPlace /\
  cm_of (meth (ex_cfg "Recreate") (ex_kc "Recreate")) = Some MRecreate /\
  cm_of (meth (ex_cfg "OnDelete") (ex_kc "OnDelete")) = Some MOnDelete /\
  start_okb (ex_cfg "InPlace") ex_parent ex_sel ex_dm (ex_sv "8") (Some ex_orphan) = true /\
  start_okb (ex_cfg "InPlace") ex_parent ex_sel ex_dm (ex_sv "8") None = true /\
  (* the runs *)
  ex_trace "InPlace" (Some ex_orphan) = [OrphanMatching; OwnedDiffers; OwnedEqual; OwnedEqual] /\
  ex_trace "InPlace" None = [Absent; OwnedEqual; OwnedEqual; OwnedEqual] /\
  ex_trace "OnDelete" (Some ex_orphan) = [OrphanMatching; OwnedDiffers; OwnedDiffers; OwnedDiffers] /\
  (* the transition [cnext] lacks: adopted and deleted in one sync *)
  ex_trace "Recreate" (Some ex_orphan) = [OrphanMatching; Absent; OwnedEqual; OwnedEqual] /\
  ~ In Absent (cnext MRecreate OrphanMatching).
Proof.
  vm_compute. repeat split; try reflexivity. intros [H|[H|[]]]; discriminate.
Qed.

(* the theorem applied to the instance: after the three syncs the stored child is
   kept by the claim and ApplyUpdate changes nothing *)
Example C01_child_converges_instance :
  let w' := run_syncs (ex_cfg "InPlace") (ex_kc "InPlace") ex_parent ex_sel ex_dm
                      [ex_sv "8"; ex_sv "9"; ex_sv "10"] (Some ex_orphan) in
  cfinal MInPlace (abs ex_parent ex_dm w') = true /\
  forall sv, child_sync (ex_cfg "InPlace") (ex_kc "InPlace") ex_parent ex_sel ex_dm sv w' = w'.
Proof.
  assert (H : start_okb (ex_cfg "InPlace") ex_parent ex_sel ex_dm (ex_sv "8") (Some ex_orphan) = true)
    by (vm_compute; reflexivity).
  pose proof (C01_child_converges_partial (ex_cfg "InPlace") (ex_kc "InPlace") ex_parent ex_sel ex_dm
                eq_refl eq_refl eq_refl eq_refl eq_refl eq_refl MInPlace eq_refl
                (ex_sv "8") (ex_sv "9") (ex_sv "10") [] (Some ex_orphan) H) as (_ & H2 & H3).
  split; [exact H2|exact H3].
Qed.

Print Assumptions C01_child_simulation.
Print Assumptions C01_child_converges_partial.
Print Assumptions update_keeps_field.
Print Assumptions C01_child_final_quiescent.
Print Assumptions C01_child_final_meaning.
Print Assumptions C01_child_run_in_automaton.
Print Assumptions C01_child_converges_by_automaton.
Print Assumptions wire1_float_free.
