(* Round6Rolling.v — model counterparts of two rollout clauses of the check:
     C09 "a ControllerRevision is deleted only when it records no child that is still wanted"
         (Check/Composite_check.v C09_deleted_revision_was_empty)
     C07 "a status condition RolloutProgressing: updating <Kind> <name> names a child this sync
         really moved"   (Check/Composite_check.v C07_progress_is_real)
   Statements about Model/Rolling.v prune, manage_revisions, sync_revisions_rolling,
   sync_rolling_update. *)
From MC Require Import Generated.
From MC Require Import Model.Rolling.
From MC Require Import Proofs.C06Proofs Proofs.RollCalls Proofs.RollClaims Proofs.RollMoves Proofs.C08Termination.
From MC Require Proofs.C07Proofs Proofs.Round6Proofs.
From Coq Require Import Lia.
Local Open Scope string_scope.
Local Open Scope list_scope.

(* ================================================================== *)
(* R1 (C09).  Deleted revisions record no children                      *)
(* ================================================================== *)

Definition records_no_children (r : revision) : Prop :=
  forall ck, In ck (rev_children r) -> ck_names ck = [].

Lemma count_children_zero_inv r : count_children r = 0 -> records_no_children r.
Proof.
  unfold count_children, records_no_children.
  induction (rev_children r) as [|ck cs IH]; intros H ck' Hin; [destruct Hin|].
  cbn [fold_left] in H. rewrite count_children_acc in H.
  destruct Hin as [<-|Hin].
  - destruct (ck_names ck); [reflexivity|]. cbn [List.length] in H. lia.
  - apply IH; [lia|exact Hin].
Qed.

Lemma records_no_children_lists r : records_no_children r -> forall k, lists r k = false.
Proof.
  intros H [[g kd] n]. destruct (lists r (g, kd, n)) eqn:E; [|reflexivity].
  apply lists_cs_spec in E. destruct E as (ck & Hck & _ & _ & Hn). rewrite (H ck Hck) in Hn. destruct Hn.
Qed.

(* pruneParentRevisions drops exactly tail revisions whose children record is empty *)
Lemma prune_dropped_empty prs p :
  In p prs -> ~ In p (prune prs) -> count_children (pr_rev p) = 0.
Proof.
  destruct prs as [|l rest]; [intros []|]. cbn [prune]. intros [<-|Hin] Hnot.
  - exfalso. apply Hnot. now left.
  - destruct (Nat.eqb (count_children (pr_rev p)) 0) eqn:E; [apply Nat.eqb_eq, E|].
    exfalso. apply Hnot. right. apply filter_In. split; [exact Hin|]. rewrite E. reflexivity.
Qed.

(* the statement on the pure functions: a revision of the list (after this sync's claim
   bookkeeping and move) that no kept revision names — exactly those manage_revisions
   deletes — records no child *)
Theorem C09_deleted_revisions_record_no_children prs x :
  In x prs ->
  (forall d, In d (prune prs) -> rev_name (pr_rev d) <> rev_name (pr_rev x)) ->
  records_no_children (pr_rev x) /\ count_children (pr_rev x) = 0 /\ forall k, lists (pr_rev x) k = false.
Proof.
  intros Hin Hname.
  assert (Hc : count_children (pr_rev x) = 0).
  { apply (prune_dropped_empty prs x Hin). intros Hx. apply (Hname x Hx). reflexivity. }
  pose proof (count_children_zero_inv _ Hc) as Hr.
  split; [exact Hr|]. split; [exact Hc|]. apply records_no_children_lists, Hr.
Qed.

(* ... where the list is what the whole pure step returns *)
Corollary C09_deleted_revisions_record_no_children_step c pns observed prs prs2 st x :
  sync_rolling_update c pns observed prs = Some (prs2, st) ->
  In x prs2 ->
  (forall d, In d (prune prs2) -> rev_name (pr_rev d) <> rev_name (pr_rev x)) ->
  records_no_children (pr_rev x).
Proof. intros _ Hin Hname. apply (C09_deleted_revisions_record_no_children prs2 x Hin Hname). Qed.

(* the requests: every VDelete that manage_revisions issues for the pruned list names no
   kept revision; hence every revision of the step's result that carries the deleted name
   records no child *)
Definition delete_justified (prs2 : list prev) (cl : call) : Prop :=
  forall q, cl = CApi q -> q_verb q = VDelete ->
    q_res q = rev_res /\
    forall x, In x prs2 -> rev_name (pr_rev x) = q_name q -> records_no_children (pr_rev x).

Theorem C09_manage_revisions_deletes_only_emptied ns observed prs2 :
  all_calls (delete_justified prs2) (manage_revisions ns observed (map pr_rev (prune prs2))).
Proof.
  eapply all_calls_weaken; [|apply Round6Proofs.manage_revisions_requests].
  intros cl [(o & Ho & Hno & ->)|[(o & d & _ & _ & _ & _ & ->)|(d & _ & _ & ->)]] q [= <-] Hv;
    try discriminate Hv.
  split; [reflexivity|]. cbn [q_name]. intros x Hx Hn.
  apply (C09_deleted_revisions_record_no_children prs2 x Hx).
  intros d Hd Heq. apply (Hno (pr_rev d)); [apply in_map, Hd|congruence].
Qed.

(* the whole rolling hook phase, for every answer function: a VDelete is issued only by
   manage_revisions, for the pruned result of this sync's sync_rolling_update *)
Definition delete_justified_by_step (c : ccfg) (pns : string) (observed : umap) (cl : call) : Prop :=
  forall q, cl = CApi q -> q_verb q = VDelete ->
    exists prs1 prs2 st, sync_rolling_update c pns observed prs1 = Some (prs2, st) /\
                         delete_justified prs2 cl.

Lemma no_delete_justified c pns observed cl :
  (forall q, cl = CApi q -> q_verb q <> VDelete) -> delete_justified_by_step c pns observed cl.
Proof. intros H q Hq Hv. exfalso. eapply H; eauto. Qed.

Lemma revphase_api_no_delete_claims c k parent :
  all_calls (fun cl => forall q, cl = CApi q -> q_verb q <> VDelete) (claim_revisions c k parent).
Proof.
  unfold claim_revisions. destruct (revision_selector c parent) as [sel|]; [|apply AC_ret].
  cbv zeta. apply all_calls_bind.
  - apply all_calls_foldM. intros [[once claimed] failed] o _. unfold claim_rev_one. cbv zeta.
    assert (Hupd : forall f, all_calls (fun cl => forall q, cl = CApi q -> q_verb q <> VDelete)
                               (update_with_retries retry_steps (get_ns parent) (get_name o) (get_uid o) f)).
    { intros f. apply all_calls_update_with_retries.
      - intros q [= <-]. discriminate.
      - intros cur upd _ q [= <-]. discriminate. }
    destruct (claim_decision (get_uid parent) (is_deleting parent) sel o); try apply AC_ret.
    + apply all_calls_bind; [apply Hupd|]. intros r. destruct r as [x|e]; [apply AC_ret|]. destruct e; apply AC_ret.
    + apply all_calls_bind.
      * destruct once as [b|]; [apply AC_ret|]. apply all_calls_bind.
        -- unfold can_adopt_check. apply all_calls_bind.
           ++ apply all_calls_api. intros q [= <-]. discriminate.
           ++ intros g. destruct g; apply AC_ret.
        -- intros b. apply AC_ret.
      * intros [once' can]. destruct (negb can); [apply AC_ret|].
        apply all_calls_bind; [apply Hupd|]. intros r. destruct r as [x|e]; [apply AC_ret|]. destruct e; apply AC_ret.
  - intros [[once claimed] failed]. apply AC_ret.
Qed.

Lemma call_hooks_only_hooks c observed related prs :
  all_calls (fun cl => exists hk b, cl = CHook hk b) (call_hooks c observed related prs).
Proof.
  unfold call_hooks. apply all_calls_mapM. intros p _. apply all_calls_bind; [|intros r; apply AC_ret].
  unfold call_hook. cbv zeta.
  match goal with |- all_calls _ (if ?X then _ else _) => destruct X end; [apply AC_ret|].
  apply AC_do; [eexists; eexists; reflexivity|].
  intros a. destruct a as [o|e|body| |z]; try apply AC_ret. destruct (decode_composite body); apply AC_ret.
Qed.

Theorem C09_sync_revisions_rolling_deletes_only_emptied c k parent observed related :
  all_calls (delete_justified_by_step c (get_ns parent) observed)
            (sync_revisions_rolling c k parent observed related).
Proof.
  unfold sync_revisions_rolling.
  apply all_calls_bind.
  { eapply all_calls_weaken; [|apply revphase_api_no_delete_claims]. intros cl. apply no_delete_justified. }
  intros oc. destruct oc as [claimed|]; [|apply AC_ret]. cbv zeta.
  destruct (make_patch (obj_map parent) (field_paths c) []) as [latest_patch|]; [|apply AC_ret].
  match goal with |- all_calls _ (match ?X with _ => _ end) => destruct X as [[latest_rev olds]|] end;
    [|apply AC_ret].
  match goal with |- all_calls _ (match ?X with _ => _ end) => destruct X as [lrev|] end;
    [|apply AC_ret].
  apply all_calls_bind.
  { eapply all_calls_weaken; [|apply call_hooks_only_hooks]. intros cl (hk & b & ->).
    apply no_delete_justified. intros q Hq. discriminate. }
  intros answers.
  destruct (first_hook_failure answers) as [r|]; [destruct r; apply AC_ret|].
  match goal with |- all_calls _ (match ?X with _ => _ end) => destruct X as [[prs2 st]|] eqn:Hstep end;
    [|apply AC_ret].
  apply all_calls_bind.
  - eapply all_calls_weaken; [|apply C09_manage_revisions_deletes_only_emptied].
    intros cl Hj q Hq Hv. eexists. exists prs2, st. split; [exact Hstep|exact Hj].
  - intros ok. destruct (negb ok); [apply AC_ret|]. destruct (prune prs2); apply AC_ret.
Qed.

(* ================================================================== *)
(* R2 (C07).  RolloutProgressing names the child the sync moved         *)
(* ================================================================== *)

(* the observed child does not already equal the result of applying the desired object d:
   updating it is a real change (find_observed = None: the child is to be created) *)
Definition really_changes (pns : string) (observed : umap) (k : claim_key) (d : json) : Prop :=
  match k with (g, kd, n) =>
    match find_observed pns observed g kd n with
    | None => True
    | Some child =>
        match apply_update (obj_map child) (obj_map d) with
        | Ok n' => jeqb (JObj n') child = false
        | _ => True
        end
    end
  end.

(* one step of the first pass on the claims *)
Lemma fp_step_elem c pns observed prs cl av kd n d prs' cl' :
  fp_step c pns observed (prs, cl) (av, kd, n, d) = (prs', cl') ->
  (forall k, claimant cl' k = claimant cl k \/ claimant cl' k = Some 0) /\
  (is_rolling c (group_of av) kd = true ->
   claimant cl' (group_of av, kd, n) <> None /\
   (claimant cl' (group_of av, kd, n) <> Some 0 -> really_changes pns observed (group_of av, kd, n) d)).
Proof.
  intros Hs. unfold fp_step in Hs. cbv zeta in Hs. set (key := (group_of av, kd, n)) in *.
  assert (Hset : forall k, claimant (set_claim cl key 0) k = claimant cl k \/ claimant (set_claim cl key 0) k = Some 0).
  { intros k. destruct (ck_dec key k) as [<-|Hne]; [right; apply claimant_set_same|].
    left. apply claimant_set_other. apply ck_eqb_neq. exact Hne. }
  destruct (negb (is_rolling c (group_of av) kd)) eqn:Hroll.
  { injection Hs as <- <-. split; [auto|]. intros Hr. apply Bool.negb_true_iff in Hroll. congruence. }
  destruct (claimant cl key) as [j|] eqn:Hc.
  - destruct j as [|i].
    { injection Hs as <- <-. split; [auto|]. intros _. rewrite Hc. split; [discriminate|congruence]. }
    unfold really_changes, key.
    destruct (find_observed pns observed (group_of av) kd n) as [child|].
    2:{ injection Hs as <- <-. split; [auto|]. intros _. fold key. rewrite Hc. split; [discriminate|auto]. }
    destruct (apply_update (obj_map child) (obj_map d)) as [n'| |].
    2,3: (injection Hs as <- <-; split; [auto|]; intros _; fold key; rewrite Hc; split; [discriminate|auto]).
    destruct (jeqb (JObj n') child) eqn:Ej.
    + injection Hs as <- <-. split; [exact Hset|]. intros _. fold key. rewrite claimant_set_same.
      split; [discriminate|congruence].
    + injection Hs as <- <-. split; [auto|]. intros _. fold key. rewrite Hc. split; [discriminate|auto].
  - injection Hs as <- <-. split; [exact Hset|]. intros _. rewrite claimant_set_same. split; [discriminate|congruence].
Qed.

Lemma fp_fold_claims c pns observed k : forall l prs cl prs' cl',
  fold_left (fp_step c pns observed) l (prs, cl) = (prs', cl') ->
  (claimant cl' k = claimant cl k \/ claimant cl' k = Some 0) /\
  (forall av kd n d, In (av, kd, n, d) l -> k = (group_of av, kd, n) -> is_rolling c (group_of av) kd = true ->
     claimant cl' k <> None /\ (claimant cl' k <> Some 0 -> really_changes pns observed k d)).
Proof.
  induction l as [|e l IH]; intros prs cl prs' cl' Hf; cbn [fold_left] in Hf.
  - injection Hf as <- <-. split; [auto|]. intros av kd n d [].
  - destruct (fp_step c pns observed (prs, cl) e) as [prs1 cl1] eqn:Hs.
    destruct (IH _ _ _ _ Hf) as [F Hel]. destruct e as [[[av0 kd0] n0] d0].
    destruct (fp_step_elem _ _ _ _ _ _ _ _ _ _ _ Hs) as [S1 Hhere].
    split.
    + destruct F as [F|F]; [|auto]. rewrite F. apply S1.
    + intros av kd n d [Heq|Hin] Hk Hr; [|eapply Hel; eauto].
      injection Heq as -> -> -> ->. destruct (Hhere Hr) as [Hnn Hch]. rewrite <- Hk in Hnn, Hch.
      split.
      * destruct F as [F|F]; rewrite F; [exact Hnn|discriminate].
      * intros Hn0. apply Hch. intros H1. destruct F as [F|F]; congruence.
Qed.

(* reading the rollout condition *)
Lemma rollout_condition_progressing st name :
  cond_field (rollout_condition st name) "reason" = "RolloutProgressing" ->
  exists kd n, st = RProgressing kd n /\
               cond_field (rollout_condition st name) "message" = ("updating " ++ kd ++ " " ++ n)%string.
Proof.
  destruct st as [why|kd n|]; cbn [rollout_condition].
  - unfold condition_obj, cond_field. cbn. destruct (String.eqb why ""); cbn; discriminate.
  - intros _. exists kd, n. split; [reflexivity|]. reflexivity.
  - unfold condition_obj, cond_field. cbn. discriminate.
Qed.

Theorem C07_progressing_names_the_moved_child c pns observed latest rest l' rest' st cond :
  gk_unique_all (latest :: rest) = true -> children_desired pns latest = true ->
  sync_rolling_update c pns observed (latest :: rest) = Some (l' :: rest', st) ->
  status_condition (JObj [("status", hr_status (pr_resp l'))]) "Updated" = Some cond ->
  cond_field cond "reason" = "RolloutProgressing" ->
  exists o prs1 cl1 qA restA clA i older,
    (* the inputs of the move: the claims pass and the first pass of this sync *)
    sync_revision_claims c (pr_desired latest) 0 (latest :: rest) [] = (prs1, cl1) /\
    first_pass c pns observed prs1 cl1 = (qA :: restA, clA) /\
    (* the condition names the child the second pass selected *)
    In (Some o) (hr_children (pr_resp latest)) /\
    is_rolling c (group_of (get_api_version o)) (get_kind o) = true /\
    st = RProgressing (get_kind o) (relative_name pns o) /\
    cond_field cond "message" = ("updating " ++ get_kind o ++ " " ++ relative_name pns o)%string /\
    second_pass c pns observed (qA :: restA) clA =
      (addf (key_of pns o) qA :: map (remf (key_of pns o)) restA, st) /\
    (* before the move an older revision claimed and listed it, the latest did not *)
    claimant clA (key_of pns o) = Some (S i) /\
    nth_error (qA :: restA) (S i) = Some older /\ listsP older (key_of pns o) = true /\
    listsP qA (key_of pns o) = false /\
    (* after the move the latest revision lists it and no other revision does *)
    listsP l' (key_of pns o) = true /\
    (forall p, In p rest' -> listsP p (key_of pns o) = false) /\
    (* and the observed child is not already in the latest desired state *)
    (forall av d, In (av, get_kind o, relative_name pns o, d) (pr_desired latest) ->
                  group_of av = group_of (get_api_version o) ->
                  really_changes pns observed (key_of pns o) d).
Proof.
  intros Hgk Hcd Hsync Hcond Hreason.
  pose proof (proj2 (proj2 (proj2 C07Proofs.C07_condition)) _ _ _ _ _ _ _ Hsync) as Hc.
  rewrite Hc in Hcond. injection Hcond as <-.
  destruct (rollout_condition_progressing _ _ Hreason) as (kd & n & -> & Hmsg).
  unfold sync_rolling_update in Hsync.
  destruct (sync_revision_claims c (pr_desired latest) 0 (latest :: rest) []) as [prs1 cl1] eqn:Hcl.
  destruct (first_pass c pns observed prs1 cl1) as [prsA clA] eqn:Hf.
  destruct (second_pass c pns observed prsA clA) as [prs3 st3] eqn:Hs2.
  destruct prs3 as [|l3 rest3]; [discriminate|].
  destruct (set_condition (hr_status (pr_resp l3)) "Updated" (rollout_condition st3 (rev_name (pr_rev l3))))
    as [status'|]; [|discriminate].
  injection Hsync as <- <- ->.
  destruct (after_first_pass _ _ _ _ _ _ _ _ _ Hgk Hcl Hf)
    as (HinvA & HkeysA & qA & restA & -> & HdA & HrA & HmonoA).
  destruct (second_pass_cases _ _ _ _ _ _ _ _ Hs2)
    as [(Hst & _)|[(why & Hst & _)|(o & Hst & Ho & Hp & Heq)]]; try discriminate Hst.
  injection Hst as -> ->.
  assert (El3 : l3 = addf (key_of pns o) qA) by congruence.
  assert (Er3 : rest3 = map (remf (key_of pns o)) restA) by congruence.
  rewrite HrA in Ho. cbn [pend] in Hp. apply Bool.andb_true_iff in Hp. destruct Hp as [Hroll Hnc].
  (* the claims at the end of the first pass *)
  pose proof (cd_spec pns latest o Hcd Ho) as Hdes.
  assert (Hfold : exists rest1 latest1, prs1 = latest1 :: rest1 /\ pr_desired latest1 = pr_desired latest).
  { cbn [sync_revision_claims] in Hcl.
    destruct (claims_of_revision c (pr_desired latest) 0 (pr_rev latest) []) as [r1 cl1a].
    destruct (sync_revision_claims c (pr_desired latest) 1 rest cl1a) as [rest1 cl1b].
    injection Hcl as <- <-. eexists. eexists. split; reflexivity. }
  destruct Hfold as (rest1 & latest1 & -> & Hd1).
  pose proof Hf as Hf0. rewrite first_pass_eq, Hd1 in Hf0.
  destruct (fp_fold_claims c pns observed (key_of pns o) _ _ _ _ _ Hf0) as [_ Hel].
  assert (Hfind : exists av d, In (av, get_kind o, relative_name pns o, d) (pr_desired latest) /\
                               group_of av = group_of (get_api_version o)).
  { unfold find_desired in Hdes.
    match type of Hdes with context [find ?f ?l] => destruct (find f l) as [[[[a k0] n0] x]|] eqn:E end; [|congruence].
    apply find_some in E. destruct E as [Hin Hpp].
    apply Bool.andb_true_iff in Hpp. destruct Hpp as [Hpp H3]. apply Bool.andb_true_iff in Hpp.
    destruct Hpp as [H1 H2]. apply String.eqb_eq in H1, H2, H3. subst k0 n0. eauto. }
  destruct Hfind as (av0 & d0 & Hin0 & Hg0).
  assert (Hk0 : key_of pns o = (group_of av0, get_kind o, relative_name pns o)).
  { unfold key_of. rewrite Hg0. reflexivity. }
  assert (Hr0 : is_rolling c (group_of av0) (get_kind o) = true) by (rewrite Hg0; exact Hroll).
  destruct (Hel _ _ _ _ Hin0 Hk0 Hr0) as [Hnn _].
  assert (Hn0 : claimant clA (key_of pns o) <> Some 0).
  { intros H0. unfold key_of in Hnc, H0. rewrite H0 in Hnc. discriminate. }
  destruct (claimant clA (key_of pns o)) as [[|i]|] eqn:Hcla; [congruence| |congruence].
  destruct (iv_claim _ _ _ HinvA _ _ Hcla) as (older & Hold & Holdl).
  exists o, (latest1 :: rest1), cl1, qA, restA, clA, i, older.
  split; [reflexivity|]. split; [exact Hf|]. split; [exact Ho|]. split; [exact Hroll|].
  split; [reflexivity|]. split; [exact Hmsg|]. split; [rewrite Hs2, El3, Er3; reflexivity|].
  split; [exact Hcla|]. split; [exact Hold|]. split; [exact Holdl|].
  split.
  { destruct (listsP qA (key_of pns o)) eqn:Hl; [|reflexivity].
    rewrite (head_lists_claimed c _ _ _ _ _ HinvA HkeysA Hl) in Hcla. discriminate. }
  split; [rewrite El3; apply addf_lists_same|]. split.
  { intros p Hin. rewrite Er3 in Hin. apply in_map_iff in Hin. destruct Hin as (p0 & <- & Hp0).
    destruct (key_of pns o) as [[g kd] n]. unfold remf, listsP, set_rev. cbn [pr_rev].
    apply remove_child_same. apply (iv_simple _ _ _ HinvA). now right. }
  intros av d Hin Hg.
  assert (Hk : key_of pns o = (group_of av, get_kind o, relative_name pns o)) by (unfold key_of; rewrite Hg; reflexivity).
  assert (Hr : is_rolling c (group_of av) (get_kind o) = true) by (rewrite Hg; exact Hroll).
  destruct (Hel _ _ _ _ Hin Hk Hr) as [_ Hch]. apply Hch. discriminate.
Qed.

Print Assumptions C09_deleted_revisions_record_no_children.
Print Assumptions C09_manage_revisions_deletes_only_emptied.
Print Assumptions C09_sync_revisions_rolling_deletes_only_emptied.
Print Assumptions C07_progressing_names_the_moved_child.
