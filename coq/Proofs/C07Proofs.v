(* C07Proofs.v — property C07 of the rolling update
   (pkg/controller/composite/rolling_update.go):
   "one gated move per sync, in hook order, gated on health". *)
From MC Require Import Generated Model.Rolling Proofs.AssocLemmas Proofs.RollGate.
From Coq Require Import Lia.
Local Open Scope list_scope.

(* ================================================================== *)
(* generic list facts                                                   *)

Lemma find_split {A} (f : A -> bool) (l : list A) x :
  find f l = Some x ->
  exists l1 l2, l = l1 ++ x :: l2 /\ f x = true /\ forallb (fun y => negb (f y)) l1 = true.
Proof.
  induction l as [|a l IH]; intros Hf; [discriminate|].
  cbn [find] in Hf. destruct (f a) eqn:Ea.
  - inversion Hf; subst a. exists [], l. repeat split; auto.
  - destruct (IH Hf) as (l1 & l2 & Hl & Hx & Hall).
    exists (a :: l1), l2. subst l. repeat split; auto.
    cbn [forallb]. now rewrite Ea, Hall.
Qed.

Lemma first_some_none {A} (f : A -> option string) (l : list A) :
  first_some f l = None <-> forall x, In x l -> f x = None.
Proof.
  induction l as [|a l IH]; cbn [first_some].
  - split; [intros _ x []|reflexivity].
  - destruct (f a) eqn:Ea.
    + split; [discriminate|]. intros H. rewrite <- Ea. apply H. now left.
    + rewrite IH. split.
      * intros H x [Hx|Hx]; [now subst x|now apply H].
      * intros H x Hx. apply H. now right.
Qed.

Lemma fold_left_inv {A B} (f : A -> B -> A) (P : A -> Prop) (l : list B) :
  (forall a x, In x l -> P a -> P (f a x)) -> forall a, P a -> P (fold_left f l a).
Proof.
  induction l as [|x l IH]; intros Hstep a Ha; cbn [fold_left]; auto.
  apply IH.
  - intros a' x' Hin. apply Hstep. now right.
  - apply Hstep; auto. now left.
Qed.

Lemma update_nth_0 {A} (f : A -> A) (a : A) (l : list A) :
  update_nth 0 f (a :: l) = f a :: l.
Proof.
  unfold update_nth. cbn [Nat.eqb]. f_equal.
  assert (H : forall i l, (fix go (i : nat) (l : list A) {struct l} : list A :=
     match l with [] => [] | a0 :: l' => (if Nat.eqb i 0 then f a0 else a0) :: go (S i) l' end) (S i) l = l).
  { intros i l0; revert i; induction l0 as [|b l0 IH]; intros i; auto.
    cbn [Nat.eqb]. now rewrite IH. }
  apply H.
Qed.

Lemma map_id' {A} (l : list A) : map (fun p => p) l = l.
Proof. induction l as [|a l IH]; cbn [map]; congruence. Qed.

(* ================================================================== *)
(* 1. claims are a function of the key                                  *)

Lemma ck_eqb_eq a b : ck_eqb a b = true <-> a = b.
Proof.
  destruct a as [[g1 k1] n1], b as [[g2 k2] n2]. unfold ck_eqb.
  rewrite !andb_true_iff, !String.eqb_eq. split.
  - intros [[-> ->] ->]. reflexivity.
  - intros H. inversion H. auto.
Qed.

Lemma ck_eqb_refl a : ck_eqb a a = true.
Proof. now apply ck_eqb_eq. Qed.

Lemma ck_eqb_neq a b : ck_eqb a b = false <-> a <> b.
Proof.
  split.
  - intros H E. apply ck_eqb_eq in E. congruence.
  - intros H. destruct (ck_eqb a b) eqn:E; auto. apply ck_eqb_eq in E. contradiction.
Qed.

Lemma ck_eqb_sym a b : ck_eqb a b = ck_eqb b a.
Proof.
  destruct (ck_eqb a b) eqn:E1, (ck_eqb b a) eqn:E2; auto.
  - apply ck_eqb_eq in E1. subst b. now rewrite ck_eqb_refl in E2.
  - apply ck_eqb_eq in E2. subst b. now rewrite ck_eqb_refl in E1.
Qed.

Lemma claimant_none_existsb cl k :
  claimant cl k = None <-> existsb (fun p => ck_eqb (fst p) k) cl = false.
Proof.
  unfold claimant. induction cl as [|p cl IH]; cbn [find existsb].
  - tauto.
  - destruct (ck_eqb (fst p) k) eqn:E; cbn [orb].
    + split; discriminate.
    + exact IH.
Qed.

Lemma claimant_set_claim_same cl k i : claimant (set_claim cl k i) k = Some i.
Proof.
  unfold set_claim. destruct (existsb (fun p => ck_eqb (fst p) k) cl) eqn:Ex.
  - unfold claimant. induction cl as [|p cl IH]; [discriminate|].
    cbn [existsb] in Ex. cbn [map find].
    destruct (ck_eqb (fst p) k) eqn:E.
    + cbn [fst]. now rewrite ck_eqb_refl.
    + rewrite E. cbn [orb] in Ex. now apply IH.
  - unfold claimant. induction cl as [|p cl IH].
    + cbn [app find fst]. now rewrite ck_eqb_refl.
    + cbn [existsb] in Ex. apply orb_false_iff in Ex. destruct Ex as [E Ex].
      cbn [app find]. rewrite E. now apply IH.
Qed.

Lemma claimant_set_claim_other cl k k' i :
  ck_eqb k k' = false -> claimant (set_claim cl k i) k' = claimant cl k'.
Proof.
  intros Hne. unfold set_claim. destruct (existsb (fun p => ck_eqb (fst p) k) cl) eqn:Ex.
  - clear Ex. unfold claimant. induction cl as [|p cl IH]; auto.
    cbn [map find]. destruct (ck_eqb (fst p) k) eqn:E.
    + apply ck_eqb_eq in E. rewrite E. cbn [fst]. rewrite Hne.
      destruct (find (fun p0 => ck_eqb (fst p0) k') (map (fun p0 => if ck_eqb (fst p0) k then (k, i) else p0) cl));
        destruct (find (fun p0 => ck_eqb (fst p0) k') cl); congruence.
    + destruct (ck_eqb (fst p) k'); auto.
  - clear Ex. unfold claimant. induction cl as [|p cl IH].
    + cbn [app find fst]. now rewrite Hne.
    + cbn [app find]. destruct (ck_eqb (fst p) k'); auto.
Qed.

Theorem C07_claims_functional_set :
  forall cl k i,
    claimant (set_claim cl k i) k = Some i /\
    (forall k', ck_eqb k k' = false -> claimant (set_claim cl k i) k' = claimant cl k').
Proof.
  intros cl k i. split.
  - apply claimant_set_claim_same.
  - intros k'. apply claimant_set_claim_other.
Qed.

(* cl' extends cl by claims whose index lies in [lo, hi) *)
Definition grows (lo hi : nat) (cl cl' : claims) : Prop :=
  forall k, claimant cl' k = claimant cl k \/
            (claimant cl k = None /\ exists j, claimant cl' k = Some j /\ lo <= j < hi).

Lemma grows_refl lo hi cl : grows lo hi cl cl.
Proof. intros k. now left. Qed.

Lemma grows_weaken lo hi lo' hi' cl cl' :
  lo' <= lo -> hi <= hi' -> grows lo hi cl cl' -> grows lo' hi' cl cl'.
Proof.
  intros Hlo Hhi H k. destruct (H k) as [E|(E & j & Ej & Hj)]; [now left|right].
  split; auto. exists j. split; auto. lia.
Qed.

Lemma grows_trans lo hi a b c : grows lo hi a b -> grows lo hi b c -> grows lo hi a c.
Proof.
  intros Hab Hbc k. destruct (Hbc k) as [E|(E & j & Ej & Hj)].
  - rewrite E. apply Hab.
  - destruct (Hab k) as [E'|(E' & j' & Ej' & Hj')].
    + right. split; [congruence|]. exists j. auto.
    + congruence.
Qed.

Lemma grows_set_claim cl k i :
  claimant cl k = None -> grows i (S i) cl (set_claim cl k i).
Proof.
  intros Hn k'. destruct (ck_eqb k k') eqn:E.
  - apply ck_eqb_eq in E. subst k'. right. split; auto.
    exists i. split; [apply claimant_set_claim_same|lia].
  - left. now apply claimant_set_claim_other.
Qed.

Lemma claims_of_revision_grows c ds i r cl :
  grows i (S i) cl (snd (claims_of_revision c ds i r cl)).
Proof.
  unfold claims_of_revision.
  match goal with |- context [fold_left ?f ?l ?a] => set (F := f); set (res := fold_left F l a) end.
  assert (H : grows i (S i) cl (snd res)).
  { unfold res. apply fold_left_inv with (P := fun acc => grows i (S i) cl (snd acc)).
    2: apply grows_refl.
    intros [gs cl0] ck _ Hacc. cbn [snd] in Hacc. unfold F.
    destruct (negb (is_rolling c (ck_group ck) (ck_kind ck))) eqn:Er; [exact Hacc|].
    match goal with |- context [fold_left ?f ?l ?a] => set (G := f); set (res2 := fold_left G l a) end.
    assert (H2 : grows i (S i) cl (snd res2)).
    { unfold res2. apply fold_left_inv with (P := fun a => grows i (S i) cl (snd a)).
      2: exact Hacc.
      intros [n cla] name _ Ha. cbn [snd] in Ha. unfold G.
      destruct (find_desired ds (ck_group ck) (ck_kind ck) name) eqn:Ed; [|exact Ha].
      destruct (claimant cla (ck_group ck, ck_kind ck, name)) eqn:Ec; [exact Ha|].
      cbn [snd]. eapply grows_trans; [exact Ha|]. now apply grows_set_claim. }
    destruct res2 as [kept cl1]. cbn [snd] in H2. destruct kept; exact H2. }
  destruct res as [groups cl']. exact H.
Qed.

Lemma sync_revision_claims_grows c ds prs :
  forall i cl, grows i (i + List.length prs) cl (snd (sync_revision_claims c ds i prs cl)).
Proof.
  induction prs as [|p rest IH]; intros i cl.
  - cbn [sync_revision_claims snd]. apply grows_refl.
  - cbn [sync_revision_claims List.length].
    pose proof (claims_of_revision_grows c ds i (pr_rev p) cl) as H1.
    destruct (claims_of_revision c ds i (pr_rev p) cl) as [r' cl'] eqn:E1. cbn [snd] in H1.
    pose proof (IH (S i) cl') as H2.
    destruct (sync_revision_claims c ds (S i) rest cl') as [rest' cl''] eqn:E2. cbn [snd] in *.
    eapply grows_trans.
    + eapply grows_weaken; [| |exact H1]; lia.
    + eapply grows_weaken; [| |exact H2]; lia.
Qed.

(* an existing claimant is never changed: the first revision in the list
   (the latest is index 0) wins; new claimants are indices of the list *)
Theorem C07_claims_functional :
  forall c ds i r prs cl,
    (forall k n, claimant (set_claim cl k n) k = Some n) /\
    (forall k k' n, ck_eqb k k' = false -> claimant (set_claim cl k n) k' = claimant cl k') /\
    (forall k j, claimant cl k = Some j ->
                 claimant (snd (claims_of_revision c ds i r cl)) k = Some j) /\
    (forall k j, claimant cl k = Some j ->
                 claimant (snd (sync_revision_claims c ds i prs cl)) k = Some j) /\
    (forall k j, claimant cl k = None ->
                 claimant (snd (claims_of_revision c ds i r cl)) k = Some j -> j = i) /\
    (forall k j, claimant cl k = None ->
                 claimant (snd (sync_revision_claims c ds i prs cl)) k = Some j ->
                 i <= j < i + List.length prs).
Proof.
  intros c ds i r prs cl. repeat apply conj.
  - intros k n. apply claimant_set_claim_same.
  - intros k k' n. apply claimant_set_claim_other.
  - intros k j Hk. destruct (claims_of_revision_grows c ds i r cl k) as [E|(E & _)]; congruence.
  - intros k j Hk. destruct (sync_revision_claims_grows c ds prs i cl k) as [E|(E & _)]; congruence.
  - intros k j Hn Hj. destruct (claims_of_revision_grows c ds i r cl k) as [E|(E & j' & Ej & Hr)].
    + congruence.
    + rewrite Ej in Hj. inversion Hj. lia.
  - intros k j Hn Hj. destruct (sync_revision_claims_grows c ds prs i cl k) as [E|(E & j' & Ej & Hr)].
    + congruence.
    + rewrite Ej in Hj. inversion Hj. lia.
Qed.

(* ================================================================== *)
(* 3./4. the second pass: at most one gated move, first in hook order   *)

(* the selection predicate of second_pass *)
Definition pending (c : ccfg) (pns : string) (cl : claims) (ch : option json) : bool :=
  match ch with
  | None => false
  | Some o =>
      let group := group_of (get_api_version o) in
      is_rolling c group (get_kind o) &&
      negb (match claimant cl (group, get_kind o, relative_name pns o) with
            | Some O => true | _ => false end)
  end.

Lemma second_pass_unfold c pns observed latest rest cl :
  second_pass c pns observed (latest :: rest) cl =
  match find (pending c pns cl) (hr_children (pr_resp latest)) with
  | Some (Some o) =>
      match should_continue_rolling c pns latest observed with
      | Some why => (latest :: rest, RWaiting why)
      | None =>
          (set_rev latest (add_child (pr_rev latest) (group_of (get_api_version o)) (get_kind o) (relative_name pns o))
             :: map (fun p => set_rev p (remove_child (pr_rev p) (group_of (get_api_version o)) (get_kind o) (relative_name pns o))) rest,
           RProgressing (get_kind o) (relative_name pns o))
      end
  | _ => (latest :: rest, RComplete)
  end.
Proof.
  unfold second_pass. fold (pending c pns cl).
  destruct (find (pending c pns cl) (hr_children (pr_resp latest))) as [[o|]|]; auto.
  destruct (should_continue_rolling c pns latest observed); auto.
  rewrite map_id', update_nth_0. reflexivity.
Qed.

Theorem C07_at_most_one_gated_move :
  forall c pns observed prs cl prs' st,
    second_pass c pns observed prs cl = (prs', st) ->
    match st with
    | RWaiting _ | RComplete => prs' = prs
    | RProgressing kind name =>
        exists latest rest o,
          prs = latest :: rest /\
          In (Some o) (hr_children (pr_resp latest)) /\
          kind = get_kind o /\
          name = relative_name pns o /\
          let group := group_of (get_api_version o) in
          prs' = set_rev latest (add_child (pr_rev latest) group kind name)
                 :: map (fun p => set_rev p (remove_child (pr_rev p) group kind name)) rest
    end.
Proof.
  intros c pns observed prs cl prs' st Hsp.
  destruct prs as [|latest rest].
  - cbn [second_pass] in Hsp. inversion Hsp. reflexivity.
  - rewrite second_pass_unfold in Hsp.
    destruct (find (pending c pns cl) (hr_children (pr_resp latest))) as [[o|]|] eqn:Ef.
    + destruct (should_continue_rolling c pns latest observed) eqn:Eg.
      * inversion Hsp. reflexivity.
      * inversion Hsp. subst prs' st. exists latest, rest, o.
        apply find_some in Ef. destruct Ef as [Hin _].
        cbv zeta. repeat apply conj; auto.
    + inversion Hsp. reflexivity.
    + inversion Hsp. reflexivity.
Qed.

Theorem C07_first_in_hook_order :
  forall c pns observed prs cl prs' kind name,
    second_pass c pns observed prs cl = (prs', RProgressing kind name) ->
    exists latest rest l1 l2 o,
      prs = latest :: rest /\
      hr_children (pr_resp latest) = l1 ++ Some o :: l2 /\
      kind = get_kind o /\ name = relative_name pns o /\
      pending c pns cl (Some o) = true /\
      forallb (fun y => negb (pending c pns cl y)) l1 = true.
Proof.
  intros c pns observed prs cl prs' kind name Hsp.
  destruct prs as [|latest rest].
  - cbn [second_pass] in Hsp. inversion Hsp.
  - rewrite second_pass_unfold in Hsp.
    destruct (find (pending c pns cl) (hr_children (pr_resp latest))) as [[o|]|] eqn:Ef.
    + destruct (should_continue_rolling c pns latest observed) eqn:Eg; [inversion Hsp|].
      inversion Hsp. subst.
      destruct (find_split _ _ _ Ef) as (l1 & l2 & Hl & Hx & Hall).
      exists latest, rest, l1, l2, o. repeat apply conj; auto.
    + inversion Hsp.
    + inversion Hsp.
Qed.

(* every element before the chosen one is a null entry, a child of a kind that
   is not rolling, or a child already claimed by the latest revision *)
Corollary C07_first_in_hook_order_In :
  forall c pns observed prs cl prs' kind name,
    second_pass c pns observed prs cl = (prs', RProgressing kind name) ->
    exists latest rest l1 l2 o,
      prs = latest :: rest /\
      hr_children (pr_resp latest) = l1 ++ Some o :: l2 /\
      kind = get_kind o /\ name = relative_name pns o /\
      is_rolling c (group_of (get_api_version o)) (get_kind o) = true /\
      claimant cl (group_of (get_api_version o), get_kind o, relative_name pns o) <> Some 0 /\
      forall o', In (Some o') l1 ->
        is_rolling c (group_of (get_api_version o')) (get_kind o') = false \/
        claimant cl (group_of (get_api_version o'), get_kind o', relative_name pns o') = Some 0.
Proof.
  intros c pns observed prs cl prs' kind name Hsp.
  destruct (C07_first_in_hook_order _ _ _ _ _ _ _ _ Hsp)
    as (latest & rest & l1 & l2 & o & Hp & Hl & Hk & Hn & Hpend & Hall).
  exists latest, rest, l1, l2, o. repeat apply conj; auto.
  - unfold pending in Hpend. cbv zeta in Hpend. apply andb_true_iff in Hpend. tauto.
  - unfold pending in Hpend. cbv zeta in Hpend. apply andb_true_iff in Hpend.
    destruct Hpend as [_ Hc]. intros E. rewrite E in Hc. discriminate.
  - intros o' Hin. rewrite forallb_forall in Hall. specialize (Hall _ Hin).
    unfold pending in Hall. cbv zeta in Hall. apply negb_true_iff in Hall.
    apply andb_false_iff in Hall. destruct Hall as [Hr|Hc]; [now left|right].
    apply negb_false_iff in Hc.
    destruct (claimant cl (group_of (get_api_version o'), get_kind o', relative_name pns o')) as [[|n]|];
      try discriminate. reflexivity.
Qed.

(* ================================================================== *)
(* 6. the "Updated" condition                                           *)

(* "it is a condition object of type ty" — the test used by set_condition and status_condition *)
Definition is_cond (ty : string) (it : json) : bool :=
  match it with
  | JObj im => match jget "type" im with JStr t => String.eqb t ty | _ => false end
  | _ => false
  end.

Definition repl_first (ty : string) (cond : json) : list json -> bool -> list json :=
  fix go (l : list json) (done : bool) : list json :=
    match l with
    | [] => []
    | it :: l' =>
        if negb done && is_cond ty it then cond :: go l' true
        else it :: go l' done
    end.

Lemma repl_first_cons ty cond it l done :
  repl_first ty cond (it :: l) done =
  if negb done && is_cond ty it then cond :: repl_first ty cond l true
  else it :: repl_first ty cond l done.
Proof. reflexivity. Qed.

Lemma set_condition_unfold status ty cond :
  set_condition status ty cond =
  match alookup "conditions" (obj_or_nil status) with
  | None => Some (JObj (aset "conditions" (JArr [cond]) (obj_or_nil status)))
  | Some (JArr l) =>
      if existsb (is_cond ty) l
      then Some (JObj (aset "conditions" (JArr (repl_first ty cond l false)) (obj_or_nil status)))
      else Some (JObj (aset "conditions" (JArr (l ++ [cond])) (obj_or_nil status)))
  | Some _ => None
  end.
Proof. reflexivity. Qed.

Lemma status_condition_wrap s ty :
  status_condition (JObj [("status", s)]) ty =
  match s with
  | JObj m => match alookup "conditions" m with Some (JArr l) => find (is_cond ty) l | _ => None end
  | _ => None
  end.
Proof.
  unfold status_condition. cbn [obj_map].
  change (nested_get [("status", s)] ["status"; "conditions"])
    with (match s with
          | JNull => NMissing
          | JObj m' => nested_get m' ["conditions"]
          | _ => NErr end).
  destruct s as [| | | | | |l|m]; auto.
  cbn [nested_get]. destruct (alookup "conditions" m) as [[| | | | | |l|m']|]; auto.
Qed.

Lemma condition_obj_type ty st reason msg : is_cond ty (condition_obj ty st reason msg) = true.
Proof.
  unfold condition_obj, is_cond.
  change (jget "type" ([("type", JStr ty); ("status", JStr st)] ++
            (if String.eqb reason "" then [] else [("reason", JStr reason)]) ++
            (if String.eqb msg "" then [] else [("message", JStr msg)]))) with (JStr ty).
  apply String.eqb_refl.
Qed.

Lemma rollout_condition_type st name : is_cond "Updated" (rollout_condition st name) = true.
Proof. destruct st; apply condition_obj_type. Qed.

Lemma is_cond_other ty ty' it : is_cond ty it = true -> ty' <> ty -> is_cond ty' it = false.
Proof.
  unfold is_cond. destruct it as [| | | | | | |im]; try discriminate.
  destruct (jget "type" im) as [| | | |t| | |]; try discriminate.
  intros E Hne. apply String.eqb_eq in E. subst t.
  destruct (String.eqb ty ty') eqn:E'; auto. apply String.eqb_eq in E'. congruence.
Qed.

Lemma find_repl_first_same ty cond l :
  is_cond ty cond = true -> existsb (is_cond ty) l = true ->
  find (is_cond ty) (repl_first ty cond l false) = Some cond.
Proof.
  intros Hc. induction l as [|it l IH]; [discriminate|].
  rewrite repl_first_cons. cbn [existsb negb andb]. destruct (is_cond ty it) eqn:E.
  - intros _. cbn [find]. now rewrite Hc.
  - cbn [orb find]. rewrite E. exact IH.
Qed.

Lemma find_app_last {A} (f : A -> bool) l x :
  existsb f l = false -> f x = true -> find f (l ++ [x]) = Some x.
Proof.
  intros Hex Hx. induction l as [|a l IH]; cbn [app find].
  - now rewrite Hx.
  - cbn [existsb] in Hex. apply orb_false_iff in Hex. destruct Hex as [Ea Hex].
    rewrite Ea. now apply IH.
Qed.

Lemma find_app_miss {A} (f : A -> bool) l x :
  f x = false -> find f (l ++ [x]) = find f l.
Proof.
  intros Hx. induction l as [|a l IH]; cbn [app find].
  - now rewrite Hx.
  - destruct (f a); auto.
Qed.

Lemma find_repl_first_other ty ty' cond l done :
  is_cond ty cond = true -> ty' <> ty ->
  find (is_cond ty') (repl_first ty cond l done) = find (is_cond ty') l.
Proof.
  intros Hc Hne. revert done. induction l as [|it l IH]; intros done; auto.
  rewrite repl_first_cons. destruct (negb done && is_cond ty it) eqn:E.
  - apply andb_true_iff in E. destruct E as [_ E].
    cbn [find]. rewrite (is_cond_other _ _ _ Hc Hne), (is_cond_other _ _ _ E Hne). apply IH.
  - cbn [find]. destruct (is_cond ty' it); auto.
Qed.

(* the general fact, for any condition type *)
Lemma set_condition_get status ty cond s' :
  is_cond ty cond = true ->
  set_condition status ty cond = Some s' ->
  status_condition (JObj [("status", s')]) ty = Some cond.
Proof.
  intros Hc Hs. rewrite set_condition_unfold in Hs. rewrite status_condition_wrap.
  set (m := obj_or_nil status) in *.
  destruct (alookup "conditions" m) as [[| | | | | |l|m']|] eqn:El; try discriminate.
  - destruct (existsb (is_cond ty) l) eqn:Ex; inversion Hs; rewrite alookup_aset_same.
    + now apply find_repl_first_same.
    + now apply find_app_last.
  - inversion Hs. rewrite alookup_aset_same. cbn [find]. now rewrite Hc.
Qed.

Lemma set_condition_get_other status ty ty' cond s' :
  is_cond ty cond = true -> ty' <> ty ->
  set_condition status ty cond = Some s' ->
  status_condition (JObj [("status", s')]) ty' = status_condition (JObj [("status", status)]) ty'.
Proof.
  intros Hc Hne Hs. rewrite set_condition_unfold in Hs. rewrite !status_condition_wrap.
  pose proof (is_cond_other _ _ _ Hc Hne) as Hc'.
  assert (Hnil : forall s, obj_or_nil s = [] ->
            Some (JObj (aset "conditions" (JArr [cond]) [])) = Some s' ->
            match s' with
            | JObj m => match alookup "conditions" m with Some (JArr l) => find (is_cond ty') l | _ => None end
            | _ => None end = None).
  { intros s _ E. inversion E. cbn [aset alookup]. 
    change (String.eqb "conditions" "conditions") with true. cbn [find]. now rewrite Hc'. }
  destruct status as [| | | | | |l0|m]; cbn [obj_or_nil alookup] in Hs;
    try (now apply (Hnil JNull)).
  cbn [obj_or_nil] in Hs.
  destruct (alookup "conditions" m) as [[| | | | | |l|m']|] eqn:El; try discriminate.
  - destruct (existsb (is_cond ty) l) eqn:Ex; inversion Hs; rewrite alookup_aset_same.
    + now apply find_repl_first_other.
    + now apply find_app_miss.
  - inversion Hs. rewrite alookup_aset_same. cbn [find]. now rewrite Hc'.
Qed.

Theorem C07_condition :
  (* the condition just set is the one read back, whether or not the hook returned a status *)
  (forall status cond s',
     is_cond "Updated" cond = true ->
     set_condition status "Updated" cond = Some s' ->
     status_condition (JObj [("status", s')]) "Updated" = Some cond) /\
  (* in particular for the rollout condition *)
  (forall status st name s',
     set_condition status "Updated" (rollout_condition st name) = Some s' ->
     status_condition (JObj [("status", s')]) "Updated" = Some (rollout_condition st name)) /\
  (* conditions of every other type are untouched *)
  (forall status cond s' ty',
     is_cond "Updated" cond = true -> ty' <> "Updated" ->
     set_condition status "Updated" cond = Some s' ->
     status_condition (JObj [("status", s')]) ty' = status_condition (JObj [("status", status)]) ty') /\
  (* the whole step publishes the condition of the state it returns *)
  (forall c pns observed prs l rest st,
     sync_rolling_update c pns observed prs = Some (l :: rest, st) ->
     status_condition (JObj [("status", hr_status (pr_resp l))]) "Updated"
       = Some (rollout_condition st (rev_name (pr_rev l)))).
Proof.
  repeat apply conj.
  - intros status cond s'. apply set_condition_get.
  - intros status st name s'. apply set_condition_get. apply rollout_condition_type.
  - intros status cond s' ty' Hc Hne. now apply set_condition_get_other.
  - intros c pns observed prs l rest st Hs. unfold sync_rolling_update in Hs.
    destruct prs as [|latest prs0]; [discriminate|].
    destruct (sync_revision_claims c (pr_desired latest) 0 (latest :: prs0) []) as [prs1 cl1].
    destruct (first_pass c pns observed prs1 cl1) as [prs2 cl2].
    destruct (second_pass c pns observed prs2 cl2) as [prs3 st'].
    destruct prs3 as [|l3 rest3]; [discriminate|].
    destruct (set_condition (hr_status (pr_resp l3)) "Updated" (rollout_condition st' (rev_name (pr_rev l3))))
      as [status'|] eqn:Esc; [|discriminate].
    inversion Hs. subst. cbn [pr_resp hr_status pr_rev].
    eapply set_condition_get; [apply rollout_condition_type|exact Esc].
Qed.

(* the side condition on cond is needed: a value that is not a condition
   object of type "Updated" is stored but not read back *)
Example C07_condition_needs_typed_cond :
  set_condition JNull "Updated" (JObj [("type", JStr "Other")])
    = Some (JObj [("conditions", JArr [JObj [("type", JStr "Other")]])]) /\
  status_condition (JObj [("status", JObj [("conditions", JArr [JObj [("type", JStr "Other")]])])]) "Updated" = None.
Proof. vm_compute. split; reflexivity. Qed.

(* ================================================================== *)
(* 2. moves of the first pass are no-ops for the child                  *)

Definition first_pass_step (c : ccfg) (pns : string) (observed : umap)
  (acc : list prev * claims) (e : string * string * string * json) : list prev * claims :=
  let '(prs0, cl0) := acc in
  match e with (av, kind, name, desired_child) =>
    let group := group_of av in
    if negb (is_rolling c group kind) then acc else
    match claimant cl0 (group, kind, name) with
    | None => (update_nth 0 (fun p => set_rev p (add_child (pr_rev p) group kind name)) prs0,
               set_claim cl0 (group, kind, name) 0)
    | Some O => acc
    | Some i =>
        match find_observed pns observed group kind name with
        | None => acc
        | Some child =>
            match apply_update (obj_map child) (obj_map desired_child) with
            | Ok n =>
                if jeqb (JObj n) child then
                  (update_nth i (fun p => set_rev p (remove_child (pr_rev p) group kind name))
                     (update_nth 0 (fun p => set_rev p (add_child (pr_rev p) group kind name)) prs0),
                   set_claim cl0 (group, kind, name) 0)
                else acc
            | _ => acc
            end
        end
    end
  end.

Lemma first_pass_unfold c pns observed latest rest cl :
  first_pass c pns observed (latest :: rest) cl =
  fold_left (first_pass_step c pns observed) (pr_desired latest) (latest :: rest, cl).
Proof. reflexivity. Qed.

(* what justifies re-claiming (group, kind, name) for the latest revision without the gate *)
Definition free_move_witness (pns : string) (observed : umap)
  (ds : list (string * string * string * json)) (group kind name : string) : Prop :=
  exists av desired_child child n,
    In (av, kind, name, desired_child) ds /\
    group_of av = group /\
    find_observed pns observed group kind name = Some child /\
    apply_update (obj_map child) (obj_map desired_child) = Ok n /\
    jeqb (JObj n) child = true.

Lemma first_pass_step_claim c pns observed acc e group kind name i :
  claimant (snd acc) (group, kind, name) = Some (S i) ->
  claimant (snd (first_pass_step c pns observed acc e)) (group, kind, name) = Some (S i) \/
  free_move_witness pns observed [e] group kind name.
Proof.
  destruct acc as [prs0 cl0]. destruct e as [[[av kind0] name0] desired_child].
  cbn [snd]. intros Hk. unfold first_pass_step.
  destruct (negb (is_rolling c (group_of av) kind0)) eqn:Er; [now left|].
  destruct (ck_eqb (group_of av, kind0, name0) (group, kind, name)) eqn:Ek.
  - apply ck_eqb_eq in Ek. inversion Ek as [[Hg Hkd Hnm]]. clear Ek. subst group kind0 name0. rewrite Hk.
    destruct (find_observed pns observed (group_of av) kind name) as [child|] eqn:Eo; [|now left].
    destruct (apply_update (obj_map child) (obj_map desired_child)) as [n| |] eqn:Ea; try now left.
    destruct (jeqb (JObj n) child) eqn:Ej; [|now left].
    right. exists av, desired_child, child, n. repeat apply conj; auto. now left.
  - left.
    destruct (claimant cl0 (group_of av, kind0, name0)) as [[|i0]|] eqn:Ec; cbn [snd]; auto.
    + destruct (find_observed pns observed (group_of av) kind0 name0) as [child|]; auto.
      destruct (apply_update (obj_map child) (obj_map desired_child)) as [n| |]; auto.
      destruct (jeqb (JObj n) child); auto. cbn [snd].
      now rewrite claimant_set_claim_other.
    + now rewrite claimant_set_claim_other.
Qed.

Lemma first_pass_fold_claim c pns observed group kind name i :
  forall l acc,
    claimant (snd acc) (group, kind, name) = Some (S i) ->
    claimant (snd (fold_left (first_pass_step c pns observed) l acc)) (group, kind, name) = Some (S i) \/
    free_move_witness pns observed l group kind name.
Proof.
  induction l as [|e l IH]; intros acc Hk; cbn [fold_left]; [now left|].
  destruct (first_pass_step_claim c pns observed acc e group kind name i Hk) as [H|H].
  - destruct (IH _ H) as [H'|H']; [now left|right].
    destruct H' as (av & d & child & n & Hin & Hrest).
    exists av, d, child, n. split; auto. now right.
  - right. destruct H as (av & d & child & n & Hin & Hrest).
    exists av, d, child, n. split; auto. destruct Hin as [Hin|[]]. now left.
Qed.

Theorem C07_free_moves_are_noops :
  forall c pns observed prs cl prs' cl' group kind name i,
    first_pass c pns observed prs cl = (prs', cl') ->
    claimant cl (group, kind, name) = Some (S i) ->
    claimant cl' (group, kind, name) = Some 0 ->
    exists latest rest av desired_child child n,
      prs = latest :: rest /\
      In (av, kind, name, desired_child) (pr_desired latest) /\
      group_of av = group /\
      find_observed pns observed group kind name = Some child /\
      apply_update (obj_map child) (obj_map desired_child) = Ok n /\
      jeqb (JObj n) child = true.
Proof.
  intros c pns observed prs cl prs' cl' group kind name i Hfp Hk Hk'.
  destruct prs as [|latest rest].
  - cbn [first_pass] in Hfp. inversion Hfp. congruence.
  - rewrite first_pass_unfold in Hfp.
    destruct (first_pass_fold_claim c pns observed group kind name i (pr_desired latest) (latest :: rest, cl) Hk)
      as [H|H].
    + rewrite Hfp in H. cbn [snd] in H. congruence.
    + destruct H as (av & d & child & n & Hin & Hrest).
      exists latest, rest, av, d, child, n. auto.
Qed.

(* more generally: the first pass changes a claim only to 0, and a claim that
   was held by an older revision only with such a witness *)
Theorem C07_first_pass_claims :
  forall c pns observed prs cl prs' cl' k,
    first_pass c pns observed prs cl = (prs', cl') ->
    claimant cl' k = claimant cl k \/ claimant cl' k = Some 0.
Proof.
  intros c pns observed prs cl prs' cl' k Hfp.
  destruct prs as [|latest rest].
  - cbn [first_pass] in Hfp. inversion Hfp. now left.
  - rewrite first_pass_unfold in Hfp.
    assert (H : claimant (snd (fold_left (first_pass_step c pns observed) (pr_desired latest) (latest :: rest, cl))) k
                = claimant cl k \/
                claimant (snd (fold_left (first_pass_step c pns observed) (pr_desired latest) (latest :: rest, cl))) k
                = Some 0).
    { apply fold_left_inv with (P := fun acc => claimant (snd acc) k = claimant cl k \/ claimant (snd acc) k = Some 0).
      2: now left.
      intros [prs0 cl0] [[[av kind0] name0] d] _ Hacc. cbn [snd] in Hacc. unfold first_pass_step.
      assert (Hset : claimant (set_claim cl0 (group_of av, kind0, name0) 0) k = claimant cl k \/
                     claimant (set_claim cl0 (group_of av, kind0, name0) 0) k = Some 0).
      { destruct (ck_eqb (group_of av, kind0, name0) k) eqn:Ek.
        - apply ck_eqb_eq in Ek. subst k. right. apply claimant_set_claim_same.
        - now rewrite claimant_set_claim_other. }
      destruct (negb (is_rolling c (group_of av) kind0)); [exact Hacc|].
      destruct (claimant cl0 (group_of av, kind0, name0)) as [[|i0]|]; cbn [snd]; auto.
      destruct (find_observed pns observed (group_of av) kind0 name0) as [child|]; auto.
      destruct (apply_update (obj_map child) (obj_map d)) as [n| |]; auto.
      destruct (jeqb (JObj n) child); auto. }
    rewrite Hfp in H. exact H.
Qed.

(* ================================================================== *)
(* 5. the gate (characterisation imported from Proofs/RollGate.v)       *)

(* a name listed by the latest revision under a rolling kind passes the gate *)
Definition gate_ready (c : ccfg) (pns : string) (latest : prev) (observed : umap)
  (ck : rck) (name : string) : Prop :=
  exists child,
    find_observed pns observed (ck_group ck) (ck_kind ck) name = Some child /\
    child_up_to_date child (find_desired (pr_desired latest) (ck_group ck) (ck_kind ck) name) = Some true /\
    child_status_why (checks_for c (ck_group ck) (ck_kind ck)) child = None /\
    (match has_strategy c (ck_group ck) (ck_kind ck) with Some kc => ch_method kc | None => "" end
       = method_rolling_in_place ->
     forall og, observed_generation child = Some og ->
                (Z.ltb 0 og && Z.ltb og (get_generation child)) = false).

Lemma gate_ready_child_ready c pns latest observed ck name :
  gate_ready c pns latest observed ck name <-> child_ready c pns latest observed ck name.
Proof.
  unfold gate_ready, child_ready.
  set (m := match has_strategy c (ck_group ck) (ck_kind ck) with Some kc => ch_method kc | None => "" end).
  split; intros (child & Ho & Hu & Hs & Hg); exists child; repeat apply conj; auto.
  - destruct (String.eqb m method_rolling_in_place) eqn:Em; cbn [andb]; auto.
    apply String.eqb_eq in Em.
    destruct (observed_generation child) as [og|] eqn:Eog; auto.
  - intros Em og Eog. rewrite Em, Eog, String.eqb_refl in Hg. exact Hg.
Qed.

Theorem C07_gate :
  (forall c pns observed prs cl prs' kind name,
     second_pass c pns observed prs cl = (prs', RProgressing kind name) ->
     exists latest rest, prs = latest :: rest /\
                         should_continue_rolling c pns latest observed = None) /\
  (forall c pns latest observed,
     should_continue_rolling c pns latest observed = None <->
     forall ck name,
       In ck (rev_children (pr_rev latest)) ->
       is_rolling c (ck_group ck) (ck_kind ck) = true ->
       In name (ck_names ck) ->
       exists child,
         find_observed pns observed (ck_group ck) (ck_kind ck) name = Some child /\
         child_up_to_date child (find_desired (pr_desired latest) (ck_group ck) (ck_kind ck) name) = Some true /\
         child_status_why (checks_for c (ck_group ck) (ck_kind ck)) child = None /\
         (match has_strategy c (ck_group ck) (ck_kind ck) with Some kc => ch_method kc | None => "" end
            = method_rolling_in_place ->
          forall og, observed_generation child = Some og ->
                     (Z.ltb 0 og && Z.ltb og (get_generation child)) = false)).
Proof.
  split.
  - intros c pns observed prs cl prs' kind name Hsp.
    destruct prs as [|latest rest].
    + cbn [second_pass] in Hsp. inversion Hsp.
    + exists latest, rest. split; auto.
      rewrite second_pass_unfold in Hsp.
      destruct (find (pending c pns cl) (hr_children (pr_resp latest))) as [[o|]|]; try now inversion Hsp.
      destruct (should_continue_rolling c pns latest observed); [inversion Hsp|reflexivity].
  - intros c pns latest observed. rewrite gate_open_iff. split.
    + intros H ck name Hck Hr Hn. apply (gate_ready_child_ready c pns latest observed ck name). now apply H.
    + intros H ck name Hck Hr Hn. apply gate_ready_child_ready. now apply H.
Qed.

(* ================================================================== *)
Print Assumptions C07_claims_functional_set.
Print Assumptions C07_claims_functional.
Print Assumptions C07_free_moves_are_noops.
Print Assumptions C07_first_pass_claims.
Print Assumptions C07_at_most_one_gated_move.
Print Assumptions C07_first_in_hook_order.
Print Assumptions C07_first_in_hook_order_In.
Print Assumptions C07_gate.
Print Assumptions C07_condition.
