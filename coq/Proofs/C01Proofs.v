(* C01Proofs.v — C01: syncing converges and then stays quiet.
   1. C01_quiescent            (Proofs/C01Quiescent.v) a converged state sends no write
   2. C01_update_reaches_fixpoint_partial   an in-place update is not repeated
   3. C01_created_child_is_fixpoint_partial a created child is not touched again
   4. C01_float_refuted        ledger D17: a float64 1.0 in the hook answer is re-applied for ever
   5. C01_converges_per_child_partial       the per-child automaton reaches its final state in 3 syncs *)
From MC Require Import Generated.
From MC Require Import Model.Safe Model.ApplyLaws.
From MC Require Import Proofs.AssocLemmas Proofs.AssocLemmas2 Proofs.ApplyUpdateProofs Proofs.C06Proofs
                       Proofs.C01Frame Proofs.C01Fixpoint Proofs.C01Quiescent.
Local Open Scope string_scope.
Local Open Scope list_scope.

(* ------------------------------------------------------------------ *)
(* what the API server does to metadata when it stores an object       *)
(* ------------------------------------------------------------------ *)
Definition set_meta (f : string) (v : json) (j : json) : json :=
  match j with
  | JObj m => match nested_set m ["metadata"; f] v with Some m' => JObj m' | None => j end
  | _ => j
  end.

(* a stored update: new resourceVersion and generation *)
Definition server_bump (rv : string) (gen : Z) (j : json) : json :=
  set_meta "generation" (JInt gen) (set_meta "resourceVersion" (JStr rv) j).

(* a stored create: uid, resourceVersion, creationTimestamp, generation *)
Definition server_assign (uid rv ts : string) (gen : Z) (j : json) : json :=
  set_meta "generation" (JInt gen)
    (set_meta "creationTimestamp" (JStr ts)
       (set_meta "resourceVersion" (JStr rv) (set_meta "uid" (JStr uid) j))).

Lemma stable_set_meta_obj d m g v :
  stable d m ->
  wf_json (JObj (desired_of d)) = true ->
  no_server_fields (desired_of d) = true ->
  In g server_meta_fields ->
  wf_json v = true ->
  exists m', set_meta g v (JObj m) = JObj m' /\ stable d m'.
Proof.
  intros Hst Hwd Hnsf Hg Hwv.
  destruct Hst as (Hmerge & Hwf & mmeta & ann & Hmeta & Hrest).
  destruct (nested_set m ["metadata"; g] v) as [m'|] eqn:E.
  - exists m'. split; [unfold set_meta; now rewrite E|].
    eapply stable_set_meta; [|exact Hwd|exact Hnsf|exact Hg|exact Hwv|exact E].
    split; [exact Hmerge|]. split; [exact Hwf|]. exists mmeta, ann. split; assumption.
  - rewrite nested_set2, Hmeta in E. discriminate.
Qed.

Lemma stable_no_write c kc parent d m :
  stable d m -> child_decision c kc parent (Some (JObj m)) (JObj d) = ActNone.
Proof.
  intros H. apply (C06_equal_no_write c kc parent (JObj m) (JObj d) m).
  - cbn [obj_map]. exact (stable_apply_update _ _ H).
  - apply jeqb_refl. apply H.
Qed.

Lemma in_server_fields g :
  mem_str g server_meta_fields = true -> In g server_meta_fields.
Proof. apply mem_str_In. Qed.

(* ------------------------------------------------------------------ *)
(* 2. an in-place update reaches a fixpoint                            *)
(* ------------------------------------------------------------------ *)
(* The statement without the two side conditions on the desired object
   (desired_ok) and on the observed annotations (stringy_annots) is false:
   see C01_update_fixpoint_refuted below. *)
Theorem C01_update_reaches_fixpoint_partial c kc parent old d n om last :
  apply_update old d = Ok n ->
  alookup "metadata" old = Some (JObj om) ->
  get_last_applied old = Ok last ->
  null_okb (JObj (nullify_last_applied d)) (JObj old) last = true ->
  Hb (JObj (nullify_last_applied d)) (JObj old) last = true ->
  wf_json (JObj (nullify_last_applied d)) = true -> wf_json (JObj old) = true -> wf_json last = true ->
  desired_ok (nullify_last_applied d) = true ->
  stringy_annots old = true ->
  (* re-applying changes nothing, so the next sync leaves the child alone *)
  apply_update n d = Ok n /\
  child_decision c kc parent (Some (JObj n)) (JObj d) = ActNone /\
  (* also after the server stored the update under a new resourceVersion / generation *)
  forall rv gen,
    apply_update (obj_map (server_bump rv gen (JObj n))) d = Ok (obj_map (server_bump rv gen (JObj n))) /\
    child_decision c kc parent (Some (server_bump rv gen (JObj n))) (JObj d) = ActNone.
Proof.
  intros Hap Hom Hlast Hnull HHb Hwd Hwo Hwl Hdok Hso.
  pose proof (update_result_stable old d n om last Hap Hom Hlast Hnull HHb Hwd Hwo Hwl Hdok Hso) as Hst.
  split; [exact (stable_apply_update _ _ Hst)|].
  split; [exact (stable_no_write c kc parent _ _ Hst)|].
  intros rv gen. unfold server_bump.
  pose proof Hdok as Hdok'. apply andb_prop in Hdok' as [Hnsf _].
  destruct (stable_set_meta_obj d n "resourceVersion" (JStr rv) Hst Hwd Hnsf) as (m1 & -> & Hst1);
    [apply in_server_fields; reflexivity|reflexivity|].
  destruct (stable_set_meta_obj d m1 "generation" (JInt gen) Hst1 Hwd Hnsf) as (m2 & -> & Hst2);
    [apply in_server_fields; reflexivity|reflexivity|].
  cbn [obj_map]. split; [exact (stable_apply_update _ _ Hst2)|exact (stable_no_write c kc parent _ _ Hst2)].
Qed.

(* for a desired object without a last-applied annotation of its own the side
   condition is one on the hook's object itself *)
Lemma desired_ok_nullify d :
  desired_ok d = true -> nullify_last_applied d = d /\ desired_ok (nullify_last_applied d) = true.
Proof.
  intros H. pose proof H as H'. apply andb_prop in H' as [_ Hc].
  rewrite (nullify_clean d Hc). split; [reflexivity|exact H].
Qed.

(* the wording without desired_ok: a desired object that specifies a status
   list map.  The first ApplyUpdate succeeds (the status is reverted to the
   observed one), the second — now with that desired object as last applied —
   pairs the list items by name and fails on a type clash: the next sync
   reports an error for the child instead of leaving it alone. *)
Definition cex2_last : json := JObj [("status", JArr [JObj [("port", JInt 1)]])].
Definition cex2_old : amap :=
  [("metadata", JObj [("name", JStr "t");
                      ("annotations", JObj [(last_applied_annotation, JText cex2_last)])]);
   ("status", JArr [JObj [("name", JStr "a"); ("x", JObj [])]])].
Definition cex2_d : amap :=
  [("metadata", JObj [("name", JStr "t")]);
   ("status", JArr [JObj [("name", JStr "a"); ("x", JInt 1)]])].

Definition res_or_nil (r : res amap) : amap := match r with Ok n => n | _ => [] end.

Example C01_update_fixpoint_refuted :
  let n := res_or_nil (apply_update cex2_old cex2_d) in
  exists om,
    apply_update cex2_old cex2_d = Ok n /\
    alookup "metadata" cex2_old = Some (JObj om) /\
    get_last_applied cex2_old = Ok cex2_last /\
    null_okb (JObj (nullify_last_applied cex2_d)) (JObj cex2_old) cex2_last = true /\
    Hb (JObj (nullify_last_applied cex2_d)) (JObj cex2_old) cex2_last = true /\
    wf_json (JObj (nullify_last_applied cex2_d)) = true /\ wf_json (JObj cex2_old) = true /\
    wf_json cex2_last = true /\
    apply_update n cex2_d = Err.
Proof. eexists. vm_compute. repeat split; reflexivity. Qed.

(* ------------------------------------------------------------------ *)
(* 3. a created child is a fixpoint                                    *)
(* ------------------------------------------------------------------ *)
Lemma wf_json_of_oref r : wf_json (json_of_oref r) = true.
Proof. destruct r as [a k n u [x|] [y|]]; reflexivity. Qed.

Lemma wf_orefs refs : wf_json (JArr (map json_of_oref refs)) = true.
Proof.
  rewrite wf_arr. apply forallb_forall. intros x Hx.
  apply in_map_iff in Hx as (r & <- & _). apply wf_json_of_oref.
Qed.

Lemma child_decision_none c kc parent desired :
  child_decision c kc parent None desired =
  ActCreate (set_owner_refs (JObj (set_last_applied (obj_map desired) desired))
               (get_owner_refs (JObj (set_last_applied (obj_map desired) desired)) ++
                [controller_ref (get_api_version parent) (get_kind parent) (get_name parent) (get_uid parent)])).
Proof. reflexivity. Qed.

Theorem C01_created_child_is_fixpoint_partial c kc parent dm b uid rv ts gen :
  self_wf (JObj dm) = true -> wf_json (JObj dm) = true -> desired_ok dm = true ->
  child_decision c kc parent None (JObj dm) = ActCreate b ->
  child_decision c kc parent (Some (server_assign uid rv ts gen b)) (JObj dm) = ActNone.
Proof.
  intros Hself Hwd Hdok Hc.
  destruct (created_stable dm Hself Hwd Hdok) as (Hd & Hst).
  pose proof Hdok as Hdok'. apply andb_prop in Hdok' as [Hnsf _].
  assert (Hwd' : wf_json (JObj (desired_of dm)) = true) by now rewrite Hd.
  assert (Hnsf' : no_server_fields (desired_of dm) = true) by now rewrite Hd.
  rewrite child_decision_none in Hc.
  apply (f_equal (fun a => match a with ActCreate x => x | _ => JNull end)) in Hc.
  cbv beta iota in Hc. subst b.
  change (obj_map (JObj dm)) with dm.
  match goal with |- context [set_owner_refs (JObj ?m) ?refs] =>
    change (set_owner_refs (JObj m) refs)
      with (set_meta "ownerReferences" (JArr (map json_of_oref refs)) (JObj m));
    destruct (stable_set_meta_obj dm m "ownerReferences" (JArr (map json_of_oref refs)) Hst Hwd' Hnsf')
      as (m0 & -> & Hst0); [apply in_server_fields; reflexivity|apply wf_orefs|]
  end.
  unfold server_assign.
  destruct (stable_set_meta_obj dm m0 "uid" (JStr uid) Hst0 Hwd' Hnsf') as (m1 & -> & Hst1);
    [apply in_server_fields; reflexivity|reflexivity|].
  destruct (stable_set_meta_obj dm m1 "resourceVersion" (JStr rv) Hst1 Hwd' Hnsf') as (m2 & -> & Hst2);
    [apply in_server_fields; reflexivity|reflexivity|].
  destruct (stable_set_meta_obj dm m2 "creationTimestamp" (JStr ts) Hst2 Hwd' Hnsf') as (m3 & -> & Hst3);
    [apply in_server_fields; reflexivity|reflexivity|].
  destruct (stable_set_meta_obj dm m3 "generation" (JInt gen) Hst3 Hwd' Hnsf') as (m4 & -> & Hst4);
    [apply in_server_fields; reflexivity|reflexivity|].
  exact (stable_no_write c kc parent _ _ Hst4).
Qed.

(* ------------------------------------------------------------------ *)
(* concrete controller, parent and child used by the examples          *)
(* ------------------------------------------------------------------ *)
Definition create_body (a : child_action) : json := match a with ActCreate b => b | _ => JNull end.
Definition update_body (a : child_action) : json := match a with ActUpdate b => b | _ => JNull end.
Definition is_create (a : child_action) : bool := match a with ActCreate _ => true | _ => false end.
Definition is_update (a : child_action) : bool := match a with ActUpdate _ => true | _ => false end.

Definition ex_kc (method : string) : child_cfg := mkChild "v1" "things" "Thing" true method.
Definition ex_cfg (method : string) : ccfg :=
  mkCfg "cc" "example.com/v1" "Parent" "parents" true true true sel_everything
        [ex_kc method] true false [ex_kc method] false false [["spec"]] [].
Definition ex_parent : json :=
  JObj [("apiVersion", JStr "example.com/v1"); ("kind", JStr "Parent");
        ("metadata", JObj [("name", JStr "p"); ("namespace", JStr "ns"); ("uid", JStr "pu");
                           ("generation", JInt 1)]);
        ("status", JObj [("observedGeneration", JInt 1)])].
Definition ex_d (replicas : json) : json :=
  JObj [("apiVersion", JStr "v1"); ("kind", JStr "Thing");
        ("metadata", JObj [("name", JStr "t"); ("namespace", JStr "ns");
                           ("labels", JObj [("controller-uid", JStr "pu")])]);
        ("spec", JObj [("replicas", replicas)])].

(* the wording of 3 without desired_ok: a desired object that itself carries
   a last-applied annotation is updated again right after it was created *)
Definition cex3_d : amap :=
  [("apiVersion", JStr "v1"); ("kind", JStr "Thing");
   ("metadata", JObj [("name", JStr "t");
                      ("annotations", JObj [(last_applied_annotation, JStr "x")])])].

Example C01_created_child_refuted :
  let c := ex_cfg "InPlace" in let kc := ex_kc "InPlace" in
  let b := create_body (child_decision c kc ex_parent None (JObj cex3_d)) in
  self_wf (JObj cex3_d) = true /\ wf_json (JObj cex3_d) = true /\
  child_decision c kc ex_parent None (JObj cex3_d) = ActCreate b /\
  is_update (child_decision c kc ex_parent
               (Some (server_assign "cu" "1" "2026-01-01T00:00:00Z" 1 b)) (JObj cex3_d)) = true.
Proof. vm_compute. repeat split; reflexivity. Qed.

(* ------------------------------------------------------------------ *)
(* 4. ledger D17: float64 1.0 in the hook answer                       *)
(* ------------------------------------------------------------------ *)
(* what the wire does to the value the controller holds in memory: the
   float64 1.0 is serialised as 1 and read back as an integer — in the object
   and in the text of its last-applied annotation *)
Fixpoint wire1 (j : json) : json :=
  match j with
  | JFloat "1" => JInt 1
  | JText x => JText (wire1 x)
  | JArr l => JArr (map wire1 l)
  | JObj m => JObj (map (fun kv => (fst kv, wire1 (snd kv))) m)
  | _ => j
  end.

Definition ex_ts : string := "2026-01-01T00:00:00Z".
Definition stored_create (rv : string) (b : json) : json := wire1 (server_assign "cu" rv ex_ts 1 b).
Definition stored_update (rv : string) (b : json) : json := wire1 (server_bump rv 1 b).

(* the hook says replicas: 1.0.  The child is created; the stored child has
   replicas: 1 and a last-applied record with replicas: 1.  The next sync
   decides to update it (1.0 <> 1); what the server stores for that update is
   the same object again (up to resourceVersion), so the sync after that
   decides to update again: the never-ending update. *)
Example C01_float_refuted :
  let c := ex_cfg "InPlace" in let kc := ex_kc "InPlace" in
  let d := ex_d (JFloat "1") in
  let b := create_body (child_decision c kc ex_parent None d) in
  let a1 := child_decision c kc ex_parent (Some (stored_create "1" b)) d in
  let a2 := child_decision c kc ex_parent (Some (stored_update "2" (update_body a1))) d in
  child_decision c kc ex_parent None d = ActCreate b /\
  is_update a1 = true /\
  stored_update "1" (update_body a1) = stored_create "1" b /\
  is_update a2 = true /\
  stored_update "2" (update_body a2) = stored_update "2" (update_body a1).
Proof. vm_compute. repeat split; reflexivity. Qed.

(* the same under Recreate: the stored child is deleted on every other sync *)
Example C01_float_refuted_recreate :
  let c := ex_cfg "Recreate" in let kc := ex_kc "Recreate" in
  let d := ex_d (JFloat "1") in
  let b := create_body (child_decision c kc ex_parent None d) in
  child_decision c kc ex_parent None d = ActCreate b /\
  child_decision c kc ex_parent (Some (stored_create "1" b)) d = ActDelete "cu".
Proof. vm_compute. repeat split; reflexivity. Qed.

(* with replicas: 1 (an integer) the stored child is left alone — and the side
   conditions of theorem 3 hold for this desired object *)
Example C01_int_is_quiet :
  let c := ex_cfg "InPlace" in let kc := ex_kc "InPlace" in
  let d := ex_d (JInt 1) in
  let b := create_body (child_decision c kc ex_parent None d) in
  child_decision c kc ex_parent None d = ActCreate b /\
  child_decision c kc ex_parent (Some (stored_create "1" b)) d = ActNone /\
  self_wf d = true /\ wf_json d = true /\ desired_ok (obj_map d) = true.
Proof. vm_compute. repeat split; reflexivity. Qed.

(* ------------------------------------------------------------------ *)
(* non-vacuity of 1: a converged state                                 *)
(* ------------------------------------------------------------------ *)
Definition ex_child : json :=
  stored_create "1" (create_body (child_decision (ex_cfg "InPlace") (ex_kc "InPlace") ex_parent None (ex_d (JInt 1)))).
Definition ex_cache : cache := mkCache (Some ex_parent) [("things.v1", [ex_child])].
Definition ex_body : json := JObj [("status", JObj []); ("children", JArr [ex_d (JInt 1)])].
Definition ex_resp : hook_resp :=
  match decode_composite ex_body with
  | Some r0 => hook_view ex_parent r0
  | None => mkHR JNull [] JNull true
  end.

Example C01_converged_inhabited :
  converged (ex_cfg "InPlace") ex_cache ex_parent ex_resp /\
  (exists sel, make_selector (ex_cfg "InPlace") ex_parent = Some sel /\
               List.length (uobjects (observed_of (ex_cfg "InPlace") ex_cache ex_parent sel)) = 1%nat) /\
  List.length (hr_children ex_resp) = 1%nat.
Proof.
  split; [split; [reflexivity|vm_compute; reflexivity]|].
  split; [eexists; split; [reflexivity|vm_compute; reflexivity]|vm_compute; reflexivity].
Qed.

(* non-vacuity of 2: the stored child with replicas 1, the hook now says 2 *)
Example C01_update_hyps_inhabited :
  let old := obj_map ex_child in
  let d := obj_map (ex_d (JInt 2)) in
  let n := res_or_nil (apply_update old d) in
  let last := match get_last_applied old with Ok l => l | _ => JNull end in
  apply_update old d = Ok n /\
  jeqb (JObj n) (JObj old) = false /\
  (exists om, alookup "metadata" old = Some (JObj om)) /\
  get_last_applied old = Ok last /\
  null_okb (JObj (nullify_last_applied d)) (JObj old) last = true /\
  Hb (JObj (nullify_last_applied d)) (JObj old) last = true /\
  wf_json (JObj (nullify_last_applied d)) = true /\ wf_json (JObj old) = true /\ wf_json last = true /\
  desired_ok (nullify_last_applied d) = true /\
  stringy_annots old = true /\
  is_update (child_decision (ex_cfg "InPlace") (ex_kc "InPlace") ex_parent (Some ex_child) (ex_d (JInt 2))) = true.
Proof. vm_compute. repeat split; try reflexivity. eexists. reflexivity. Qed.

(* the theorem at work: an environment that meets C01_env, and the run of
   sync against it — one hook call, one GET of the parent, SDone *)
Definition ex_r0 : hook_resp :=
  match decode_composite ex_body with Some r0 => r0 | None => mkHR JNull [] JNull true end.
Definition ex_env : env :=
  fun _ cl => match cl with
              | CHook HCustomize _ => AHookErr
              | CHook _ _ => AHook ex_body
              | CApi _ => AObj ex_parent
              end.

Example C01_quiescent_example :
  (forall h cl, C01_env (ex_cfg "InPlace") ex_parent ex_resp cl (ex_env h cl)) /\
  map (fun ca => match fst ca with
                 | CApi q => verb_eqb (q_verb q) VGet
                 | CHook k _ => hook_kind_eqb k HSync end)
      (trace_of (sync (ex_cfg "InPlace") ex_cache) ex_env) = [true; true] /\
  result_of (sync (ex_cfg "InPlace") ex_cache) ex_env = SDone.
Proof.
  split.
  - intros h cl. destruct cl as [q|hk body]; cbn [C01_env ex_env]; [intros _; reflexivity|].
    destruct hk; try exact I; exists ex_body, ex_r0; (split; [reflexivity|]); split; vm_compute; reflexivity.
  - vm_compute. split; reflexivity.
Qed.

(* ------------------------------------------------------------------ *)
(* 5. the per-child automaton                                          *)
(* ------------------------------------------------------------------ *)
(* One desired child over successive fault-free syncs with a fresh cache.
     Absent          no object of the desired name exists
     OrphanMatching  an object of that name exists, matches the selector, has no controller
     OwnedDiffers    owned by the parent, ApplyUpdate would change it
     OwnedEqual      owned by the parent, ApplyUpdate changes nothing
   The tie between this automaton and [sync] is not proved here: it is
   exercised by the correspondence runs (multi-round scenarios of the
   composite harness).  The labels are backed by: Absent -> OwnedEqual by
   C01_created_child_is_fixpoint_partial; OwnedDiffers -> OwnedEqual under
   InPlace by C01_update_reaches_fixpoint_partial; OwnedDiffers -> Absent under
   Recreate and OwnedDiffers staying under OnDelete by C06_recreate /
   C06_on_delete; OwnedEqual staying by C01_quiescent. *)
Inductive cstate := Absent | OrphanMatching | OwnedDiffers | OwnedEqual.
Inductive cmethod := MOnDelete | MRecreate | MInPlace.

Definition cnext (m : cmethod) (s : cstate) : list cstate :=
  match s with
  | Absent => [OwnedEqual]
  | OrphanMatching => [OwnedDiffers; OwnedEqual]
  | OwnedDiffers => match m with
                    | MInPlace => [OwnedEqual]
                    | MRecreate => [Absent]
                    | MOnDelete => [OwnedDiffers]
                    end
  | OwnedEqual => [OwnedEqual]
  end.

(* the states reachable in exactly n syncs *)
Fixpoint cafter (m : cmethod) (n : nat) (s : cstate) : list cstate :=
  match n with
  | O => [s]
  | S n' => flat_map (cafter m n') (cnext m s)
  end.

Definition cfinal (m : cmethod) (s : cstate) : bool :=
  match s, m with
  | OwnedEqual, _ => true
  | OwnedDiffers, MOnDelete => true
  | _, _ => false
  end.

Theorem C01_converges_per_child_partial :
  (* every sync has a successor state *)
  (forall m s, cnext m s <> []) /\
  (* after three syncs — and after any larger number — the state is final *)
  (forall m s n s', In s' (cafter m (3 + n) s) -> cfinal m s' = true) /\
  (* a final state is OwnedEqual, or OwnedDiffers under OnDelete *)
  (forall m s, cfinal m s = true <-> s = OwnedEqual \/ (m = MOnDelete /\ s = OwnedDiffers)) /\
  (* and it stays *)
  (forall m s s', cfinal m s = true -> In s' (cnext m s) -> s' = s) /\
  (* the bound is tight *)
  (exists m s s', In s' (cafter m 2 s) /\ cfinal m s' = false).
Proof.
  assert (Hstay : forall m s s', cfinal m s = true -> In s' (cnext m s) -> s' = s).
  { intros m s s' Hf Hin. destruct m, s; try discriminate; cbn in Hin; intuition congruence. }
  assert (Hstay_n : forall m n s s', cfinal m s = true -> In s' (cafter m n s) -> s' = s).
  { intros m n. induction n as [|n IH]; intros s s' Hf Hin.
    - cbn in Hin. intuition congruence.
    - cbn [cafter] in Hin. apply in_flat_map in Hin as (x & Hx & Hin).
      pose proof (Hstay m s x Hf Hx) as ->. now apply IH. }
  assert (Hsplit : forall m a b s s', In s' (cafter m (a + b) s) -> exists x, In x (cafter m a s) /\ In s' (cafter m b x)).
  { intros m a. induction a as [|a IH]; intros b s s' Hin.
    - exists s. split; [now left|exact Hin].
    - cbn [plus cafter] in Hin. apply in_flat_map in Hin as (y & Hy & Hin).
      destruct (IH b y s' Hin) as (x & Hx1 & Hx2). exists x. split; [|exact Hx2].
      cbn [cafter]. apply in_flat_map. eauto. }
  split; [intros m s; destruct m, s; discriminate|].
  split.
  { intros m s n s' Hin. destruct (Hsplit m 3 n s s' Hin) as (x & Hx & Hin').
    assert (Hfx : cfinal m x = true).
    { destruct m, s; cbn in Hx; intuition (subst; reflexivity). }
    now rewrite (Hstay_n m n x s' Hfx Hin'). }
  split.
  { intros m s. destruct m, s; cbn; split; intros H; try reflexivity; try discriminate;
      try (now left); try (right; now split);
      destruct H as [H|[H1 H2]]; congruence. }
  split; [exact Hstay|].
  exists MRecreate, OrphanMatching, Absent. split; [cbn; auto|reflexivity].
Qed.

Print Assumptions C01_update_reaches_fixpoint_partial.
Print Assumptions C01_created_child_is_fixpoint_partial.
Print Assumptions C01_converges_per_child_partial.
