(* ApplyIdemLM.v — the list-map case of idempotence: a second apply may pick a
   different conventional merge key, but under H it rebuilds the same list. *)
From MC Require Import Generated Model.Json Model.Apply Model.ApplyLaws.
From MC Require Import Proofs.AssocLemmas Proofs.AssocLemmas2 Proofs.ApplyProofs Proofs.ApplyBase.
From MC Require Import Proofs.ApplyCore Proofs.ApplyListMap Proofs.ApplyListMapCtx Proofs.ApplyListMapLaws.
From MC Require Import Proofs.ApplyContain Proofs.ApplyIdemCore.
Local Open Scope list_scope.

(* ---------- a list that is already merged is a fixpoint ---------- *)
Lemma rd_items_id key rl dmap :
  all_objs rl = true -> nodup_str (keys_of key rl) = true ->
  (forall k, alookup k dmap = find_item key k rl) ->
  forall l, (forall it, In it l -> In it rl) -> rd_items key l dmap = l.
Proof.
  intros Ho Hnd Hd l. induction l as [|it l IH]; intros Hsub; [reflexivity|].
  unfold rd_items. cbn [flat_map]. fold (rd_items key l dmap).
  rewrite IH by (intros x Hx; apply Hsub; now right).
  assert (Hin : In it rl) by (apply Hsub; now left).
  destruct (all_objs_In _ _ Ho Hin) as [m ->]. rewrite item_key_of_obj.
  rewrite Hd. rewrite (find_item_nodup key _ rl (JObj m) Hnd Hin (item_key_of_obj key m)).
  reflexivity.
Qed.

Lemma rs_items_all_skipped key sl dm skip :
  (forall k, mem_str k (keys_of key sl) = true -> skip k = true) ->
  rs_items key sl dm skip = [].
Proof.
  induction sl as [|s sl IH]; intros H; [reflexivity|].
  unfold rs_items. cbn [flat_map]. fold (rs_items key sl dm skip).
  rewrite IH.
  - destruct (item_key key s) as [k|] eqn:E; [|reflexivity].
    rewrite H; [reflexivity|]. rewrite keys_of_cons, E. cbn. now rewrite eqb_refl'.
  - intros k Hk. apply H. rewrite keys_of_cons. destruct (item_key key s); auto.
    cbn [mem_str]. rewrite Hk. now rewrite Bool.orb_true_r.
Qed.

Lemma lm_fixpoint sl rl key :
  detect_key rl sl sl = Some key ->
  nodup_str (keys_of key rl) = true -> nodup_str (keys_of key sl) = true ->
  (forall s, In s sl -> exists k r,
      item_key key s = Some k /\ find_item key k rl = Some r /\ merge s r s = Ok r) ->
  merge (JArr sl) (JArr rl) (JArr sl) = Ok (JArr rl).
Proof.
  intros E Hnr Hns Hfix.
  rewrite merge_arr_arr. cbv zeta. cbn [arr_or_nil]. rewrite E.
  destruct (detect_all_objs _ _ _ _ E) as (Or & Os & _).
  destruct (make_list_map_ok key rl [] Or) as [dmap Hd]. rewrite Hd. cbn [rbind].
  destruct (make_list_map_ok key sl [] Os) as [lmap Hl]. rewrite Hl. cbn [rbind].
  pose proof (fun k => make_list_map_nil key rl dmap k Hnr Hd) as Ld.
  pose proof (fun k => make_list_map_nil key sl lmap k Hns Hl) as Ll.
  rewrite remove_last_all_kept.
  2:{ intros k Hk. apply mem_str_In in Hk. rewrite mem_str_akeys in Hk.
      rewrite des_has_key_mem. rewrite <- find_item_is_some. unfold ahas in Hk.
      now rewrite Ll in Hk. }
  rewrite mlm_aux_fix.
  2:{ intros s Hin. destruct (Hfix s Hin) as (k & r & Hk & Hf & Hm).
      exists k, r. split; [exact Hk|]. split; [|now rewrite Ld].
      unfold jget. rewrite Ld, Hf, Ll.
      now rewrite (find_item_nodup key k sl s Hns Hin Hk). }
  cbn [rbind].
  destruct (rebuild_dest_ok key rl dmap [] Or) as [[l1 a] H1]. rewrite H1. cbn [rbind].
  destruct (rebuild_des_ok key sl dmap a Os) as [l2 H2]. rewrite H2. cbn [rbind].
  apply rebuild_dest_spec in H1 as [-> Ha].
  apply rebuild_des_spec in H2; [|exact Hns]. subst l2.
  rewrite (rd_items_id key rl dmap Or Hnr Ld rl (fun _ H => H)).
  rewrite rs_items_all_skipped; [now rewrite app_nil_r|].
  intros k Hk. rewrite Ha. cbn [mem_str orb].
  apply mem_keys_of in Hk as (s & Hin & Hks).
  destruct (Hfix s Hin) as (k' & r & Hk' & Hf & _). rewrite Hks in Hk'. inversion Hk'; subst k'.
  unfold ahas. rewrite Ld, Hf. rewrite Bool.andb_true_r.
  apply find_item_Some in Hf as [Hrin Hrk]. apply mem_keys_of. eauto.
Qed.

(* ---------- self merge of a list map ---------- *)
Lemma self_lm sl key :
  Forall (fun s => self_wf s = true -> wf_json s = true -> merge s s s = Ok s) sl ->
  self_wf (JArr sl) = true -> wf_json (JArr sl) = true ->
  detect_key sl sl sl = Some key ->
  merge (JArr sl) (JArr sl) (JArr sl) = Ok (JArr sl).
Proof.
  intros IH Hs Hw E.
  destruct (detect_all_objs _ _ _ _ E) as (Os & _ & _).
  rewrite self_wf_arr, Os in Hs. apply andb_split in Hs as [Wf Hs].
  pose proof (lm_facts_of _ _ _ _ E Wf Wf Wf) as F.
  apply (lm_fixpoint sl sl key E); try apply F.
  intros s Hin. destruct (all_objs_In _ _ Os Hin) as [m ->].
  exists (smk (jget key m)), (JObj m). split; [reflexivity|]. split.
  - apply find_item_nodup; auto. apply F.
  - rewrite Forall_forall in IH. apply (IH _ Hin).
    + apply (forallb_In _ _ _ Hs Hin).
    + apply (wf_arr_In sl _ Hw Hin).
Qed.

Theorem merge_self : forall d, self_wf d = true -> wf_json d = true -> merge d d d = Ok d.
Proof.
  intros d Hs Hw.
  apply (merge_self_core (fun _ => true)); auto.
  intros sl key IH Hs0 Hw0 _ E. apply self_lm with key; auto.
  eapply Forall_impl; [|exact IH]. intros s Hst A B. now apply Hst.
Qed.

(* ---------- a second detection always succeeds on a non-empty list map ---------- *)
Lemma scan_common_complete key items : forall ck,
  all_objs items = true ->
  (forall m, In (JObj m) items -> ahas key m = true) ->
  (forall c0, ck = Some c0 -> mem_str key c0 = true) ->
  (items <> [] \/ ck <> None) ->
  exists c, scan_common items ck = Some (Some c) /\ mem_str key c = true.
Proof.
  induction items as [|it items IH]; intros ck Ho Hc Hck Hne.
  - destruct ck as [c0|]; [|destruct Hne as [H|H]; congruence].
    exists c0. split; [reflexivity|]. now apply Hck.
  - apply all_objs_cons in Ho as [Ho1 Ho2]. destruct it; try discriminate.
    cbn [scan_common]. apply IH; auto.
    + intros m0 Hm0. apply Hc. now right.
    + assert (Hm : ahas key m = true) by (apply Hc; now left).
      destruct ck as [c0|]; intros c1 [= <-].
      * unfold prune_keys. rewrite mem_str_filter, Hm. now rewrite (Hck c0 eq_refl).
      * now rewrite mem_str_akeys.
    + right. destruct ck; discriminate.
Qed.

Lemma detect_key_some key dl ll sl :
  In key known_merge_keys -> dl ++ ll ++ sl <> [] -> all_objs (dl ++ ll ++ sl) = true ->
  (forall m, In (JObj m) (dl ++ ll ++ sl) -> ahas key m = true) ->
  exists key', detect_key dl ll sl = Some key'.
Proof.
  intros Hk Hne Ho Hc. unfold detect_key.
  destruct (scan_common_complete key (dl ++ ll ++ sl) None Ho Hc) as (c & -> & Hm).
  - discriminate.
  - now left.
  - destruct (find (fun k => mem_str k c) known_merge_keys) as [key'|] eqn:E; [eauto|].
    pose proof (find_none _ _ E key Hk) as Hf. cbv beta in Hf. congruence.
Qed.

(* ---------- consequences of list_wf and cross_ok for a second key ---------- *)
Lemma list_wf_inj l key ma mb :
  list_wf l = true -> In key known_merge_keys ->
  In (JObj ma) l -> In (JObj mb) l -> ahas key ma = true -> ahas key mb = true ->
  smk (jget key ma) = smk (jget key mb) -> ma = mb.
Proof.
  unfold list_wf. intros H Hk Ha Hb Ca Cb He. apply andb_split in H as [_ H].
  pose proof (forallb_In _ _ _ H Hk) as H1. cbv beta zeta in H1.
  apply andb_split in H1 as [_ Hnd].
  set (car := filter (fun it => match it with JObj m => ahas key m | _ => false end) l) in *.
  assert (Ia : In (JObj ma) car) by (apply filter_In; auto).
  assert (Ib : In (JObj mb) car) by (apply filter_In; auto).
  pose proof (find_item_nodup key _ car _ Hnd Ia (item_key_of_obj key ma)) as Fa.
  pose proof (find_item_nodup key _ car _ Hnd Ib (item_key_of_obj key mb)) as Fb.
  rewrite He in Fa. rewrite Fa in Fb. now inversion Fb.
Qed.

Lemma cross_ok_use l1 l2 ma mb key key' :
  cross_ok l1 l2 = true -> In (JObj ma) l1 -> In (JObj mb) l2 ->
  In key known_merge_keys -> In key' known_merge_keys ->
  ahas key ma = true -> ahas key mb = true -> ahas key' ma = true -> ahas key' mb = true ->
  smk (jget key' ma) = smk (jget key' mb) -> smk (jget key ma) = smk (jget key mb).
Proof.
  unfold cross_ok. intros H Ha Hb Hk Hk' Ca Cb Ca' Cb' He.
  pose proof (forallb_In _ _ _ H Ha) as H1. cbv beta in H1.
  pose proof (forallb_In _ _ _ H1 Hb) as H2. cbv beta iota zeta in H2.
  set (both := filter (fun key0 => ahas key0 ma && ahas key0 mb) known_merge_keys) in *.
  set (agree := fun key0 => String.eqb (smk (jget key0 ma)) (smk (jget key0 mb))) in *.
  assert (Ib' : In key' both) by (apply filter_In; split; auto; now rewrite Ca', Cb').
  assert (Ib : In key both) by (apply filter_In; split; auto; now rewrite Ca, Cb).
  assert (Hex : existsb agree both = true).
  { apply existsb_exists. exists key'. split; auto. unfold agree. rewrite He. apply eqb_refl'. }
  rewrite Hex in H2. cbn [negb orb] in H2.
  pose proof (forallb_In _ _ _ H2 Ib) as H3. unfold agree in H3. now apply String.eqb_eq in H3.
Qed.

Lemma nodup_keys_transfer key key' rl :
  nodup_str (keys_of key rl) = true ->
  (forall a, In a rl -> exists k, item_key key a = Some k) ->
  (forall a b, In a rl -> In b rl -> item_key key' a = item_key key' b ->
               item_key key' a <> None -> item_key key a = item_key key b) ->
  nodup_str (keys_of key' rl) = true.
Proof.
  induction rl as [|a rl IH]; intros Hnd Hk Hinj; [reflexivity|].
  rewrite keys_of_cons in Hnd. destruct (Hk a (or_introl eq_refl)) as [ka Hka]. rewrite Hka in Hnd.
  cbn [nodup_str] in Hnd. apply andb_split in Hnd as [Hn Hd].
  assert (IH' : nodup_str (keys_of key' rl) = true).
  { apply IH; auto.
    - intros x Hx. apply Hk. now right.
    - intros x y Hx Hy. apply Hinj; now right. }
  rewrite keys_of_cons. destruct (item_key key' a) as [ka'|] eqn:Ea'; [|exact IH'].
  cbn [nodup_str]. rewrite IH', Bool.andb_true_r. apply Bool.negb_true_iff.
  destruct (mem_str ka' (keys_of key' rl)) eqn:Em; [|reflexivity]. exfalso.
  apply mem_keys_of in Em as (b & Hb & Hkb).
  assert (He : item_key key a = item_key key b).
  { apply Hinj; [now left|now right|congruence|congruence]. }
  apply Bool.negb_true_iff in Hn.
  assert (mem_str ka (keys_of key rl) = true) by (apply mem_keys_of; exists b; split; congruence).
  congruence.
Qed.

(* ---------- the second apply on the rebuilt list ---------- *)
Section IdemLM.
  Variables (key : string) (ol ll sl : list json) (dmap lmap merged : amap).
  Hypothesis F : lm_facts key ol ll sl.
  Hypothesis Hdmap : make_list_map key ol [] = Ok dmap.
  Hypothesis Hlmap : make_list_map key ll [] = Ok lmap.
  Hypothesis Hmerged :
    mlm_aux key (remove_last dmap (akeys lmap) (des_has_key key sl)) lmap sl
            (remove_last dmap (akeys lmap) (des_has_key key sl)) = Ok merged.
  Hypothesis Hcontain : forall s k r,
    In s sl -> item_key key s = Some k ->
    merge s (find_item_or_null key k ol) (find_item_or_null key k ll) = Ok r ->
    containsb s r = true.
  Hypothesis Hidem : forall s k r,
    In s sl -> item_key key s = Some k ->
    merge s (find_item_or_null key k ol) (find_item_or_null key k ll) = Ok r ->
    merge s r s = Ok r.
  Hypothesis Wo : list_wf ol = true.
  Hypothesis Ws : list_wf sl = true.
  Hypothesis Cx : cross_ok ol sl = true.

  Let rl := lm_res key ol sl merged.
  Let Hko := lf_nd_o _ _ _ _ F.
  Let Hkl := lf_nd_l _ _ _ _ F.
  Let Hkd := lf_nd_s _ _ _ _ F.
  Let Hcons := lm_cons key ol ll sl F Hcontain.
  Let R_find_des := res_find_des key ol ll sl dmap lmap merged Hko Hkl Hkd Hdmap Hlmap Hmerged Hcons.
  Let R_In := res_In key ol ll sl dmap lmap merged Hko Hkl Hdmap Hlmap Hmerged.
  Let R_nodup := res_nodup key ol ll sl dmap lmap merged Hko Hkl Hkd Hdmap Hlmap Hmerged Hcons.
  Let R_objs := res_all_objs key ol ll sl dmap lmap merged Hko Hkl Hkd Hdmap Hlmap Hmerged.
  Let C_other := ctx_merged_other key ol ll sl dmap lmap merged Hko Hkl Hdmap Hlmap Hmerged.
  Let C_des := ctx_merged_des key ol ll sl dmap lmap merged Hko Hkl Hkd Hdmap Hlmap Hmerged.

  Lemma res_class v :
    In v rl ->
    (exists s k, In s sl /\ item_key key s = Some k /\
                 merge s (find_item_or_null key k ol) (find_item_or_null key k ll) = Ok v) \/
    (In v ol /\ exists k, item_key key v = Some k /\ mem_str k (keys_of key sl) = false).
  Proof.
    intros Hv. apply R_In in Hv as (k & _ & Hl).
    destruct (mem_str k (keys_of key sl)) eqn:E.
    - left. apply mem_keys_of in E as (s & Hin & Hk).
      destruct (C_des s k Hin Hk) as (r & Hr & Hl'). rewrite Hl' in Hl. inversion Hl; subst v.
      eauto.
    - right. rewrite (C_other k E) in Hl. destruct (mem_str k (keys_of key ll)); [discriminate|].
      apply find_item_Some in Hl as [Hin Hk]. eauto.
  Qed.

  Lemma res_carries m : In (JObj m) rl -> ahas key m = true.
  Proof.
    intros Hv. destruct (res_class _ Hv) as [(s & k & Hin & Hk & Hr)|(Hin & _)].
    - destruct (all_objs_In _ _ (lf_objs_s _ _ _ _ F) Hin) as [ms ->].
      pose proof (Hcontain _ _ _ Hin Hk Hr) as Hc. rewrite containsb_obj_obj in Hc.
      destruct (lf_car_s _ _ _ _ F ms Hin) as [Hh _].
      apply ahas_true_alookup in Hh as [v Hv'].
      pose proof (forallb_In _ _ _ Hc (alookup_In _ _ _ Hv')) as H. cbn [fst snd] in H.
      now apply andb_split in H as [H _].
    - now apply (lf_car_o _ _ _ _ F m Hin).
  Qed.

  Lemma lm_second_none : detect_key rl sl sl = None -> rl = sl.
  Proof.
    intros E. destruct (rl ++ sl ++ sl) eqn:En.
    - apply app_eq_nil in En as [-> En]. apply app_eq_nil in En as [-> _]. reflexivity.
    - exfalso. destruct (detect_key_some key rl sl sl) as [key' E'].
      + apply F.
      + rewrite En. discriminate.
      + rewrite !all_objs_app. unfold rl. rewrite R_objs by apply F. now rewrite (lf_objs_s _ _ _ _ F).
      + intros m Hm. apply in_app_or in Hm as [Hm|Hm]; [now apply res_carries|].
        apply in_app_or in Hm as [Hm|Hm]; now apply (lf_car_s _ _ _ _ F m Hm).
      + congruence.
  Qed.

  Variable key' : string.
  Hypothesis E' : detect_key rl sl sl = Some key'.

  Let K' := proj1 (detect_key_carries _ _ _ _ E').
  Lemma carry'_r m : In (JObj m) rl -> ahas key' m = true.
  Proof. intros H. apply (proj2 (detect_key_carries _ _ _ _ E')). apply in_or_app. now left. Qed.
  Lemma carry'_s m : In (JObj m) sl -> ahas key' m = true.
  Proof.
    intros H. apply (proj2 (detect_key_carries _ _ _ _ E')). apply in_or_app. right.
    apply in_or_app. now left.
  Qed.

  Let S' := list_wf_key sl key' Ws K' carry'_s.

  Lemma key'_of_result s k v :
    In s sl -> item_key key s = Some k ->
    merge s (find_item_or_null key k ol) (find_item_or_null key k ll) = Ok v ->
    item_key key' v = item_key key' s.
  Proof.
    intros Hin Hk Hr. destruct (all_objs_In _ _ (lf_objs_s _ _ _ _ F) Hin) as [ms ->].
    rewrite (item_key_of_obj key' ms).
    eapply contains_item_key; eauto.
    - now apply carry'_s.
    - now apply (proj2 S').
  Qed.

  Lemma res_inj a b :
    In a rl -> In b rl -> item_key key' a = item_key key' b -> item_key key a = item_key key b.
  Proof.
    intros Ha Hb He.
    destruct (res_class _ Ha) as [(s & ks & Hs & Hks & Hrs)|(Hao & ka & Hka & Hna)];
    destruct (res_class _ Hb) as [(t & kt & Ht & Hkt & Hrt)|(Hbo & kb & Hkb & Hnb)].
    - (* both merged *)
      rewrite (key'_of_result _ _ _ Hs Hks Hrs), (key'_of_result _ _ _ Ht Hkt Hrt) in He.
      destruct (all_objs_In _ _ (lf_objs_s _ _ _ _ F) Hs) as [ms ->].
      rewrite (item_key_of_obj key' ms) in He. symmetry in He.
      pose proof (find_item_nodup key' _ sl _ (proj1 S') Hs (item_key_of_obj key' ms)) as F1.
      pose proof (find_item_nodup key' _ sl _ (proj1 S') Ht He) as F2.
      rewrite F1 in F2. inversion F2; subst t.
      rewrite (Hcons _ _ _ Hs Hks Hrs), (Hcons _ _ _ Ht Hkt Hrt). congruence.
    - (* a merged, b untouched *)
      exfalso.
      rewrite (key'_of_result _ _ _ Hs Hks Hrs) in He.
      destruct (all_objs_In _ _ (lf_objs_s _ _ _ _ F) Hs) as [ms ->].
      destruct (all_objs_In _ _ (lf_objs_o _ _ _ _ F) Hbo) as [mb ->].
      rewrite !item_key_of_obj in He. inversion He as [He'].
      pose proof (cross_ok_use ol sl mb ms key key' Cx Hbo Hs (lf_known _ _ _ _ F) K'
                    (proj1 (lf_car_o _ _ _ _ F mb Hbo)) (proj1 (lf_car_s _ _ _ _ F ms Hs))
                    (carry'_r mb Hb) (carry'_s ms Hs) (eq_sym He')) as Hq.
      rewrite item_key_of_obj in Hkb. inversion Hkb; subst kb.
      assert (Hm : mem_str (smk (jget key mb)) (keys_of key sl) = true).
      { apply mem_keys_of. exists (JObj ms). split; auto. rewrite item_key_of_obj. now rewrite Hq. }
      congruence.
    - (* a untouched, b merged *)
      exfalso.
      rewrite (key'_of_result _ _ _ Ht Hkt Hrt) in He.
      destruct (all_objs_In _ _ (lf_objs_s _ _ _ _ F) Ht) as [mt ->].
      destruct (all_objs_In _ _ (lf_objs_o _ _ _ _ F) Hao) as [ma ->].
      rewrite !item_key_of_obj in He. inversion He as [He'].
      pose proof (cross_ok_use ol sl ma mt key key' Cx Hao Ht (lf_known _ _ _ _ F) K'
                    (proj1 (lf_car_o _ _ _ _ F ma Hao)) (proj1 (lf_car_s _ _ _ _ F mt Ht))
                    (carry'_r ma Ha) (carry'_s mt Ht) He') as Hq.
      rewrite item_key_of_obj in Hka. inversion Hka; subst ka.
      assert (Hm : mem_str (smk (jget key ma)) (keys_of key sl) = true).
      { apply mem_keys_of. exists (JObj mt). split; auto. rewrite item_key_of_obj. now rewrite Hq. }
      congruence.
    - (* both untouched *)
      destruct (all_objs_In _ _ (lf_objs_o _ _ _ _ F) Hao) as [ma ->].
      destruct (all_objs_In _ _ (lf_objs_o _ _ _ _ F) Hbo) as [mb ->].
      rewrite !item_key_of_obj in He. inversion He as [He'].
      rewrite (list_wf_inj ol key' ma mb Wo K' Hao Hbo (carry'_r ma Ha) (carry'_r mb Hb) He').
      reflexivity.
  Qed.

  Lemma res_nodup' : nodup_str (keys_of key' rl) = true.
  Proof.
    apply nodup_keys_transfer with key.
    - apply R_nodup.
    - intros a Ha. assert (Ho : all_objs rl = true) by (apply R_objs; apply F).
      destruct (all_objs_In _ _ Ho Ha) as [m ->]. rewrite item_key_of_obj. eauto.
    - intros a b Ha Hb He _. now apply res_inj.
  Qed.

  Lemma lm_second : merge (JArr sl) (JArr rl) (JArr sl) = Ok (JArr rl).
  Proof.
    apply (lm_fixpoint sl rl key' E' res_nodup' (proj1 S')).
    intros s Hin. destruct (all_objs_In _ _ (lf_objs_s _ _ _ _ F) Hin) as [ms ->].
    destruct (R_find_des _ _ Hin (item_key_of_obj key ms)) as (r & Hr & _ & Hrin).
    exists (smk (jget key' ms)), r. split; [reflexivity|]. split.
    - apply find_item_nodup; [apply res_nodup'|exact Hrin|].
      rewrite (key'_of_result _ _ _ Hin (item_key_of_obj key ms) Hr). reflexivity.
    - eapply Hidem; eauto. reflexivity.
  Qed.
End IdemLM.

Print Assumptions merge_self.
