(* C13Proofs.v — C13: a bad hook answer never panics the controller and never
   leads to a write.
   1. sync / sync_r never return SPanic, in any environment; child_decision never
      returns ActPanic.
   2. After a rejected sync / finalize hook answer (undecodable body, transport
      error, non-hook answer) or a 429, the plain composite sync issues no further
      call and returns SErr (resp. SRequeue n).  With a rolling strategy further
      HOOK calls (for the other revisions) may follow, but no API request. *)
From MC Require Import Generated.
From MC Require Import Model.Rolling.
From MC Require Import Proofs.ApplyProofs Proofs.ApplyUpdateProofs.
From MC Require Import Proofs.C06Proofs Proofs.C04Proofs Proofs.RollPanic.
Local Open Scope list_scope.

(* ================================================================== *)
(* 0. child_decision / apply_update never panic                        *)
(* ================================================================== *)
Lemma revert_field_no_panic n orig path : revert_field n orig path <> Panic.
Proof.
  unfold revert_field. destruct (nested_get orig path) as [v| |]; try discriminate.
  destruct (nested_set n path v); discriminate.
Qed.

Lemma revert_fields_no_panic paths : forall n orig, revert_fields n orig paths <> Panic.
Proof.
  induction paths as [|p ps IH]; intros n orig; cbn [revert_fields]; [discriminate|].
  pose proof (revert_field_no_panic n orig p) as H1.
  destruct (revert_field n orig p) as [o| |]; cbn [rbind]; [apply IH|discriminate|congruence].
Qed.

Lemma get_last_applied_no_panic orig : get_last_applied orig <> Panic.
Proof.
  unfold get_last_applied. destruct (get_annotations orig) as [ann|]; [|discriminate].
  destruct (alookup last_applied_annotation ann) as [v|]; [|discriminate].
  destruct v as [ | | | |s|t| | ]; try discriminate.
  - destruct (String.eqb s ""); discriminate.
  - destruct t; discriminate.
Qed.

Theorem apply_update_no_panic orig upd : apply_update orig upd <> Panic.
Proof.
  unfold apply_update, Merge.
  pose proof (get_last_applied_no_panic orig) as HL.
  destruct (get_last_applied orig) as [last| |]; cbn [rbind]; [|discriminate|congruence].
  pose proof (merge_no_panic (JObj (nullify_last_applied upd)) (JObj orig) last) as HM.
  destruct (merge (JObj (nullify_last_applied upd)) (JObj orig) last) as [merged| |] eqn:EM;
    cbn [rbind]; [|discriminate|congruence].
  apply merge_dest_obj in EM. destruct EM as [rm ->].
  pose proof (revert_fields_no_panic system_paths rm orig) as H1.
  destruct (revert_fields rm orig system_paths) as [n1| |]; cbn [rbind]; [|discriminate|congruence].
  pose proof (revert_field_no_panic n1 orig ["status"%string]) as H2.
  destruct (revert_field n1 orig ["status"%string]) as [n2| |]; cbn [rbind]; [discriminate|discriminate|congruence].
Qed.

(* ActPanic is in the model only for completeness: it cannot arise *)
Theorem C13_child_decision_no_panic c kc parent observed desired :
  child_decision c kc parent observed desired <> ActPanic.
Proof.
  destruct observed as [old|]; [|cbn [child_decision]; discriminate].
  rewrite child_decision_some.
  pose proof (apply_update_no_panic (obj_map old) (obj_map desired)) as HA.
  destruct (apply_update (obj_map old) (obj_map desired)) as [n| |]; [|discriminate|congruence].
  destruct (jeqb (JObj n) old); [discriminate|].
  destruct (is_deleting old); [discriminate|].
  unfold verb_by_method.
  destruct (String.eqb (meth c kc) method_on_delete); [discriminate|].
  destruct (String.eqb (meth c kc) method_recreate || String.eqb (meth c kc) method_rolling_recreate); [discriminate|].
  destruct (String.eqb (meth c kc) method_in_place || String.eqb (meth c kc) method_rolling_in_place); discriminate.
Qed.

(* ================================================================== *)
(* 1. the children of an accepted hook response have no nil entry      *)
(* ================================================================== *)
Definition is_some {A} (o : option A) : bool := match o with Some _ => true | None => false end.

Definition hook_ok (hr : hook_result) : Prop :=
  forall r, hr = HRResp r -> forallb is_some (hr_children r) = true.

Lemma default_ns_filter_some ns (l : list (option json)) :
  forallb is_some (map (default_ns ns)
                       (filter (fun c => match c with Some _ => true | None => false end) l)) = true.
Proof.
  induction l as [|[o|] l IH]; cbn [filter]; [reflexivity| |exact IH].
  cbn [map forallb]. rewrite IH. unfold default_ns.
  destruct (String.eqb (get_ns o) ""); reflexivity.
Qed.

Lemma aggregate_children_some pns prs : forallb is_some (aggregate_children pns prs) = true.
Proof.
  unfold aggregate_children. destruct prs as [|latest rest]; [reflexivity|]. cbv zeta.
  match goal with |- forallb _ (map _ ?l) = true => generalize l end.
  intros l. induction l as [|[[[a kd] n] o] l IH]; [reflexivity|].
  cbn [map forallb is_some]. exact IH.
Qed.

Lemma desired_map_total cs : forallb is_some cs = true -> forall m, desired_map cs m <> None.
Proof.
  induction cs as [|[o|] cs IH]; cbn [forallb is_some desired_map]; intros H m.
  - discriminate.
  - apply IH. exact H.
  - discriminate.
Qed.

(* finish_sync under that hypothesis never returns SPanic *)
Lemma finish_sync_no_panic c parent observed r :
  forallb is_some (hr_children r) = true ->
  post_all (fun x => x <> SPanic) (finish_sync c parent observed r).
Proof.
  intros Hch. unfold finish_sync.
  pose proof (desired_map_total _ Hch []) as Hd.
  destruct (desired_map (hr_children r) []) as [d0|]; [|congruence].
  apply post_all_any. intros _. apply post_all_any. intros pr.
  destruct pr as [p2|e]; [|apply PA_ret; discriminate].
  destruct (make_selector c p2) as [sel|]; [|apply PA_ret; discriminate].
  destruct (enforce_labels c p2 sel (uobjects d0)) as [ds|]; [|apply PA_ret; discriminate].
  cbv zeta. apply post_all_any. intros failed. apply post_all_any. intros sr.
  destruct sr as [x|e]; [apply PA_ret; destruct failed; discriminate|].
  destruct e; apply PA_ret; destruct failed; discriminate.
Qed.

(* ================================================================== *)
(* 2. histories: the oldest rejected sync / finalize hook answer       *)
(* ================================================================== *)

(* what the controller makes of an answer to a sync / finalize hook call:
   None = accepted (HTTP 200 with a decodable body) *)
Definition hook_outcome (a : answer) : option sync_result :=
  match a with
  | AHook body => match decode_composite body with None => Some SErr | Some _ => None end
  | AHook429 n => Some (SRequeue n)
  | _ => Some SErr                       (* AHookErr, or an answer that is not a hook answer *)
  end.

Definition rejected (a : answer) : Prop := hook_outcome a <> None.

(* [note] is modelled as a CHook HCustomize call: not a sync / finalize hook call *)
Definition main_hook (cl : call) : bool :=
  match cl with CHook HSync _ | CHook HFinalize _ => true | _ => false end.

Definition entry_outcome (ca : call * answer) : option sync_result :=
  if main_hook (fst ca) then hook_outcome (snd ca) else None.

(* histories are most recent first: the oldest rejected entry wins *)
Fixpoint first_rej (h : hist) : option sync_result :=
  match h with
  | [] => None
  | ca :: h' => match first_rej h' with Some r => Some r | None => entry_outcome ca end
  end.

(* no sync / finalize hook call of the history was rejected *)
Definition quiet (h : hist) : Prop := first_rej h = None.

Lemma first_rej_app h1 h2 :
  first_rej (h1 ++ h2) = match first_rej h2 with Some r => Some r | None => first_rej h1 end.
Proof.
  induction h1 as [|ca h1 IH]; cbn [app first_rej]; [destruct (first_rej h2); reflexivity|].
  rewrite IH. destruct (first_rej h2); reflexivity.
Qed.

Lemma quiet_iff h :
  quiet h <-> forall cl a, In (cl, a) h -> main_hook cl = true -> hook_outcome a = None.
Proof.
  unfold quiet. induction h as [|[cl0 a0] h IH]; cbn [first_rej In].
  - split; [intros _ cl a []|reflexivity].
  - split.
    + intros H cl a [Heq|Hin] Hm.
      * inversion Heq; subst cl0 a0. destruct (first_rej h); [discriminate|].
        unfold entry_outcome in H. cbn [fst snd] in H. rewrite Hm in H. exact H.
      * destruct (first_rej h); [discriminate|]. apply (proj1 IH eq_refl cl a Hin Hm).
    + intros H. rewrite (proj2 IH); [|intros cl a Hin; apply H; right; exact Hin].
      unfold entry_outcome. cbn [fst snd]. destruct (main_hook cl0) eqn:Hm; [|reflexivity].
      apply (H cl0 a0); [left; reflexivity|exact Hm].
Qed.

Lemma main_hook_iff cl : main_hook cl = true <-> exists hk body, cl = CHook hk body /\ hk <> HCustomize.
Proof.
  split.
  - destruct cl as [q|hk body]; [discriminate|]. destruct hk; try discriminate;
      intros _; eexists _, _; (split; [reflexivity|discriminate]).
  - intros (hk & body & -> & Hne). destruct hk; [reflexivity|reflexivity|congruence].
Qed.

Lemma benign_not_main cl : benign cl -> main_hook cl = false.
Proof. destruct cl as [q|[| |] body]; cbn; intros H; try reflexivity; destruct H. Qed.

Lemma quiet_benign cl a h : benign cl -> quiet h -> quiet ((cl, a) :: h).
Proof.
  unfold quiet. intros Hb Hq. cbn [first_rej]. rewrite Hq. unfold entry_outcome. cbn [fst].
  rewrite (benign_not_main cl Hb). reflexivity.
Qed.

(* a program that only issues benign calls keeps the history quiet *)
Lemma hist_post_benign {R} (Phi : hist -> call -> Prop) (p : prog R) :
  all_calls benign p ->
  (forall h cl, quiet h -> Phi h cl) ->
  forall h, quiet h -> hist_post Phi (fun h' _ => quiet h') h p.
Proof.
  intros Hp HPhi. induction Hp as [r|cl k Hc Hk IH]; intros h Hq.
  - apply HP_ret. exact Hq.
  - apply HP_do; [apply HPhi; exact Hq|]. intros a. apply IH. apply quiet_benign; assumption.
Qed.

Lemma hist_post_and_all {R} Phi (Q1 : hist -> R -> Prop) (Q2 : R -> Prop) h (p : prog R) :
  hist_post Phi Q1 h p -> post_all Q2 p -> hist_post Phi (fun h' r => Q1 h' r /\ Q2 r) h p.
Proof.
  intros H1. induction H1 as [h r Hq|h cl k Hc Hk IH]; intros H2.
  - inversion H2; subst. apply HP_ret. split; assumption.
  - inversion H2 as [|cl' k' Hk2]; subst. apply HP_do; [exact Hc|]. intros a. apply IH. apply Hk2.
Qed.

(* ---------- one hook call ---------- *)
Definition hr_outcome (hr : hook_result) : option sync_result :=
  match hr with
  | HRNone => None                 (* no call was made *)
  | HRErr => Some SErr
  | HR429 n => Some (SRequeue n)
  | HRResp _ => None
  end.

Definition or_else (a b : option sync_result) : option sync_result :=
  match a with Some x => Some x | None => b end.

Lemma call_hook_hist (Phi : hist -> call -> Prop) c parent observed related h :
  (forall cl, main_hook cl = true -> Phi h cl) ->
  hist_post Phi (fun h' hr => first_rej h' = or_else (first_rej h) (hr_outcome hr) /\
                              (hr = HRNone -> has_sync c = false) /\ hook_ok hr)
            h (call_hook c parent observed related).
Proof.
  intros HPhi. unfold call_hook. cbv zeta.
  set (fin := has_finalize c && (is_deleting parent || negb (sel_matches (p_selector c) (get_labels parent)))).
  destruct (negb fin && negb (has_sync c)) eqn:E.
  - apply HP_ret. split; [unfold or_else; destruct (first_rej h); reflexivity|]. split.
    + intros _. apply Bool.andb_true_iff in E. destruct E as [_ E].
      apply Bool.negb_true_iff in E. exact E.
    + intros r Hr. discriminate.
  - set (cl := CHook (if fin then HFinalize else HSync) (hook_request parent observed related fin)).
    assert (Hm : main_hook cl = true) by (unfold cl; destruct fin; reflexivity).
    apply HP_do; [apply HPhi; exact Hm|].
    assert (Hfr : forall a, first_rej ((cl, a) :: h) = or_else (first_rej h) (hook_outcome a)).
    { intros a. cbn [first_rej]. unfold entry_outcome. cbn [fst snd]. rewrite Hm. reflexivity. }
    intros a. destruct a as [o|e|body| |n].
    + apply HP_ret. rewrite Hfr. split; [reflexivity|]. split; intros; discriminate.
    + apply HP_ret. rewrite Hfr. split; [reflexivity|]. split; intros; discriminate.
    + destruct (decode_composite body) as [r|] eqn:Ed.
      * apply HP_ret. rewrite Hfr. cbn [hook_outcome]. rewrite Ed. split; [reflexivity|].
        split; [intros; discriminate|]. intros r' Hr. inversion Hr; subst r'. cbn [hr_children].
        apply default_ns_filter_some.
      * apply HP_ret. rewrite Hfr. cbn [hook_outcome]. rewrite Ed. split; [reflexivity|].
        split; intros; discriminate.
    + apply HP_ret. rewrite Hfr. split; [reflexivity|]. split; intros; discriminate.
    + apply HP_ret. rewrite Hfr. split; [reflexivity|]. split; intros; discriminate.
Qed.

(* ---------- the common shape of sync_parent_object / sync_parent_object_r ---------- *)
Definition spo_with (hp : json -> umap -> umap -> prog hook_result)
           (c : ccfg) (k : cache) (parent : json) : prog sync_result :=
  if ignores_parent c parent then Ret SDone else
  fr <~ sync_finalizer c parent ;;
  match fr with
  | RErr _ => Ret SErr
  | ROk parent =>
      if ignores_parent c parent then Ret SDone else
      oc <~ claim_children c k parent ;;
      match oc with
      | None => Ret SErr
      | Some observed =>
          orel <~ related_phase c k parent ;;
          match orel with
          | None => Ret SErr
          | Some related =>
              hr <~ hp parent observed related ;;
              match hr with
              | HRNone | HRErr => Ret SErr
              | HR429 n => Ret (SRequeue n)
              | HRResp r => finish_sync c parent observed r
              end
          end
      end
  end.

Lemma spo_eq c k parent : sync_parent_object c k parent = spo_with (hook_phase c k) c k parent.
Proof. reflexivity. Qed.

Lemma spo_r_eq c k parent : sync_parent_object_r c k parent = spo_with (hook_phase_rolling c k) c k parent.
Proof. reflexivity. Qed.

Lemma finish_sync_hist (Phi : hist -> call -> Prop) c parent observed r h :
  (forall h cl, quiet h -> Phi h cl) ->
  quiet h -> forallb is_some (hr_children r) = true ->
  hist_post Phi (fun h' x => quiet h' /\ x <> SPanic) h (finish_sync c parent observed r).
Proof.
  intros HPhi Hq Hch. apply hist_post_and_all.
  - apply hist_post_benign; [apply bn_finish_sync|exact HPhi|exact Hq].
  - apply finish_sync_no_panic. exact Hch.
Qed.

Lemma spo_with_hist (Phi : hist -> call -> Prop) (Qh : hist -> hook_result -> Prop)
      (Qf : hist -> sync_result -> Prop) hp c k :
  (forall h cl, quiet h -> Phi h cl) ->
  (forall h r, quiet h -> Qf h r) ->
  (forall h, Qh h HRNone -> Qf h SErr) ->
  (forall h, Qh h HRErr -> Qf h SErr) ->
  (forall h n, Qh h (HR429 n) -> Qf h (SRequeue n)) ->
  (forall h r, Qh h (HRResp r) -> quiet h) ->
  (forall p o rel h, quiet h -> hist_post Phi (fun h' hr => Qh h' hr /\ hook_ok hr) h (hp p o rel)) ->
  forall parent h, quiet h ->
  hist_post Phi (fun h' r => Qf h' r /\ r <> SPanic) h (spo_with hp c k parent).
Proof.
  intros HPhi HQf HNone HErr H429 HResp Hhp parent h Hq. unfold spo_with.
  destruct (ignores_parent c parent); [apply HP_ret; split; [apply HQf; exact Hq|discriminate]|].
  eapply hist_post_bind; [apply hist_post_benign; [apply bn_sync_finalizer|exact HPhi|exact Hq]|].
  intros h1 fr Hq1. cbv beta in Hq1.
  destruct fr as [p1|e]; [|apply HP_ret; split; [apply HQf; exact Hq1|discriminate]].
  destruct (ignores_parent c p1); [apply HP_ret; split; [apply HQf; exact Hq1|discriminate]|].
  eapply hist_post_bind; [apply hist_post_benign; [apply bn_claim_children|exact HPhi|exact Hq1]|].
  intros h2 oc Hq2. cbv beta in Hq2.
  destruct oc as [observed|]; [|apply HP_ret; split; [apply HQf; exact Hq2|discriminate]].
  unfold related_phase. cbn [bind].
  eapply hist_post_bind; [apply Hhp; exact Hq2|].
  intros h3 hr [HQ Hok]. destruct hr as [| |n|r].
  - apply HP_ret. split; [apply HNone; exact HQ|discriminate].
  - apply HP_ret. split; [apply HErr; exact HQ|discriminate].
  - apply HP_ret. split; [apply H429; exact HQ|discriminate].
  - eapply hist_post_weaken; [intros h' cl Hc; exact Hc| |
      apply finish_sync_hist; [exact HPhi|apply (HResp _ _ HQ)|apply Hok; reflexivity]].
    intros h' x [Hq' Hx]. split; [apply HQf; exact Hq'|exact Hx].
Qed.

(* ================================================================== *)
(* 3. the plain composite sync                                         *)
(* ================================================================== *)

(* a call is only ever issued while no sync / finalize hook answer has been rejected *)
Definition C13_phi (h : hist) (cl : call) : Prop := quiet h.
(* and the result is the one the oldest (here: only) rejected answer dictates *)
Definition C13_post (h : hist) (r : sync_result) : Prop := forall res, first_rej h = Some res -> r = res.

Lemma C13_post_quiet h r : quiet h -> C13_post h r.
Proof. unfold quiet, C13_post. intros Hq res H. congruence. Qed.

Theorem C13_rejected_no_writes c k parent :
  hist_post C13_phi (fun h r => C13_post h r /\ r <> SPanic) [] (sync_parent_object c k parent).
Proof.
  rewrite spo_eq.
  apply spo_with_hist with (Qh := fun h hr => first_rej h = hr_outcome hr).
  - intros h cl Hq. exact Hq.
  - apply C13_post_quiet.
  - intros h H. apply C13_post_quiet. exact H.
  - intros h H res Hr. cbn [hr_outcome] in H. congruence.
  - intros h n H res Hr. cbn [hr_outcome] in H. congruence.
  - intros h r H. exact H.
  - intros p o rel h Hq. unfold hook_phase.
    eapply hist_post_weaken; [intros h' cl Hc; exact Hc| |apply call_hook_hist; intros cl _; exact Hq].
    intros h' hr (H1 & _ & H3). rewrite Hq in H1. cbn [or_else] in H1. split; assumption.
  - reflexivity.
Qed.

(* the trigger, spelled out: a sync / finalize hook call answered by a rejected answer or a 429 *)
Lemma entry_outcome_main hk body a res :
  hk <> HCustomize -> hook_outcome a = Some res -> entry_outcome (CHook hk body, a) = Some res.
Proof.
  intros Hne Ho. unfold entry_outcome. cbn [fst snd].
  destruct hk; [exact Ho|exact Ho|congruence].
Qed.

(* the same with the trigger spelled out on the head of the history: no call is ever
   issued immediately after a rejected sync / finalize hook answer *)
Definition C13_phi_head (h : hist) (cl : call) : Prop :=
  ~ (exists hk body a rest, h = (CHook hk body, a) :: rest /\ hk <> HCustomize /\ rejected a).

Definition C13_post_head (h : hist) (r : sync_result) : Prop :=
  forall hk body a rest res,
    h = (CHook hk body, a) :: rest -> hk <> HCustomize -> quiet rest ->
    hook_outcome a = Some res -> r = res.

Theorem C13_rejected_no_writes_head c k parent :
  hist_post C13_phi_head C13_post_head [] (sync_parent_object c k parent).
Proof.
  eapply hist_post_weaken; [| |apply C13_rejected_no_writes].
  - intros h cl Hq (hk & body & a & rest & -> & Hne & Hrej).
    unfold C13_phi, quiet in Hq. cbn [first_rej] in Hq.
    destruct (first_rej rest); [discriminate|].
    unfold rejected in Hrej. destruct (hook_outcome a) as [res|] eqn:Ho; [|congruence].
    rewrite (entry_outcome_main hk body a res Hne Ho) in Hq. discriminate.
  - intros h r [HQ _] hk body a rest res -> Hne Hq Ho. apply HQ.
    cbn [first_rej]. rewrite Hq. apply entry_outcome_main; assumption.
Qed.

(* run-level: in every environment, a rejected sync / finalize hook answer is the LAST
   entry of the trace (the head of the history) and decides the result *)
Corollary C13_rejected_no_writes_run c k parent (e : env) hk body a res :
  In (CHook hk body, a) (fst (run (sync_parent_object c k parent) e [])) ->
  hk <> HCustomize -> hook_outcome a = Some res ->
  (exists rest, fst (run (sync_parent_object c k parent) e []) = (CHook hk body, a) :: rest /\
                quiet rest) /\
  snd (run (sync_parent_object c k parent) e []) = res.
Proof.
  intros Hin Hne Ho.
  destruct (hist_post_run _ _ _ _ e (C13_rejected_no_writes c k parent)) as [[HQ _] [new [Hnew Hall]]].
  rewrite app_nil_r in Hnew. rewrite Hnew in *.
  apply in_split in Hin. destruct Hin as [post [pre Heq]].
  pose proof (entry_outcome_main hk body a res Hne Ho) as He.
  destruct (exists_last_or_nil post) as [->|[post' [[cl' a'] ->]]].
  - cbn [app] in Heq. pose proof (Hall [] _ _ pre Heq) as Hpre. rewrite app_nil_r in Hpre.
    unfold C13_phi in Hpre. split.
    + exists pre. split; assumption.
    + apply HQ. rewrite Heq. cbn [first_rej]. rewrite Hpre. exact He.
  - exfalso. rewrite <- app_assoc in Heq. cbn [app] in Heq.
    pose proof (Hall post' cl' a' _ Heq) as Hbad. rewrite app_nil_r in Hbad.
    unfold C13_phi, quiet in Hbad. cbn [first_rej] in Hbad.
    destruct (first_rej pre); [discriminate|]. congruence.
Qed.

(* the same in terms of trace_of (oldest first) / result_of *)
Corollary C13_rejected_is_last c k parent (e : env) hk body a res :
  In (CHook hk body, a) (trace_of (sync_parent_object c k parent) e) ->
  hk <> HCustomize -> hook_outcome a = Some res ->
  (exists before, trace_of (sync_parent_object c k parent) e = before ++ [(CHook hk body, a)]) /\
  result_of (sync_parent_object c k parent) e = res.
Proof.
  unfold trace_of, result_of. intros Hin Hne Ho. apply in_rev in Hin.
  destruct (C13_rejected_no_writes_run c k parent e hk body a res Hin Hne Ho) as [[rest [Heq _]] Hr].
  split; [|exact Hr]. exists (rev rest). rewrite Heq. reflexivity.
Qed.

(* the two cases of the statement *)
Corollary C13_rejected_SErr c k parent (e : env) hk body a :
  In (CHook hk body, a) (trace_of (sync_parent_object c k parent) e) ->
  hk <> HCustomize ->
  (a = AHookErr \/ (exists o, a = AObj o) \/ (exists x, a = AFail x) \/
   (exists b, a = AHook b /\ decode_composite b = None)) ->
  (exists before, trace_of (sync_parent_object c k parent) e = before ++ [(CHook hk body, a)]) /\
  result_of (sync_parent_object c k parent) e = SErr.
Proof.
  intros Hin Hne Ha. apply C13_rejected_is_last; [exact Hin|exact Hne|].
  destruct Ha as [->|[[o ->]|[[x ->]|[b [-> Hd]]]]]; cbn [hook_outcome]; try reflexivity.
  rewrite Hd. reflexivity.
Qed.

Corollary C13_429_SRequeue c k parent (e : env) hk body n :
  In (CHook hk body, AHook429 n) (trace_of (sync_parent_object c k parent) e) ->
  hk <> HCustomize ->
  (exists before, trace_of (sync_parent_object c k parent) e = before ++ [(CHook hk body, AHook429 n)]) /\
  result_of (sync_parent_object c k parent) e = SRequeue n.
Proof. intros Hin Hne. apply C13_rejected_is_last; [exact Hin|exact Hne|reflexivity]. Qed.

(* ================================================================== *)
(* 4. with a rolling strategy                                          *)
(* ================================================================== *)

(* once a sync / finalize hook answer has been rejected only further sync / finalize
   hook calls (for the other revisions) are issued: no API request, no note *)
Definition C13_phi_r (h : hist) (cl : call) : Prop := first_rej h <> None -> main_hook cl = true.

(* call_hooks does not stop at the first failure, and a revision whose materialised parent
   needs no hook call yields HRNone without any call: when has_sync c = false such an
   HRNone can precede the rejected answer in first_hook_failure and the result is SErr *)
Definition C13_post_r (c : ccfg) (h : hist) (r : sync_result) : Prop :=
  forall res, first_rej h = Some res -> r = res \/ (has_sync c = false /\ r = SErr).

Lemma C13_phi_r_quiet h cl : quiet h -> C13_phi_r h cl.
Proof. unfold quiet, C13_phi_r. intros Hq H. congruence. Qed.

Lemma C13_post_r_quiet c h r : quiet h -> C13_post_r c h r.
Proof. unfold quiet, C13_post_r. intros Hq res H. congruence. Qed.

Fixpoint first_out (rs : list (prev * hook_result)) : option sync_result :=
  match rs with
  | [] => None
  | pr :: rs' => or_else (hr_outcome (snd pr)) (first_out rs')
  end.

Lemma call_hooks_hist c observed related prs : forall h,
  hist_post C13_phi_r
    (fun h' answers => first_rej h' = or_else (first_rej h) (first_out answers) /\
                       (forall p, In (p, HRNone) answers -> has_sync c = false) /\
                       (forall p hr, In (p, hr) answers -> hook_ok hr))
    h (call_hooks c observed related prs).
Proof.
  unfold call_hooks. induction prs as [|p prs IH]; intros h; cbn [mapM].
  - apply HP_ret. split; [unfold or_else; cbn [first_out]; destruct (first_rej h); reflexivity|].
    split; [intros p []|intros p hr []].
  - apply hist_post_bind with
      (Q := fun h1 (pr : prev * hook_result) =>
              first_rej h1 = or_else (first_rej h) (hr_outcome (snd pr)) /\
              (snd pr = HRNone -> has_sync c = false) /\ hook_ok (snd pr)).
    { eapply hist_post_bind; [apply call_hook_hist; intros cl Hm _; exact Hm|].
      intros h1 hr H1. apply HP_ret. cbn [snd]. exact H1. }
    intros h1 [p1 hr1] H1. cbn [snd] in H1.
    eapply hist_post_bind; [apply IH|].
    intros h2 rest (H2 & H2n & H2k). apply HP_ret.
    destruct H1 as (H1 & H1n & H1k). split; [|split].
    + rewrite H2, H1. cbn [first_out snd]. unfold or_else.
      destruct (first_rej h); [reflexivity|]. destruct (hr_outcome hr1); reflexivity.
    + intros p0 [Heq|Hin]; [inversion Heq; subst; apply H1n; reflexivity|eapply H2n; exact Hin].
    + intros p0 hr0 [Heq|Hin]; [inversion Heq; subst; exact H1k|eapply H2k; exact Hin].
Qed.

Lemma fhf_none rs : first_hook_failure rs = None -> first_out rs = None.
Proof.
  unfold first_hook_failure. induction rs as [|[p r] rs IH]; cbn [find snd first_out]; [reflexivity|].
  destruct r as [| |n|r]; try discriminate. cbn [hr_outcome or_else]. exact IH.
Qed.

Lemma fhf_some rs r :
  first_hook_failure rs = Some r ->
  (exists p, In (p, r) rs) /\ (forall x, r <> HRResp x) /\ (r <> HRNone -> first_out rs = hr_outcome r).
Proof.
  unfold first_hook_failure. induction rs as [|[p r0] rs IH]; cbn [find snd first_out]; [discriminate|].
  destruct r0 as [| |n|r0].
  - intros [= <-]. split; [exists p; left; reflexivity|]. split; [discriminate|congruence].
  - intros [= <-]. split; [exists p; left; reflexivity|]. split; [discriminate|reflexivity].
  - intros [= <-]. split; [exists p; left; reflexivity|]. split; [discriminate|reflexivity].
  - intros H. destruct (IH H) as ([p' Hin] & H2 & H3).
    split; [exists p'; right; exact Hin|]. split; [exact H2|]. cbn [hr_outcome or_else]. exact H3.
Qed.

(* what the rolling hook phase guarantees *)
Definition hook_post_r (c : ccfg) (h : hist) (hr : hook_result) : Prop :=
  match hr with
  | HRNone => quiet h
  | HRErr => C13_post_r c h SErr
  | HR429 n => C13_post_r c h (SRequeue n)
  | HRResp _ => quiet h
  end.

Lemma srr_hist c k parent observed related h :
  quiet h ->
  hist_post C13_phi_r (fun h' hr => hook_post_r c h' hr /\ hook_ok hr) h
            (sync_revisions_rolling c k parent observed related).
Proof.
  intros Hq. unfold sync_revisions_rolling.
  assert (Hquiet_err : forall h', quiet h' ->
            hist_post C13_phi_r (fun h' hr => hook_post_r c h' hr /\ hook_ok hr) h' (Ret HRErr)).
  { intros h' Hq'. apply HP_ret. split; [apply C13_post_r_quiet; exact Hq'|intros r Hr; discriminate]. }
  eapply hist_post_bind;
    [apply hist_post_benign; [apply bn_claim_revisions|apply C13_phi_r_quiet|exact Hq]|].
  intros h1 oc Hq1. cbv beta in Hq1.
  destruct oc as [claimed|]; [|apply Hquiet_err; exact Hq1].
  cbv zeta.
  destruct (make_patch (obj_map parent) (field_paths c) []) as [lp|]; [|apply Hquiet_err; exact Hq1].
  destruct (fold_left _ _ _) as [[lr olds]|]; [|apply Hquiet_err; exact Hq1].
  match goal with |- hist_post _ _ _ (match ?x with Some _ => _ | None => _ end) =>
    destruct x as [lrev|] end; [|apply Hquiet_err; exact Hq1].
  eapply hist_post_bind; [apply call_hooks_hist|].
  intros h2 answers (Hfr & Hnone & Hoks). rewrite Hq1 in Hfr. cbn [or_else] in Hfr.
  destruct (first_hook_failure answers) as [hr|] eqn:Ef.
  - destruct (fhf_some _ _ Ef) as ([p Hin] & Hnr & Hout).
    destruct hr as [| |n|r].
    + apply HP_ret. split; [|intros r Hr; discriminate].
      intros res Hres. right. split; [eapply Hnone; exact Hin|reflexivity].
    + apply HP_ret. split; [|intros r Hr; discriminate].
      intros res Hres. left. rewrite Hfr, Hout in Hres by discriminate. cbn in Hres. congruence.
    + apply HP_ret. split; [|intros r Hr; discriminate].
      intros res Hres. left. rewrite Hfr, Hout in Hres by discriminate. cbn in Hres. congruence.
    + exfalso. apply (Hnr r). reflexivity.
  - apply fhf_none in Ef. rewrite Ef in Hfr.
    destruct (sync_rolling_update c (get_ns parent) observed _) as [[prs2 st]|];
      [|apply Hquiet_err; exact Hfr].
    eapply hist_post_bind;
      [apply hist_post_benign; [apply bn_manage_revisions|apply C13_phi_r_quiet|exact Hfr]|].
    intros h3 ok Hq3. cbv beta in Hq3.
    destruct (negb ok); [apply Hquiet_err; exact Hq3|].
    destruct (prune prs2) as [|l3 rest]; [apply Hquiet_err; exact Hq3|].
    apply HP_ret. split; [exact Hq3|].
    intros r Hr. injection Hr as <-. exact (aggregate_children_some (get_ns parent) (l3 :: rest)).
Qed.

Lemma hook_phase_rolling_hist c k parent observed related h :
  quiet h ->
  hist_post C13_phi_r (fun h' hr => hook_post_r c h' hr /\ hook_ok hr) h
            (hook_phase_rolling c k parent observed related).
Proof.
  intros Hq. unfold hook_phase_rolling.
  destruct (negb (any_rolling c) || (is_deleting parent && negb (should_finalize c parent))).
  - eapply hist_post_weaken; [intros h' cl Hc; exact Hc| |apply call_hook_hist; intros cl Hm _; exact Hm].
    intros h' hr (H1 & _ & H3). rewrite Hq in H1. cbn [or_else] in H1. split; [|exact H3].
    destruct hr as [| |n|r]; cbn [hook_post_r hr_outcome] in *.
    + exact H1.
    + intros res Hres. left. congruence.
    + intros res Hres. left. congruence.
    + exact H1.
  - apply srr_hist. exact Hq.
Qed.

Theorem C13_rejected_no_writes_r c k parent :
  hist_post C13_phi_r (fun h r => C13_post_r c h r /\ r <> SPanic) [] (sync_parent_object_r c k parent).
Proof.
  rewrite spo_r_eq.
  apply spo_with_hist with (Qh := hook_post_r c).
  - apply C13_phi_r_quiet.
  - apply C13_post_r_quiet.
  - intros h H. apply C13_post_r_quiet. exact H.
  - intros h H. exact H.
  - intros h n H. exact H.
  - intros h r H. exact H.
  - intros p o rel h Hq. apply hook_phase_rolling_hist. exact Hq.
  - reflexivity.
Qed.

(* run-level: every call after a rejected sync / finalize hook answer is again a
   sync / finalize hook call (so: no API request at all), and the result is the one
   dictated by the OLDEST rejected answer — or SErr when there is no sync hook *)
Corollary C13_rejected_no_writes_r_run c k parent (e : env) later hk body a earlier res :
  fst (run (sync_parent_object_r c k parent) e []) = later ++ (CHook hk body, a) :: earlier ->
  hk <> HCustomize -> hook_outcome a = Some res ->
  Forall (fun ca => main_hook (fst ca) = true) later /\
  (quiet earlier ->
   snd (run (sync_parent_object_r c k parent) e []) = res \/
   (has_sync c = false /\ snd (run (sync_parent_object_r c k parent) e []) = SErr)).
Proof.
  intros Heq Hne Ho.
  destruct (hist_post_run _ _ _ _ e (C13_rejected_no_writes_r c k parent)) as [[HQ _] [new [Hnew Hall]]].
  rewrite app_nil_r in Hnew. rewrite Hnew in *.
  pose proof (entry_outcome_main hk body a res Hne Ho) as He.
  split.
  - apply Forall_forall. intros [cl' a'] Hin. cbn [fst].
    apply in_split in Hin. destruct Hin as [l1 [l2 ->]].
    rewrite <- app_assoc in Heq. cbn [app] in Heq.
    pose proof (Hall l1 cl' a' _ Heq) as Hphi. rewrite app_nil_r in Hphi.
    apply Hphi. rewrite first_rej_app. cbn [first_rej].
    destruct (first_rej earlier); [discriminate|]. rewrite He. discriminate.
  - intros Hqe. apply HQ. rewrite Heq, first_rej_app. cbn [first_rej]. rewrite Hqe, He. reflexivity.
Qed.

(* Why C13_post_r has the second disjunct: the wording "the result is the one of the first
   rejected answer" is false without a sync hook.  Finalize hook only, field path
   metadata.deletionTimestamp: the latest revision's parent is live (no call: HRNone), an
   old revision materialises a parent that is being deleted (finalize hook called, answered
   429).  first_hook_failure reports the HRNone: the sync returns SErr, not SRequeue 5. *)
Definition cxr_cfg : ccfg :=
  mkCfg "cc" "v1" "P" "ps" false true true sel_everything
        [mkChild "v1" "cs" "C" false "RollingRecreate"] false true [] false false
        [["metadata"; "deletionTimestamp"]]%string [].
Definition cxr_parent : json :=
  JObj [("apiVersion", JStr "v1"); ("kind", JStr "P");
        ("metadata", JObj [("finalizers", JArr [JStr "metacontroller.io/compositecontroller-cc"]);
                           ("name", JStr "p"); ("uid", JStr "u")])]%string.
Definition cxr_rev : json :=
  JObj [("apiVersion", JStr "metacontroller.k8s.io/v1alpha1"); ("kind", JStr "ControllerRevision");
        ("metadata", JObj [("labels", JObj [("controller-uid", JStr "u");
                                            ("metacontroller.k8s.io/apiGroup", JStr "");
                                            ("metacontroller.k8s.io/resource", JStr "ps")]);
                           ("name", JStr "r1");
                           ("ownerReferences", JArr [JObj [("apiVersion", JStr "v1"); ("controller", JBool true);
                                                           ("kind", JStr "P"); ("name", JStr "p"); ("uid", JStr "u")]]);
                           ("uid", JStr "ru")]);
        ("parentPatch", JObj [("metadata", JObj [("deletionTimestamp", JStr "t")])])]%string.
Definition cxr_cache : cache := mkCache (Some cxr_parent) [(rev_res, [cxr_rev])].
Definition cxr_env : env := fun _ _ => AHook429 5.

Example C13_first_failure_counterexample :
  has_sync cxr_cfg = false /\
  exists body,
    run (sync_parent_object_r cxr_cfg cxr_cache cxr_parent) cxr_env [] =
    ([(CHook HFinalize body, AHook429 5)], SErr).
Proof. split; [reflexivity|]. eexists. vm_compute. reflexivity. Qed.

(* and, with a sync hook, hook calls really do follow a rejected answer (call_hooks is a mapM
   that does not stop at the first failure): the plain statement "no further call" is
   false for sync_parent_object_r *)
Definition cxr_cfg2 : ccfg :=
  mkCfg "cc" "v1" "P" "ps" false true true sel_everything
        [mkChild "v1" "cs" "C" false "RollingRecreate"] true true [] false false
        [["metadata"; "deletionTimestamp"]]%string [].

Example C13_rolling_calls_after_rejection :
  exists b1 b2,
    run (sync_parent_object_r cxr_cfg2 cxr_cache cxr_parent) (fun _ _ => AHookErr) [] =
    ([(CHook HFinalize b2, AHookErr); (CHook HSync b1, AHookErr)], SErr).
Proof. eexists _, _. vm_compute. reflexivity. Qed.

(* ORIGINAL WORDING (false in general, see C13_first_failure_counterexample): "after a rejected
   sync / finalize hook answer every later call is a CHook, and the result is SErr / SRequeue
   according to the first failure".  Closest true statement: with a sync hook configured
   (has_sync c = true) the result is exactly the one of the oldest rejected answer *)
Corollary C13_rejected_no_writes_r_partial c k parent (e : env) later hk body a earlier res :
  has_sync c = true ->
  fst (run (sync_parent_object_r c k parent) e []) = later ++ (CHook hk body, a) :: earlier ->
  hk <> HCustomize -> hook_outcome a = Some res -> quiet earlier ->
  Forall (fun ca => main_hook (fst ca) = true) later /\
  snd (run (sync_parent_object_r c k parent) e []) = res.
Proof.
  intros Hs Heq Hne Ho Hqe.
  destruct (C13_rejected_no_writes_r_run c k parent e later hk body a earlier res Heq Hne Ho) as [H1 H2].
  split; [exact H1|]. destruct (H2 Hqe) as [H|[H _]]; [exact H|congruence].
Qed.

(* in every case the result after a rejected answer is an error or a requeue, never success *)
Corollary C13_rejected_r_not_done c k parent (e : env) hk body a :
  In (CHook hk body, a) (fst (run (sync_parent_object_r c k parent) e [])) ->
  hk <> HCustomize -> rejected a ->
  snd (run (sync_parent_object_r c k parent) e []) <> SDone /\
  snd (run (sync_parent_object_r c k parent) e []) <> SPanic.
Proof.
  intros Hin Hne Hrej.
  destruct (hist_post_run _ _ _ _ e (C13_rejected_no_writes_r c k parent)) as [[HQ HP] _].
  split; [|exact HP].
  unfold rejected in Hrej. destruct (hook_outcome a) as [res|] eqn:Ho; [|congruence].
  assert (Hm : main_hook (CHook hk body) = true) by (apply main_hook_iff; eauto).
  destruct (first_rej (fst (run (sync_parent_object_r c k parent) e []))) as [res'|] eqn:Efr.
  - assert (Hres' : res' <> SDone /\ res' <> SPanic).
    { clear HQ. revert Efr. generalize (fst (run (sync_parent_object_r c k parent) e [])).
      intros l. induction l as [|[cl0 a0] l IH]; cbn [first_rej]; [discriminate|].
      destruct (first_rej l) as [x|]; [intros [= ->]; apply IH; reflexivity|].
      unfold entry_outcome. cbn [fst snd]. destruct (main_hook cl0); [|discriminate].
      destruct a0 as [o|x|b| |n]; cbn [hook_outcome]; try (intros [= <-]; split; discriminate).
      destruct (decode_composite b); [discriminate|intros [= <-]; split; discriminate]. }
    destruct (HQ res' Efr) as [->|[_ ->]]; [tauto|discriminate].
  - exfalso. apply (proj1 (quiet_iff _)) with (cl := CHook hk body) (a := a) in Efr; [congruence|exact Hin|exact Hm].
Qed.

(* ================================================================== *)
(* 5. no panic                                                         *)
(* ================================================================== *)
Theorem C13_no_panic : forall c k e, result_of (sync c k) e <> SPanic.
Proof.
  intros c k e. unfold result_of, sync. destruct (k_parent k) as [parent|]; [|cbn; discriminate].
  destruct (hist_post_run _ _ _ _ e (C13_rejected_no_writes c k parent)) as [[_ HP] _]. exact HP.
Qed.

Theorem C13_no_panic_r : forall c k e, result_of (sync_r c k) e <> SPanic.
Proof.
  intros c k e. unfold result_of, sync_r. destruct (k_parent k) as [parent|]; [|cbn; discriminate].
  destruct (hist_post_run _ _ _ _ e (C13_rejected_no_writes_r c k parent)) as [[_ HP] _]. exact HP.
Qed.

Print Assumptions C13_child_decision_no_panic.
Print Assumptions C13_no_panic.
Print Assumptions C13_no_panic_r.
Print Assumptions C13_rejected_no_writes.
Print Assumptions C13_rejected_no_writes_head.
Print Assumptions C13_rejected_no_writes_run.
Print Assumptions C13_rejected_is_last.
Print Assumptions C13_rejected_SErr.
Print Assumptions C13_429_SRequeue.
Print Assumptions C13_rejected_no_writes_r.
Print Assumptions C13_rejected_no_writes_r_run.
Print Assumptions C13_first_failure_counterexample.
Print Assumptions C13_rolling_calls_after_rejection.
Print Assumptions C13_rejected_no_writes_r_partial.
Print Assumptions C13_rejected_r_not_done.
