(* Round6Proofs.v — model counterparts of two check clauses of the sixth round:
     C09 "a refused ControllerRevision claim ends the sync"   (Check/Composite_check.v rev_claim_failed)
     C02 "every update of a ControllerRevision targets a revision the parent controls,
          or is the adoption of an orphan"                    (Check/Composite_check.v C02_revision_write)
   Statements about Model/Rolling.v claim_revisions, manage_revisions, sync_revisions_rolling,
   sync_parent_object_r, for every answer function. *)
From MC Require Import Generated.
From MC Require Import Model.Rolling Model.Safe Model.TracePreds.
From MC Require Import Proofs.AssocLemmas Proofs.ObjLemmas Proofs.SafeLemmas Proofs.C11Proofs.
From MC Require Import Proofs.C06Proofs Proofs.C04Proofs Proofs.RollCalls Proofs.RollClaims Proofs.RollMoves
                       Proofs.C09Proofs Proofs.Round3Proofs.
From Coq Require Import Lia.
Local Open Scope string_scope.
Local Open Scope list_scope.

(* ================================================================== *)
(* T1 (C09).  A refused ControllerRevision claim ends the sync         *)
(* ================================================================== *)

(* as a statement about the program: the hook phase is the claim phase followed by a
   continuation that, on a refused claim (None), returns the error at once *)
Theorem C09_refused_claim_ends_sync c k parent observed related :
  exists kont : option (list json) -> prog hook_result,
    sync_revisions_rolling c k parent observed related = (oc <~ claim_revisions c k parent ;; kont oc) /\
    kont None = Ret HRErr.
Proof. eexists. split; [reflexivity|]. reflexivity. Qed.

(* every call of a program, on runs *)
Lemma all_calls_run {R} (P : call -> Prop) (p : prog R) (e : env) :
  all_calls P p -> forall h, exists new, fst (run p e h) = new ++ h /\ Forall (fun ca => P (fst ca)) new.
Proof.
  induction 1 as [r|cl kont Hc Hk IH]; intros h; cbn [run].
  - exists []. split; [reflexivity|constructor].
  - cbv zeta. destruct (IH (e h cl) ((cl, e h cl) :: h)) as (new & Hnew & Hall).
    exists (new ++ [(cl, e h cl)]). split; [rewrite Hnew, <- app_assoc; reflexivity|].
    apply Forall_app. split; [exact Hall|]. constructor; [exact Hc|constructor].
Qed.

(* on runs, for every answer function and from every history: when the claim phase ends
   refused, the run of the whole rolling hook phase IS the run of the claim phase — not one
   more call (no hook call, no revision write) — and it reports the error *)
Theorem C09_refused_claim_ends_sync_run c k parent observed related (e : env) h :
  snd (run (claim_revisions c k parent) e h) = None ->
  run (sync_revisions_rolling c k parent observed related) e h =
    (fst (run (claim_revisions c k parent) e h), HRErr).
Proof. intros Hc. unfold sync_revisions_rolling. rewrite run_bind, Hc. reflexivity. Qed.

(* hence every call of such a run is a call of the claim phase: a request on the
   ControllerRevision resource or the adoption recheck (GET) of the parent *)
Corollary C09_refused_claim_only_claim_calls c k parent observed related (e : env) h :
  snd (run (claim_revisions c k parent) e h) = None ->
  exists new, fst (run (sync_revisions_rolling c k parent observed related) e h) = new ++ h /\
              Forall (fun ca => revphase_api_call c (fst ca)) new /\
              Forall (fun ca => is_hook_call (fst ca) = false /\ is_child_write c (fst ca) = false) new /\
              snd (run (sync_revisions_rolling c k parent observed related) e h) = HRErr.
Proof.
  intros Hc. rewrite (C09_refused_claim_ends_sync_run _ _ _ _ _ _ _ Hc). cbn [fst snd].
  destruct (all_calls_run _ _ e (claim_revisions_calls c k parent) h) as (new & Hnew & Hall).
  exists new. split; [exact Hnew|]. split; [exact Hall|]. split; [|reflexivity].
  eapply Forall_impl; [|exact Hall]. intros [cl a] Hcl. cbn [fst] in *. split.
  - eapply revphase_api_not_hook; eauto.
  - apply hookphase_not_child_write. right. exact Hcl.
Qed.

(* the whole sync of the parent: with the intermediate results of the run named, a refused
   revision claim makes the history at the end of the claim phase the final history of the
   sync (no hook call, no child write, no status write after it) and the sync fails *)
Theorem C09_refused_claim_ends_whole_sync c k parent (e : env) h p1 observed :
  ignores_parent c parent = false ->
  snd (run (sync_finalizer c parent) e h) = ROk p1 ->
  ignores_parent c p1 = false ->
  let h1 := fst (run (sync_finalizer c parent) e h) in
  snd (run (claim_children c k p1) e h1) = Some observed ->
  let h2 := fst (run (claim_children c k p1) e h1) in
  negb (any_rolling c) || (is_deleting p1 && negb (should_finalize c p1)) = false ->
  snd (run (claim_revisions c k p1) e h2) = None ->
  run (sync_parent_object_r c k parent) e h = (fst (run (claim_revisions c k p1) e h2), SErr).
Proof.
  intros Hig Hfin Hig1 h1 Hcc h2 Hroll Hcl.
  unfold sync_parent_object_r. rewrite Hig, run_bind, Hfin, Hig1, run_bind. fold h1. rewrite Hcc.
  unfold related_phase. cbn [bind]. rewrite run_bind. fold h2.
  unfold hook_phase_rolling. rewrite Hroll.
  rewrite (C09_refused_claim_ends_sync_run _ _ _ _ _ _ _ Hcl). reflexivity.
Qed.

(* ================================================================== *)
(* T2 (C02).  Updates of ControllerRevisions                           *)
(* ================================================================== *)

(* ---- manage_revisions: what each request is ---- *)
Definition mr_call (ns : string) (observed desired : list revision) (cl : call) : Prop :=
  (exists o, In o observed /\ (forall d, In d desired -> rev_name d <> rev_name o) /\
             cl = CApi (mkRq VDelete rev_res ns (rev_name o) JNull (get_uid (rev_obj o)) "")) \/
  (exists o d, In o observed /\ In d desired /\ rev_name o = rev_name d /\ rev_equal o d = false /\
               cl = CApi (rq_put false rev_res ns (rev_name d) (json_of_revision d))) \/
  (exists d, In d desired /\ (forall o, In o observed -> rev_name o <> rev_name d) /\
             cl = CApi (rq_create rev_res ns (rev_name d) (json_of_revision d))).

Theorem manage_revisions_requests ns observed desired :
  all_calls (mr_call ns observed desired) (manage_revisions ns observed desired).
Proof.
  rewrite manage_revisions_eq. apply run_until_error_calls.
  intros p Hin. apply in_app_or in Hin. destruct Hin as [Hin|Hin].
  - unfold rev_deletes in Hin. apply in_flat_map in Hin. destruct Hin as (o & Ho & Hin).
    destruct (existsb (fun d => String.eqb (rev_name d) (rev_name o)) desired) eqn:Hex; [destruct Hin|].
    destruct Hin as [<-|[]]. apply all_calls_api. left. exists o. split; [exact Ho|]. split; [|reflexivity].
    intros d Hd Heq. assert (Ht : existsb (fun d => String.eqb (rev_name d) (rev_name o)) desired = true).
    { apply existsb_exists. exists d. split; [exact Hd|]. apply String.eqb_eq. exact Heq. }
    congruence.
  - unfold rev_upserts in Hin. apply in_flat_map in Hin. destruct Hin as (d & Hd & Hin).
    destruct (find (fun o => String.eqb (rev_name o) (rev_name d)) (rev observed)) as [o|] eqn:Hf.
    + apply find_some in Hf. destruct Hf as [Ho Hn]. apply in_rev in Ho. apply String.eqb_eq in Hn.
      destruct (rev_equal o d) eqn:Heq; [destruct Hin|].
      destruct Hin as [<-|[]]. apply all_calls_api. right. left. exists o, d. auto.
    + destruct (String.eqb ns ""); destruct Hin as [<-|[]]; [apply AC_ret|].
      apply all_calls_api. right. right. exists d. split; [exact Hd|]. split; [|reflexivity].
      intros o Ho Heq. apply in_rev in Ho. eapply find_none in Hf; [|exact Ho]. cbv beta in Hf.
      apply String.eqb_neq in Hf. contradiction.
Qed.

(* every update (PUT) manage_revisions issues names a revision of its observed argument — the
   claimed list — and carries the desired revision of that name *)
Theorem C02_manage_revisions_updates_only_claimed ns observed desired :
  all_calls (fun cl => forall q, cl = CApi q -> q_verb q = VUpdate ->
               q_res q = rev_res /\ q_ns q = ns /\
               exists o d, In o observed /\ In d desired /\ rev_name o = rev_name d /\
                           q_name q = rev_name o /\ q_body q = json_of_revision d)
            (manage_revisions ns observed desired).
Proof.
  pose proof (manage_revisions_requests ns observed desired) as H.
  induction H as [r|cl kont Hc Hk IH]; [apply AC_ret|]. apply AC_do; [|exact IH].
  intros q -> Hv. destruct Hc as [(o & _ & _ & Hc)|[(o & d & Ho & Hd & Hn & _ & Hc)|(d & _ & _ & Hc)]];
    injection Hc as ->; try discriminate Hv.
  split; [reflexivity|]. split; [reflexivity|]. exists o, d. cbn [q_name q_body rq_put]. auto.
Qed.

Corollary C02_manage_revisions_updates_only_claimed_run ns observed desired (e : env) h post q a pre :
  fst (run (manage_revisions ns observed desired) e h) = post ++ (CApi q, a) :: pre ++ h ->
  q_verb q = VUpdate ->
  q_res q = rev_res /\ q_ns q = ns /\
  exists o d, In o observed /\ In d desired /\ rev_name o = rev_name d /\
              q_name q = rev_name o /\ q_body q = json_of_revision d.
Proof.
  intros Hrun Hv.
  destruct (all_calls_run _ _ e (C02_manage_revisions_updates_only_claimed ns observed desired) h)
    as (new & Hnew & Hall).
  rewrite Hnew in Hrun.
  assert (Hn : new = post ++ (CApi q, a) :: pre).
  { apply (app_inv_tail h). rewrite Hrun, <- app_assoc. reflexivity. }
  subst new. apply Forall_app in Hall. destruct Hall as [_ Hall]. inversion Hall; subst.
  cbn [fst] in *. auto.
Qed.

(* ---- the claim phase: what the claimed list holds ---- *)
Definition suffix (h h' : hist) : Prop := exists d, h' = d ++ h.

Lemma suffix_refl h : suffix h h.
Proof. exists []. reflexivity. Qed.
Lemma suffix_cons h h' x : suffix h h' -> suffix h (x :: h').
Proof. intros [d ->]. exists (x :: d). reflexivity. Qed.
Lemma suffix_trans h1 h2 h3 : suffix h1 h2 -> suffix h2 h3 -> suffix h1 h3.
Proof. intros [d ->] [d' ->]. exists (d' ++ d). apply app_assoc. Qed.
Lemma suffix_drop h h' x : suffix (x :: h) h' -> suffix h h'.
Proof. intros [d ->]. exists (d ++ [x]). rewrite <- app_assoc. reflexivity. Qed.

Lemma hist_post_true_suffix {R} (p : prog R) : forall h0 h,
  suffix h0 h -> hist_post (fun _ _ => True) (fun h' _ => suffix h0 h') h p.
Proof.
  induction p as [r|cl kont IH]; intros h0 h Hs; [apply HP_ret; exact Hs|].
  apply HP_do; [exact I|]. intros a. apply IH. apply suffix_cons. exact Hs.
Qed.

Lemma hist_post_and {R} Phi (Q1 Q2 : hist -> R -> Prop) h (p : prog R) :
  hist_post Phi Q1 h p -> hist_post (fun _ _ => True) Q2 h p ->
  hist_post Phi (fun h' r => Q1 h' r /\ Q2 h' r) h p.
Proof.
  induction 1 as [h r Hq|h cl kont Hc Hk IH]; intros H2; inversion H2; subst.
  - apply HP_ret. auto.
  - apply HP_do; [exact Hc|]. intros a. apply IH. auto.
Qed.

(* update_with_retries: an ROk result is the server's answer to a PUT of this very call
   (or, when f asks for no change, the object read) *)
Lemma uwr_post ns name uid f (Q : hist -> apires -> Prop) : forall fuel h,
  (forall h' e, suffix h h' -> Q h' (RErr e)) ->
  (forall h' cur, suffix h h' -> f cur = None ->
                  Q ((CApi (rq_get rev_res ns name), AObj cur) :: h') (ROk cur)) ->
  (forall h' cur upd x, suffix h h' -> f cur = Some upd -> get_uid cur = uid ->
     Q ((CApi (rq_put false rev_res ns name upd), AObj x) :: (CApi (rq_get rev_res ns name), AObj cur) :: h') (ROk x)) ->
  hist_post (fun _ _ => True) Q h (update_with_retries fuel ns name uid f).
Proof.
  induction fuel as [|n IH]; intros h Herr Hget Hput.
  - cbn [update_with_retries]. apply HP_ret. apply Herr, suffix_refl.
  - cbn [update_with_retries]. unfold api at 1. cbn [bind]. apply HP_do; [exact I|]. intros a.
    assert (Hretry : forall h1, suffix h h1 ->
              hist_post (fun _ _ => True) Q h1
                (match n with O => Ret (RErr EConflict) | S _ => update_with_retries n ns name uid f end)).
    { intros h1 Hs. destruct n as [|n']; [apply HP_ret; apply Herr; exact Hs|].
      apply IH.
      - intros h' e0 Hs'. apply Herr. eapply suffix_trans; eauto.
      - intros h' cur Hs'. apply Hget. eapply suffix_trans; eauto.
      - intros h' cur upd x Hs'. apply Hput. eapply suffix_trans; eauto. }
    assert (Hs1 : suffix h ((CApi (rq_get rev_res ns name), a) :: h)) by apply suffix_cons, suffix_refl.
    destruct a as [cur|e0|b| |z]; cbn [bind]; try (apply HP_ret; apply Herr; exact Hs1).
    + destruct (negb (String.eqb (get_uid cur) uid)) eqn:Hu; [apply HP_ret; apply Herr; exact Hs1|].
      apply Bool.negb_false_iff, String.eqb_eq in Hu.
      destruct (f cur) as [upd|] eqn:Hf; [|apply HP_ret; apply Hget; [apply suffix_refl|exact Hf]].
      unfold api at 1. cbn [bind]. apply HP_do; [exact I|]. intros a2.
      assert (Hs2 : suffix h ((CApi (rq_put false rev_res ns name upd), a2) :: (CApi (rq_get rev_res ns name), AObj cur) :: h))
        by apply suffix_cons, Hs1.
      destruct a2 as [x|e2|b2| |z2]; cbn [bind]; try (apply HP_ret; apply Herr; exact Hs2).
      * apply HP_ret. apply Hput; [apply suffix_refl|exact Hf|exact Hu].
      * destruct e2; try (apply HP_ret; apply Herr; exact Hs2). apply Hretry. exact Hs2.
    + destruct e0; try (apply HP_ret; apply Herr; exact Hs1). apply Hretry. exact Hs1.
Qed.

(* a claimed revision is one the parent controls in the cache (kept), or a cached orphan
   whose adoption PUT was accepted since h0 *)
Definition kept_or_adopted (c : ccfg) (parent : json) (h0 h : hist) (o : json) : Prop :=
  controlled_by o (get_uid parent) = true \/
  (controller_of o = None /\
   exists cur x new, h = new ++ h0 /\ get_uid cur = get_uid o /\
                     In (rev_put parent o (adopt_edit c parent cur), AObj x) new).

Definition claimed_ok (c : ccfg) (parent : json) (all : list json) (h0 h : hist) (claimed : list json) : Prop :=
  suffix h0 h /\ forall o, In o claimed -> In o all /\ kept_or_adopted c parent h0 h o.

Lemma kept_or_adopted_mono c parent h0 h h' o :
  suffix h h' -> kept_or_adopted c parent h0 h o -> kept_or_adopted c parent h0 h' o.
Proof.
  intros [d ->] [H|(Hc & cur & x & new & -> & Hu & Hin)]; [left; exact H|].
  right. split; [exact Hc|]. exists cur, x, (d ++ new). split; [apply app_assoc|]. split; [exact Hu|].
  apply in_or_app. right. exact Hin.
Qed.

Lemma claimed_ok_mono c parent all h0 h h' claimed :
  suffix h h' -> claimed_ok c parent all h0 h claimed -> claimed_ok c parent all h0 h' claimed.
Proof.
  intros Hs [H0 H]. split; [eapply suffix_trans; eauto|].
  intros o Ho. destruct (H o Ho) as [Ha Hk]. split; [exact Ha|]. eapply kept_or_adopted_mono; eauto.
Qed.

Lemma claim_rev_one_claimed c parent sel all h0 o h (st : cstate) :
  In o all -> claimed_ok c parent all h0 h (snd (fst st)) ->
  hist_post (fun _ _ => True) (fun h' (st' : cstate) => claimed_ok c parent all h0 h' (snd (fst st')))
            h (claim_rev_one c parent sel st o).
Proof.
  destruct st as [[once claimed] failed]. cbn [fst snd]. intros Hin Hok. unfold claim_rev_one.
  assert (Hmono : forall h' once' f', suffix h h' ->
            hist_post (fun _ _ => True) (fun h' (st' : cstate) => claimed_ok c parent all h0 h' (snd (fst st')))
                      h' (Ret (once', claimed, f'))).
  { intros h' once' f' Hs. apply HP_ret. cbn [fst snd]. eapply claimed_ok_mono; eauto. }
  destruct (claim_decision (get_uid parent) (is_deleting parent) sel o) eqn:Hd.
  - apply HP_ret. cbn [fst snd]. destruct Hok as [H0 H]. split; [exact H0|].
    intros o' Ho'. apply in_app_or in Ho'. destruct Ho' as [Ho'|[<-|[]]]; [apply H; exact Ho'|].
    split; [exact Hin|]. left. apply claim_keep_iff in Hd. tauto.
  - apply Hmono, suffix_refl.
  - eapply hist_post_bind; [apply (hist_post_true_suffix _ h h), suffix_refl|].
    intros h1 r Hs. cbv beta in Hs. destruct r as [x|err]; [apply Hmono; exact Hs|].
    destruct err; apply Hmono; exact Hs.
  - eapply hist_post_bind; [apply (hist_post_true_suffix _ h h), suffix_refl|].
    intros h1 [once' can] Hs1. cbv beta in Hs1. destruct (negb can); [apply Hmono; exact Hs1|].
    eapply hist_post_bind with
      (Q := fun h' (r : apires) => suffix h1 h' /\
              forall x, r = ROk x -> exists cur d, h' = d ++ h1 /\ get_uid cur = get_uid o /\
                                                   In (rev_put parent o (adopt_edit c parent cur), AObj x) d).
    + apply uwr_post.
      * intros h' err Hs. split; [exact Hs|]. intros x Hx. discriminate.
      * intros h' cur Hs Hf. discriminate.
      * intros h' cur upd x [d ->] Hf Hu. injection Hf as <-. split.
        -- apply suffix_cons, suffix_cons. exists d. reflexivity.
        -- intros x' [= <-]. exists cur. eexists (_ :: _ :: d). split; [reflexivity|]. split; [exact Hu|].
           left. reflexivity.
    + intros h2 r [Hs2 Hr].
      assert (Hs : suffix h h2) by (eapply suffix_trans; eauto).
      destruct r as [x|err]; [|destruct err; apply Hmono; exact Hs].
      apply HP_ret. cbn [fst snd].
      destruct (claimed_ok_mono _ _ _ _ _ _ _ Hs Hok) as [H0 H]. split; [exact H0|].
      intros o' Ho'. apply in_app_or in Ho'. destruct Ho' as [Ho'|[<-|[]]]; [apply H; exact Ho'|].
      split; [exact Hin|]. right. apply claim_adopt_iff in Hd. split; [tauto|].
      destruct (Hr x eq_refl) as (cur & d & -> & Hu & Hind).
      destruct Hs1 as [d1 ->]. destruct Hok as [[n ->] _].
      exists cur, x, (d ++ d1 ++ n). split; [rewrite !app_assoc; reflexivity|]. split; [exact Hu|].
      apply in_or_app. left. exact Hind.
Qed.

Theorem claim_revisions_claimed c k parent h0 :
  hist_post (fun _ _ => True)
            (fun h oc => forall claimed, oc = Some claimed ->
                                         claimed_ok c parent (rev_candidates k parent) h0 h claimed)
            h0 (claim_revisions c k parent).
Proof.
  unfold claim_revisions. destruct (revision_selector c parent) as [sel|]; [|apply HP_ret; discriminate].
  cbv zeta. fold (rev_candidates k parent).
  eapply hist_post_bind with
    (Q := fun h (st : cstate) => claimed_ok c parent (rev_candidates k parent) h0 h (snd (fst st))).
  - apply hist_post_foldM.
    + intros h st o Hin Hok. apply claim_rev_one_claimed; assumption.
    + split; [apply suffix_refl|intros o []].
  - intros h [[once claimed] failed] Hok. cbn [fst snd] in Hok. apply HP_ret.
    destruct failed; [discriminate|]. intros claimed' [= <-]. exact Hok.
Qed.

(* ---- the rolling hook phase: every update of a ControllerRevision ---- *)
Lemma rev_name_of_json o : rev_name (revision_of_json o) = get_name o.
Proof.
  unfold rev_name, revision_of_json, get_name, nested_string. cbn [rev_obj obj_map].
  rewrite !nget2, !alookup_aremove. reflexivity.
Qed.

(* an update of a ControllerRevision is a release / adoption request of the claim phase (the
   C04 rules), or — after the claim — names a revision of the claimed list, each of which the
   parent controls in the cache or adopted, with an accepted PUT, in this very run *)
Definition C02_revision_update_phi (c : ccfg) (k : cache) (parent : json) (h0 h : hist) (cl : call) : Prop :=
  forall q, cl = CApi q -> q_res q = rev_res -> q_verb q = VUpdate ->
    (exists sel, revision_selector c parent = Some sel /\
                 C04_revision_phi c parent sel (rev_candidates k parent) h0 h cl) \/
    (exists o, In o (rev_candidates k parent) /\ q_name q = get_name o /\ q_ns q = get_ns parent /\
               kept_or_adopted c parent h0 h o).

Theorem C02_revision_updates_in_rolling_sync c k parent observed related h0 :
  hist_post (C02_revision_update_phi c k parent h0) (fun _ _ => True) h0
            (sync_revisions_rolling c k parent observed related).
Proof.
  unfold sync_revisions_rolling.
  assert (Hret : forall h (hr : hook_result), hist_post (C02_revision_update_phi c k parent h0) (fun _ _ => True) h (Ret hr))
    by (intros; apply HP_ret; exact I).
  eapply hist_post_bind.
  { eapply hist_post_weaken with (Psi := C02_revision_update_phi c k parent h0);
      [|intros h r H; exact H|
       apply (hist_post_and _ _ _ _ _ (C04_claim_revisions_adopt_only_after_recheck c k parent h0)
                                      (claim_revisions_claimed c k parent h0))].
    intros h cl H q _ _ _. left. exact H. }
  intros h1 oc [_ Hcl]. destruct oc as [claimed|]; [|apply Hret]. specialize (Hcl claimed eq_refl).
  cbv zeta.
  destruct (make_patch (obj_map parent) (field_paths c) []) as [latest_patch|]; [|apply Hret].
  match goal with |- hist_post _ _ _ (match ?X with _ => _ end) => destruct X as [[latest_rev olds]|] end;
    [|apply Hret].
  match goal with |- hist_post _ _ _ (match ?X with _ => _ end) => destruct X as [lrev|] end;
    [|apply Hret].
  eapply hist_post_bind with (Q := fun h2 _ => suffix h1 h2).
  { apply (hist_post_conj_calls (fun cl => is_hook_call cl = true)); [apply call_hooks_only_hooks| |].
    - intros h cl Hcl' q ->. discriminate Hcl'.
    - apply hist_post_true_suffix, suffix_refl. }
  intros h2 answers Hs2.
  destruct (first_hook_failure answers) as [r|]; [destruct r; apply Hret|].
  match goal with |- hist_post _ _ _ (match ?X with _ => _ end) => destruct X as [[prs2 st]|] end;
    [|apply Hret].
  cbv zeta. eapply hist_post_bind with (Q := fun _ _ => True).
  { eapply hist_post_weaken with (Q := fun h (_ : bool) => suffix h1 h);
      [intros h cl H; exact H|auto|].
    eapply (hist_post_of_all_calls _ (fun h => suffix h1 h));
      [apply C02_manage_revisions_updates_only_claimed| | |exact Hs2].
    - intros h cl a Hs _. apply suffix_cons. exact Hs.
    - intros h cl Hs Hcl' q Hq _ Hv. right.
      destruct (Hcl' q Hq Hv) as (_ & Hns & orev & d & Ho & _ & _ & Hname & _).
      apply in_map_iff in Ho. destruct Ho as (o & <- & Ho).
      destruct Hcl as [_ Hcl]. destruct (Hcl o Ho) as [Hall Hk].
      exists o. split; [exact Hall|]. split; [rewrite Hname; apply rev_name_of_json|]. split; [exact Hns|].
      eapply kept_or_adopted_mono; eauto. }
  intros h3 ok _. destruct (negb ok); [apply Hret|]. destruct (prune prs2); apply Hret.
Qed.

(* on runs, as the check reads it: every update of a ControllerRevision in a run of the rolling
   hook phase targets a cached revision (same name, the parent's namespace) that the parent
   controls, or is the adoption of a cached orphan after the live recheck, or targets a cached
   orphan whose adoption was accepted earlier in this run *)
Theorem C02_revision_write_in_run c k parent observed related (e : env) h0 post q a pre :
  fst (run (sync_revisions_rolling c k parent observed related) e h0) = post ++ (CApi q, a) :: pre ++ h0 ->
  q_res q = rev_res -> q_verb q = VUpdate ->
  exists o, In o (rev_candidates k parent) /\ q_name q = get_name o /\ q_ns q = get_ns parent /\
    (controlled_by o (get_uid parent) = true \/
     (controller_of o = None /\
      ((exists cur, q_body q = adopt_edit c parent cur /\ passed c parent pre) \/
       (exists cur x, get_uid cur = get_uid o /\
                      In (rev_put parent o (adopt_edit c parent cur), AObj x) pre)))).
Proof.
  intros Hrun Hres Hverb.
  destruct (hist_post_run _ _ _ _ e (C02_revision_updates_in_rolling_sync c k parent observed related h0))
    as [_ [new [Hnew Hall]]].
  rewrite Hnew in Hrun.
  assert (Hn : new = post ++ (CApi q, a) :: pre).
  { apply (app_inv_tail h0). rewrite Hrun, <- app_assoc. reflexivity. }
  destruct (Hall _ _ _ _ Hn q eq_refl Hres Hverb)
    as [(sel & Hsel & [Hc|(o & Hin & [[Hd Hc]|(Hd & Hc & new' & Heq & Hp)])])|(o & Hin & Hname & Hns & Hk)].
  - injection Hc as ->. discriminate Hverb.
  - destruct Hc as [Hc|(cur & _ & _ & Hc)]; injection Hc as ->; [discriminate Hverb|].
    exists o. split; [exact Hin|]. split; [reflexivity|]. split; [reflexivity|].
    left. apply claim_release_iff in Hd. tauto.
  - destruct Hc as [Hc|(cur & _ & _ & Hc)]; injection Hc as ->; [discriminate Hverb|].
    apply app_inv_tail in Heq. subst new'.
    exists o. split; [exact Hin|]. split; [reflexivity|]. split; [reflexivity|].
    right. apply claim_adopt_iff in Hd. split; [tauto|]. left. exists cur. split; [reflexivity|exact Hp].
  - exists o. split; [exact Hin|]. split; [exact Hname|]. split; [exact Hns|].
    destruct Hk as [Hk|(Hco & cur & x & new' & Heq & Hu & Hin')]; [left; exact Hk|].
    right. split; [exact Hco|]. right. apply app_inv_tail in Heq. subst new'. exists cur, x. auto.
Qed.

(* ---- the hypotheses are satisfiable (the controller of Round3Proofs.R3X) ---- *)
Module R6X.
  (* the server refuses every write (the adoption PUT included) *)
  Definition e_refuse : env := fun _ cl =>
    match cl with
    | CApi q => match q_verb q with
                | VGet => if String.eqb (q_res q) rev_res then AObj R3X.orphan else AObj R3X.parent
                | _ => AFail EInvalid end
    | CHook _ body => AHook (R3X.answer_of body false)
    end.
  Definition k0 : cache := R3X.cache_of R3X.parent R3X.orphan.
End R6X.

(* T1: the adoption is refused, the claim ends None, and the hook phase — and the whole sync —
   stop there: GET parent, GET revision, refused PUT; no hook call, no child write *)
Example C09_refused_claim_ends_sync_inhabited :
  result_of (claim_revisions R3X.cfg R6X.k0 R3X.parent) R6X.e_refuse = None /\
  map (fun ca => R3X.call_sig (fst ca)) (trace_of (sync_revisions_rolling R3X.cfg R6X.k0 R3X.parent [] []) R6X.e_refuse) =
    [(VGet, R3X.P, "p"); (VGet, R3X.R, "p-old"); (VUpdate, R3X.R, "p-old")] /\
  result_of (sync_revisions_rolling R3X.cfg R6X.k0 R3X.parent [] []) R6X.e_refuse = HRErr /\
  map (fun ca => R3X.call_sig (fst ca)) (trace_of (sync_r R3X.cfg R6X.k0) R6X.e_refuse) =
    [(VGet, R3X.P, "p"); (VGet, R3X.R, "p-old"); (VUpdate, R3X.R, "p-old")] /\
  result_of (sync_r R3X.cfg R6X.k0) R6X.e_refuse = SErr /\
  (* the hypotheses of C09_refused_claim_ends_whole_sync *)
  ignores_parent R3X.cfg R3X.parent = false /\
  snd (run (sync_finalizer R3X.cfg R3X.parent) R6X.e_refuse []) = ROk R3X.parent /\
  snd (run (claim_children R3X.cfg R6X.k0 R3X.parent) R6X.e_refuse []) = Some [("apps/v1", "Thing", [])] /\
  negb (any_rolling R3X.cfg) || (is_deleting R3X.parent && negb (should_finalize R3X.cfg R3X.parent)) = false.
Proof. vm_compute. repeat split; reflexivity. Qed.

(* T2: an accepting server: the orphan is adopted (PUT 1), then manage_revisions updates it
   (PUT 2, the names moved): PUT 1 is the adoption of a cached orphan, PUT 2 names the
   claimed revision adopted in this run *)
Example C02_revision_write_inhabited :
  map (fun ca => R3X.call_sig (fst ca))
      (trace_of (sync_revisions_rolling R3X.cfg R6X.k0 R3X.parent [] []) (R3X.e_ok R3X.parent false)) =
    [(VGet, R3X.P, "p"); (VGet, R3X.R, "p-old"); (VUpdate, R3X.R, "p-old"); (VGet, "hook", ""); (VGet, "hook", "");
     (VCreate, R3X.R, "p-new"); (VUpdate, R3X.R, "p-old")] /\
  In R3X.orphan (rev_candidates R6X.k0 R3X.parent) /\ controller_of R3X.orphan = None /\
  get_name R3X.orphan = "p-old" /\
  result_of (claim_revisions R3X.cfg R6X.k0 R3X.parent) (R3X.e_ok R3X.parent false) = Some [R3X.orphan].
Proof. vm_compute. repeat split; try reflexivity. left. reflexivity. Qed.

Print Assumptions C09_refused_claim_ends_sync.
Print Assumptions C09_refused_claim_ends_sync_run.
Print Assumptions C09_refused_claim_only_claim_calls.
Print Assumptions C09_refused_claim_ends_whole_sync.
Print Assumptions manage_revisions_requests.
Print Assumptions C02_manage_revisions_updates_only_claimed.
Print Assumptions C02_manage_revisions_updates_only_claimed_run.
Print Assumptions claim_revisions_claimed.
Print Assumptions C02_revision_updates_in_rolling_sync.
Print Assumptions C02_revision_write_in_run.
Print Assumptions C09_refused_claim_ends_sync_inhabited.
Print Assumptions C02_revision_write_inhabited.
