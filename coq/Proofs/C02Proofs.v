(* C02Proofs.v — every request of a composite sync stays inside the C02 envelope,
   whatever the API server and the hook answer. *)
From MC Require Import Generated Model.Safe Model.TracePreds.
From MC Require Import Proofs.AssocLemmas Proofs.ObjLemmas Proofs.SafeLemmas Proofs.ApplyUpdateProofs.
Local Open Scope list_scope.

(* ---------- the extra assumptions of the true variant ---------- *)
(* names of the desired children a hook returns contain no '/' *)
Definition names_ok (cs : list (option json)) : bool :=
  forallb (fun ch => match ch with Some o => no_slash (get_name o) | None => true end) cs.

Definition hook_names_ok (a : answer) : bool :=
  match a with
  | AHook body => match decode_composite body with Some r => names_ok (hr_children r) | None => true end
  | _ => true
  end.

Definition sane_names (cl : call) (a : answer) : Prop := sane cl a /\ hook_names_ok a = true.

(* names of cached children contain no '/' (ValidatePathSegmentName in every API server) *)
Definition cache_names_ok (c : ccfg) (k : cache) : bool :=
  forallb (fun kc => forallb (fun o => no_slash (get_name o)) (cached k (ch_res kc))) (kids c).

(* what holds of deletes and creates without the "targets the parent" escape *)
Definition call_strict (c : ccfg) (k : cache) (parent : json) (cl : call) : bool :=
  match cl with
  | CApi q =>
      match q_verb q with
      | VDelete => negb (String.eqb (q_uid_pre q) "") && String.eqb (q_prop q) "Background" &&
                   match find_cached c k q with
                   | Some o => String.eqb (q_uid_pre q) (get_uid o) &&
                               (controlled_by o (get_uid parent) || is_orphan o)
                   | None => false
                   end
      | VCreate => has_controller_ref_of (q_body q) (get_uid parent) || negb (metadata_is_obj (q_body q))
      | _ => true
      end
  | CHook _ _ => true
  end.

Section C02.
  Variables (c : ccfg) (k : cache) (parent : json).
  Hypothesis Hcfg : cfg_wf c = true.
  Hypothesis Hcache : cache_wf c k = true.
  Hypothesis Huid : get_uid parent <> "".
  Hypothesis Hssa : ssa c = false.
  Hypothesis Hnames : cache_names_ok c k = true.

  Let puid := get_uid parent.
  Definition P (cl : call) : Prop :=
    C02_call_ok c k parent cl = true /\ call_strict c k parent cl = true.
  Notation SP Post h p := (safeP sane_names (fun _ cl => P cl) Post h p).
  Notation TT := (fun _ _ => True).

  (* ---------- configuration and cache well-formedness, unpacked ---------- *)
  Lemma cfg_wf_kid kc : In kc (kids c) ->
    exists kn, In kn (known c) /\ ch_api_version kn = ch_api_version kc /\ ch_kind kn = ch_kind kc /\
               ch_resource kn = ch_resource kc /\ ch_namespaced kn = ch_namespaced kc.
  Proof.
    intros Hin. unfold cfg_wf in Hcfg.
    apply Bool.andb_true_iff in Hcfg as [H123 _].
    apply Bool.andb_true_iff in H123 as [H12 _].
    apply Bool.andb_true_iff in H12 as [H1 _].
    rewrite forallb_forall in H1. specialize (H1 kc Hin).
    apply existsb_exists in H1 as (kn & Hkn & Hm).
    apply Bool.andb_true_iff in Hm as [Hm H4]. apply Bool.andb_true_iff in Hm as [Hm H3].
    apply Bool.andb_true_iff in Hm as [Ha Hb].
    apply String.eqb_eq in Ha, Hb, H3. apply Bool.eqb_prop in H4.
    exists kn. auto.
  Qed.

  Lemma known_res_unique a b : In a (known c) -> In b (known c) -> ch_res a = ch_res b -> a = b.
  Proof.
    intros Ha Hb Hr. unfold cfg_wf in Hcfg.
    apply Bool.andb_true_iff in Hcfg as [H123 _].
    apply Bool.andb_true_iff in H123 as [H12 _].
    apply Bool.andb_true_iff in H12 as [_ H2].
    eapply nodup_map_inj; eauto.
  Qed.

  Lemma known_kind_unique a b : In a (known c) -> In b (known c) ->
    ch_api_version a = ch_api_version b -> ch_kind a = ch_kind b -> a = b.
  Proof.
    intros Ha Hb Hav Hkd. unfold cfg_wf in Hcfg.
    apply Bool.andb_true_iff in Hcfg as [H123 _].
    apply Bool.andb_true_iff in H123 as [_ H3].
    eapply (nodup_map_inj _ _ a b H3); eauto. cbv beta. now rewrite Hav, Hkd.
  Qed.

  Lemma cache_wf_obj kc o : In kc (kids c) -> In o (cached k (ch_res kc)) ->
    get_api_version o = ch_api_version kc /\ get_kind o = ch_kind kc /\
    (exists om, alookup "metadata" (obj_map o) = Some (JObj om)) /\
    get_uid o <> "" /\
    (ch_namespaced kc = false -> get_ns o = "").
  Proof.
    intros Hkc Ho. unfold cache_wf in Hcache.
    apply Bool.andb_true_iff in Hcache as [H1 _].
    rewrite forallb_forall in H1. specialize (H1 kc Hkc). cbv zeta in H1.
    apply Bool.andb_true_iff in H1 as [H1 _].
    rewrite forallb_forall in H1. specialize (H1 o Ho).
    apply Bool.andb_true_iff in H1 as [H1 Hns]. apply Bool.andb_true_iff in H1 as [H1 Hu].
    apply Bool.andb_true_iff in H1 as [H1 Hm]. apply Bool.andb_true_iff in H1 as [Hav Hkd].
    apply String.eqb_eq in Hav, Hkd.
    split; [auto|]. split; [auto|]. split; [|split].
    - unfold jget in Hm. destruct (alookup "metadata" (obj_map o)) as [mv|]; [|discriminate].
      destruct mv; try discriminate. eauto.
    - apply Bool.negb_true_iff, String.eqb_neq in Hu. exact Hu.
    - intros Hn. rewrite Hn in Hns. now apply String.eqb_eq in Hns.
  Qed.

  Lemma cache_wf_unique kc o o' : In kc (kids c) ->
    In o (cached k (ch_res kc)) -> In o' (cached k (ch_res kc)) ->
    get_ns o = get_ns o' -> get_name o = get_name o' -> o = o'.
  Proof.
    intros Hkc Ho Ho' Hns Hn. unfold cache_wf in Hcache.
    apply Bool.andb_true_iff in Hcache as [H1 _].
    rewrite forallb_forall in H1. specialize (H1 kc Hkc). cbv zeta in H1.
    apply Bool.andb_true_iff in H1 as [_ H2].
    eapply (nodup_map_inj _ _ o o' H2); eauto. cbv beta. now rewrite Hns, Hn.
  Qed.

  Lemma cache_name_ok kc o : In kc (kids c) -> In o (cached k (ch_res kc)) -> no_slash (get_name o) = true.
  Proof.
    intros Hkc Ho. unfold cache_names_ok in Hnames.
    rewrite forallb_forall in Hnames. specialize (Hnames kc Hkc).
    rewrite forallb_forall in Hnames. auto.
  Qed.

  Lemma kid_of_res_hit kc : In kc (kids c) ->
    exists kn, kid_of_res c (ch_res kc) = Some kn /\ ch_namespaced kn = ch_namespaced kc.
  Proof.
    intros Hkc. destruct (cfg_wf_kid kc Hkc) as (kn & Hkn & Hav & Hkd & Hr & Hn).
    assert (Hres : ch_res kn = ch_res kc) by (unfold ch_res; now rewrite Hav, Hr).
    exists kn. split; [|exact Hn]. unfold kid_of_res. apply find_unique; auto.
    - rewrite Hres. apply eqb_refl'.
    - intros b Hb Hp. apply String.eqb_eq in Hp. apply known_res_unique; auto. congruence.
  Qed.

  Lemma eff_ns_idem b x : eff_ns b (eff_ns b x) = eff_ns b x.
  Proof. now destruct b. Qed.

  Lemma find_cached_hit kc o q : In kc (kids c) -> In o (cached k (ch_res kc)) ->
    q_res q = ch_res kc -> q_name q = get_name o -> q_ns q = eff_ns (ch_namespaced kc) (get_ns o) ->
    find_cached c k q = Some o.
  Proof.
    intros Hkc Ho Hr Hn Hns. unfold find_cached. rewrite Hr.
    destruct (kid_of_res_hit kc Hkc) as (kn & -> & Hnsd). rewrite Hnsd.
    apply find_unique; auto.
    - rewrite Hn, Hns, !eqb_refl'. reflexivity.
    - intros b Hb Hp. apply Bool.andb_true_iff in Hp as [Hp1 Hp2].
      apply String.eqb_eq in Hp1, Hp2. rewrite Hn in Hp1. rewrite Hns in Hp2.
      symmetry. eapply cache_wf_unique; eauto.
      destruct (ch_namespaced kc) eqn:En; cbn [eff_ns] in Hp2; [congruence|].
      destruct (cache_wf_obj kc o Hkc Ho) as (_ & _ & _ & _ & H1).
      destruct (cache_wf_obj kc b Hkc Hb) as (_ & _ & _ & _ & H2).
      rewrite H1, H2; auto.
  Qed.

  (* a kind found through discovery agrees with the configured child it came from *)
  Lemma known_kid_match kc' kc : In kc' (kids c) ->
    lookup_kind c (ch_api_version kc') (ch_kind kc') = Some kc ->
    ch_res kc = ch_res kc' /\ ch_namespaced kc = ch_namespaced kc'.
  Proof.
    intros Hkc' Hl. apply lookup_kind_in in Hl as (Hin & Hav & Hkd).
    destruct (cfg_wf_kid kc' Hkc') as (kn & Hkn & Hav' & Hkd' & Hr & Hn).
    assert (kn = kc) by (apply known_kind_unique; auto; congruence). subst kn.
    split; [|exact Hn]. unfold ch_res. now rewrite Hav', Hr.
  Qed.

  (* ---------- introduction rules for the envelope ---------- *)
  Definition pinv (p : json) : Prop :=
    get_name p = get_name parent /\
    eff_ns (p_namespaced c) (get_ns p) = eff_ns (p_namespaced c) (get_ns parent) /\
    get_uid p = get_uid parent.

  Lemma pinv_refl : pinv parent.
  Proof. unfold pinv; auto. Qed.

  Lemma P_hook hk body : P (CHook hk body).
  Proof. split; reflexivity. Qed.

  Lemma P_get q : q_verb q = VGet -> P (CApi q).
  Proof.
    intros Hv. unfold P, C02_call_ok, call_strict. rewrite Hv. split; [apply Bool.orb_true_r|reflexivity].
  Qed.

  Lemma P_parent p q : pinv p -> q_verb q <> VDelete -> q_verb q <> VCreate ->
    q_res q = p_res c -> q_name q = get_name p -> q_ns q = eff_ns (p_namespaced c) (get_ns p) -> P (CApi q).
  Proof.
    intros (Hn & Hns & _) Hv1 Hv2 Hr Hqn Hqns. unfold P, C02_call_ok, call_strict. split.
    - unfold targets_parent. rewrite Hr, Hqn, Hqns, Hn, Hns, !eqb_refl'. reflexivity.
    - destruct (q_verb q); congruence.
  Qed.

  Definition good (kc : child_cfg) (o : json) : Prop :=
    In kc (kids c) /\ In o (cached k (ch_res kc)) /\ controlled_by o (get_uid parent) || is_orphan o = true.

  Lemma P_update q o : q_verb q = VUpdate -> find_cached c k q = Some o ->
    get_uid (q_body q) = get_uid o -> controlled_by o (get_uid parent) || is_orphan o = true -> P (CApi q).
  Proof.
    intros Hv Hf Hu Hc. unfold P, C02_call_ok, call_strict.
    rewrite Hv, Hf, Hu, eqb_refl', Hc. split; [apply Bool.orb_true_r|reflexivity].
  Qed.

  Lemma P_delete q o : q_verb q = VDelete -> find_cached c k q = Some o ->
    q_uid_pre q = get_uid o -> get_uid o <> "" -> q_prop q = "Background" ->
    controlled_by o (get_uid parent) || is_orphan o = true -> P (CApi q).
  Proof.
    intros Hv Hf Hu Hne Hp Hc. unfold P, C02_call_ok, call_strict.
    rewrite Hv, Hf, Hu, Hp, !eqb_refl', Hc. split; [apply Bool.orb_true_r|].
    apply String.eqb_neq in Hne. rewrite Hne. reflexivity.
  Qed.

  Lemma P_create q : q_verb q = VCreate ->
    has_controller_ref_of (q_body q) (get_uid parent) || negb (metadata_is_obj (q_body q)) = true -> P (CApi q).
  Proof.
    intros Hv Hc. unfold P, C02_call_ok, call_strict. rewrite Hv, Hc.
    split; [apply Bool.orb_true_r|reflexivity].
  Qed.

  Lemma P_child_update kc o body : good kc o -> get_uid body = get_uid o ->
    P (CApi (rq_put false (ch_res kc) (eff_ns (ch_namespaced kc) (get_ns o)) (get_name o) body)).
  Proof.
    intros (Hkc & Ho & Hc) Hu. apply P_update with (o := o); auto.
    apply find_cached_hit with (kc := kc); auto.
  Qed.

  Lemma P_child_delete kc o : good kc o ->
    P (CApi (rq_delete (ch_res kc) (eff_ns (ch_namespaced kc) (get_ns o)) (get_name o) (get_uid o))).
  Proof.
    intros (Hkc & Ho & Hc). apply P_delete with (o := o); auto.
    - apply find_cached_hit with (kc := kc); auto.
    - apply (cache_wf_obj kc o Hkc Ho).
  Qed.

  (* ---------- atomic updates ---------- *)
  Lemma sane_names_sane cl a : sane_names cl a -> sane cl a.
  Proof. now intros [H _]. Qed.

  Lemma parent_au p n st f h : pinv p ->
    SP (fun _ r => forall o, r = ROk o ->
                   (forall cur upd, f cur = Some upd -> get_uid upd = get_uid cur) -> pinv o) h
       (atomic_update n (p_res c) (eff_ns (p_namespaced c) (get_ns p)) (get_name p) (get_uid p) st f).
  Proof.
    intros Hp.
    eapply safeP_conseq; [exact sane_names_sane|intros h' cl H; exact H| |
      apply (safe_atomic_update P)].
    - cbv beta. intros h' r Hpost o Hr Hf. destruct (Hpost o Hr) as (Hn & Hns & Hu).
      destruct Hp as (Hpn & Hpns & Hpu). unfold pinv. split; [congruence|]. split.
      + rewrite Hns, eff_ns_idem. exact Hpns.
      + rewrite Hu; auto. congruence.
    - apply P_parent with (p := p); auto; discriminate.
    - intros cur upd _ _ _ _. apply P_parent with (p := p); auto; destruct st; discriminate.
  Qed.

  Lemma child_au kc o f n h : good kc o ->
    (forall cur upd, f cur = Some upd -> get_uid upd = get_uid cur) ->
    SP TT h (atomic_update n (ch_res kc) (eff_ns (ch_namespaced kc) (get_ns o)) (get_name o) (get_uid o) false f).
  Proof.
    intros Hg Hf.
    eapply safeP_conseq; [exact sane_names_sane|intros h' cl H; exact H| |
      apply (safe_atomic_update P)]; auto.
    - apply P_get. reflexivity.
    - intros cur upd Hu _ _ Hfc. apply P_child_update; auto. rewrite (Hf _ _ Hfc). exact Hu.
  Qed.

  (* ---------- finalizer phase ---------- *)
  Definition pinv_post (r : apires) : Prop := forall o, r = ROk o -> pinv o.

  Lemma sync_finalizer_ok p h : pinv p -> SP (fun _ r => pinv_post r) h (sync_finalizer c p).
  Proof.
    intros Hp. unfold sync_finalizer. cbv zeta.
    destruct (Bool.eqb _ _); [constructor; intros o [= <-]; exact Hp|].
    destruct (has_finalize c).
    - destruct (is_deleting p); [constructor; intros o [= <-]; exact Hp|].
      eapply safeP_post; [|apply parent_au; exact Hp].
      cbv beta. intros h' r H o Hr. apply (H o Hr). apply add_finalizer_uid.
    - eapply safeP_post; [|apply parent_au; exact Hp].
      cbv beta. intros h' r H o Hr. apply (H o Hr). apply remove_finalizer_uid.
  Qed.

  (* ---------- claiming ---------- *)
  Lemma claim_decision_cases u d sel o :
    match claim_decision u d sel o with
    | ClIgnore => True
    | ClAdopt => is_orphan o = true
    | _ => controlled_by o u = true
    end.
  Proof.
    unfold claim_decision, controlled_by, is_orphan.
    destruct (controller_of o) as [r|].
    - destruct (String.eqb (or_uid r) u); cbn [negb]; [|exact I].
      destruct (sel_matches sel (get_labels o)); [reflexivity|].
      destruct d; [exact I|reflexivity].
    - destruct (d || negb (sel_matches sel (get_labels o))); [exact I|].
      destruct (is_deleting o); [exact I|reflexivity].
  Qed.

  Definition claim_st_ok (kc : child_cfg) (st : option bool * list json * bool) : Prop :=
    Forall (good kc) (snd (fst st)).

  Lemma claim_one_ok kc p sel st o h : pinv p -> In kc (kids c) -> In o (cached k (ch_res kc)) ->
    claim_st_ok kc st -> SP (fun _ st' => claim_st_ok kc st') h (claim_one c kc p sel st o).
  Proof.
    intros Hp Hkc Ho Hst. destruct st as [[once claimed] failed].
    unfold claim_st_ok in Hst. cbn [fst snd] in Hst.
    unfold claim_one. cbv zeta.
    pose proof (claim_decision_cases (get_uid p) (is_deleting p) sel o) as Hcd.
    destruct Hp as (Hpn & Hpns & Hpu).
    destruct (claim_decision (get_uid p) (is_deleting p) sel o); try rewrite Hpu in Hcd.
    - constructor. unfold claim_st_ok. cbn [fst snd]. apply Forall_app. split; auto.
      constructor; auto. unfold good. rewrite Hcd. auto.
    - constructor. exact Hst.
    - eapply safeP_bind with (Q := TT).
      + apply child_au.
        * unfold good. rewrite Hcd. auto.
        * intros cur upd [= <-]. apply get_uid_set_owner_refs.
      + intros h' r _. destruct r as [o'|e]; [|destruct e]; constructor; exact Hst.
    - eapply safeP_bind with (Q := TT).
      + destruct once as [b|]; [constructor; exact I|].
        eapply safeP_bind with (Q := TT); [|intros; constructor; exact I].
        unfold can_adopt_check. eapply safeP_bind with (Q := TT).
        * apply safeP_api; [apply P_get; reflexivity|auto].
        * intros h' g _. destruct g; constructor; exact I.
      + intros h' [once' can] _. cbv beta iota.
        destruct (negb can); [constructor; exact Hst|].
        eapply safeP_bind with (Q := TT).
        * apply child_au.
          -- unfold good. rewrite Hcd. rewrite Bool.orb_true_r. auto.
          -- intros cur upd [= <-]. apply get_uid_set_owner_refs.
        * intros h'' r _. destruct r as [o'|e]; [|destruct e]; constructor; try exact Hst.
          unfold claim_st_ok. cbn [fst snd]. apply Forall_app. split; auto.
          constructor; auto. unfold good. rewrite Hcd. rewrite Bool.orb_true_r. auto.
  Qed.

  (* ---------- uniform maps with a property of every entry ---------- *)
  Definition umap_all (E : string -> string -> string -> json -> Prop) (m : umap) : Prop :=
    forall av kd os n o, In (av, kd, os) m -> In (n, o) os -> E av kd n o.

  Lemma umap_all_nil E : umap_all E [].
  Proof. intros av kd os n o []. Qed.

  Lemma umap_all_uinit E av kd m : umap_all E m -> umap_all E (uinit av kd m).
  Proof.
    intros H av' kd' os n o Hin Ho. apply uinit_in in Hin as [Hin|Hin]; [eapply H; eauto|].
    inversion Hin; subst. destruct Ho.
  Qed.

  Lemma umap_all_uinsert E o m : umap_all E m ->
    E (get_api_version o) (get_kind o) (qualified_name o) o -> umap_all E (uinsert o m).
  Proof.
    intros H He av' kd' os n o' Hin Ho. unfold uinsert in Hin.
    destruct (uinsert_at_in _ _ _ _ _ _ _ _ _ _ Hin Ho) as [(os0 & H1 & H2)|(-> & -> & -> & ->)].
    - eapply H; eauto.
    - exact He.
  Qed.

  Lemma umap_all_fold E os : forall m, umap_all E m ->
    Forall (fun o => E (get_api_version o) (get_kind o) (qualified_name o) o) os ->
    umap_all E (fold_left (fun m o => uinsert o m) os m).
  Proof.
    induction os as [|o os IH]; intros m Hm Hos; cbn [fold_left]; [exact Hm|].
    inversion Hos; subst. apply IH; auto. apply umap_all_uinsert; auto.
  Qed.

  Definition obs_entry (av kd n : string) (o : json) : Prop :=
    n = qualified_name o /\ get_api_version o = av /\ get_kind o = kd /\ exists kc, good kc o.
  Definition umap_ok := umap_all obs_entry.

  Lemma claim_children_ok p h : pinv p ->
    SP (fun _ r => forall m, r = Some m -> umap_ok m) h (claim_children c k p).
  Proof.
    intros Hp. unfold claim_children.
    destruct (make_selector c p) as [sel|]; [|constructor; discriminate].
    apply safeP_foldM with (I := fun (_ : hist) (r : option umap) => forall m, r = Some m -> umap_ok m).
    - intros m [= <-]. apply umap_all_nil.
    - intros h' acc kc Hkc Hacc. cbv beta.
      destruct acc as [m|]; [|constructor; discriminate].
      eapply safeP_bind with (Q := fun _ st' => claim_st_ok kc st').
      + apply safeP_foldM with (I := fun (_ : hist) st' => claim_st_ok kc st').
        * constructor.
        * intros h'' st' o Ho Hst. apply filter_In in Ho as [Ho _]. apply claim_one_ok; auto.
      + intros h'' [[once claimed] failed] Hst. cbv beta iota.
        destruct failed; constructor; [discriminate|].
        intros m' [= <-]. apply umap_all_fold.
        * apply umap_all_uinit. apply Hacc. reflexivity.
        * unfold claim_st_ok in Hst. cbn [fst snd] in Hst.
          eapply Forall_impl; [|exact Hst]. cbv beta. intros o Hg.
          destruct Hg as (Hkc' & Ho & Hc).
          destruct (cache_wf_obj kc o Hkc' Ho) as (Hav & Hkd & _).
          unfold obs_entry. split; [reflexivity|]. split; [reflexivity|]. split; [reflexivity|].
          exists kc. unfold good. auto.
  Qed.

  (* ---------- hook ---------- *)
  Lemma names_ok_default ns cs : names_ok cs = true -> names_ok (map (default_ns ns) cs) = true.
  Proof.
    unfold names_ok. induction cs as [|ch cs IH]; [reflexivity|].
    cbn [map forallb]. intros H. apply Bool.andb_true_iff in H as [H1 H2].
    rewrite (IH H2), Bool.andb_true_r.
    destruct ch as [o|]; [|reflexivity]. cbn [default_ns].
    destruct (String.eqb (get_ns o) ""); [|exact H1]. now rewrite get_name_set_ns.
  Qed.

  Lemma call_hook_ok p obs rel h :
    SP (fun _ r => forall hr, r = HRResp hr -> names_ok (hr_children hr) = true) h (call_hook c p obs rel).
  Proof.
    unfold call_hook. cbv zeta.
    destruct (negb _ && negb (has_sync c)); [constructor; discriminate|].
    constructor; [apply P_hook|].
    intros a [_ Hn]. destruct a as [o|e|body| |z]; try (constructor; discriminate).
    cbn [hook_names_ok] in Hn.
    destruct (decode_composite body) as [r|]; [|constructor; discriminate].
    constructor. intros hr [= <-]. cbn [hr_children]. apply names_ok_default.
    unfold names_ok in *. rewrite forallb_forall in *. intros x Hx. apply filter_In in Hx as [Hx _]. auto.
  Qed.

  (* ---------- desired children ---------- *)
  Definition des_entry (av kd n : string) (d : json) : Prop :=
    n = qualified_name d /\ no_slash (get_name d) = true.

  Lemma desired_map_ok cs : forall m m', desired_map cs m = Some m' ->
    names_ok cs = true -> umap_all des_entry m -> umap_all des_entry m'.
  Proof.
    induction cs as [|ch cs IH]; intros m m' H Hn Hm.
    - cbn in H. now inversion H; subst.
    - cbn [desired_map] in H. destruct ch as [o|]; [|discriminate].
      unfold names_ok in Hn. cbn [forallb] in Hn. apply Bool.andb_true_iff in Hn as [Hn1 Hn2].
      eapply IH; eauto. apply umap_all_uinsert; auto. split; auto.
  Qed.

  Lemma uobjects_in d m : In d (uobjects m) -> exists av kd os n, In (av, kd, os) m /\ In (n, d) os.
  Proof.
    unfold uobjects. intros H. apply in_flat_map in H as ([[av kd] os] & Hg & Hd).
    apply in_map_iff in Hd as ([n d'] & Heq & Hin). cbn [snd] in Heq. subst d'.
    exists av, kd, os, n. auto.
  Qed.

  Lemma relabel_name d : forall ls2 : smap,
      get_name (match d with
                | JObj m => match nested_set m ["metadata"; "labels"]
                                    (JObj (map (fun kv => (fst kv, JStr (snd kv))) ls2)) with
                            | Some m' => JObj m' | None => d end
                | _ => d end) = get_name d.
  Proof.
    intros ls2. destruct d; try reflexivity.
    destruct (nested_set m _ _) as [m'|] eqn:E; [|reflexivity].
    rewrite !get_name_mget. unfold mget. cbn [obj_map].
    erewrite nget_meta_set_other; eauto.
  Qed.

  Lemma enforce_labels_step p sel d ds out :
    enforce_labels c p sel (d :: ds) = Some out ->
    exists d' r, out = d' :: r /\ enforce_labels c p sel ds = Some r /\ get_name d' = get_name d.
  Proof.
    cbn [enforce_labels]. intros H.
    pose proof (relabel_name d) as Hrelabel.
    assert (Hbody : forall (strict : option smap),
      match strict with
      | None => None
      | Some ls =>
          let '(d', ls') :=
            if gen_selector c then
              match slookup "controller-uid" ls with
              | Some _ => (d, ls)
              | None =>
                  let ls2 := ls ++ [("controller-uid", get_uid p)] in
                  (match d with
                   | JObj m => match nested_set m ["metadata"; "labels"]
                                       (JObj (map (fun kv => (fst kv, JStr (snd kv))) ls2)) with
                               | Some m' => JObj m' | None => d end
                   | _ => d end, ls2)
              end
            else (d, ls) in
          if sel_matches sel ls' then
            match enforce_labels c p sel ds with
            | Some r => Some (d' :: r) | None => None end
          else None
      end = Some out ->
      exists d' r, out = d' :: r /\ enforce_labels c p sel ds = Some r /\ get_name d' = get_name d).
    { clear H. intros strict Hs. destruct strict as [ls|]; [|discriminate].
      destruct (gen_selector c).
      - destruct (slookup "controller-uid" ls).
        + destruct (sel_matches sel ls); [|discriminate].
          destruct (enforce_labels c p sel ds) as [r|]; [|discriminate].
          inversion Hs; subst. eauto.
        + cbv beta iota zeta in Hs.
          destruct (sel_matches sel (ls ++ _)); [|discriminate].
          destruct (enforce_labels c p sel ds) as [r|]; [|discriminate].
          inversion Hs; subst. eexists _, r. split; [reflexivity|]. split; [reflexivity|]. apply Hrelabel.
      - destruct (sel_matches sel ls); [|discriminate].
        destruct (enforce_labels c p sel ds) as [r|]; [|discriminate].
        inversion Hs; subst. eauto. }
    destruct (nested_get (obj_map d) ["metadata"; "labels"]) as [v| |]; [| |discriminate].
    - eapply Hbody. exact H.
    - apply (Hbody (Some [])). exact H.
  Qed.

  Lemma enforce_labels_names p sel : forall ds0 ds,
    enforce_labels c p sel ds0 = Some ds ->
    Forall (fun d => no_slash (get_name d) = true) ds0 ->
    Forall (fun d => no_slash (get_name d) = true) ds.
  Proof.
    induction ds0 as [|d ds0 IH]; intros ds H Hall.
    - cbn in H. inversion H; subst. constructor.
    - apply enforce_labels_step in H as (d' & r & -> & Hr & Hn).
      inversion Hall; subst. constructor; [now rewrite Hn|]. apply IH; auto.
  Qed.

  (* ---------- children ---------- *)
  Lemma child_decision_inv kc p obs d :
    match child_decision c kc p obs d with
    | ActDelete uid => exists old, obs = Some old /\ uid = get_uid old
    | ActUpdate body => exists old newm, obs = Some old /\
                          apply_update (obj_map old) (obj_map d) = Ok newm /\ body = JObj newm
    | ActCreate body => exists d1 refs,
        body = set_owner_refs d1 (refs ++ [controller_ref (get_api_version p) (get_kind p) (get_name p) (get_uid p)])
    | _ => True
    end.
  Proof.
    unfold child_decision. destruct obs as [old|]; [|cbv zeta; eexists _, _; reflexivity].
    destruct (apply_update (obj_map old) (obj_map d)) as [newm| |] eqn:Ea; try exact I.
    destruct (jeqb (JObj newm) old); [exact I|].
    destruct (is_deleting old); [exact I|]. cbv zeta.
    destruct (String.eqb _ method_on_delete); [exact I|].
    destruct (_ || _); [eauto|].
    destruct (_ || _); [eauto|exact I].
  Qed.

  Lemma apply_update_uid old d newm :
    (exists om, alookup "metadata" (obj_map old) = Some (JObj om)) ->
    apply_update (obj_map old) (obj_map d) = Ok newm -> get_uid (JObj newm) = get_uid old.
  Proof.
    intros [om Hm] Ha.
    destruct (apply_update_server_object _ _ _ _ Hm Ha) as (Hf & _ & _).
    assert (Hin : In "uid" object_meta_system_fields) by (cbn; auto).
    destruct (Hf "uid" Hin) as [Heq _].
    unfold get_uid, nested_string. cbn [obj_map]. now rewrite Heq.
  Qed.

  Lemma delete_children_ok kc av kd os ds h :
    lookup_kind c av kd = Some kc ->
    (forall n o, In (n, o) os -> obs_entry av kd n o) ->
    SP TT h (delete_children kc os ds).
  Proof.
    intros Hl Hos. unfold delete_children.
    apply safeP_foldM with (I := fun (_ : hist) (_ : bool) => True); [exact I|].
    intros h' failed [n o] Hin _. cbv beta zeta. cbn [fst snd].
    destruct (is_deleting o); [constructor; exact I|].
    destruct (olookup n ds); [constructor; exact I|].
    eapply safeP_bind with (Q := TT).
    - apply safeP_api; [|auto].
      destruct (Hos n o Hin) as (_ & Hav & Hkd & kc' & Hg).
      pose proof Hg as (Hkc' & Ho & _).
      destruct (cache_wf_obj kc' o Hkc' Ho) as (Hav' & Hkd' & _).
      assert (Hl' : lookup_kind c (ch_api_version kc') (ch_kind kc') = Some kc) by congruence.
      destruct (known_kid_match kc' kc Hkc' Hl') as [-> ->].
      apply P_child_delete. exact Hg.
    - intros h'' r _. destruct r as [o'|e]; [|destruct e]; constructor; exact I.
  Qed.

  Lemma update_children_ok kc av kd p os ds h : pinv p ->
    lookup_kind c av kd = Some kc ->
    (forall n o, In (n, o) os -> obs_entry av kd n o) ->
    (forall n d, In (n, d) ds -> des_entry av kd n d) ->
    SP TT h (update_children c kc p os ds).
  Proof.
    intros Hp Hl Hos Hds. unfold update_children.
    apply safeP_foldM with (I := fun (_ : hist) (_ : bool) => True); [exact I|].
    intros h' failed [n d] Hin _. cbv beta zeta. cbn [fst snd]. rewrite Hssa.
    pose proof (child_decision_inv kc p (olookup n os) d) as Hcd.
    destruct (Hds n d Hin) as [Hqn Hns].
    (* facts about a matched observed object *)
    assert (Hold : forall old, olookup n os = Some old ->
              get_name d = get_name old /\ get_ns d = get_ns old /\
              exists kc', good kc' old /\ ch_res kc = ch_res kc' /\ ch_namespaced kc = ch_namespaced kc').
    { intros old Ho. apply olookup_in in Ho.
      destruct (Hos n old Ho) as (Hqo & Hav & Hkd & kc' & Hg).
      pose proof Hg as (Hkc' & Hoc & Hctl).
      destruct (cache_wf_obj kc' old Hkc' Hoc) as (Hav' & Hkd' & _).
      assert (Hl' : lookup_kind c (ch_api_version kc') (ch_kind kc') = Some kc) by congruence.
      destruct (known_kid_match kc' kc Hkc' Hl') as [Hr Hnsd].
      assert (Hq : qualified_name d = qualified_name old) by congruence.
      apply qualified_name_inj in Hq as [Hn1 Hn2]; auto; [|eapply cache_name_ok; eauto].
      split; [exact Hn1|]. split; [exact Hn2|]. exists kc'. auto. }
    destruct (child_decision c kc p (olookup n os) d) as [| | |uid|body|body].
    - constructor; exact I.
    - constructor; exact I.
    - constructor; exact I.
    - destruct Hcd as (old & Ho & ->).
      destruct (Hold old Ho) as (Hn1 & Hn2 & kc' & Hg & Hr & Hnsd).
      eapply safeP_bind with (Q := TT).
      + apply safeP_api; [|auto]. rewrite Hn1, Hn2, Hr, Hnsd. apply P_child_delete. exact Hg.
      + intros h'' r _. destruct r as [o'|e]; [|destruct e]; constructor; exact I.
    - destruct Hcd as (old & newm & Ho & Ha & ->).
      destruct (Hold old Ho) as (Hn1 & Hn2 & kc' & Hg & Hr & Hnsd).
      eapply safeP_bind with (Q := TT).
      + apply safeP_api; [|auto]. rewrite Hn1, Hn2, Hr, Hnsd. apply P_child_update; [exact Hg|].
        destruct Hg as (Hkc' & Hoc & _).
        apply apply_update_uid with (d := d); [|exact Ha]. apply (cache_wf_obj kc' old Hkc' Hoc).
      + intros h'' r _. destruct r as [o'|e]; [|destruct e]; constructor; exact I.
    - destruct Hcd as (d1 & refs & ->).
      eapply safeP_bind with (Q := TT).
      + apply safeP_api; [|auto]. apply P_create; [reflexivity|].
        cbn [q_body rq_create]. apply create_body_owned; [|reflexivity].
        cbn [or_uid controller_ref]. apply Hp.
      + intros h'' r _. destruct r as [o'|e]; [|destruct e]; constructor; exact I.
  Qed.

  Lemma group_entries E m av kd :
    umap_all E m ->
    forall n o, In (n, o) (match ufind_group av kd m with Some os => os | None => [] end) -> E av kd n o.
  Proof.
    intros Hm n o Hin. destruct (ufind_group av kd m) as [os|] eqn:Eg; [|destruct Hin].
    apply ufind_group_in in Eg. eapply Hm; eauto.
  Qed.

  Lemma manage_children_ok p obs des h : pinv p -> umap_ok obs -> umap_all des_entry des ->
    SP TT h (manage_children c p obs des).
  Proof.
    intros Hp Hobs Hdes. unfold manage_children.
    eapply safeP_bind with (Q := TT).
    - apply safeP_foldM with (I := fun (_ : hist) (_ : bool) => True); [exact I|].
      intros h' failed [[av kd] os] Hin _. cbv beta iota.
      destruct (lookup_kind c av kd) as [kc|] eqn:El; [|constructor; exact I].
      eapply safeP_bind with (Q := TT); [|intros; constructor; exact I].
      apply delete_children_ok with (av := av) (kd := kd); [exact El|].
      intros n o Ho. eapply Hobs; eauto.
    - intros h' f1 _.
      apply safeP_foldM with (I := fun (_ : hist) (_ : bool) => True); [exact I|].
      intros h'' failed [[av kd] ds] Hin _. cbv beta iota.
      destruct (lookup_kind c av kd) as [kc|] eqn:El; [|constructor; exact I].
      eapply safeP_bind with (Q := TT); [|intros; constructor; exact I].
      apply update_children_ok with (av := av) (kd := kd); [exact Hp|exact El| |].
      + apply group_entries. exact Hobs.
      + intros n d Hd. eapply Hdes; eauto.
  Qed.

  Lemma update_parent_status_ok p st h : pinv p -> SP TT h (update_parent_status c p st).
  Proof.
    intros Hp. unfold update_parent_status. cbv zeta.
    eapply safeP_post; [|apply parent_au; exact Hp]. auto.
  Qed.

  Lemma finish_sync_ok p obs r h : pinv p -> umap_ok obs -> names_ok (hr_children r) = true ->
    SP TT h (finish_sync c p obs r).
  Proof.
    intros Hp Hobs Hn. unfold finish_sync.
    destruct (desired_map (hr_children r) []) as [desired0|] eqn:Edm; [|constructor; exact I].
    eapply safeP_bind with (Q := TT).
    { destruct (positive_number (hr_resync r)); [|constructor; exact I].
      unfold note. constructor; [apply P_hook|]. intros; constructor; exact I. }
    intros h1 _ _.
    eapply safeP_bind with (Q := fun _ r => pinv_post r).
    { destruct (hr_finalized r); [|constructor; intros o [= <-]; exact Hp].
      eapply safeP_post; [|apply parent_au; exact Hp].
      cbv beta. intros h' r' H o Hr. apply (H o Hr). apply remove_finalizer_uid. }
    intros h2 pr Hpr. destruct pr as [p2|e]; [|constructor; exact I].
    assert (Hp2 : pinv p2) by (apply Hpr; reflexivity).
    destruct (make_selector c p2) as [sel|]; [|constructor; exact I].
    destruct (enforce_labels c p2 sel (uobjects desired0)) as [ds|] eqn:Eel; [|constructor; exact I].
    cbv zeta.
    eapply safeP_bind with (Q := TT).
    { destruct (negb (is_deleting p2) || should_finalize c p2); [|constructor; exact I].
      apply manage_children_ok; auto.
      apply umap_all_fold; [apply umap_all_nil|].
      assert (Hd0 : umap_all des_entry desired0).
      { eapply desired_map_ok; eauto. apply umap_all_nil. }
      assert (Hall : Forall (fun d => no_slash (get_name d) = true) ds).
      { eapply enforce_labels_names; eauto. apply Forall_forall. intros d Hd.
        apply uobjects_in in Hd as (av & kd & os & n & H1 & H2). eapply Hd0; eauto. }
      eapply Forall_impl; [|exact Hall]. cbv beta. intros d Hd. split; auto. }
    intros h3 failed _.
    eapply safeP_bind with (Q := TT); [apply update_parent_status_ok; exact Hp2|].
    intros h4 sr _. destruct sr as [o|e]; [|destruct e]; constructor; exact I.
  Qed.

  Lemma sync_parent_object_ok h : SP TT h (sync_parent_object c k parent).
  Proof.
    unfold sync_parent_object.
    destruct (ignores_parent c parent); [constructor; exact I|].
    eapply safeP_bind with (Q := fun _ r => pinv_post r); [apply sync_finalizer_ok, pinv_refl|].
    intros h1 fr Hfr. destruct fr as [p1|e]; [|constructor; exact I].
    assert (Hp1 : pinv p1) by (apply Hfr; reflexivity).
    destruct (ignores_parent c p1); [constructor; exact I|].
    eapply safeP_bind; [apply claim_children_ok; exact Hp1|].
    cbv beta. intros h2 oc Hoc. destruct oc as [observed|]; [|constructor; exact I].
    assert (Hobs : umap_ok observed) by (apply Hoc; reflexivity).
    unfold related_phase. cbn [bind].
    unfold hook_phase.
    eapply safeP_bind; [apply call_hook_ok|].
    cbv beta. intros h3 hr Hhr. destruct hr as [| |n|r]; try (constructor; exact I).
    apply finish_sync_ok; auto.
  Qed.

End C02.

(* ORIGINAL STATEMENT (false, see C02_calls_counterexample below):
   Theorem C02_calls : forall c k parent,
     k_parent k = Some parent -> cfg_wf c = true -> cache_wf c k = true ->
     get_uid parent <> "" -> ssa c = false ->
     safe sane (fun _ cl => C02_call_ok c k parent cl = true) [] (sync c k).
   A hook may return a child whose name contains '/': "ns/name" is then also the
   map key of a namespaced observed child, the two are matched, and the delete /
   update goes to (namespace of the desired object, "ns/name"), which is not a
   cached object.  The variant below assumes that object names (cached, and
   returned by the hook) contain no '/'. *)
Theorem C02_calls_partial : forall c k parent,
  k_parent k = Some parent -> cfg_wf c = true -> cache_wf c k = true ->
  get_uid parent <> "" -> ssa c = false -> cache_names_ok c k = true ->
  safe sane_names (fun _ cl => C02_call_ok c k parent cl = true) [] (sync c k).
Proof.
  intros c k parent Hk Hcfg Hcache Huid Hssa Hnames. unfold sync. rewrite Hk.
  eapply safeP_safe. eapply safeP_conseq; [intros cl a H; exact H| |intros h r H; exact H|
    apply (sync_parent_object_ok c k parent Hcfg Hcache Huid Hssa Hnames)].
  cbv beta. intros h cl [H _]. exact H.
Qed.

(* deletes carry a non-empty uid precondition and Background propagation; creates carry
   a controller reference to the parent (or have a metadata that is not an object, which
   no API server accepts) — without the "targets the parent" escape of the envelope *)
Theorem C02_strict : forall c k parent,
  k_parent k = Some parent -> cfg_wf c = true -> cache_wf c k = true ->
  get_uid parent <> "" -> ssa c = false -> cache_names_ok c k = true ->
  safe sane_names (fun _ cl => call_strict c k parent cl = true) [] (sync c k).
Proof.
  intros c k parent Hk Hcfg Hcache Huid Hssa Hnames. unfold sync. rewrite Hk.
  eapply safeP_safe. eapply safeP_conseq; [intros cl a H; exact H| |intros h r H; exact H|
    apply (sync_parent_object_ok c k parent Hcfg Hcache Huid Hssa Hnames)].
  cbv beta. intros h cl [_ H]. exact H.
Qed.

(* reading the envelope: a delete that does not target the parent itself names a cached
   object, carries its uid as precondition, and asks for Background propagation *)
Lemma C02_delete_guarded c k parent q :
  C02_call_ok c k parent (CApi q) = true -> q_verb q = VDelete -> targets_parent c parent q = false ->
  exists o, find_cached c k q = Some o /\ q_uid_pre q = get_uid o /\ q_prop q = "Background" /\
            (controlled_by o (get_uid parent) || is_orphan o = true).
Proof.
  unfold C02_call_ok. intros H Hv Ht. rewrite Ht, Hv in H. cbn [orb] in H.
  destruct (find_cached c k q) as [o|]; [|discriminate].
  apply Bool.andb_true_iff in H as [H H3]. apply Bool.andb_true_iff in H as [H1 H2].
  apply String.eqb_eq in H1, H2. eauto.
Qed.

(* ... and for the calls of a sync the precondition is never empty *)
Lemma C02_delete_guarded_sync c k parent q :
  call_strict c k parent (CApi q) = true -> q_verb q = VDelete ->
  q_uid_pre q <> "" /\ q_prop q = "Background" /\
  exists o, find_cached c k q = Some o /\ q_uid_pre q = get_uid o /\
            (controlled_by o (get_uid parent) || is_orphan o = true).
Proof.
  unfold call_strict. intros H Hv. rewrite Hv in H.
  apply Bool.andb_true_iff in H as [H H3]. apply Bool.andb_true_iff in H as [H1 H2].
  apply Bool.negb_true_iff, String.eqb_neq in H1. apply String.eqb_eq in H2.
  split; [exact H1|]. split; [exact H2|].
  destruct (find_cached c k q) as [o|]; [|discriminate].
  apply Bool.andb_true_iff in H3 as [H3 H4]. apply String.eqb_eq in H3. eauto.
Qed.

Lemma C02_create_owned c k parent q :
  C02_call_ok c k parent (CApi q) = true -> q_verb q = VCreate -> targets_parent c parent q = false ->
  has_controller_ref_of (q_body q) (get_uid parent) = true \/ metadata_is_obj (q_body q) = false.
Proof.
  unfold C02_call_ok. intros H Hv Ht. rewrite Ht, Hv in H. cbn [orb] in H.
  apply Bool.orb_true_iff in H as [H|H]; [now left|right]. now apply Bool.negb_true_iff.
Qed.

Lemma C02_create_owned_sync c k parent q :
  call_strict c k parent (CApi q) = true -> q_verb q = VCreate ->
  has_controller_ref_of (q_body q) (get_uid parent) = true \/ metadata_is_obj (q_body q) = false.
Proof.
  unfold call_strict. intros H Hv. rewrite Hv in H.
  apply Bool.orb_true_iff in H as [H|H]; [now left|right]. now apply Bool.negb_true_iff.
Qed.

Print Assumptions C02_calls_partial.
Print Assumptions C02_strict.
Print Assumptions C02_delete_guarded.
Print Assumptions C02_create_owned.

(* ---------- the original statement is false: concrete counterexamples ---------- *)
Module Counterexample.
  Definition mk_kid (namespaced : bool) := mkChild "v1" "things" "Thing" namespaced "Recreate".
  Definition mk_cfg (namespaced : bool) : ccfg :=
    mkCfg "cc" "v1" "Parent" "parents" false true true sel_everything [mk_kid namespaced] true false
          [mk_kid namespaced] false false [["spec"]] [].
  Definition parent : json :=
    JObj [("apiVersion", JStr "v1"); ("kind", JStr "Parent");
          ("metadata", JObj [("name", JStr "p"); ("uid", JStr "u1")])].
  Definition pref : json :=
    JObj [("apiVersion", JStr "v1"); ("blockOwnerDeletion", JBool true); ("controller", JBool true);
          ("kind", JStr "Parent"); ("name", JStr "p"); ("uid", JStr "u1")].
  Definition child (name : string) (ns : list (string * json)) : json :=
    JObj [("apiVersion", JStr "v1"); ("kind", JStr "Thing");
          ("metadata", JObj ([("name", JStr name)] ++ ns ++
                             [("uid", JStr "u2");
                              ("labels", JObj [("controller-uid", JStr "u1")]);
                              ("ownerReferences", JArr [pref])]))].
  Definition desired (name : string) (ns : list (string * json)) : json :=
    JObj [("apiVersion", JStr "v1"); ("kind", JStr "Thing");
          ("metadata", JObj ([("name", JStr name)] ++ ns)); ("spec", JStr "x")].
  Definition env_of (d : json) : env :=
    fun _ cl => match cl with
                | CHook _ _ => AHook (JObj [("children", JArr [d])])
                | CApi _ => AFail EOther
                end.
  Lemma env_sane d h cl : sane cl (env_of d h cl).
  Proof. destruct cl; exact I. Qed.

  (* 1: the hook names a child "a/b" (no namespace); the cache holds b in namespace a *)
  Definition c1 := mk_cfg true.
  Definition k1 := mkCache (Some parent) [("things.v1", [child "b" [("namespace", JStr "a")]])].
  Definition e1 := env_of (desired "a/b" []).

  (* 2: names returned by the hook are fine, a cached cluster-scoped child is named "x/y" *)
  Definition c2 := mk_cfg false.
  Definition k2 := mkCache (Some parent) [("things.v1", [child "x/y" []])].
  Definition e2 := env_of (desired "y" [("namespace", JStr "x")]).
End Counterexample.

Lemma not_safe_by_run c k parent (e : env) :
  (forall h cl, sane cl (e h cl)) ->
  forallb (fun hc => C02_call_ok c k parent (snd hc)) (calls_with_history (fst (run (sync c k) e []))) = false ->
  ~ safe sane (fun _ cl => C02_call_ok c k parent cl = true) [] (sync c k).
Proof.
  intros He Hf Hs. apply safe_run with (e := e) in Hs; [|exact He].
  rewrite Forall_forall in Hs.
  assert (forallb (fun hc => C02_call_ok c k parent (snd hc))
            (calls_with_history (fst (run (sync c k) e []))) = true) as Ht.
  { apply forallb_forall. intros x Hx. apply (Hs x Hx). }
  congruence.
Qed.

Example C02_calls_counterexample :
  exists c k parent,
    k_parent k = Some parent /\ cfg_wf c = true /\ cache_wf c k = true /\
    get_uid parent <> "" /\ ssa c = false /\ cache_names_ok c k = true /\
    ~ safe sane (fun _ cl => C02_call_ok c k parent cl = true) [] (sync c k).
Proof.
  exists Counterexample.c1, Counterexample.k1, Counterexample.parent.
  split; [reflexivity|]. split; [vm_compute; reflexivity|]. split; [vm_compute; reflexivity|].
  split; [vm_compute; discriminate|]. split; [reflexivity|]. split; [vm_compute; reflexivity|].
  apply not_safe_by_run with (e := Counterexample.e1); [apply Counterexample.env_sane|].
  vm_compute. reflexivity.
Qed.

(* the offending request of that run *)
Example C02_calls_counterexample_call :
  existsb (fun hc => match snd hc with
                     | CApi q => verb_eqb (q_verb q) VDelete && String.eqb (q_name q) "a/b" &&
                                 String.eqb (q_ns q) "" && String.eqb (q_uid_pre q) "u2"
                     | _ => false end)
          (calls_with_history (fst (run (sync Counterexample.c1 Counterexample.k1) Counterexample.e1 []))) = true.
Proof. vm_compute. reflexivity. Qed.

(* the assumption on cached names is needed as well *)
Example C02_calls_counterexample_cache :
  exists c k parent,
    k_parent k = Some parent /\ cfg_wf c = true /\ cache_wf c k = true /\
    get_uid parent <> "" /\ ssa c = false /\
    (exists e, (forall h cl, sane_names cl (e h cl)) /\
       forallb (fun hc => C02_call_ok c k parent (snd hc))
               (calls_with_history (fst (run (sync c k) e []))) = false).
Proof.
  exists Counterexample.c2, Counterexample.k2, Counterexample.parent.
  split; [reflexivity|]. split; [vm_compute; reflexivity|]. split; [vm_compute; reflexivity|].
  split; [vm_compute; discriminate|]. split; [reflexivity|].
  exists Counterexample.e2. split.
  - intros h cl. split; [apply Counterexample.env_sane|]. destruct cl; vm_compute; reflexivity.
  - vm_compute. reflexivity.
Qed.

Print Assumptions C02_calls_counterexample.
Print Assumptions C02_calls_counterexample_cache.
