(* C19Proofs.v — proofs about Model/Webhook.v: one hook call as three atomic
   steps over a shared ETag cache, for arbitrary schedules. *)
From MC Require Import Model.Webhook.
From Coq Require Import Lia.

(* ================================================================== *)
(* small facts                                                          *)

Lemma header_sent_true : forall s, header_sent s = true <-> s <> "".
Proof.
  intros s. unfold header_sent. rewrite negb_true_iff. split; intro H.
  - intro E. subst s. discriminate H.
  - apply String.eqb_neq. exact H.
Qed.

Lemma header_sent_false : forall s, header_sent s = false <-> s = "".
Proof.
  intros s. unfold header_sent. rewrite negb_false_iff. apply String.eqb_eq.
Qed.

Lemma is_304_412_true : forall s, is_304_412 s = true <-> (s = 304 \/ s = 412).
Proof.
  intros s. unfold is_304_412. rewrite orb_true_iff, !Z.eqb_eq. tauto.
Qed.

Lemma body_class_eqb_refl : forall a, body_class_eqb a a = true.
Proof. destruct a; reflexivity. Qed.

Lemma body_eqb_refl : forall b, body_eqb b b = true.
Proof. intros b. unfold body_eqb. rewrite Z.eqb_refl, body_class_eqb_refl. reflexivity. Qed.

Lemma outcome_eqb_refl : forall o, outcome_eqb o o = true.
Proof. destruct o; simpl; [apply body_eqb_refl | reflexivity | apply Z.eqb_refl]. Qed.

Lemma pair_eqb_refl : forall p, pair_eqb p p = true.
Proof. intros [e b]. unfold pair_eqb; simpl. rewrite String.eqb_refl, body_eqb_refl. reflexivity. Qed.

Lemma decode_ok_same : forall cfg b b', decode cfg b = OkBody b' -> b' = b.
Proof.
  intros cfg b b' H. unfold decode in H.
  destruct (b_class b); destruct (cfg_strict cfg); try discriminate; inversion H; reflexivity.
Qed.

Lemma decode_acceptable : forall cfg b b', decode cfg b = OkBody b' -> body_acceptable cfg b = true.
Proof.
  intros cfg b b' H. unfold decode in H. unfold body_acceptable.
  destruct (b_class b); destruct (cfg_strict cfg); try discriminate H; reflexivity.
Qed.

(* ================================================================== *)
(* the third step as a pure function                                    *)

Lemma finish_ok_inv : forall cfg c k sent rp c' b,
  finish cfg c k sent rp = (c', OkBody b) ->
  exists r, rp = Reply r /\ (r_status r =? 429) = false /\ r_readfail r = false /\
    status_supported cfg sent (r_status r) = true /\
    adjust cfg c k sent r = (c', Some b) /\ decode cfg b = OkBody b.
Proof.
  intros cfg c k sent rp c' b H. unfold finish in H.
  destruct rp as [r|]; [|discriminate H].
  destruct (r_status r =? 429) eqn:E429; [discriminate H|].
  destruct (r_readfail r) eqn:Erf; [discriminate H|].
  destruct (status_supported cfg sent (r_status r)) eqn:Ess; simpl in H; [|discriminate H].
  destruct (adjust cfg c k sent r) as [c1 [b1|]] eqn:Eadj; [|discriminate H].
  inversion H as [[Hc Hd]]. pose proof (decode_ok_same _ _ _ Hd) as Hb. subst b1. subst c1.
  exists r. split; [reflexivity|]. split; [exact E429|]. split; [exact Erf|].
  split; [exact Ess|]. split; [exact Eadj|first [exact Hd|reflexivity]].
Qed.

Lemma status_supported_inv : forall cfg sent s,
  status_supported cfg sent s = true ->
  s = 200 \/ (cfg_etag cfg = true /\ sent <> "" /\ (s = 304 \/ s = 412)).
Proof.
  intros cfg sent s H. unfold status_supported in H.
  destruct (cfg_etag cfg) eqn:Ee.
  - apply orb_true_iff in H. destruct H as [H|H].
    + left. apply Z.eqb_eq. exact H.
    + apply andb_true_iff in H. destruct H as [H1 H2]. right.
      split; [reflexivity|]. split; [apply header_sent_true; exact H2 | apply is_304_412_true; exact H1].
  - left. apply Z.eqb_eq. exact H.
Qed.

Lemma finish_gate : forall cfg c k sent rp c' b,
  finish cfg c k sent rp = (c', OkBody b) ->
  exists r, rp = Reply r /\
    (r_status r = 200 \/ (cfg_etag cfg = true /\ sent <> "" /\ (r_status r = 304 \/ r_status r = 412))).
Proof.
  intros cfg c k sent rp c' b H.
  destruct (finish_ok_inv _ _ _ _ _ _ _ H) as [r [Hr [_ [_ [Hs _]]]]].
  exists r. split; [exact Hr | apply status_supported_inv; exact Hs].
Qed.

Lemma finish_429 : forall cfg c k sent r,
  r_status r = 429 ->
  finish cfg c k sent (Reply r) = (c, TooMany (retry_seconds (r_retry r))).
Proof. intros cfg c k sent r H. unfold finish. rewrite H. reflexivity. Qed.

Lemma finish_transport : forall cfg c k sent, finish cfg c k sent TransportError = (c, Err).
Proof. reflexivity. Qed.

Lemma finish_readfail : forall cfg c k sent r,
  r_status r <> 429 -> r_readfail r = true -> finish cfg c k sent (Reply r) = (c, Err).
Proof.
  intros cfg c k sent r H Hr. unfold finish.
  apply Z.eqb_neq in H. rewrite H, Hr. reflexivity.
Qed.

Lemma finish_other_status : forall cfg c k sent r,
  r_status r <> 429 -> r_status r <> 200 -> r_status r <> 304 -> r_status r <> 412 ->
  finish cfg c k sent (Reply r) = (c, Err).
Proof.
  intros cfg c k sent r H429 H200 H304 H412. unfold finish.
  apply Z.eqb_neq in H429. rewrite H429.
  destruct (r_readfail r); [reflexivity|].
  assert (Hs : status_supported cfg sent (r_status r) = false).
  { destruct (status_supported cfg sent (r_status r)) eqn:E; [|reflexivity].
    apply status_supported_inv in E. destruct E as [E|[_ [_ [E|E]]]]; contradiction. }
  rewrite Hs. reflexivity.
Qed.

(* a readable 200 answer: the body of the answer itself, judged by class and mode *)
Lemma finish_200 : forall cfg c k sent r,
  r_status r = 200 -> r_readfail r = false ->
  snd (finish cfg c k sent (Reply r)) = decode cfg (r_body r).
Proof.
  intros cfg c k sent r Hs Hr. unfold finish. rewrite Hs, Hr. simpl.
  assert (Hss : status_supported cfg sent 200 = true).
  { unfold status_supported. destruct (cfg_etag cfg); reflexivity. }
  rewrite Hss. simpl. unfold adjust. rewrite Hs.
  replace (is_304_412 200) with false by reflexivity. rewrite andb_false_r.
  destruct (cfg_etag cfg); [|reflexivity].
  destruct (negb (r_etag r =? "")%string); reflexivity.
Qed.

(* a success on 304/412: the cache is left alone and held exactly {sent, b} *)
Lemma finish_304 : forall cfg c k sent r c' b,
  is_304_412 (r_status r) = true ->
  finish cfg c k sent (Reply r) = (c', OkBody b) ->
  cfg_etag cfg = true /\ sent <> "" /\ c' = c /\ c k = Some (mkEntry sent b) /\ decode cfg b = OkBody b.
Proof.
  intros cfg c k sent r c' b H34 H.
  destruct (finish_ok_inv _ _ _ _ _ _ _ H) as [r' [Hr [_ [_ [Hs [Hadj Hdec]]]]]].
  inversion Hr; subst r'; clear Hr.
  apply status_supported_inv in Hs.
  assert (Hne : r_status r <> 200).
  { apply is_304_412_true in H34. destruct H34 as [E|E]; rewrite E; discriminate. }
  destruct Hs as [Hs|[He [Hsent _]]]; [contradiction|].
  unfold adjust in Hadj. rewrite He, H34 in Hadj.
  apply header_sent_true in Hsent. rewrite Hsent in Hadj. simpl in Hadj.
  destruct (c k) as [e|] eqn:Ec; [|discriminate Hadj].
  destruct (e_etag e =? sent)%string eqn:Ee; [|discriminate Hadj].
  inversion Hadj; subst. apply String.eqb_eq in Ee.
  split; [exact He|]. split; [apply header_sent_true; exact Hsent|].
  split; [reflexivity|]. split; [|exact Hdec].
  try rewrite Ec. destruct e as [et eb]; simpl in *. subst et. first [reflexivity|exact Ec].
Qed.

(* the only way the cache changes in step 3: a readable 200 answer carrying an
   ETag, in ETag mode, is stored under the call's key *)
Lemma finish_cache : forall cfg c k sent rp,
  fst (finish cfg c k sent rp) = c \/
  exists r, rp = Reply r /\ cfg_etag cfg = true /\ r_status r = 200 /\ r_readfail r = false /\
            r_etag r <> "" /\
            fst (finish cfg c k sent rp) = cache_set c k (mkEntry (r_etag r) (r_body r)).
Proof.
  intros cfg c k sent rp. unfold finish.
  destruct rp as [r|]; [|left; reflexivity].
  destruct (r_status r =? 429) eqn:E429; [left; reflexivity|].
  destruct (r_readfail r) eqn:Erf; [left; reflexivity|].
  destruct (status_supported cfg sent (r_status r)) eqn:Ess; simpl; [|left; reflexivity].
  unfold adjust.
  destruct (cfg_etag cfg) eqn:Ee; [|left; reflexivity].
  destruct (header_sent sent && is_304_412 (r_status r)) eqn:E34.
  - left. destruct (c k) as [e|]; [destruct (e_etag e =? sent)%string|]; reflexivity.
  - destruct (negb (r_etag r =? "")%string) eqn:Eet; [|left; reflexivity].
    right. exists r. split; [reflexivity|]. split; [first [exact Ee|reflexivity]|].
    split.
    { apply status_supported_inv in Ess. destruct Ess as [E|[_ [Hs H34]]]; [exact E|].
      apply header_sent_true in Hs. apply is_304_412_true in H34.
      rewrite Hs, H34 in E34. discriminate E34. }
    split; [first [exact Erf|reflexivity]|]. split.
    { apply negb_true_iff in Eet. apply String.eqb_neq. exact Eet. }
    destruct (decode cfg (r_body r)); reflexivity.
Qed.

(* plain mode: step 3 neither reads nor writes the cache *)
Lemma finish_plain_cache : forall cfg c k sent rp,
  cfg_etag cfg = false -> fst (finish cfg c k sent rp) = c.
Proof.
  intros cfg c k sent rp He.
  destruct (finish_cache cfg c k sent rp) as [H|[r [_ [H _]]]]; [exact H|].
  rewrite He in H. discriminate H.
Qed.

Lemma finish_plain_indep : forall cfg c1 c2 k sent rp,
  cfg_etag cfg = false -> snd (finish cfg c1 k sent rp) = snd (finish cfg c2 k sent rp).
Proof.
  intros cfg c1 c2 k sent rp He. unfold finish.
  destruct rp as [r|]; [|reflexivity].
  destruct (r_status r =? 429); [reflexivity|].
  destruct (r_readfail r); [reflexivity|].
  destruct (negb (status_supported cfg sent (r_status r))); [reflexivity|].
  unfold adjust. rewrite He. reflexivity.
Qed.

Lemma enrich_plain : forall cfg c k, cfg_etag cfg = false -> enrich cfg c k = "".
Proof. intros cfg c k He. unfold enrich. rewrite He. reflexivity. Qed.

(* ================================================================== *)
(* schedules                                                            *)

Lemma run_app : forall cfg sc st evs1 evs2,
  run_schedule cfg sc st (evs1 ++ evs2)%list = run_schedule cfg sc (run_schedule cfg sc st evs1) evs2.
Proof. intros. unfold run_schedule. apply fold_left_app. Qed.

Lemma run_snoc : forall cfg sc st evs e,
  run_schedule cfg sc st (evs ++ [e])%list = apply_event cfg sc (run_schedule cfg sc st evs) e.
Proof. intros. rewrite run_app. reflexivity. Qed.

Lemma set_phase_same : forall f c p, set_phase f c p c = p.
Proof. intros. unfold set_phase. rewrite Z.eqb_refl. reflexivity. Qed.

Lemma set_phase_other : forall f c p c', c' <> c -> set_phase f c p c' = f c'.
Proof. intros f c p c' H. unfold set_phase. apply Z.eqb_neq in H. rewrite H. reflexivity. Qed.

(* a step of call c leaves every other call alone *)
Lemma step_other : forall cfg sc st c c', c' <> c -> st_calls (step cfg sc st c) c' = st_calls st c'.
Proof.
  intros cfg sc st c c' Hne. unfold step.
  destruct (get_spec sc c) as [sp|]; [|reflexivity].
  destruct (st_calls st c) as [|s|s|s o]; simpl; try reflexivity;
    try (apply set_phase_other; exact Hne).
  destruct (finish cfg (st_cache st) (cs_key sp) s (cs_reply sp)) as [c1 o1]. simpl.
  apply set_phase_other; exact Hne.
Qed.

(* what one step of call c does to call c *)
Lemma step_self : forall cfg sc st c sp,
  get_spec sc c = Some sp ->
  match st_calls st c with
  | PNew => st_calls (step cfg sc st c) c = PEnriched (enrich cfg (st_cache st) (cs_key sp))
            /\ st_cache (step cfg sc st c) = st_cache st
  | PEnriched s => st_calls (step cfg sc st c) c = PReplied s
            /\ st_cache (step cfg sc st c) = st_cache st
  | PReplied s => st_calls (step cfg sc st c) c =
                    PDone s (snd (finish cfg (st_cache st) (cs_key sp) s (cs_reply sp)))
            /\ st_cache (step cfg sc st c) = fst (finish cfg (st_cache st) (cs_key sp) s (cs_reply sp))
  | PDone s o => step cfg sc st c = st
  end.
Proof.
  intros cfg sc st c sp Hsp. unfold step. rewrite Hsp.
  destruct (st_calls st c) as [|s|s|s o] eqn:Ep; simpl.
  - rewrite set_phase_same. split; reflexivity.
  - rewrite set_phase_same. split; reflexivity.
  - destruct (finish cfg (st_cache st) (cs_key sp) s (cs_reply sp)) as [c1 o1]. simpl.
    rewrite set_phase_same. split; reflexivity.
  - reflexivity.
Qed.

Lemma step_nospec : forall cfg sc st c, get_spec sc c = None -> step cfg sc st c = st.
Proof. intros cfg sc st c H. unfold step. rewrite H. reflexivity. Qed.

(* a finished call stays finished, with the same header and outcome *)
Lemma done_stable_event : forall cfg sc st e c s o,
  st_calls st c = PDone s o -> st_calls (apply_event cfg sc st e) c = PDone s o.
Proof.
  intros cfg sc st e c s o H. destruct e as [c1|k]; simpl; [|exact H].
  destruct (Z.eq_dec c c1) as [E|E].
  - subst c1. destruct (get_spec sc c) as [sp|] eqn:Hsp.
    + pose proof (step_self cfg sc st c sp Hsp) as Hs. rewrite H in Hs. rewrite Hs. exact H.
    + rewrite step_nospec by exact Hsp. exact H.
  - rewrite step_other by exact E. exact H.
Qed.

Lemma done_stable : forall cfg sc evs st c s o,
  st_calls st c = PDone s o -> st_calls (run_schedule cfg sc st evs) c = PDone s o.
Proof.
  intros cfg sc evs. induction evs as [|e evs IH]; intros st c s o H; [exact H|].
  simpl. apply IH. apply done_stable_event. exact H.
Qed.

(* the moment a call becomes finished *)
Lemma done_new_event : forall cfg sc st e c s o,
  (forall s' o', st_calls st c <> PDone s' o') ->
  st_calls (apply_event cfg sc st e) c = PDone s o ->
  e = Step c /\ exists sp, get_spec sc c = Some sp /\ st_calls st c = PReplied s /\
    finish cfg (st_cache st) (cs_key sp) s (cs_reply sp) = (st_cache (apply_event cfg sc st e), o).
Proof.
  intros cfg sc st e c s o Hnd H. destruct e as [c1|k]; simpl in *.
  - destruct (Z.eq_dec c c1) as [E|E].
    + subst c1. split; [reflexivity|].
      destruct (get_spec sc c) as [sp|] eqn:Hsp.
      * exists sp. split; [reflexivity|].
        pose proof (step_self cfg sc st c sp Hsp) as Hs.
        destruct (st_calls st c) as [|s1|s1|s1 o1] eqn:Ep.
        -- destruct Hs as [Hs _]. rewrite Hs in H. discriminate H.
        -- destruct Hs as [Hs _]. rewrite Hs in H. discriminate H.
        -- destruct Hs as [Hs Hc]. rewrite Hs in H. inversion H; subst.
           split; [reflexivity|]. rewrite Hc.
           destruct (finish cfg (st_cache st) (cs_key sp) s (cs_reply sp)); reflexivity.
        -- exfalso. apply (Hnd s1 o1). reflexivity.
      * rewrite step_nospec in H by exact Hsp. exfalso. apply (Hnd s o). exact H.
    + rewrite step_other in H by exact E. exfalso. apply (Hnd s o). exact H.
  - exfalso. apply (Hnd s o). exact H.
Qed.

Lemma phase_done_dec : forall p, (exists s o, p = PDone s o) \/ (forall s o, p <> PDone s o).
Proof.
  destruct p as [|s|s|s o]; try (right; intros; discriminate). left. exists s, o. reflexivity.
Qed.

(* Every finished call of every schedule finished at one definite moment: the
   schedule splits around that Step, the call had received its reply, and the
   outcome is step 3 evaluated on the cache of that moment. *)
Lemma done_moment : forall cfg sc c0 evs c s o,
  st_calls (run_schedule cfg sc (init c0) evs) c = PDone s o ->
  exists evs1 evs2 sp,
    evs = (evs1 ++ Step c :: evs2)%list /\ get_spec sc c = Some sp /\
    st_calls (run_schedule cfg sc (init c0) evs1) c = PReplied s /\
    finish cfg (st_cache (run_schedule cfg sc (init c0) evs1)) (cs_key sp) s (cs_reply sp) =
      (st_cache (run_schedule cfg sc (init c0) (evs1 ++ [Step c])%list), o).
Proof.
  intros cfg sc c0 evs. induction evs as [|e evs IH] using rev_ind; intros c s o H.
  - discriminate H.
  - rewrite run_snoc in H.
    destruct (phase_done_dec (st_calls (run_schedule cfg sc (init c0) evs) c)) as [[s1 [o1 Hd]]|Hnd].
    + pose proof (done_stable_event cfg sc _ e c s1 o1 Hd) as Hd'.
      rewrite Hd' in H. inversion H; subst s1 o1.
      destruct (IH c s o Hd) as [evs1 [evs2 [sp [He [Hsp [Hp Hf]]]]]].
      exists evs1, (evs2 ++ [e])%list, sp. split.
      { rewrite He. rewrite <- app_assoc. reflexivity. }
      split; [exact Hsp|]. split; [exact Hp|exact Hf].
    + destruct (done_new_event cfg sc _ e c s o Hnd H) as [He [sp [Hsp [Hp Hf]]]].
      subst e. exists evs, [], sp. split; [reflexivity|]. split; [exact Hsp|].
      split; [exact Hp|]. rewrite run_snoc. exact Hf.
Qed.

(* the header recorded for a call never changes after step 1 *)
Definition phase_sent (p : phase) : option string :=
  match p with PNew => None | PEnriched s | PReplied s | PDone s _ => Some s end.

Lemma sent_stable_event : forall cfg sc st e c s,
  phase_sent (st_calls st c) = Some s -> phase_sent (st_calls (apply_event cfg sc st e) c) = Some s.
Proof.
  intros cfg sc st e c s H. destruct e as [c1|k]; simpl; [|exact H].
  destruct (Z.eq_dec c c1) as [E|E].
  - subst c1. destruct (get_spec sc c) as [sp|] eqn:Hsp.
    + pose proof (step_self cfg sc st c sp Hsp) as Hs.
      destruct (st_calls st c) as [|s1|s1|s1 o1] eqn:Ep; simpl in H; try discriminate H.
      * destruct Hs as [Hs _]. rewrite Hs. exact H.
      * destruct Hs as [Hs _]. rewrite Hs. exact H.
      * rewrite Hs. rewrite Ep. exact H.
    + rewrite step_nospec by exact Hsp. exact H.
  - rewrite step_other by exact E. exact H.
Qed.

(* ================================================================== *)
(* where cache entries come from                                        *)

(* entry e under key k was stored by a finished call with that key whose reply
   was a 200 carrying exactly this ETag and this body *)
Definition stored_by (sc : script) (st : state) (k : key) (e : entry) : Prop :=
  exists c sp r sent o,
    get_spec sc c = Some sp /\ cs_key sp = k /\ cs_reply sp = Reply r /\
    st_calls st c = PDone sent o /\
    r_status r = 200 /\ r_etag r = e_etag e /\ r_body r = e_body e /\ e_etag e <> "".

Definition origin (c0 : cache) (sc : script) (st : state) (k : key) (e : entry) : Prop :=
  c0 k = Some e \/ stored_by sc st k e.

Definition cache_inv (c0 : cache) (sc : script) (st : state) : Prop :=
  forall k e, st_cache st k = Some e -> origin c0 sc st k e.

Lemma stored_by_event : forall cfg sc st ev k e,
  stored_by sc st k e -> stored_by sc (apply_event cfg sc st ev) k e.
Proof.
  intros cfg sc st ev k e [c [sp [r [sent [o [H1 [H2 [H3 [H4 H5]]]]]]]]].
  exists c, sp, r, sent, o. repeat split; try tauto.
  apply done_stable_event. exact H4.
Qed.

Lemma origin_event : forall cfg c0 sc st ev k e,
  origin c0 sc st k e -> origin c0 sc (apply_event cfg sc st ev) k e.
Proof.
  intros cfg c0 sc st ev k e [H|H]; [left; exact H|right; apply stored_by_event; exact H].
Qed.

Lemma origin_run : forall cfg c0 sc evs st k e,
  origin c0 sc st k e -> origin c0 sc (run_schedule cfg sc st evs) k e.
Proof.
  intros cfg c0 sc evs. induction evs as [|ev evs IH]; intros st k e H; [exact H|].
  simpl. apply IH. apply origin_event. exact H.
Qed.

Lemma cache_inv_event : forall cfg c0 sc st ev,
  cache_inv c0 sc st -> cache_inv c0 sc (apply_event cfg sc st ev).
Proof.
  intros cfg c0 sc st ev Hinv k e Hk.
  destruct ev as [c|k1].
  - (* Step c *)
    simpl in Hk |- *.
    destruct (get_spec sc c) as [sp|] eqn:Hsp.
    2:{ rewrite step_nospec in * by exact Hsp. apply Hinv. exact Hk. }
    pose proof (step_self cfg sc st c sp Hsp) as Hs.
    destruct (st_calls st c) as [|s|s|s o] eqn:Ep.
    + destruct Hs as [_ Hc]. rewrite Hc in Hk.
      apply (origin_event cfg c0 sc st (Step c)). apply Hinv. exact Hk.
    + destruct Hs as [_ Hc]. rewrite Hc in Hk.
      apply (origin_event cfg c0 sc st (Step c)). apply Hinv. exact Hk.
    + destruct Hs as [Hp Hc]. rewrite Hc in Hk.
      destruct (finish_cache cfg (st_cache st) (cs_key sp) s (cs_reply sp))
        as [Hsame|[r [Hr [He [H200 [Hrf [Het Hset]]]]]]].
      * rewrite Hsame in Hk. apply (origin_event cfg c0 sc st (Step c)). apply Hinv. exact Hk.
      * rewrite Hset in Hk. unfold cache_set in Hk.
        destruct (k =? cs_key sp) eqn:Ek.
        -- apply Z.eqb_eq in Ek. inversion Hk; subst e. right.
           exists c, sp, r, s, (snd (finish cfg (st_cache st) (cs_key sp) s (cs_reply sp))).
           repeat split; auto.
        -- apply (origin_event cfg c0 sc st (Step c)). apply Hinv. exact Hk.
    + rewrite Hs in Hk |- *. apply Hinv. exact Hk.
  - (* Expire *)
    simpl in Hk. unfold cache_del in Hk.
    destruct (k =? k1); [discriminate Hk|].
    apply (origin_event cfg c0 sc st (Expire k1)). apply Hinv. exact Hk.
Qed.

Lemma cache_inv_init : forall c0 sc, cache_inv c0 sc (init c0).
Proof. intros c0 sc k e H. left. exact H. Qed.

Lemma cache_inv_run_from : forall cfg c0 sc evs st,
  cache_inv c0 sc st -> cache_inv c0 sc (run_schedule cfg sc st evs).
Proof.
  intros cfg c0 sc evs. induction evs as [|ev evs IH]; intros st H; [exact H|].
  simpl. apply IH. apply cache_inv_event. exact H.
Qed.

(* INVARIANT: in every state reachable by any schedule, every cache entry
   {etag, b} is either an untouched initial entry or was stored from a 200
   answer carrying ETag etag and body b. *)
Lemma cache_inv_run : forall cfg c0 sc evs, cache_inv c0 sc (run_schedule cfg sc (init c0) evs).
Proof. intros. apply cache_inv_run_from. apply cache_inv_init. Qed.

(* ================================================================== *)
(* the clauses of the property, for every call of every schedule        *)

(* ================================================================== *)
(* the clauses of the property, for every call of every schedule        *)

(* the header a call carries was computed by its first step from the cache of
   that moment *)
Lemma sent_is_enriched : forall cfg sc c0 evs c s,
  phase_sent (st_calls (run_schedule cfg sc (init c0) evs) c) = Some s ->
  exists evs1 evs2 sp, evs = (evs1 ++ Step c :: evs2)%list /\ get_spec sc c = Some sp /\
    st_calls (run_schedule cfg sc (init c0) evs1) c = PNew /\
    s = enrich cfg (st_cache (run_schedule cfg sc (init c0) evs1)) (cs_key sp).
Proof.
  intros cfg sc c0 evs. induction evs as [|e evs IH] using rev_ind; intros c s H.
  - discriminate H.
  - rewrite run_snoc in H.
    destruct (phase_sent (st_calls (run_schedule cfg sc (init c0) evs) c)) as [s1|] eqn:Eps.
    + pose proof (sent_stable_event cfg sc _ e c s1 Eps) as Hst. rewrite Hst in H.
      inversion H; subst s1.
      destruct (IH c s Eps) as [evs1 [evs2 [sp [He [Hsp [Hp Hs]]]]]].
      exists evs1, (evs2 ++ [e])%list, sp. split.
      { rewrite He. rewrite <- app_assoc. reflexivity. }
      split; [exact Hsp|]. split; [exact Hp|exact Hs].
    + assert (Ep : st_calls (run_schedule cfg sc (init c0) evs) c = PNew).
      { destruct (st_calls (run_schedule cfg sc (init c0) evs) c); simpl in Eps;
          try discriminate Eps. reflexivity. }
      destruct e as [c1|k]; simpl in H.
      * destruct (Z.eq_dec c c1) as [E|E].
        -- subst c1. destruct (get_spec sc c) as [sp|] eqn:Hsp.
           ++ pose proof (step_self cfg sc (run_schedule cfg sc (init c0) evs) c sp Hsp) as Hs.
              rewrite Ep in Hs.
              destruct Hs as [Hs _]. rewrite Hs in H. simpl in H. inversion H.
              exists evs, [], sp. split; [reflexivity|]. split; [first [exact Hsp|reflexivity]|].
              split; [exact Ep|]. symmetry. first [exact H1|reflexivity].
           ++ rewrite step_nospec in H by exact Hsp. rewrite Ep in H. discriminate H.
        -- rewrite step_other in H by exact E. rewrite Ep in H. discriminate H.
      * rewrite Ep in H. discriminate H.
Qed.

(* 1. status gate *)
Lemma status_gate : forall cfg sc c0 evs c sent b,
  st_calls (run_schedule cfg sc (init c0) evs) c = PDone sent (OkBody b) ->
  exists sp r, get_spec sc c = Some sp /\ cs_reply sp = Reply r /\
    (r_status r = 200 \/
     (cfg_etag cfg = true /\ sent <> "" /\ (r_status r = 304 \/ r_status r = 412))).
Proof.
  intros cfg sc c0 evs c sent b H.
  destruct (done_moment cfg sc c0 evs c sent _ H) as [evs1 [evs2 [sp [_ [Hsp [_ Hf]]]]]].
  destruct (finish_gate _ _ _ _ _ _ _ Hf) as [r [Hr Hg]].
  exists sp, r. split; [exact Hsp|]. split; [exact Hr|exact Hg].
Qed.

(* 2. a success on 304/412 *)
Lemma served_from_cache : forall cfg sc c0 evs c sp r sent b,
  get_spec sc c = Some sp -> cs_reply sp = Reply r -> is_304_412 (r_status r) = true ->
  st_calls (run_schedule cfg sc (init c0) evs) c = PDone sent (OkBody b) ->
  cfg_etag cfg = true /\ sent <> "" /\ decode cfg b = OkBody b /\
  exists evs1 evs2, evs = (evs1 ++ Step c :: evs2)%list /\
    st_calls (run_schedule cfg sc (init c0) evs1) c = PReplied sent /\
    st_cache (run_schedule cfg sc (init c0) evs1) (cs_key sp) = Some (mkEntry sent b) /\
    origin c0 sc (run_schedule cfg sc (init c0) evs1) (cs_key sp) (mkEntry sent b).
Proof.
  intros cfg sc c0 evs c sp r sent b Hsp Hr H34 H.
  destruct (done_moment cfg sc c0 evs c sent _ H) as [evs1 [evs2 [sp' [He [Hsp' [Hp Hf]]]]]].
  rewrite Hsp in Hsp'. inversion Hsp'; subst sp'. rewrite Hr in Hf.
  destruct (finish_304 _ _ _ _ _ _ _ H34 Hf) as [Het [Hs [_ [Hc Hd]]]].
  split; [exact Het|]. split; [exact Hs|]. split; [exact Hd|].
  exists evs1, evs2. split; [exact He|]. split; [exact Hp|]. split; [exact Hc|].
  apply (cache_inv_run cfg c0 sc evs1). exact Hc.
Qed.

(* the pairs the executable clause looks at contain every possible origin *)
Lemma get_spec_In : forall sc c sp, get_spec sc c = Some sp -> In sp sc.
Proof.
  intros sc c sp H. unfold get_spec in H. destruct (c <? 0); [discriminate H|].
  apply nth_error_In in H. exact H.
Qed.

Lemma origin_pairs : forall c0 sc st k e,
  origin c0 sc st k e -> In (e_etag e, e_body e) (init_pairs k c0 ++ script_pairs k sc)%list.
Proof.
  intros c0 sc st k e [H|H]; apply in_or_app.
  - left. unfold init_pairs. rewrite H. left. reflexivity.
  - right. destruct H as [c [sp [r [sent [o [Hsp [Hk [Hr [_ [H200 [Het [Hb Hne]]]]]]]]]]]].
    unfold script_pairs. apply in_flat_map. exists sp. split; [apply (get_spec_In sc c); exact Hsp|].
    rewrite Hr, Hk, H200, Z.eqb_refl. simpl.
    assert (Hn : (r_etag r =? "")%string = false).
    { apply String.eqb_neq. rewrite Het. exact Hne. }
    rewrite Hn. simpl. left. rewrite Het, Hb. reflexivity.
Qed.

Lemma existsb_pair : forall p l, In p l -> existsb (pair_eqb p) l = true.
Proof.
  intros p l H. apply existsb_exists. exists p. split; [exact H|apply pair_eqb_refl].
Qed.

(* 3. 429 *)
Lemma too_many : forall cfg sc c0 evs c sp r sent o,
  get_spec sc c = Some sp -> cs_reply sp = Reply r -> r_status r = 429 ->
  st_calls (run_schedule cfg sc (init c0) evs) c = PDone sent o ->
  o = TooMany (retry_seconds (r_retry r)).
Proof.
  intros cfg sc c0 evs c sp r sent o Hsp Hr H429 H.
  destruct (done_moment cfg sc c0 evs c sent _ H) as [evs1 [evs2 [sp' [_ [Hsp' [_ Hf]]]]]].
  rewrite Hsp in Hsp'. inversion Hsp'; subst sp'. rewrite Hr in Hf.
  rewrite finish_429 in Hf by exact H429. inversion Hf. reflexivity.
Qed.

(* 4. a readable 200 answer is judged by class and mode, nothing else *)
Lemma readable_200 : forall cfg sc c0 evs c sp r sent o,
  get_spec sc c = Some sp -> cs_reply sp = Reply r -> r_status r = 200 -> r_readfail r = false ->
  st_calls (run_schedule cfg sc (init c0) evs) c = PDone sent o ->
  o = decode cfg (r_body r).
Proof.
  intros cfg sc c0 evs c sp r sent o Hsp Hr H200 Hrf H.
  destruct (done_moment cfg sc c0 evs c sent _ H) as [evs1 [evs2 [sp' [_ [Hsp' [_ Hf]]]]]].
  rewrite Hsp in Hsp'. inversion Hsp'; subst sp'. rewrite Hr in Hf.
  pose proof (finish_200 cfg (st_cache (run_schedule cfg sc (init c0) evs1)) (cs_key sp) sent r H200 Hrf) as H2.
  rewrite Hf in H2. simpl in H2. exact H2.
Qed.

Lemma decode_table : forall cfg b,
  decode cfg b =
    if undecodable (b_class b) then Err
    else if has_strict_errors (b_class b) then (if cfg_strict cfg then Err else OkBody b)
    else OkBody b.
Proof. intros cfg b. unfold decode. destruct (b_class b); destruct (cfg_strict cfg); reflexivity. Qed.

(* every other status, a transport error, an unreadable body: error *)
Lemma other_is_error : forall cfg sc c0 evs c sp sent o,
  get_spec sc c = Some sp ->
  st_calls (run_schedule cfg sc (init c0) evs) c = PDone sent o ->
  match cs_reply sp with
  | TransportError => o = Err
  | Reply r =>
      r_status r <> 429 ->
      (r_readfail r = true \/ (r_status r <> 200 /\ r_status r <> 304 /\ r_status r <> 412)) ->
      o = Err
  end.
Proof.
  intros cfg sc c0 evs c sp sent o Hsp H.
  destruct (done_moment cfg sc c0 evs c sent _ H) as [evs1 [evs2 [sp' [_ [Hsp' [_ Hf]]]]]].
  rewrite Hsp in Hsp'. inversion Hsp'; subst sp'.
  destruct (cs_reply sp) as [r|].
  - intros H429 [Hrf|[H200 [H304 H412]]].
    + rewrite finish_readfail in Hf by assumption. inversion Hf. reflexivity.
    + rewrite finish_other_status in Hf by assumption. inversion Hf. reflexivity.
  - rewrite finish_transport in Hf. inversion Hf. reflexivity.
Qed.

(* 5. plain mode *)
Definition is_expire (k : key) (e : event) : bool :=
  match e with Expire k' => k' =? k | Step _ => false end.

Lemma plain_step_cache : forall cfg sc st c,
  cfg_etag cfg = false -> st_cache (step cfg sc st c) = st_cache st.
Proof.
  intros cfg sc st c He.
  destruct (get_spec sc c) as [sp|] eqn:Hsp; [|rewrite step_nospec by exact Hsp; reflexivity].
  pose proof (step_self cfg sc st c sp Hsp) as Hs.
  destruct (st_calls st c) as [|s|s|s o].
  - destruct Hs as [_ Hc]. exact Hc.
  - destruct Hs as [_ Hc]. exact Hc.
  - destruct Hs as [_ Hc]. rewrite Hc. apply finish_plain_cache. exact He.
  - rewrite Hs. reflexivity.
Qed.

(* the cache is never written: after any schedule it is the initial cache minus
   the expired keys *)
Lemma plain_cache_untouched : forall cfg sc evs st k,
  cfg_etag cfg = false ->
  st_cache (run_schedule cfg sc st evs) k =
    if existsb (is_expire k) evs then None else st_cache st k.
Proof.
  intros cfg sc evs. induction evs as [|e evs IH]; intros st k He; [reflexivity|].
  simpl. rewrite IH by exact He.
  destruct e as [c|k1]; simpl.
  - rewrite plain_step_cache by exact He. reflexivity.
  - unfold cache_del. rewrite (Z.eqb_sym k k1).
    destruct (k1 =? k); simpl; [|reflexivity].
    destruct (existsb (is_expire k) evs); reflexivity.
Qed.

(* the cache is never read: the calls' phases and outcomes are the same
   whatever the cache holds *)
Lemma plain_step_indep : forall cfg sc c1 c2 f c,
  cfg_etag cfg = false ->
  st_calls (step cfg sc (mkState c1 f) c) = st_calls (step cfg sc (mkState c2 f) c).
Proof.
  intros cfg sc c1 c2 f c He. unfold step.
  destruct (get_spec sc c) as [sp|]; [|reflexivity]. simpl.
  destruct (f c) as [|s|s|s o]; simpl; try reflexivity.
  - rewrite !enrich_plain by exact He. reflexivity.
  - pose proof (finish_plain_indep cfg c1 c2 (cs_key sp) s (cs_reply sp) He) as Hi.
    destruct (finish cfg c1 (cs_key sp) s (cs_reply sp)) as [a1 o1].
    destruct (finish cfg c2 (cs_key sp) s (cs_reply sp)) as [a2 o2].
    simpl in *. subst o2. reflexivity.
Qed.

Lemma plain_cache_unread : forall cfg sc evs c1 c2 f,
  cfg_etag cfg = false ->
  st_calls (run_schedule cfg sc (mkState c1 f) evs) = st_calls (run_schedule cfg sc (mkState c2 f) evs).
Proof.
  intros cfg sc evs. induction evs as [|e evs IH]; intros c1 c2 f He; [reflexivity|].
  simpl. destruct e as [c|k]; simpl.
  - pose proof (plain_step_indep cfg sc c1 c2 f c He) as Hs.
    destruct (step cfg sc (mkState c1 f) c) as [a1 f1].
    destruct (step cfg sc (mkState c2 f) c) as [a2 f2].
    simpl in Hs. subst f2. apply IH. exact He.
  - apply IH. exact He.
Qed.

Lemma plain_only_200 : forall cfg sc c0 evs c sent b,
  cfg_etag cfg = false ->
  st_calls (run_schedule cfg sc (init c0) evs) c = PDone sent (OkBody b) ->
  sent = "" /\ exists sp r, get_spec sc c = Some sp /\ cs_reply sp = Reply r /\ r_status r = 200.
Proof.
  intros cfg sc c0 evs c sent b He H. split.
  - assert (Hps : phase_sent (st_calls (run_schedule cfg sc (init c0) evs) c) = Some sent)
      by (rewrite H; reflexivity).
    destruct (sent_is_enriched cfg sc c0 evs c sent Hps) as [evs1 [evs2 [sp [_ [_ [_ Hs]]]]]].
    rewrite Hs. apply enrich_plain. exact He.
  - destruct (status_gate cfg sc c0 evs c sent b H) as [sp [r [Hsp [Hr [H200|[Het _]]]]]].
    + exists sp, r. split; [exact Hsp|]. split; [exact Hr|exact H200].
    + rewrite He in Het. discriminate Het.
Qed.

(* ================================================================== *)
(* progress: a call that is given its three steps finishes              *)

Definition is_step (c : Z) (e : event) : bool :=
  match e with Step c' => c' =? c | Expire _ => false end.

Definition rank (p : phase) : nat :=
  match p with PNew => 0 | PEnriched _ => 1 | PReplied _ => 2 | PDone _ _ => 3 end.

Lemma rank_event : forall cfg sc st e c sp,
  get_spec sc c = Some sp ->
  rank (st_calls (apply_event cfg sc st e) c) =
    Nat.min 3 (rank (st_calls st c) + (if is_step c e then 1 else 0)).
Proof.
  intros cfg sc st e c sp Hsp. destruct e as [c1|k]; simpl.
  - destruct (Z.eq_dec c1 c) as [E|E].
    + subst c1. rewrite Z.eqb_refl.
      pose proof (step_self cfg sc st c sp Hsp) as Hs.
      destruct (st_calls st c) as [|s|s|s o] eqn:Ep.
      * destruct Hs as [Hs _]. rewrite Hs. reflexivity.
      * destruct Hs as [Hs _]. rewrite Hs. reflexivity.
      * destruct Hs as [Hs _]. rewrite Hs. reflexivity.
      * rewrite Hs, Ep. reflexivity.
    + rewrite step_other by (intro; apply E; congruence).
      apply Z.eqb_neq in E. rewrite E.
      destruct (st_calls st c); reflexivity.
  - destruct (st_calls st c); reflexivity.
Qed.

Lemma rank_run : forall cfg sc evs st c sp,
  get_spec sc c = Some sp ->
  rank (st_calls (run_schedule cfg sc st evs) c) =
    Nat.min 3 (rank (st_calls st c) + List.length (filter (is_step c) evs)).
Proof.
  intros cfg sc evs. induction evs as [|e evs IH]; intros st c sp Hsp.
  - simpl. rewrite Nat.add_0_r. destruct (st_calls st c); reflexivity.
  - change (run_schedule cfg sc st (e :: evs)) with (run_schedule cfg sc (apply_event cfg sc st e) evs).
    rewrite (IH _ c sp Hsp). rewrite (rank_event cfg sc st e c sp Hsp).
    cbn [filter]. destruct (is_step c e); cbn [List.length]; lia.
Qed.

Lemma three_steps_finish : forall cfg sc c0 evs c sp,
  get_spec sc c = Some sp -> (3 <= List.length (filter (is_step c) evs))%nat ->
  exists sent o, st_calls (run_schedule cfg sc (init c0) evs) c = PDone sent o.
Proof.
  intros cfg sc c0 evs c sp Hsp Hn.
  pose proof (rank_run cfg sc evs (init c0) c sp Hsp) as Hr.
  change (st_calls (init c0) c) with PNew in Hr.
  destruct (st_calls (run_schedule cfg sc (init c0) evs) c) as [|s|s|s o]; cbn [rank] in Hr; try lia.
  exists s, o. reflexivity.
Qed.

(* ================================================================== *)
(* the executable clauses hold of the model, for every finished call of every
   schedule (these are the constants the correspondence check evaluates on
   the implementation's outcomes) *)
Lemma model_clauses : forall cfg sc c0 evs c sp sent o,
  get_spec sc c = Some sp ->
  st_calls (run_schedule cfg sc (init c0) evs) c = PDone sent o ->
  forallb snd (call_clauses cfg (init_pairs (cs_key sp) c0 ++ script_pairs (cs_key sp) sc)%list
                            sent (cs_reply sp) o) = true.
Proof.
  intros cfg sc c0 evs c sp sent o Hsp H.
  destruct (done_moment cfg sc c0 evs c sent _ H) as [evs1 [evs2 [sp' [He [Hsp' [Hp Hf]]]]]].
  rewrite Hsp in Hsp'. inversion Hsp'; subst sp'. clear Hsp'.
  unfold call_clauses. simpl. repeat (apply andb_true_iff; split); try reflexivity.
  - (* gate *)
    unfold gate_ok. destruct o as [b| |n]; simpl; try reflexivity.
    destruct (finish_gate _ _ _ _ _ _ _ Hf) as [r [Hr Hg]]. rewrite Hr.
    destruct Hg as [Hg|[Het [Hs [Hg|Hg]]]].
    + rewrite Hg. reflexivity.
    + apply header_sent_true in Hs. rewrite Het, Hs, Hg. reflexivity.
    + apply header_sent_true in Hs. rewrite Het, Hs, Hg. reflexivity.
  - (* retry *)
    unfold retry_ok. destruct (cs_reply sp) as [r|] eqn:Hr; [|reflexivity].
    destruct (r_status r =? 429) eqn:E; [|reflexivity].
    apply Z.eqb_eq in E. rewrite finish_429 in Hf by exact E. inversion Hf. apply outcome_eqb_refl.
  - (* errors *)
    unfold error_ok. destruct (cs_reply sp) as [r|] eqn:Hr.
    + destruct (r_status r =? 429) eqn:E429; [reflexivity|]. apply Z.eqb_neq in E429.
      destruct (r_readfail r) eqn:Erf.
      { rewrite finish_readfail in Hf by assumption. inversion Hf. reflexivity. }
      destruct (r_status r =? 200) eqn:E200; [reflexivity|]. apply Z.eqb_neq in E200.
      destruct (is_304_412 (r_status r)) eqn:E34; [reflexivity|]. simpl.
      assert (H304 : r_status r <> 304).
      { intro E. rewrite E in E34. discriminate E34. }
      assert (H412 : r_status r <> 412).
      { intro E. rewrite E in E34. discriminate E34. }
      rewrite finish_other_status in Hf by assumption. inversion Hf. reflexivity.
    + rewrite finish_transport in Hf. inversion Hf. reflexivity.
  - (* served *)
    unfold served_ok. destruct (cs_reply sp) as [r|] eqn:Hr; [|reflexivity].
    destruct o as [b| |n]; try reflexivity.
    destruct (is_304_412 (r_status r)) eqn:E34; [|reflexivity].
    destruct (served_from_cache cfg sc c0 evs c sp r sent b Hsp Hr E34 H)
      as [_ [_ [_ [e1 [e2 [_ [_ [_ Ho]]]]]]]].
    apply existsb_pair. apply (origin_pairs c0 sc _ _ _ Ho).
  - (* no success from an undecodable body *)
    unfold decodable_ok. destruct o as [b| |n]; try reflexivity.
    destruct (finish_ok_inv _ _ _ _ _ _ _ Hf) as [r [_ [_ [_ [_ [_ Hd]]]]]].
    pose proof (decode_acceptable cfg b b Hd) as Ha. unfold body_acceptable in Ha.
    apply andb_true_iff in Ha. exact (proj1 Ha).
  - (* decoding *)
    unfold decode_ok. destruct (cs_reply sp) as [r|] eqn:Hr; [|reflexivity].
    destruct (r_status r =? 200) eqn:E200; [|reflexivity].
    destruct (r_readfail r) eqn:Erf; [reflexivity|]. simpl.
    apply Z.eqb_eq in E200.
    rewrite (readable_200 cfg sc c0 evs c sp r sent o Hsp Hr E200 Erf H).
    apply outcome_eqb_refl.
  - (* no success from a body the mode rejects, fresh or replayed *)
    unfold accepted_body_ok. destruct o as [b| |n]; try reflexivity.
    destruct (finish_ok_inv _ _ _ _ _ _ _ Hf) as [r [_ [_ [_ [_ [_ Hd]]]]]].
    apply (decode_acceptable cfg b b Hd).
  - (* plain *)
    unfold plain_ok. destruct (cfg_etag cfg) eqn:Het; [reflexivity|]. simpl.
    assert (Hps : phase_sent (st_calls (run_schedule cfg sc (init c0) evs) c) = Some sent)
      by (rewrite H; reflexivity).
    destruct (sent_is_enriched cfg sc c0 evs c sent Hps) as [a1 [a2 [sp2 [_ [_ [_ Hs]]]]]].
    rewrite Hs, enrich_plain by exact Het. reflexivity.
Qed.
