(* ApplyCore.v — containment, removal and preservation for merge: parametric core.
   The object/scalar/plain-array reasoning is done once, in a section that is
   parametric in (a) an extra hereditary side condition X and (b) a proof of
   the list-map case; it is instantiated with X := no_listmap (list-map case
   vacuous) and with X := true (list-map case from ApplyListMap*.v). *)
From MC Require Import Generated Model.Json Model.Apply Model.ApplyLaws.
From MC Require Import Proofs.AssocLemmas Proofs.AssocLemmas2 Proofs.ApplyProofs Proofs.ApplyBase.

(* ---------- shapes of merge results ---------- *)
Lemma merge_nc d o l : is_container o = false -> merge d o l = Ok d.
Proof. intros H. destruct o; try discriminate; destruct d; reflexivity. Qed.

Definition is_scalar_des (d : json) : bool :=
  match d with JNull | JArr _ | JObj _ => false | _ => true end.

Lemma merge_scalar_des d o l r : is_scalar_des d = true -> merge d o l = Ok r -> r = d.
Proof.
  intros Hd H. destruct d; try discriminate; destruct o; cbn in H; congruence.
Qed.

Lemma merge_null_shape o l r : merge JNull o l = Ok r -> is_null r || is_container r = true.
Proof.
  intros H. destruct o; cbn [merge] in H; try (inversion H; subst; reflexivity).
  cbv zeta in H.
  destruct (detect_key l0 (arr_or_nil l) []) as [key|]; [|inversion H; reflexivity].
  destruct (make_list_map key l0 []) as [dmap| |]; cbn [rbind] in H; try discriminate.
  destruct (make_list_map key (arr_or_nil l) []) as [lmap| |]; cbn [rbind] in H; try discriminate.
  destruct (rebuild_dest key l0 _ []) as [[l1 a]| |]; cbn [rbind] in H; try discriminate.
  inversion H; reflexivity.
Qed.

(* ---------- reflexive instances (result = desired) ---------- *)
Lemma containsb_refl d : wf_json d = true -> containsb d d = true.
Proof.
  induction d as [| b | z | s | s | j IH | sl IH | sm IH] using json_ind'; intros Hw.
  1: reflexivity.
  1-5: apply (jeqb_refl _ Hw).
  - cbn [containsb]. now rewrite (jeqb_refl _ Hw).
  - rewrite containsb_obj_obj. apply forallb_forall. intros [k v] Hin. cbn [fst snd].
    rewrite (ahas_nodup_In k v sm Hin). cbn [andb].
    rewrite (jget_nodup_In k v sm (wf_obj_nodup _ Hw) Hin).
    rewrite Forall_forall in IH. apply (IH (k, v) Hin). eapply wf_obj_In; eauto.
Qed.

Lemma removedb_self d : forall o l, is_container o = false -> wf_json d = true -> removedb d o l d = true.
Proof.
  induction d as [| b | z | s | s | j IH | sl IH | sm IH] using json_ind'; intros o l Ho Hw.
  1-6: reflexivity.
  - cbn [removedb]. destruct o; try discriminate; reflexivity.
  - rewrite removedb_obj_obj. apply Bool.andb_true_iff. split.
    + apply forallb_forall. intros k _. now destruct (ahas k sm).
    + apply forallb_forall. intros [k v] Hin. cbn [fst snd].
      rewrite (jget_nodup_In k v sm (wf_obj_nodup _ Hw) Hin).
      rewrite Forall_forall in IH. apply (IH (k, v) Hin).
      * destruct o; try discriminate; reflexivity.
      * eapply wf_obj_In; eauto.
Qed.

Lemma preservedb_nc d o l r : is_container o = false -> preservedb d o l r = true.
Proof. intros Ho. destruct o; try discriminate; destruct d; reflexivity. Qed.

Section Core.
  Variable X : json -> json -> json -> bool.
  Hypothesis X_obj : forall dm o l k dv,
    X (JObj dm) o l = true -> In (k, dv) dm ->
    X dv (jget k (obj_or_nil o)) (jget k (obj_or_nil l)) = true.

  (* ===== containment ===== *)
  Definition contain_stmt (s : json) : Prop :=
    forall o l r, self_wf s = true -> Hb' s o l = true -> wf_json s = true -> X s o l = true ->
                  merge s o l = Ok r -> containsb s r = true.

  Hypothesis lm_contain : forall sl ol l key r,
    Forall contain_stmt sl ->
    self_wf (JArr sl) = true -> Hb' (JArr sl) (JArr ol) l = true -> wf_json (JArr sl) = true ->
    X (JArr sl) (JArr ol) l = true ->
    detect_key ol (arr_or_nil l) sl = Some key ->
    merge (JArr sl) (JArr ol) l = Ok r -> containsb (JArr sl) r = true.

  Lemma containment_core : forall d, contain_stmt d.
  Proof.
    induction d as [| b | z | s | s | j IH | sl IH | sm IH] using json_ind';
      intros o l r Hs Hh Hw HX Hm.
    - apply merge_null_shape in Hm. exact Hm.
    - apply merge_scalar_des in Hm; [subst; now apply containsb_refl|reflexivity].
    - apply merge_scalar_des in Hm; [subst; now apply containsb_refl|reflexivity].
    - apply merge_scalar_des in Hm; [subst; now apply containsb_refl|reflexivity].
    - apply merge_scalar_des in Hm; [subst; now apply containsb_refl|reflexivity].
    - apply merge_scalar_des in Hm; [subst; now apply containsb_refl|reflexivity].
    - (* desired array *)
      destruct o as [| | | | | |ol|om];
        try (rewrite merge_nc in Hm by reflexivity; inversion Hm; subst; now apply containsb_refl);
        try (cbn in Hm; discriminate).
      destruct (detect_key ol (arr_or_nil l) sl) as [key|] eqn:E.
      + eapply lm_contain; eauto.
      + rewrite merge_arr_arr in Hm. cbv zeta in Hm. rewrite E in Hm.
        inversion Hm; subst. now apply containsb_refl.
    - (* desired object *)
      destruct o as [| | | | | |ol|om];
        try (rewrite merge_nc in Hm by reflexivity; inversion Hm; subst; now apply containsb_refl);
        try (cbn in Hm; discriminate).
      rewrite merge_obj_obj in Hm. cbv zeta in Hm.
      destruct (mobj_aux _ _ sm _) as [m| |] eqn:EM; try discriminate.
      inversion Hm; subst r. clear Hm.
      rewrite self_wf_obj in Hs. apply andb_split in Hs as [Hnd Hs].
      rewrite Hb'_obj in Hh. apply andb_split in Hh as [_ Hh].
      rewrite containsb_obj_obj. apply forallb_forall. intros [k dv] Hin. cbn [fst snd].
      destruct (mobj_aux_In _ _ _ _ _ EM Hnd k dv Hin) as (rk & Hrk & Hl).
      rewrite jget_remove_last_keep in Hrk by (eapply ahas_nodup_In; eauto).
      rewrite (alookup_ahas _ _ _ Hl). cbn [andb].
      unfold jget at 1. rewrite Hl.
      rewrite Forall_forall in IH. apply (IH (k, dv) Hin (jget k om) (jget k (obj_or_nil l)) rk); auto.
      + apply (forallb_In _ _ _ Hs Hin).
      + apply (forallb_In _ _ _ Hh Hin).
      + eapply wf_obj_In; eauto.
      + apply (X_obj sm (JObj om) l k dv HX Hin).
  Qed.

  (* ===== removal and preservation ===== *)
  Definition rp_hyps (s o l : json) : Prop :=
    self_wf s = true /\ Hb' s o l = true /\ wf_json s = true /\ wf_json o = true /\
    wf_json l = true /\ X s o l = true.

  Definition removal_stmt (s : json) : Prop :=
    forall o l r, rp_hyps s o l -> merge s o l = Ok r -> removedb s o l r = true.

  Definition preserv_stmt (s : json) : Prop :=
    forall o l r, rp_hyps s o l -> merge s o l = Ok r -> preservedb s o l r = true.

  Hypothesis lm_removal : forall sl ol l key r,
    Forall removal_stmt sl -> rp_hyps (JArr sl) (JArr ol) l ->
    detect_key ol (arr_or_nil l) sl = Some key ->
    merge (JArr sl) (JArr ol) l = Ok r -> removedb (JArr sl) (JArr ol) l r = true.

  Hypothesis lm_preserv : forall sl ol l key r,
    Forall preserv_stmt sl -> rp_hyps (JArr sl) (JArr ol) l ->
    detect_key ol (arr_or_nil l) sl = Some key ->
    merge (JArr sl) (JArr ol) l = Ok r -> preservedb (JArr sl) (JArr ol) l r = true.

  Lemma wf_obj_or_nil l : wf_json l = true -> wf_json (JObj (obj_or_nil l)) = true.
  Proof. destruct l; auto. Qed.

  Lemma rp_hyps_obj sm om l k dv :
    rp_hyps (JObj sm) (JObj om) l -> In (k, dv) sm ->
    rp_hyps dv (jget k om) (jget k (obj_or_nil l)).
  Proof.
    intros (Hs & Hh & Hw & Hwo & Hwl & HX) Hin.
    rewrite self_wf_obj in Hs. apply andb_split in Hs as [Hnd Hs].
    rewrite Hb'_obj in Hh. apply andb_split in Hh as [_ Hh].
    repeat split.
    - apply (forallb_In _ _ _ Hs Hin).
    - apply (forallb_In _ _ _ Hh Hin).
    - apply (wf_obj_In sm k dv Hw Hin).
    - now apply wf_jget.
    - apply wf_jget. now apply wf_obj_or_nil.
    - apply (X_obj sm (JObj om) l k dv HX Hin).
  Qed.

  Lemma removal_core : forall d, removal_stmt d.
  Proof.
    induction d as [| b | z | s | s | j IH | sl IH | sm IH] using json_ind';
      intros o l r HH Hm.
    1-6: reflexivity.
    - (* desired array *)
      destruct o as [| | | | | |ol|om];
        try (rewrite merge_nc in Hm by reflexivity; inversion Hm; subst;
             apply removedb_self; [reflexivity|apply HH]);
        try (cbn in Hm; discriminate).
      destruct (detect_key ol (arr_or_nil l) sl) as [key|] eqn:E.
      + eapply lm_removal; eauto.
      + rewrite merge_arr_arr in Hm. cbv zeta in Hm. rewrite E in Hm.
        inversion Hm; subst. cbn [removedb]. cbv zeta. cbn [arr_or_nil]. now rewrite E.
    - (* desired object *)
      destruct o as [| | | | | |ol|om];
        try (rewrite merge_nc in Hm by reflexivity; inversion Hm; subst;
             apply removedb_self; [reflexivity|apply HH]);
        try (cbn in Hm; discriminate).
      rewrite merge_obj_obj in Hm. cbv zeta in Hm.
      destruct (mobj_aux _ _ sm _) as [m| |] eqn:EM; try discriminate.
      inversion Hm; subst r. clear Hm.
      pose proof HH as (Hs & _).
      rewrite self_wf_obj in Hs. apply andb_split in Hs as [Hnd _].
      rewrite removedb_obj_obj. cbn [obj_or_nil]. apply Bool.andb_true_iff. split.
      + apply forallb_forall. intros k Hk.
        rewrite (mobj_aux_ahas _ _ _ _ _ k EM). rewrite ahas_remove_last.
        apply mem_str_In in Hk. rewrite Hk.
        destruct (ahas k sm); reflexivity.
      + apply forallb_forall. intros [k dv] Hin. cbn [fst snd].
        destruct (mobj_aux_In _ _ _ _ _ EM Hnd k dv Hin) as (rk & Hrk & Hl).
        rewrite jget_remove_last_keep in Hrk by (eapply ahas_nodup_In; eauto).
        unfold jget at 3. rewrite Hl.
        rewrite Forall_forall in IH. apply (IH (k, dv) Hin); auto.
        eapply rp_hyps_obj; eauto.
  Qed.

  Lemma preserv_core : forall d, preserv_stmt d.
  Proof.
    induction d as [| b | z | s | s | j IH | sl IH | sm IH] using json_ind';
      intros o l r HH Hm.
    - (* null *)
      destruct o as [| | | | | |ol|om]; try (apply preservedb_nc; reflexivity).
      + destruct r; reflexivity.
      + cbn [merge] in Hm. cbv zeta in Hm. inversion Hm; subst r; clear Hm.
        destruct HH as (_ & _ & _ & Hwo & _).
        rewrite preservedb_obj_obj. rewrite Bool.andb_true_r.
        apply forallb_forall. intros [k v] Hin. cbn [fst snd].
        destruct (ahas k (obj_or_nil l)) eqn:El; [reflexivity|]. cbn [orb obj_or_nil].
        assert (HL : alookup k (remove_last om (akeys (obj_or_nil l)) (fun _ => false)) = Some v).
        { rewrite alookup_remove_last, mem_str_akeys, El. cbn [andb].
          apply alookup_nodup_In; auto. now apply wf_obj_nodup. }
        rewrite (alookup_ahas _ _ _ HL). unfold jget. rewrite HL.
        unfold ahas. cbn. apply jeqb_refl. eapply wf_obj_In; eauto.
    - destruct o; try (apply preservedb_nc; reflexivity); cbn in Hm; discriminate.
    - destruct o; try (apply preservedb_nc; reflexivity); cbn in Hm; discriminate.
    - destruct o; try (apply preservedb_nc; reflexivity); cbn in Hm; discriminate.
    - destruct o; try (apply preservedb_nc; reflexivity); cbn in Hm; discriminate.
    - destruct o; try (apply preservedb_nc; reflexivity); cbn in Hm; discriminate.
    - (* desired array *)
      destruct o as [| | | | | |ol|om]; try (apply preservedb_nc; reflexivity);
        try (cbn in Hm; discriminate).
      destruct (detect_key ol (arr_or_nil l) sl) as [key|] eqn:E.
      + eapply lm_preserv; eauto.
      + rewrite merge_arr_arr in Hm. cbv zeta in Hm. rewrite E in Hm.
        inversion Hm; subst. cbn [preservedb]. cbv zeta. now rewrite E.
    - (* desired object *)
      destruct o as [| | | | | |ol|om]; try (apply preservedb_nc; reflexivity);
        try (cbn in Hm; discriminate).
      rewrite merge_obj_obj in Hm. cbv zeta in Hm.
      destruct (mobj_aux _ _ sm _) as [m| |] eqn:EM; try discriminate.
      inversion Hm; subst r. clear Hm.
      pose proof HH as (Hs & _ & _ & Hwo & _).
      rewrite self_wf_obj in Hs. apply andb_split in Hs as [Hnd _].
      rewrite preservedb_obj_obj. cbn [obj_or_nil]. apply Bool.andb_true_iff. split.
      + apply forallb_forall. intros [k v] Hin. cbn [fst snd].
        destruct (ahas k (obj_or_nil l)) eqn:El; [reflexivity|]. cbn [orb].
        destruct (ahas k sm) eqn:Es; [reflexivity|]. cbn [orb].
        assert (HL : alookup k m = Some v).
        { rewrite (mobj_aux_other _ _ _ _ _ k EM Es).
          rewrite alookup_remove_last, mem_str_akeys, El. cbn [andb].
          apply alookup_nodup_In; auto. now apply wf_obj_nodup. }
        rewrite (alookup_ahas _ _ _ HL). unfold jget. rewrite HL.
        cbn [andb]. apply jeqb_refl. eapply wf_obj_In; eauto.
      + apply forallb_forall. intros [k dv] Hin. cbn [fst snd].
        destruct (mobj_aux_In _ _ _ _ _ EM Hnd k dv Hin) as (rk & Hrk & Hl).
        rewrite jget_remove_last_keep in Hrk by (eapply ahas_nodup_In; eauto).
        unfold jget at 3. rewrite Hl.
        rewrite Forall_forall in IH. apply (IH (k, dv) Hin); auto.
        eapply rp_hyps_obj; eauto.
  Qed.
End Core.

(* ---------- instance 1: the list-map-free fragment ---------- *)
Lemma no_listmap_X_obj dm o l k dv :
  no_listmap (JObj dm) o l = true -> In (k, dv) dm ->
  no_listmap dv (jget k (obj_or_nil o)) (jget k (obj_or_nil l)) = true.
Proof. rewrite no_listmap_obj. intros H Hin. apply (forallb_In _ _ _ H Hin). Qed.

Lemma no_listmap_arr_absurd sl ol l key :
  no_listmap (JArr sl) (JArr ol) l = true -> detect_key ol (arr_or_nil l) sl = Some key -> False.
Proof. cbn [no_listmap arr_or_nil]. intros H E. rewrite E in H. discriminate. Qed.

Theorem containment_nolistmap : forall d o l r,
  no_listmap d o l = true -> Hb d o l = true -> wf_json d = true ->
  merge d o l = Ok r -> containsb d r = true.
Proof.
  intros d o l r HX Hh Hw Hm. unfold Hb in Hh. apply andb_split in Hh as [Hs Hh].
  eapply (containment_core no_listmap no_listmap_X_obj); eauto.
  intros sl ol l0 key r0 _ _ _ _ HX0 E _. exfalso. eapply no_listmap_arr_absurd; eauto.
Qed.

Theorem removal_nolistmap : forall d o l r,
  no_listmap d o l = true -> Hb d o l = true -> wf_json d = true -> wf_json o = true ->
  wf_json l = true -> merge d o l = Ok r -> removedb d o l r = true.
Proof.
  intros d o l r HX Hh Hw Hwo Hwl Hm. unfold Hb in Hh. apply andb_split in Hh as [Hs Hh].
  eapply (removal_core no_listmap no_listmap_X_obj); eauto.
  - intros sl ol l0 key r0 _ (_ & _ & _ & _ & _ & HX0) E _. exfalso. eapply no_listmap_arr_absurd; eauto.
  - repeat split; auto.
Qed.

Theorem preservation_nolistmap : forall d o l r,
  no_listmap d o l = true -> Hb d o l = true -> wf_json d = true -> wf_json o = true ->
  wf_json l = true -> merge d o l = Ok r -> preservedb d o l r = true.
Proof.
  intros d o l r HX Hh Hw Hwo Hwl Hm. unfold Hb in Hh. apply andb_split in Hh as [Hs Hh].
  eapply (preserv_core no_listmap no_listmap_X_obj); eauto.
  - intros sl ol l0 key r0 _ (_ & _ & _ & _ & _ & HX0) E _. exfalso. eapply no_listmap_arr_absurd; eauto.
  - repeat split; auto.
Qed.

Print Assumptions containment_nolistmap.
Print Assumptions removal_nolistmap.
Print Assumptions preservation_nolistmap.
