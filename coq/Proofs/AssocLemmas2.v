(* AssocLemmas2.v — further facts about association lists, jeqb and wf_json. *)
From MC Require Import Model.Json Proofs.AssocLemmas.
From Coq Require Import Lia.

Lemma alookup_In k v m : alookup k m = Some v -> In (k, v) m.
Proof.
  induction m as [|[k' v'] m IH]; simpl; [discriminate|].
  destruct (String.eqb k k') eqn:E.
  - apply String.eqb_eq in E; subst. intros [= ->]. now left.
  - intros H. right. auto.
Qed.

Lemma In_akeys k v m : In (k, v) m -> In k (akeys m).
Proof. intros H. unfold akeys. change k with (fst (k, v)). now apply in_map. Qed.

Lemma alookup_nodup_In k v m :
  nodup_str (akeys m) = true -> In (k, v) m -> alookup k m = Some v.
Proof.
  induction m as [|[k' v'] m IH]; simpl; [intros _ []|].
  intros Hnd Hin. apply Bool.andb_true_iff in Hnd as [Hn Hd].
  destruct Hin as [Heq|Hin].
  - inversion Heq; subst. now rewrite eqb_refl'.
  - destruct (String.eqb k k') eqn:E.
    + apply String.eqb_eq in E; subst k'.
      apply In_akeys in Hin. apply mem_str_In in Hin. unfold akeys in *.
      cbn [fst] in Hn. rewrite Hin in Hn. discriminate.
    + auto.
Qed.

Lemma jget_nodup_In k v m :
  nodup_str (akeys m) = true -> In (k, v) m -> jget k m = v.
Proof. intros Hnd Hin. unfold jget. now rewrite (alookup_nodup_In k v m Hnd Hin). Qed.

Lemma ahas_nodup_In k v m : In (k, v) m -> ahas k m = true.
Proof. intros Hin. apply ahas_In_keys. eapply In_akeys; eauto. Qed.

Lemma ahas_false_alookup k m : ahas k m = false -> alookup k m = None.
Proof. unfold ahas. destruct (alookup k m); [discriminate|reflexivity]. Qed.

Lemma ahas_true_alookup k m : ahas k m = true -> exists v, alookup k m = Some v.
Proof. unfold ahas. destruct (alookup k m); [eauto|discriminate]. Qed.

Lemma alookup_ahas k m v : alookup k m = Some v -> ahas k m = true.
Proof. unfold ahas. now intros ->. Qed.

Lemma mem_str_akeys k m : mem_str k (akeys m) = ahas k m.
Proof.
  destruct (ahas k m) eqn:E.
  - apply mem_str_In. now apply ahas_In_keys.
  - destruct (mem_str k (akeys m)) eqn:E2; auto.
    apply mem_str_In in E2. apply ahas_In_keys in E2. congruence.
Qed.

Lemma mem_str_app k a b : mem_str k (a ++ b) = mem_str k a || mem_str k b.
Proof. induction a as [|x a IH]; simpl; auto. rewrite IH. now rewrite Bool.orb_assoc. Qed.

(* ---- wf_json unfoldings ---- *)
Lemma wf_obj m :
  wf_json (JObj m) = nodup_str (akeys m) && forallb (fun kv => wf_json (snd kv)) m.
Proof.
  cbn [wf_json]. unfold akeys. f_equal.
  induction m as [|[k v] m IH]; [reflexivity|]. cbn [forallb snd]. now rewrite <- IH.
Qed.

Lemma wf_arr l : wf_json (JArr l) = forallb wf_json l.
Proof.
  cbn [wf_json]. induction l as [|a l IH]; [reflexivity|]. cbn [forallb]. now rewrite <- IH.
Qed.

Lemma wf_obj_nodup m : wf_json (JObj m) = true -> nodup_str (akeys m) = true.
Proof. rewrite wf_obj. intros H. now apply Bool.andb_true_iff in H as [H _]. Qed.

Lemma wf_obj_In m k v : wf_json (JObj m) = true -> In (k, v) m -> wf_json v = true.
Proof.
  rewrite wf_obj. intros H Hin. apply Bool.andb_true_iff in H as [_ H].
  rewrite forallb_forall in H. apply (H (k, v) Hin).
Qed.

Lemma wf_jget m k : wf_json (JObj m) = true -> wf_json (jget k m) = true.
Proof.
  intros H. unfold jget. destruct (alookup k m) eqn:E; [|reflexivity].
  apply alookup_In in E. eapply wf_obj_In; eauto.
Qed.

Lemma wf_arr_In l a : wf_json (JArr l) = true -> In a l -> wf_json a = true.
Proof. rewrite wf_arr, forallb_forall. auto. Qed.

(* ---- jeqb is reflexive on well-formed values ---- *)
Lemma jeqb_arr x y :
  jeqb (JArr x) (JArr y) =
  (fix go (x y : list json) : bool :=
     match x, y with
     | [], [] => true
     | a :: x', b :: y' => jeqb a b && go x' y'
     | _, _ => false
     end) x y.
Proof. reflexivity. Qed.

Lemma jeqb_obj x y :
  jeqb (JObj x) (JObj y) =
  Nat.eqb (List.length x) (List.length y) &&
  forallb (fun kv => match alookup (fst kv) y with Some v' => jeqb (snd kv) v' | None => false end) x.
Proof.
  cbn [jeqb]. f_equal.
  induction x as [|[k v] x IH]; [reflexivity|]. cbn [forallb fst snd]. now rewrite <- IH.
Qed.

Lemma jeqb_refl j : wf_json j = true -> jeqb j j = true.
Proof.
  induction j as [| b | z | s | s | j IH | l IH | m IH] using json_ind'; intros Hwf.
  - reflexivity.
  - cbn. now destruct b.
  - cbn. apply Z.eqb_refl.
  - cbn. apply eqb_refl'.
  - cbn. apply eqb_refl'.
  - cbn in *. auto.
  - rewrite wf_arr in Hwf. cbn [jeqb].
    induction l as [|a l IHl]; [reflexivity|].
    cbn [forallb] in Hwf. apply Bool.andb_true_iff in Hwf as [Ha Hl].
    inversion IH as [|? ? IHa IHl']; subst.
    rewrite (IHa Ha). cbn [andb]. auto.
  - rewrite jeqb_obj. rewrite Nat.eqb_refl. cbn [andb].
    pose proof (wf_obj_nodup m Hwf) as Hnd.
    apply forallb_forall. intros [k v] Hin. cbn [fst snd].
    rewrite (alookup_nodup_In k v m Hnd Hin).
    rewrite Forall_forall in IH. apply (IH (k, v) Hin).
    eapply wf_obj_In; eauto.
Qed.
