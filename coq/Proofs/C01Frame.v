(* C01Frame.v — a frame rule for fixpoints of the three-way merge: when
   merge d a d = a (the object a already carries everything d specifies, and
   d is what was last applied), the same holds of any object b that agrees
   with a on the paths d mentions.  And: an object on which the merge is the
   identity and that records d as last applied is a fixpoint of ApplyUpdate. *)
From MC Require Import Generated Model.Json Model.Apply Model.ApplyLaws.
From MC Require Import Proofs.AssocLemmas Proofs.AssocLemmas2 Proofs.ApplyProofs Proofs.ApplyBase
                       Proofs.ApplyUpdateProofs Proofs.ApplyWf.
Local Open Scope string_scope.
Local Open Scope list_scope.

(* ------------------------------------------------------------------ *)
(* agreement of two objects along the object paths of d                *)
(* ------------------------------------------------------------------ *)
Fixpoint agree (d a b : json) {struct d} : Prop :=
  match d with
  | JObj sm =>
      match a with
      | JObj am =>
          match b with
          | JObj bm =>
              (fix go (sm : amap) : Prop :=
                 match sm with
                 | [] => True
                 | (k, dv) :: sm' =>
                     (alookup k am = alookup k bm \/
                      exists av bv, alookup k am = Some av /\ alookup k bm = Some bv /\ agree dv av bv)
                     /\ go sm'
                 end) sm
          | _ => a = b
          end
      | _ => a = b
      end
  | _ => a = b
  end.

Lemma agree_obj sm am bm :
  agree (JObj sm) (JObj am) (JObj bm) <->
  forall k dv, In (k, dv) sm ->
    alookup k am = alookup k bm \/
    exists av bv, alookup k am = Some av /\ alookup k bm = Some bv /\ agree dv av bv.
Proof.
  cbn [agree]. induction sm as [|[k dv] sm IH].
  - split; [intros _ k dv []|auto].
  - split.
    + intros [H1 H2] k' dv' [Heq|Hin].
      * inversion Heq; subst. exact H1.
      * apply IH; assumption.
    + intros H. split.
      * apply H. now left.
      * apply IH. intros k' dv' Hin. apply H. now right.
Qed.

Lemma agree_refl d a : agree d a a.
Proof.
  revert a. induction d as [| b | z | s | s | j IH | l IH | m IH] using json_ind'; intros a;
    try reflexivity.
  destruct a; try reflexivity. apply agree_obj. intros k dv Hin. now left.
Qed.

Lemma remove_last_self am sm :
  remove_last am (akeys sm) (fun k => ahas k sm) = am.
Proof. apply remove_last_all_kept. intros k Hk. now apply ahas_In_keys. Qed.

Theorem merge_fix_frame d :
  wf_json d = true -> forall a b, merge d a d = Ok a -> agree d a b -> merge d b d = Ok b.
Proof.
  induction d as [| b0 | z | s | s | j IH | l IH | m IH] using json_ind'; intros Hwf a b Hm Ha;
    try (cbn [agree] in Ha; subst b; exact Hm).
  destruct a as [| | | | | | |am]; try (cbn [agree] in Ha; subst b; exact Hm).
  destruct b as [| | | | | | |bm]; try (cbn [agree] in Ha; discriminate Ha).
  rewrite agree_obj in Ha.
  pose proof (wf_obj_nodup m Hwf) as Hnd.
  rewrite merge_obj_obj in Hm. rewrite merge_obj_obj. cbv zeta in *. cbn [obj_or_nil] in *.
  rewrite remove_last_self in Hm. rewrite remove_last_self.
  destruct (mobj_aux am m m am) as [am'| |] eqn:E; try discriminate.
  assert (am' = am) by congruence. subst am'. clear Hm.
  rewrite (mobj_aux_fix bm m m bm); [reflexivity|].
  intros k dv Hin.
  destruct (mobj_aux_In _ _ _ _ _ E Hnd k dv Hin) as (r & Hr & Hl).
  rewrite (jget_nodup_In k dv m Hnd Hin) in *.
  destruct (Ha k dv Hin) as [Heq | (av & bv & Hav & Hbv & Hag)].
  - exists r. unfold jget in *. rewrite <- Heq. split; assumption.
  - rewrite Hav in Hl. assert (r = av) by congruence. subst r.
    exists bv. split; [|exact Hbv].
    unfold jget in *. rewrite Hbv. rewrite Hav in Hr.
    assert (Hwdv : wf_json dv = true) by (eapply wf_obj_In; eauto).
    rewrite Forall_forall in IH. exact (IH (k, dv) Hin Hwdv av bv Hr Hag).
Qed.

(* ------------------------------------------------------------------ *)
(* well-formedness through the small edits                             *)
(* ------------------------------------------------------------------ *)
Lemma wf_aset k v m : wf_json (JObj m) = true -> wf_json v = true -> wf_json (JObj (aset k v m)) = true.
Proof.
  rewrite !wf_obj_iff. intros [Hnd Hv] Hw. split; [now apply nodup_aset|].
  intros k' v' Hl. rewrite alookup_aset in Hl. destruct (String.eqb k' k).
  - now inversion Hl; subst.
  - eapply Hv; eauto.
Qed.

Lemma wf_aremove k m : wf_json (JObj m) = true -> wf_json (JObj (aremove k m)) = true.
Proof.
  rewrite !wf_obj_iff. intros [Hnd Hv]. split; [now apply nodup_aremove|].
  intros k' v' Hl. rewrite alookup_aremove in Hl. destruct (String.eqb k' k); [discriminate|].
  eapply Hv; eauto.
Qed.

Lemma wf_alookup k m v : wf_json (JObj m) = true -> alookup k m = Some v -> wf_json v = true.
Proof. intros Hw Hl. apply alookup_In in Hl. eapply wf_obj_In; eauto. Qed.

Lemma wf_nested_set2 m a b v m' :
  wf_json (JObj m) = true -> wf_json v = true -> nested_set m [a; b] v = Some m' -> wf_json (JObj m') = true.
Proof.
  intros Hw Hv. rewrite nested_set2.
  destruct (alookup a m) as [x|] eqn:E.
  - destruct x; try discriminate. intros [= <-]. apply wf_aset; [exact Hw|].
    apply wf_aset; [|exact Hv]. eapply wf_alookup; eauto.
  - intros [= <-]. apply wf_aset; [exact Hw|]. cbn. now rewrite Hv.
Qed.

Lemma wf_nested_remove2 m a b : wf_json (JObj m) = true -> wf_json (JObj (nested_remove m [a; b])) = true.
Proof.
  intros Hw. rewrite nested_remove2.
  destruct (alookup a m) as [x|] eqn:E; [|exact Hw].
  destruct x; try exact Hw. apply wf_aset; [exact Hw|]. apply wf_aremove. eapply wf_alookup; eauto.
Qed.

Lemma wf_nested_get2 m a b v :
  wf_json (JObj m) = true -> nested_get m [a; b] = NFound v -> wf_json v = true.
Proof.
  intros Hw. rewrite nested_get2.
  destruct (alookup a m) as [x|] eqn:E; [|discriminate].
  destruct x; try discriminate.
  destruct (alookup b m0) as [y|] eqn:E2; [|discriminate]. intros [= <-].
  eapply wf_alookup; [|exact E2]. eapply wf_alookup; eauto.
Qed.

Lemma wf_revert_field2 m orig a b m' :
  wf_json (JObj m) = true -> wf_json (JObj orig) = true ->
  revert_field m orig [a; b] = Ok m' -> wf_json (JObj m') = true.
Proof.
  intros Hm Ho. unfold revert_field.
  destruct (nested_get orig [a; b]) as [v| |] eqn:E; try discriminate.
  - destruct (nested_set m [a; b] v) as [o|] eqn:E2; try discriminate. intros [= <-].
    apply (wf_nested_set2 m a b v o Hm); [|exact E2]. exact (wf_nested_get2 orig a b v Ho E).
  - intros [= <-]. now apply wf_nested_remove2.
Qed.

Lemma wf_revert_fields2 fs : forall m orig m',
  wf_json (JObj m) = true -> wf_json (JObj orig) = true ->
  revert_fields m orig (map (fun f => ["metadata"; f]) fs) = Ok m' -> wf_json (JObj m') = true.
Proof.
  induction fs as [|f fs IH]; intros m orig m' Hm Ho H.
  - cbn in H. now inversion H; subst.
  - cbn [map revert_fields] in H.
    destruct (revert_field m orig ["metadata"; f]) as [o| |] eqn:E; cbn [rbind] in H; try discriminate.
    exact (IH o orig m' (wf_revert_field2 m orig "metadata" f o Hm Ho E) Ho H).
Qed.

Lemma wf_revert_status m orig m' :
  wf_json (JObj m) = true -> wf_json (JObj orig) = true ->
  revert_field m orig ["status"] = Ok m' -> wf_json (JObj m') = true.
Proof.
  intros Hm Ho. unfold revert_field. rewrite (nested_get1 orig).
  destruct (alookup "status" orig) as [v|] eqn:E.
  - cbn [nested_set]. intros [= <-]. apply wf_aset; [exact Hm|]. eapply wf_alookup; eauto.
  - cbn [nested_remove]. intros [= <-]. now apply wf_aremove.
Qed.

Lemma get_annotations_wf m ann :
  wf_json (JObj m) = true -> get_annotations m = Some ann -> wf_json (JObj ann) = true.
Proof.
  intros Hw. unfold get_annotations.
  destruct (nested_get m ["metadata"; "annotations"]) as [v| |] eqn:E; try discriminate.
  destruct v; try discriminate.
  destruct (forallb _ m0); try discriminate. intros [= <-].
  eapply wf_nested_get2; eauto.
Qed.

Lemma wf_set_last_applied m la :
  wf_json (JObj m) = true -> wf_json la = true -> wf_json (JObj (set_last_applied m la)) = true.
Proof.
  intros Hm Hla. unfold set_last_applied, set_annotations.
  match goal with |- context [nested_set m ?p ?v] => destruct (nested_set m p v) as [o|] eqn:E end;
    [|exact Hm].
  eapply wf_nested_set2; [exact Hm| |exact E].
  apply wf_aset; [|exact Hla].
  destruct (get_annotations m) as [a|] eqn:Ea; [|reflexivity].
  eapply get_annotations_wf; eauto.
Qed.

Theorem apply_update_wf orig upd n :
  wf_json (JObj orig) = true -> wf_json (JObj (nullify_last_applied upd)) = true ->
  apply_update orig upd = Ok n -> wf_json (JObj n) = true.
Proof.
  intros Ho Hu H.
  apply apply_update_inv in H as (last & nm & n1 & n2 & _ & Hm & H1 & H2 & ->).
  apply wf_set_last_applied; [|exact Hu].
  eapply wf_revert_status; [|exact Ho|exact H2].
  eapply wf_revert_fields2; [|exact Ho|exact H1].
  eapply merge_wf; [exact Hu|exact Ho|exact Hm].
Qed.

(* ------------------------------------------------------------------ *)
(* stable objects are fixpoints of ApplyUpdate                         *)
(* ------------------------------------------------------------------ *)
Definition desired_of (d : amap) : amap := nullify_last_applied d.

(* m carries what d specifies (the merge changes nothing), records d as last
   applied, and is a well-formed API object *)
Definition stable (d m : amap) : Prop :=
  merge (JObj (desired_of d)) (JObj m) (JObj (desired_of d)) = Ok (JObj m) /\
  wf_json (JObj m) = true /\
  exists mmeta ann,
    alookup "metadata" m = Some (JObj mmeta) /\
    alookup "annotations" mmeta = Some (JObj ann) /\
    forallb (fun kv => is_stringy (snd kv)) ann = true /\
    alookup last_applied_annotation ann = Some (JText (JObj (desired_of d))).

Lemma revert_field_self2 m mm f :
  alookup "metadata" m = Some (JObj mm) -> revert_field m m ["metadata"; f] = Ok m.
Proof.
  intros Hm. unfold revert_field. rewrite nested_get2, Hm.
  destruct (alookup f mm) as [v|] eqn:Ef.
  - rewrite nested_set2, Hm. rewrite (aset_id f v mm Ef). now rewrite (aset_id _ _ _ Hm).
  - rewrite nested_remove2, Hm. rewrite aremove_absent by (unfold ahas; now rewrite Ef).
    now rewrite (aset_id _ _ _ Hm).
Qed.

Lemma revert_fields_self2 m mm fs :
  alookup "metadata" m = Some (JObj mm) ->
  revert_fields m m (map (fun f => ["metadata"; f]) fs) = Ok m.
Proof.
  intros Hm. induction fs as [|f fs IH]; [reflexivity|].
  cbn [map revert_fields]. rewrite (revert_field_self2 m mm f Hm). cbn [rbind]. exact IH.
Qed.

Lemma revert_status_self m : revert_field m m ["status"] = Ok m.
Proof.
  unfold revert_field. rewrite nested_get1.
  destruct (alookup "status" m) as [v|] eqn:E.
  - cbn [nested_set]. now rewrite (aset_id _ _ _ E).
  - cbn [nested_remove]. rewrite aremove_absent; [reflexivity|]. unfold ahas. now rewrite E.
Qed.

Theorem stable_apply_update d m : stable d m -> apply_update m d = Ok m.
Proof.
  intros (Hmerge & Hwf & mmeta & ann & Hmeta & Hann & Hstr & Hla).
  assert (Hga : get_annotations m = Some ann).
  { unfold get_annotations. rewrite nested_get2, Hmeta, Hann, Hstr. reflexivity. }
  unfold apply_update, get_last_applied. rewrite Hga, Hla. cbn [rbind].
  unfold Merge. fold (desired_of d). rewrite Hmerge. cbn [rbind].
  unfold system_paths. rewrite (revert_fields_self2 m mmeta _ Hmeta). cbn [rbind].
  rewrite revert_status_self. cbn [rbind].
  unfold set_last_applied. rewrite Hga. rewrite (aset_id _ _ _ Hla).
  unfold set_annotations. rewrite nested_set2, Hmeta.
  rewrite (aset_id _ _ _ Hann). now rewrite (aset_id _ _ _ Hmeta).
Qed.

Print Assumptions merge_fix_frame.
Print Assumptions apply_update_wf.
Print Assumptions stable_apply_update.
