(* C08Proofs.v — C08 "healthy rollouts finish": facts about the second pass of
   the rollout step, pruning and revision deletion in Model/Rolling.v. *)
From MC Require Import Generated.
From MC Require Import Model.Rolling.
From MC Require Import Proofs.C06Proofs Proofs.RollGate.
From Coq Require Import Lia.
Local Open Scope list_scope.

(* ================================================================== *)
(* 0. second_pass, unfolded                                             *)
(* ================================================================== *)
(* the selection function of the second pass: a rolling child that the hook
   lists and that is not (yet) claimed by the latest revision *)
Definition pending (c : ccfg) (pns : string) (cl : claims) (ch : option json) : bool :=
  match ch with
  | None => false
  | Some o =>
      let group := group_of (get_api_version o) in
      is_rolling c group (get_kind o) &&
      negb (match claimant cl (group, get_kind o, relative_name pns o) with
            | Some O => true | _ => false end)
  end.

(* the revisions after child (group, kind, name) moved to the latest one *)
Definition moved (latest : prev) (rest : list prev) (group kind name : string) : list prev :=
  set_rev latest (add_child (pr_rev latest) group kind name) ::
  map (fun p => set_rev p (remove_child (pr_rev p) group kind name)) rest.

Lemma update_nth_go_past {A} (f : A -> A) (l : list A) : forall i,
  (fix go (i : nat) (l : list A) : list A :=
     match l with [] => [] | a :: l' => (if Nat.eqb i 0 then f a else a) :: go (S i) l' end) (S i) l = l.
Proof.
  induction l as [|b l IH]; intros i; [reflexivity|].
  cbn [Nat.eqb]. f_equal. apply IH.
Qed.

Lemma update_nth_0_cons {A} (f : A -> A) (a : A) (l : list A) :
  update_nth 0 f (a :: l) = f a :: l.
Proof.
  unfold update_nth. cbn [Nat.eqb]. f_equal. apply update_nth_go_past.
Qed.

Lemma second_pass_unfold c pns observed latest rest cl :
  second_pass c pns observed (latest :: rest) cl =
  match find (pending c pns cl) (hr_children (pr_resp latest)) with
  | Some (Some o) =>
      match should_continue_rolling c pns latest observed with
      | Some why => (latest :: rest, RWaiting why)
      | None => (moved latest rest (group_of (get_api_version o)) (get_kind o) (relative_name pns o),
                 RProgressing (get_kind o) (relative_name pns o))
      end
  | _ => (latest :: rest, RComplete)
  end.
Proof.
  unfold second_pass. fold (pending c pns cl).
  destruct (find (pending c pns cl) (hr_children (pr_resp latest))) as [[o|]|] eqn:Hfind; try reflexivity.
  destruct (should_continue_rolling c pns latest observed) as [why|] eqn:Hgate; [reflexivity|].
  rewrite map_id, update_nth_0_cons. reflexivity.
Qed.

(* ================================================================== *)
(* 1. a healthy latest revision never makes the rollout wait            *)
(* ================================================================== *)
Theorem C08_never_waits_on_healthy c pns observed latest rest cl :
  (forall ck name, In ck (rev_children (pr_rev latest)) ->
                   is_rolling c (ck_group ck) (ck_kind ck) = true ->
                   In name (ck_names ck) ->
                   child_ready c pns latest observed ck name) ->
  (forall prs' why, second_pass c pns observed (latest :: rest) cl <> (prs', RWaiting why)) /\
  ((exists prs' kind name, second_pass c pns observed (latest :: rest) cl = (prs', RProgressing kind name)) \/
   second_pass c pns observed (latest :: rest) cl = (latest :: rest, RComplete)).
Proof.
  intros Hready. apply gate_open_iff in Hready.
  rewrite second_pass_unfold, Hready.
  destruct (find (pending c pns cl) (hr_children (pr_resp latest))) as [[o|]|] eqn:Hfind.
  - split; [intros prs' why Heq; discriminate Heq|].
    left. eexists _, _, _. reflexivity.
  - split; [intros prs' why Heq; discriminate Heq | right; reflexivity].
  - split; [intros prs' why Heq; discriminate Heq | right; reflexivity].
Qed.

(* the boolean form *)
Corollary C08_never_waits_on_healthy_b c pns observed latest rest cl :
  gate_openb c pns latest observed = true ->
  forall prs' why, second_pass c pns observed (latest :: rest) cl <> (prs', RWaiting why).
Proof.
  intros Hb. apply gate_openb_spec in Hb. rewrite gate_open_iff in Hb.
  apply (C08_never_waits_on_healthy c pns observed latest rest cl Hb).
Qed.

(* conversely a wait always names a rolling child of the latest revision that is not ready *)
Theorem C08_waits_only_on_unready c pns observed latest rest cl prs' why :
  second_pass c pns observed (latest :: rest) cl = (prs', RWaiting why) ->
  exists ck name, In ck (rev_children (pr_rev latest)) /\
                  is_rolling c (ck_group ck) (ck_kind ck) = true /\
                  In name (ck_names ck) /\
                  ~ child_ready c pns latest observed ck name.
Proof.
  intros Hsp. destruct (second_pass_waiting _ _ _ _ _ _ _ Hsp) as [l0 [r0 [Hprs [_ Hgate]]]].
  inversion Hprs; subst l0 r0. eapply gate_closed_witness. exact Hgate.
Qed.

(* ================================================================== *)
(* 2. an open gate moves the first pending child                        *)
(* ================================================================== *)
Definition lists (r : revision) (group kind name : string) : bool :=
  existsb (fun ck => String.eqb (ck_group ck) group && String.eqb (ck_kind ck) kind &&
                     mem_str name (ck_names ck)) (rev_children r).

Lemma mem_str_app_last n l : mem_str n (l ++ [n]) = true.
Proof.
  induction l as [|x l IH]; cbn [app mem_str].
  - rewrite String.eqb_refl. reflexivity.
  - rewrite IH. apply orb_true_r.
Qed.

(* the inner loop of addChild *)
Definition add_go (group kind name : string) : list rck -> bool -> list rck :=
  fix go (cs : list rck) (done : bool) : list rck :=
    match cs with
    | [] => []
    | ck :: cs' =>
        if negb done && String.eqb (ck_group ck) group && String.eqb (ck_kind ck) kind
        then (if mem_str name (ck_names ck) then ck
              else mkRck (ck_group ck) (ck_kind ck) (ck_names ck ++ [name])) :: go cs' true
        else ck :: go cs' done
    end.

Lemma add_go_cons group kind name ck cs done :
  add_go group kind name (ck :: cs) done =
  if negb done && String.eqb (ck_group ck) group && String.eqb (ck_kind ck) kind
  then (if mem_str name (ck_names ck) then ck
        else mkRck (ck_group ck) (ck_kind ck) (ck_names ck ++ [name])) :: add_go group kind name cs true
  else ck :: add_go group kind name cs done.
Proof. reflexivity. Qed.

Lemma add_child_unfold r group kind name :
  add_child r group kind name =
  if existsb (fun ck => String.eqb (ck_group ck) group && String.eqb (ck_kind ck) kind) (rev_children r)
  then mkRevision (rev_obj r) (rev_patch r) (add_go group kind name (rev_children r) false)
  else mkRevision (rev_obj r) (rev_patch r) (rev_children r ++ [mkRck group kind [name]]).
Proof. reflexivity. Qed.

Lemma add_go_lists group kind name cs :
  existsb (fun ck => String.eqb (ck_group ck) group && String.eqb (ck_kind ck) kind) cs = true ->
  existsb (fun ck => String.eqb (ck_group ck) group && String.eqb (ck_kind ck) kind &&
                     mem_str name (ck_names ck)) (add_go group kind name cs false) = true.
Proof.
  induction cs as [|ck cs IH]; [discriminate|].
  rewrite add_go_cons. cbn [existsb negb andb]. intros Hex.
  destruct (String.eqb (ck_group ck) group) eqn:Hg; cbn [andb] in *.
  - destruct (String.eqb (ck_kind ck) kind) eqn:Hk; cbn [andb orb] in *.
    + destruct (mem_str name (ck_names ck)) eqn:Hmem; cbn [existsb].
      * rewrite Hg, Hk, Hmem. reflexivity.
      * cbn [ck_group ck_kind ck_names]. rewrite Hg, Hk, mem_str_app_last. reflexivity.
    + cbn [existsb]. rewrite Hg, Hk. cbn [andb orb]. apply IH. exact Hex.
  - cbn [existsb orb]. rewrite Hg. cbn [andb orb]. apply IH. exact Hex.
Qed.

Lemma lists_add_child r group kind name : lists (add_child r group kind name) group kind name = true.
Proof.
  unfold lists. rewrite add_child_unfold.
  destruct (existsb (fun ck => String.eqb (ck_group ck) group && String.eqb (ck_kind ck) kind) (rev_children r))
    eqn:Hex; cbn [rev_children].
  - apply add_go_lists. exact Hex.
  - rewrite existsb_app. cbn [existsb ck_group ck_kind ck_names mem_str].
    rewrite !String.eqb_refl. cbn [andb orb]. apply orb_true_r.
Qed.

Theorem C08_progress c pns observed latest rest cl o :
  should_continue_rolling c pns latest observed = None ->
  find (pending c pns cl) (hr_children (pr_resp latest)) = Some (Some o) ->
  exists prs',
    second_pass c pns observed (latest :: rest) cl =
      (prs', RProgressing (get_kind o) (relative_name pns o)) /\
    exists l' rest', prs' = l' :: rest' /\
      lists (pr_rev l') (group_of (get_api_version o)) (get_kind o) (relative_name pns o) = true.
Proof.
  intros Hgate Hfind. rewrite second_pass_unfold, Hfind, Hgate.
  eexists. split; [reflexivity|].
  unfold moved. eexists _, _. split; [reflexivity|].
  unfold set_rev. cbn [pr_rev]. apply lists_add_child.
Qed.

(* the explicit result *)
Theorem C08_progress_result c pns observed latest rest cl o :
  should_continue_rolling c pns latest observed = None ->
  find (pending c pns cl) (hr_children (pr_resp latest)) = Some (Some o) ->
  second_pass c pns observed (latest :: rest) cl =
    (moved latest rest (group_of (get_api_version o)) (get_kind o) (relative_name pns o),
     RProgressing (get_kind o) (relative_name pns o)).
Proof.
  intros Hgate Hfind. rewrite second_pass_unfold, Hfind, Hgate. reflexivity.
Qed.

(* existence form: some pending child => the first pending child moves *)
Theorem C08_progress_exists c pns observed latest rest cl o :
  should_continue_rolling c pns latest observed = None ->
  In (Some o) (hr_children (pr_resp latest)) ->
  pending c pns cl (Some o) = true ->
  exists o' prs',
    find (pending c pns cl) (hr_children (pr_resp latest)) = Some (Some o') /\
    second_pass c pns observed (latest :: rest) cl =
      (prs', RProgressing (get_kind o') (relative_name pns o')) /\
    exists l' rest', prs' = l' :: rest' /\
      lists (pr_rev l') (group_of (get_api_version o')) (get_kind o') (relative_name pns o') = true.
Proof.
  intros Hgate Hin Hpend.
  destruct (find (pending c pns cl) (hr_children (pr_resp latest))) as [[o'|]|] eqn:Hfind.
  - destruct (C08_progress c pns observed latest rest cl o' Hgate Hfind) as [prs' [Hsp Hl]].
    exists o', prs'. split; [reflexivity|]. split; assumption.
  - apply find_some in Hfind. destruct Hfind as [_ Hp]. discriminate Hp.
  - pose proof (find_none _ _ Hfind _ Hin) as Hp. rewrite Hp in Hpend. discriminate Hpend.
Qed.

(* no pending child: the rollout is complete and nothing moves *)
Theorem C08_complete_iff_no_pending c pns observed latest rest cl :
  find (pending c pns cl) (hr_children (pr_resp latest)) = None ->
  second_pass c pns observed (latest :: rest) cl = (latest :: rest, RComplete).
Proof. intros Hfind. rewrite second_pass_unfold, Hfind. reflexivity. Qed.

(* ================================================================== *)
(* 3. the abstract rollout automaton                                    *)
(* ================================================================== *)
(* (n_old, waiting): the number of rolling children not yet on the latest
   revision, and whether the child moved last is still settling.  A fair
   environment makes the moved child healthy within one round.

   NOTE (not a theorem): the tie between this automaton and
   sync_rolling_update — one astep per sync, n_old = number of pending
   children, waiting = the gate is closed on the child moved last — is
   exercised by the correspondence runs of the Go harness, it is NOT proved
   here.  Items 1 and 2 above are the proved per-step facts: an open gate
   never waits and moves exactly the first pending child. *)
Definition astate := (nat * bool)%type.
Definition astep (s : astate) : astate :=
  let '(n_old, waiting) := s in
  if waiting then (n_old, false)
  else match n_old with
       | O => (O, false)
       | S m => (m, true)
       end.

Lemma iter_S {A} (f : A -> A) k x : Nat.iter (S k) f x = f (Nat.iter k f x).
Proof. reflexivity. Qed.

Lemma iter_plus {A} (f : A -> A) a b x : Nat.iter (a + b) f x = Nat.iter a f (Nat.iter b f x).
Proof.
  induction a as [|a IH]; [reflexivity|].
  change (S a + b) with (S (a + b)). rewrite !iter_S, IH. reflexivity.
Qed.

Lemma astep_even n j : j <= n -> Nat.iter (2 * j) astep (n, false) = (n - j, false).
Proof.
  induction j as [|j IH]; intros Hle.
  - cbn [Nat.mul Nat.iter nat_rect]. rewrite Nat.sub_0_r. reflexivity.
  - replace (2 * S j) with (S (S (2 * j))) by lia.
    rewrite !iter_S, IH by lia.
    replace (n - j) with (S (n - S j)) by lia.
    cbn [astep]. reflexivity.
Qed.

Lemma astep_odd n j : j < n -> Nat.iter (S (2 * j)) astep (n, false) = (n - S j, true).
Proof.
  intros Hlt. rewrite iter_S, astep_even by lia.
  replace (n - j) with (S (n - S j)) by lia. cbn [astep]. reflexivity.
Qed.

Lemma astep_done_stays k : Nat.iter k astep (0, false) = (0, false).
Proof.
  induction k as [|k IH]; [reflexivity|]. rewrite iter_S, IH. reflexivity.
Qed.

Theorem C08_terminates_linear_partial n :
  Nat.iter (2 * n) astep (n, false) = (0, false) /\
  (forall k, k < 2 * n -> Nat.iter k astep (n, false) <> (0, false)) /\
  (forall k, 2 * n <= k -> Nat.iter k astep (n, false) = (0, false)).
Proof.
  split; [|split].
  - rewrite astep_even by lia. rewrite Nat.sub_diag. reflexivity.
  - intros k Hk.
    destruct (Nat.Even_or_Odd k) as [[j Hj] | [j Hj]]; subst k.
    + rewrite astep_even by lia. intros Heq. inversion Heq. lia.
    + replace (2 * j + 1) with (S (2 * j)) by lia.
      rewrite astep_odd by lia. intros Heq. discriminate Heq.
  - intros k Hk. replace k with ((k - 2 * n) + 2 * n) by lia.
    rewrite iter_plus. rewrite astep_even by lia. rewrite Nat.sub_diag.
    apply astep_done_stays.
Qed.

(* ================================================================== *)
(* 4. pruning and the deletion of emptied revisions                     *)
(* ================================================================== *)
Theorem C08_prune_keeps_latest_and_nonempty l rest :
  prune (l :: rest) = l :: filter (fun p => negb (Nat.eqb (count_children (pr_rev p)) 0)) rest /\
  (forall p, In p (prune (l :: rest)) <-> p = l \/ (In p rest /\ count_children (pr_rev p) <> 0)).
Proof.
  split; [reflexivity|].
  intros p. cbn [prune In]. rewrite filter_In, negb_true_iff, Nat.eqb_neq.
  split; (intros [Heq | Hin]; [left; symmetry; exact Heq | right; exact Hin]).
Qed.

(* ---- "issued unless an earlier request failed" ---- *)
Inductive calls_unless_failed {R} (c : call) : prog R -> Prop :=
| CU_here k : calls_unless_failed c (Do c k)
| CU_later c' k : (forall o, calls_unless_failed c (k (AObj o))) -> calls_unless_failed c (Do c' k).

Definition is_api_prog (p : prog apires) : Prop := exists q, p = api q.
Definition is_api_call (c : call) : Prop := exists q, c = CApi q.

Lemma run_until_error_calls q ps1 ps2 :
  Forall is_api_prog ps1 ->
  calls_unless_failed (CApi q) (run_until_error (ps1 ++ api q :: ps2)).
Proof.
  induction ps1 as [|p ps1 IH]; intros Hall.
  - cbn [app run_until_error]. unfold api. cbn [bind]. apply CU_here.
  - inversion Hall as [|p' l' Hp Htl]; subst p' l'. destruct Hp as [q' Hp]. subst p.
    cbn [app run_until_error]. unfold api at 1. cbn [bind]. apply CU_later. intros o.
    cbn [bind]. apply IH. exact Htl.
Qed.

(* manage_revisions, with its two request lists named *)
Definition delete_req (ns : string) (o : revision) : req :=
  mkRq VDelete rev_res ns (rev_name o) JNull (get_uid (rev_obj o)) "".

Definition delete_of (ns : string) (desired : list revision) (o : revision) : list (prog apires) :=
  if existsb (fun d => String.eqb (rev_name d) (rev_name o)) desired then []
  else [api (delete_req ns o)].

Definition upsert_of (ns : string) (observed : list revision) (d : revision) : list (prog apires) :=
  match find (fun o => String.eqb (rev_name o) (rev_name d)) (rev observed) with
  | Some o => if rev_equal o d then []
              else [api (rq_put false rev_res ns (rev_name d) (json_of_revision d))]
  | None => if String.eqb ns "" then [Ret (RErr EInvalid)]
            else [api (rq_create rev_res ns (rev_name d) (json_of_revision d))]
  end.

Lemma manage_revisions_unfold ns observed desired :
  manage_revisions ns observed desired =
  run_until_error (flat_map (delete_of ns desired) observed ++ flat_map (upsert_of ns observed) desired).
Proof. reflexivity. Qed.

Lemma deletes_are_api ns desired observed :
  Forall is_api_prog (flat_map (delete_of ns desired) observed).
Proof.
  apply Forall_forall. intros p Hin. apply in_flat_map in Hin. destruct Hin as [o [_ Hp]].
  unfold delete_of in Hp.
  destruct (existsb (fun d => String.eqb (rev_name d) (rev_name o)) desired) eqn:Hex; [destruct Hp|].
  destruct Hp as [Hp | []]. exists (delete_req ns o). symmetry. exact Hp.
Qed.

(* ORIGINAL WORDING: "the VDelete call is issued by manage_revisions" (on every
   path, i.e. always_calls).  FALSE: the first failing request aborts the
   remaining ones — see C08_delete_not_unconditional below.  TRUE: it is issued
   on every path on which no earlier request fails. *)
Theorem C08_unlisted_revision_deleted ns observed desired o :
  In o observed ->
  existsb (fun d => String.eqb (rev_name d) (rev_name o)) desired = false ->
  calls_unless_failed (CApi (mkRq VDelete rev_res ns (rev_name o) JNull (get_uid (rev_obj o)) ""))
                      (manage_revisions ns observed desired).
Proof.
  intros Hin Hex. rewrite manage_revisions_unfold.
  destruct (in_split _ _ Hin) as [l1 [l2 Hsplit]]. subst observed.
  rewrite flat_map_app. cbn [flat_map]. unfold delete_of at 2. rewrite Hex.
  cbn [app]. rewrite <- app_assoc. cbn [app].
  apply run_until_error_calls. apply deletes_are_api.
Qed.

Definition cex_rev (n u : string) : revision :=
  mkRevision (JObj [("metadata", JObj [("name", JStr n); ("uid", JStr u)])]) JNull [].

Example C08_delete_not_unconditional :
  trace_of (manage_revisions "ns" [cex_rev "a" "1"; cex_rev "b" "2"] []) (fun _ _ => AFail EOther) =
  [(CApi (mkRq VDelete rev_res "ns" "a" JNull "1" ""), AFail EOther)].
Proof. vm_compute. reflexivity. Qed.

Example C08_delete_not_always_calls :
  In (cex_rev "b" "2") [cex_rev "a" "1"; cex_rev "b" "2"] /\
  existsb (fun d => String.eqb (rev_name d) (rev_name (cex_rev "b" "2"))) [] = false /\
  ~ always_calls (CApi (mkRq VDelete rev_res "ns" (rev_name (cex_rev "b" "2")) JNull
                             (get_uid (rev_obj (cex_rev "b" "2"))) ""))
                 (manage_revisions "ns" [cex_rev "a" "1"; cex_rev "b" "2"] []).
Proof.
  split; [right; left; reflexivity|]. split; [reflexivity|].
  intros Hal.
  destruct (always_calls_in_trace _ _ (fun _ _ => AFail EOther) Hal) as [a Ha].
  rewrite C08_delete_not_unconditional in Ha.
  destruct Ha as [Ha | []]. vm_compute in Ha. discriminate Ha.
Qed.

(* ---- run level ---- *)
Lemma run_mono {R} (p : prog R) (e : env) : forall hist x, In x hist -> In x (fst (run p e hist)).
Proof.
  induction p as [r | c k IH]; intros hist x Hx.
  - cbn [run fst]. exact Hx.
  - cbn [run]. apply IH. right. exact Hx.
Qed.

Lemma calls_unless_failed_in_run {R} (Phi : call -> Prop) (c : call) (p : prog R) (e : env) :
  calls_unless_failed c p ->
  all_calls Phi p ->
  (forall hist c', Phi c' -> exists o, e hist c' = AObj o) ->
  forall hist, exists a, In (c, a) (fst (run p e hist)).
Proof.
  intros Hcu. induction Hcu as [k | c' k Hk IH]; intros Hall Henv hist.
  - exists (e hist c). cbn [run]. apply run_mono. left. reflexivity.
  - inversion Hall as [|c0 k0 Hphi Hka]; subst c0 k0.
    cbn [run]. destruct (Henv hist c' Hphi) as [o Ho]. rewrite Ho.
    apply IH; [apply Hka | exact Henv].
Qed.

Theorem calls_unless_failed_in_trace {R} (Phi : call -> Prop) (c : call) (p : prog R) (e : env) :
  calls_unless_failed c p ->
  all_calls Phi p ->
  (forall hist c', Phi c' -> exists o, e hist c' = AObj o) ->
  exists a, In (c, a) (trace_of p e).
Proof.
  intros Hcu Hall Henv.
  destruct (calls_unless_failed_in_run Phi c p e Hcu Hall Henv []) as [a Ha].
  exists a. unfold trace_of. apply in_rev in Ha. exact Ha.
Qed.

Lemma all_calls_run_until_error (Phi : call -> Prop) ps :
  Forall (all_calls Phi) ps -> all_calls Phi (run_until_error ps).
Proof.
  induction ps as [|p ps IH]; intros Hall.
  - cbn [run_until_error]. apply AC_ret.
  - inversion Hall as [|p' l' Hp Htl]; subst p' l'.
    cbn [run_until_error]. apply all_calls_bind; [exact Hp|].
    intros r. destruct r as [o | er]; [apply IH; exact Htl | apply AC_ret].
Qed.

Lemma manage_revisions_api_only ns observed desired :
  all_calls is_api_call (manage_revisions ns observed desired).
Proof.
  rewrite manage_revisions_unfold. apply all_calls_run_until_error.
  apply Forall_app. split.
  - eapply Forall_impl; [|apply deletes_are_api].
    intros p [q Hp]. subst p. apply all_calls_api. exists q. reflexivity.
  - apply Forall_forall. intros p Hin. apply in_flat_map in Hin. destruct Hin as [d [_ Hp]].
    unfold upsert_of in Hp.
    destruct (find (fun o => String.eqb (rev_name o) (rev_name d)) (rev observed)) as [o|] eqn:Hfind.
    + destruct (rev_equal o d) eqn:Heq; [destruct Hp|].
      destruct Hp as [Hp | []]. subst p. apply all_calls_api. eexists. reflexivity.
    + destruct (String.eqb ns "") eqn:Hns; destruct Hp as [Hp | []]; subst p.
      * apply AC_ret.
      * apply all_calls_api. eexists. reflexivity.
Qed.

(* when the API server accepts every request, the delete is in the trace *)
Theorem C08_unlisted_revision_delete_in_trace ns observed desired o (e : env) :
  In o observed ->
  existsb (fun d => String.eqb (rev_name d) (rev_name o)) desired = false ->
  (forall hist q, exists j, e hist (CApi q) = AObj j) ->
  exists a, In (CApi (mkRq VDelete rev_res ns (rev_name o) JNull (get_uid (rev_obj o)) ""), a)
               (trace_of (manage_revisions ns observed desired) e).
Proof.
  intros Hin Hex Henv.
  apply calls_unless_failed_in_trace with (Phi := is_api_call).
  - apply C08_unlisted_revision_deleted; assumption.
  - apply manage_revisions_api_only.
  - intros hist c' [q Hc]. subst c'. apply Henv.
Qed.

(* ---- prune => the emptied revision is no longer desired ---- *)
Definition pr_name (p : prev) : string := rev_name (pr_rev p).
Definition keepb (p : prev) : bool := negb (Nat.eqb (count_children (pr_rev p)) 0).

Lemma existsb_map' {A B} (g : B -> bool) (h : A -> B) (l : list A) :
  existsb g (map h l) = existsb (fun x => g (h x)) l.
Proof. induction l as [|a l IH]; cbn [map existsb]; [reflexivity | rewrite IH; reflexivity]. Qed.

Lemma mem_str_false_in s l x : mem_str s l = false -> In x l -> String.eqb s x = false.
Proof.
  induction l as [|y l IH]; cbn [mem_str In]; intros Hm Hin; [destruct Hin|].
  apply orb_false_iff in Hm. destruct Hm as [Hy Hl].
  destruct Hin as [Heq | Hin]; [subst y; exact Hy | apply IH; assumption].
Qed.

Lemma filter_no_name s rest :
  mem_str s (map pr_name rest) = false ->
  existsb (fun x => String.eqb (pr_name x) s) (filter keepb rest) = false.
Proof.
  induction rest as [|a r IH]; cbn [map mem_str filter]; intros Hm; [reflexivity|].
  apply orb_false_iff in Hm. destruct Hm as [Ha Hr].
  destruct (keepb a) eqn:Hk; [|apply IH; exact Hr].
  cbn [existsb]. rewrite String.eqb_sym, Ha. cbn [orb]. apply IH. exact Hr.
Qed.

Lemma filter_drops_emptied rest p :
  nodup_str (map pr_name rest) = true ->
  In p rest -> count_children (pr_rev p) = 0 ->
  existsb (fun x => String.eqb (pr_name x) (pr_name p)) (filter keepb rest) = false.
Proof.
  induction rest as [|a r IH]; cbn [map nodup_str filter In]; intros Hnd Hin Hcnt; [destruct Hin|].
  apply andb_true_iff in Hnd. destruct Hnd as [Ha Hr]. apply negb_true_iff in Ha.
  destruct Hin as [Heq | Hin].
  - subst a. unfold keepb at 1. rewrite Hcnt. cbn [Nat.eqb negb].
    apply filter_no_name. exact Ha.
  - destruct (keepb a) eqn:Hk; [|apply IH; assumption].
    cbn [existsb]. rewrite (mem_str_false_in _ _ (pr_name p) Ha (in_map pr_name _ _ Hin)).
    cbn [orb]. apply IH; assumption.
Qed.

(* the general form: nothing prune keeps carries p's name *)
Lemma C08_pruned_name_absent_general l rest p :
  In p rest -> count_children (pr_rev p) = 0 ->
  existsb (fun x => String.eqb (rev_name (pr_rev x)) (rev_name (pr_rev p))) (prune (l :: rest)) = false ->
  existsb (fun d => String.eqb (rev_name d) (rev_name (pr_rev p))) (map pr_rev (prune (l :: rest))) = false.
Proof. intros _ _ Hex. rewrite existsb_map'. exact Hex. Qed.

(* with pairwise distinct revision names the hypothesis holds *)
Theorem C08_pruned_name_absent l rest p :
  nodup_str (map (fun x => rev_name (pr_rev x)) (l :: rest)) = true ->
  In p rest -> count_children (pr_rev p) = 0 ->
  existsb (fun d => String.eqb (rev_name d) (rev_name (pr_rev p))) (map pr_rev (prune (l :: rest))) = false.
Proof.
  intros Hnd Hin Hcnt. rewrite existsb_map'.
  change (fun x => rev_name (pr_rev x)) with pr_name in Hnd.
  cbn [map nodup_str] in Hnd. apply andb_true_iff in Hnd. destruct Hnd as [Hl Hr].
  apply negb_true_iff in Hl.
  cbn [prune existsb]. fold keepb.
  pose proof (mem_str_false_in _ _ (pr_name p) Hl (in_map pr_name _ _ Hin)) as Hlp.
  unfold pr_name in Hlp. rewrite Hlp. cbn [orb].
  exact (filter_drops_emptied rest p Hr Hin Hcnt).
Qed.

(* an emptied old revision is scheduled for deletion in the same sync *)
Theorem C08_emptied_revision_deleted ns observed_revs l rest p :
  nodup_str (map (fun x => rev_name (pr_rev x)) (l :: rest)) = true ->
  In p rest -> count_children (pr_rev p) = 0 ->
  In (pr_rev p) observed_revs ->
  calls_unless_failed
    (CApi (mkRq VDelete rev_res ns (rev_name (pr_rev p)) JNull (get_uid (rev_obj (pr_rev p))) ""))
    (manage_revisions ns observed_revs (map pr_rev (prune (l :: rest)))).
Proof.
  intros Hnd Hin Hcnt Hobs.
  apply C08_unlisted_revision_deleted; [exact Hobs|].
  apply C08_pruned_name_absent; assumption.
Qed.

Theorem C08_emptied_revision_delete_in_trace ns observed_revs l rest p (e : env) :
  nodup_str (map (fun x => rev_name (pr_rev x)) (l :: rest)) = true ->
  In p rest -> count_children (pr_rev p) = 0 ->
  In (pr_rev p) observed_revs ->
  (forall hist q, exists j, e hist (CApi q) = AObj j) ->
  exists a, In (CApi (mkRq VDelete rev_res ns (rev_name (pr_rev p)) JNull (get_uid (rev_obj (pr_rev p))) ""), a)
               (trace_of (manage_revisions ns observed_revs (map pr_rev (prune (l :: rest)))) e).
Proof.
  intros Hnd Hin Hcnt Hobs Henv.
  apply C08_unlisted_revision_delete_in_trace; [exact Hobs | | exact Henv].
  apply C08_pruned_name_absent; assumption.
Qed.

(* the distinct-names hypothesis is needed: an emptied revision that shares its
   name with the latest one is kept (no VDelete although every request succeeds) *)
Definition cex_latest : prev :=
  mkPrev JNull (mkRevision (rev_obj (cex_rev "a" "1")) JNull [mkRck "g" "K" ["x"]]) empty_resp [].
Definition cex_old : prev := mkPrev JNull (cex_rev "a" "2") empty_resp [].

Example C08_same_name_not_deleted :
  In cex_old [cex_old] /\ count_children (pr_rev cex_old) = 0 /\
  forallb (fun ca => match fst ca with CApi q => negb (verb_eqb (q_verb q) VDelete) | _ => true end)
          (trace_of (manage_revisions "ns" [pr_rev cex_latest; pr_rev cex_old]
                                      (map pr_rev (prune [cex_latest; cex_old])))
                    (fun _ _ => AObj JNull)) = true.
Proof. split; [left; reflexivity|]. split; vm_compute; reflexivity. Qed.

(* ================================================================== *)
(* 5. the gate only ever waits on a child the latest hook answer desires *)
(* ================================================================== *)
(* syncRevisionClaims keeps, of each child-kind group, only the names that the latest
   revision still desires and that it newly claims (claims_of_revision builds
   [mkRck group kind kept]).  So a name the latest hook answer no longer desires is not
   listed by any revision after the claims pass; the first pass only adds desired names;
   hence "missing child" (or any other reason to wait) can only name a desired child.
   (With the earlier unfiltered groups a stale name stalled the rollout for ever.) *)
From MC Require Proofs.RollClaims Proofs.RollMoves.

Theorem C08_undesired_not_listed c ds prs prs' cl' p' ck name :
  sync_revision_claims c ds 0 prs [] = (prs', cl') ->
  In p' prs' -> In ck (rev_children (pr_rev p')) -> In name (ck_names ck) ->
  is_rolling c (ck_group ck) (ck_kind ck) = true /\
  find_desired ds (ck_group ck) (ck_kind ck) name <> None.
Proof.
  intros Hs Hin Hck Hname. apply RollClaims.sync_revision_claims_ok in Hs.
  apply In_nth_error in Hin. destruct Hin as [m Hm].
  assert (Hl : RollClaims.lists (pr_rev p') (ck_group ck, ck_kind ck, name) = true).
  { apply RollClaims.lists_cs_spec. exists ck. auto. }
  destruct (RollClaims.sc_listed _ _ _ _ _ _ _ Hs m p' _ _ _ Hm Hl) as (H1 & H2 & _). auto.
Qed.

Theorem C08_waits_only_on_desired c pns observed latest rest prs2 why :
  sync_rolling_update c pns observed (latest :: rest) = Some (prs2, RWaiting why) ->
  exists l2 rest2 ck name,
    prs2 = l2 :: rest2 /\ pr_desired l2 = pr_desired latest /\
    In ck (rev_children (pr_rev l2)) /\ is_rolling c (ck_group ck) (ck_kind ck) = true /\
    In name (ck_names ck) /\
    ~ child_ready c pns l2 observed ck name /\
    find_desired (pr_desired latest) (ck_group ck) (ck_kind ck) name <> None.
Proof.
  intros Hsync. unfold sync_rolling_update in Hsync.
  destruct (sync_revision_claims c (pr_desired latest) 0 (latest :: rest) []) as [prs1 cl1] eqn:Hc.
  destruct (first_pass c pns observed prs1 cl1) as [prsA clA] eqn:Hf.
  destruct (second_pass c pns observed prsA clA) as [prs3 st3] eqn:Hs2.
  destruct prs3 as [|l3 rest3]; [discriminate|].
  destruct (set_condition (hr_status (pr_resp l3)) "Updated" (rollout_condition st3 (rev_name (pr_rev l3))))
    as [status'|]; [|discriminate].
  injection Hsync as <- ->.
  apply RollClaims.sync_revision_claims_ok in Hc.
  (* after the claims pass every listed name is desired, and the head keeps pr_desired *)
  assert (Hall : RollMoves.all_desired (pr_desired latest) prs1).
  { intros p g kd n Hin Hl. apply In_nth_error in Hin. destruct Hin as [m Hm].
    destruct (RollClaims.sc_listed _ _ _ _ _ _ _ Hc m p g kd n Hm Hl) as (_ & H & _). exact H. }
  destruct prs1 as [|latest1 rest1]; [pose proof (RollClaims.sc_len _ _ _ _ _ _ _ Hc); discriminate|].
  destruct (RollClaims.sc_same _ _ _ _ _ _ _ Hc 0 latest1 eq_refl) as (p0 & Hp0 & _ & _ & Hdes & _).
  cbn [nth_error] in Hp0. injection Hp0 as <-.
  assert (Hhd : RollMoves.head_desired (pr_desired latest) (latest1 :: rest1)).
  { exists latest1, rest1. auto. }
  rewrite RollMoves.first_pass_eq, Hdes in Hf.
  destruct (RollMoves.fp_fold_desired c pns observed (pr_desired latest) (pr_desired latest) _ _ _ _
              (fun e H => H) Hall Hhd Hf) as [HallA (pA & restA & -> & HdesA)].
  destruct (second_pass_waiting _ _ _ _ _ _ _ Hs2) as (latestA & restA' & Heq & Heq' & Hgate).
  injection Heq as <- <-. injection Heq' as -> ->.
  destruct (gate_closed_witness _ _ _ _ _ Hgate) as (ck & name & Hck & Hroll & Hname & Hnot).
  eexists. exists restA, ck, name. split; [reflexivity|]. cbn [pr_desired pr_rev].
  split; [exact HdesA|]. split; [exact Hck|]. split; [exact Hroll|]. split; [exact Hname|].
  split; [intros H; apply Hnot; exact H|].
  apply (HallA pA (ck_group ck) (ck_kind ck) name (or_introl eq_refl)).
  apply RollClaims.lists_cs_spec. exists ck. auto.
Qed.

(* the data of the former stall: the latest revision lists K:[x; y], the hook desires x
   and z, x is observed and ready, z sits on the old revision, y is neither desired nor
   observed.  y is now dropped by the claims pass and z moves. *)
Definition stall_kc : child_cfg := mkChild "g/v1" "ks" "K" true "RollingRecreate".
Definition stall_c : ccfg :=
  mkCfg "cc" "p/v1" "P" "ps" true true false (SelReqs []) [stall_kc] true false [stall_kc] false false [["spec"]] [].
Definition stall_kid (n : string) (v : Z) : json :=
  JObj [("apiVersion", JStr "g/v1"); ("kind", JStr "K");
        ("metadata", JObj [("name", JStr n); ("namespace", JStr "ns")]);
        ("spec", JObj [("v", JInt v)])].
Definition stall_x_observed : json :=
  match apply_update (obj_map (stall_kid "x" 2)) (obj_map (stall_kid "x" 2)) with Ok n => JObj n | _ => JNull end.
Definition stall_resp : hook_resp := mkHR JNull [Some (stall_kid "x" 2); Some (stall_kid "z" 2)] JNull false.
Definition stall_latest : prev :=
  mkPrev JNull (mkRevision (rev_obj (cex_rev "r2" "2")) JNull [mkRck "g" "K" ["x"; "y"]]) stall_resp
         (relative_desired "ns" (hr_children stall_resp)).
Definition stall_old : prev :=
  mkPrev JNull (mkRevision (rev_obj (cex_rev "r1" "1")) JNull [mkRck "g" "K" ["z"]]) empty_resp [].
Definition stall_observed : umap :=
  [("g/v1", "K", [("ns/x", stall_x_observed); ("ns/z", stall_kid "z" 1)])].

Example C08_stale_name_no_longer_stalls :
  option_map (fun r => (map (fun p => rev_children (pr_rev p)) (fst r), snd r))
             (sync_rolling_update stall_c "ns" stall_observed [stall_latest; stall_old]) =
  Some ([[mkRck "g" "K" ["x"; "z"]]; [mkRck "g" "K" []]], RProgressing "K" "z").
Proof. vm_compute. reflexivity. Qed.

Print Assumptions C08_never_waits_on_healthy.
Print Assumptions C08_never_waits_on_healthy_b.
Print Assumptions C08_waits_only_on_unready.
Print Assumptions C08_progress.
Print Assumptions C08_progress_result.
Print Assumptions C08_progress_exists.
Print Assumptions C08_complete_iff_no_pending.
Print Assumptions C08_terminates_linear_partial.
Print Assumptions C08_prune_keeps_latest_and_nonempty.
Print Assumptions C08_unlisted_revision_deleted.
Print Assumptions C08_delete_not_unconditional.
Print Assumptions C08_delete_not_always_calls.
Print Assumptions calls_unless_failed_in_trace.
Print Assumptions C08_unlisted_revision_delete_in_trace.
Print Assumptions C08_pruned_name_absent.
Print Assumptions C08_emptied_revision_deleted.
Print Assumptions C08_emptied_revision_delete_in_trace.
Print Assumptions C08_same_name_not_deleted.
Print Assumptions C08_undesired_not_listed.
Print Assumptions C08_waits_only_on_desired.
Print Assumptions C08_stale_name_no_longer_stalls.
