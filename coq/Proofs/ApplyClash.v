(* ApplyClash.v — a type clash between desired and observed is reported. *)
From MC Require Import Generated Model.Json Model.Apply Model.ApplyLaws.
From MC Require Import Proofs.AssocLemmas Proofs.AssocLemmas2 Proofs.ApplyProofs Proofs.ApplyBase.

Theorem clash_is_error : forall d o l, clashb d o = true -> merge d o l = Err.
Proof.
  induction d as [| b | z | s | s | j IH | sl IH | sm IH] using json_ind'; intros o l H.
  1-6: destruct o; cbn in H; try discriminate; reflexivity.
  - (* desired array *)
    destruct o; cbn in H; try discriminate; reflexivity.
  - (* desired object *)
    destruct o as [| | | | | | |om]; try (cbn in H; discriminate); try reflexivity.
    rewrite clashb_obj_obj in H. apply existsb_exists in H as ([k dv] & Hin & Hc).
    cbn [fst snd] in Hc.
    rewrite merge_obj_obj. cbv zeta.
    rewrite mobj_aux_err; [reflexivity|].
    exists k, dv. split; [exact Hin|].
    rewrite jget_remove_last_keep by (eapply ahas_nodup_In; eauto).
    rewrite Forall_forall in IH. apply (IH (k, dv) Hin). exact Hc.
Qed.

Print Assumptions clash_is_error.
