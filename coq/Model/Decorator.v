(* Decorator.v — pkg/controller/decorator: sync / syncParentObject and the
   helpers it runs (selector, finalizer, getChildren, hook call, string-map
   merge, status + metadata update, marker stamping, child management), as a
   program over API and hook calls.  The pieces shared with the composite
   controller (atomic updates, finalizer edits, ManageChildren with dynamic
   apply, wire format of object maps) are taken from Model/Composite.v and
   Model/HookIO.v. *)
From MC Require Import Generated.
From MC Require Export Model.Composite.
Local Open Scope list_scope.

(* ---------- configuration (DecoratorController + discovery) ---------- *)
(* one entry of spec.resources, with what discovery says about the resource
   and the two selectors in their internal form (newDecoratorSelector) *)
Record drule := mkDRule {
  rl_api_version : string; rl_kind : string; rl_resource : string;
  rl_namespaced : bool; rl_has_status : bool;
  rl_label_sel : selector;          (* labels.Everything() when unset *)
  rl_annot_sel : selector
}.

Record dcfg := mkDCfg {
  dc_name : string;
  dc_rules : list drule;
  dc_attachments : list child_cfg;  (* spec.attachments: kind + update method *)
  dc_has_sync : bool; dc_has_finalize : bool;
  dc_known : list child_cfg         (* discovery: every kind the dynamic client can resolve *)
}.

Definition d_finalizer_name (c : dcfg) : string := ("metacontroller.io/decoratorcontroller-" ++ dc_name c)%string.
Definition rl_res (r : drule) : string := res_key (rl_resource r) (rl_api_version r).

(* the composite-shaped view ManageChildren needs: the update strategies of
   the attachment rules and discovery; always dynamic apply *)
Definition ccfg_of (c : dcfg) : ccfg :=
  mkCfg (dc_name c) "" "" "" false false false sel_everything (dc_attachments c)
        (dc_has_sync c) (dc_has_finalize c) (dc_known c) false false [] [].

(* per-round informer caches and the work item *)
Record dcache := mkDCache {
  dk_key : string;                               (* the queue key *)
  dk_parents : list (string * list json);        (* res_key of a resource rule -> cached objects *)
  dk_children : list (string * list json)        (* res_key of an attachment rule -> cached objects *)
}.

Definition assoc_objs (l : list (string * list json)) (res : string) : list json :=
  match find (fun p => String.eqb (fst p) res) l with Some p => snd p | None => [] end.
Definition cached_d (k : dcache) (res : string) : list json := assoc_objs (dk_children k) res.

(* ---------- queue keys: parentQueueKey / splitParentQueueKey ---------- *)
Definition colon : ascii := ":"%char.

Definition queue_key (o : json) : string :=
  (get_api_version o ++ ":" ++ get_kind o ++ ":" ++ get_ns o ++ ":" ++ get_name o)%string.

(* strings.SplitN(key, ":", 4) with exactly four parts *)
Definition split_key (key : string) : option (string * string * string * string) :=
  match split_at colon key with
  | None => None
  | Some (a, r1) =>
      match split_at colon r1 with
      | None => None
      | Some (b, r2) =>
          match split_at colon r2 with
          | None => None
          | Some (c, d) => Some (a, b, c, d)
          end
      end
  end.

(* ---------- selector (selector.go) ---------- *)
Definition annots_of (o : json) : smap :=
  match string_map_at o ["metadata"; "annotations"] with Some m => m | None => [] end.

(* the maps are keyed by "Kind.group"; a later rule for the same key replaces an earlier one *)
Definition rule_matches_gk (group kind : string) (r : drule) : bool :=
  String.eqb (group_of (rl_api_version r)) group && String.eqb (rl_kind r) kind.

Definition rule_for (c : dcfg) (o : json) : option drule :=
  find (rule_matches_gk (group_of (get_api_version o)) (get_kind o)) (rev (dc_rules c)).

Definition d_matches (c : dcfg) (o : json) : bool :=
  match rule_for c o with
  | None => false
  | Some r => sel_matches (rl_label_sel r) (get_labels o) && sel_matches (rl_annot_sel r) (annots_of o)
  end.

(* "doesn't match our selector and doesn't have our finalizer": not ours *)
Definition d_ignores (c : dcfg) (o : json) : bool :=
  negb (d_matches c o) && negb (has_finalizer o (d_finalizer_name c)).

(* ---------- finalizer.Manager for the decorator's finalizer name ---------- *)
Definition should_finalize_d (c : dcfg) (parent : json) : bool :=
  if has_gc_finalizer parent then false
  else if negb (has_finalizer parent (d_finalizer_name c)) then false
  else dc_has_finalize c.

Definition sync_finalizer_d (c : dcfg) (rl : drule) (parent : json) : prog apires :=
  let fin := d_finalizer_name c in
  let pns := eff_ns (rl_namespaced rl) (get_ns parent) in
  if Bool.eqb (has_finalizer parent fin) (dc_has_finalize c) then Ret (ROk parent)
  else if dc_has_finalize c then
    if is_deleting parent then Ret (ROk parent)
    else atomic_update retry_steps (rl_res rl) pns (get_name parent) (get_uid parent) false (add_finalizer fin)
  else atomic_update retry_steps (rl_res rl) pns (get_name parent) (get_uid parent) false (remove_finalizer fin).

(* ---------- getChildren ---------- *)
(* obj.GetAnnotations()[key]: "" when missing or when the map is unusable *)
Definition annotation_string (o : json) (key : string) : string :=
  match get_annotation o key with Some (JStr s) => s | _ => "" end.

Definition has_marker (c : dcfg) (o : json) : bool :=
  String.eqb (annotation_string o decorator_controller_annotation) (dc_name c).

(* Lister().Namespace(parentNamespace).List, or everything for a cluster-scoped parent *)
Definition visible_d (parent : json) (o : json) : bool :=
  String.eqb (get_ns parent) "" || String.eqb (get_ns o) (get_ns parent).

Definition is_attachment (c : dcfg) (parent : json) (o : json) : bool :=
  visible_d parent o && controlled_by o (get_uid parent) && has_marker c o.

Definition get_children_d (c : dcfg) (k : dcache) (parent : json) : umap :=
  fold_left (fun (m : umap) (kc : child_cfg) =>
               fold_left (fun m o => uinsert o m)
                         (filter (is_attachment c parent) (cached_d k (ch_res kc)))
                         (uinit (ch_api_version kc) (ch_kind kc) m))
            (dc_attachments c) [].

(* ---------- DecoratorHookResponse ---------- *)
Record dresp := mkDR {
  dr_labels : list (string * option string);        (* None = JSON null = delete the key *)
  dr_annotations : list (string * option string);
  dr_status : json;                                 (* JNull = nil map = leave alone *)
  dr_attachments : list (option json);
  dr_resync : json;
  dr_finalized : bool }.

(* map[string]*string: null or an object whose values are strings or null *)
Definition opt_string_entry (kv : string * json) : option (string * option string) :=
  match snd kv with
  | JNull => Some (fst kv, None)
  | JStr s => Some (fst kv, Some s)
  | _ => None
  end.

Definition decode_opt_string_map (j : json) : option (list (string * option string)) :=
  match j with
  | JNull => Some []
  | JObj m => all_some (map opt_string_entry m)
  | _ => None
  end.

(* None = decode error *)
Definition decode_decorator (j : json) : option dresp :=
  match j with
  | JNull => Some (mkDR [] [] JNull [] JNull false)
  | JObj m =>
      let st := jget "status" m in
      let at_ := jget "attachments" m in
      let rs := jget "resyncAfterSeconds" m in
      let fi := jget "finalized" m in
      match decode_opt_string_map (jget "labels" m), decode_opt_string_map (jget "annotations" m) with
      | Some ls, Some ans =>
          if negb (is_null st || match st with JObj _ => true | _ => false end) then None else
          if negb (is_null rs || is_number rs) then None else
          match fi with
          | JNull | JBool _ =>
              let fin := match fi with JBool b => b | _ => false end in
              match at_ with
              | JNull => Some (mkDR ls ans st [] rs fin)
              | JArr l => match all_some (map child_entry l) with
                          | Some es => Some (mkDR ls ans st es rs fin)
                          | None => None end
              | _ => None
              end
          | _ => None
          end
      | _, _ => None
      end
  | _ => None
  end.

(* ---------- hook call (hooks.go) ---------- *)
Inductive dhook_result :=
| DHErr                        (* no usable hook, call failed, or decode failed *)
| DHResp (r : dresp).

Definition hook_request_d (parent : json) (observed related : umap) (finalizing : bool) : json :=
  JObj [("attachments", convert (get_ns parent) observed);
        ("finalizing", JBool finalizing);
        ("object", parent);
        ("related", convert (get_ns parent) related)].

Definition opt_is_some {A} (x : option A) : bool := match x with Some _ => true | None => false end.

Definition d_finalizing (c : dcfg) (parent : json) : bool :=
  dc_has_finalize c && (is_deleting parent || negb (d_matches c parent)).

Definition call_hook_d (c : dcfg) (parent : json) (observed related : umap) : prog dhook_result :=
  let finalizing := d_finalizing c parent in
  if negb finalizing && negb (dc_has_sync c) then Ret DHErr else
  Do (CHook (if finalizing then HFinalize else HSync) (hook_request_d parent observed related finalizing))
     (fun a => match a with
               | AHook body =>
                   match decode_decorator body with
                   | None => Ret DHErr
                   | Some r => Ret (DHResp (mkDR (dr_labels r) (dr_annotations r) (dr_status r)
                                       (map (default_ns (get_ns parent)) (filter opt_is_some (dr_attachments r)))
                                       (dr_resync r) (dr_finalized r)))
                   end
               | _ => Ret DHErr                 (* a 429 is an ordinary error for the decorator *)
               end).

(* ---------- updateStringMap ---------- *)
Fixpoint sset (k v : string) (m : smap) : smap :=
  match m with
  | [] => [(k, v)]
  | (k', v') :: m' => if String.eqb k k' then (k, v) :: m' else (k', v') :: sset k v m'
  end.

Fixpoint sremove (k : string) (m : smap) : smap :=
  match m with
  | [] => []
  | (k', v') :: m' => if String.eqb k k' then sremove k m' else (k', v') :: sremove k m'
  end.

Definition usm_step (acc : smap * bool) (kv : string * option string) : smap * bool :=
  let '(d, ch) := acc in
  match snd kv with
  | None => match slookup (fst kv) d with
            | Some _ => (sremove (fst kv) d, true)
            | None => (d, ch) end
  | Some v => match slookup (fst kv) d with
              | Some old => if String.eqb old v then (d, ch) else (sset (fst kv) v d, true)
              | None => (sset (fst kv) v d, true) end
  end.

Definition update_string_map (dest : smap) (updates : list (string * option string)) : smap * bool :=
  fold_left usm_step updates (dest, false).

(* ---------- writing the decorated target ---------- *)
(* SetLabels / SetAnnotations with a non-nil map: silently nothing if metadata is not a map *)
Definition set_smap_at (o : json) (path : list string) (m : smap) : json :=
  match o with
  | JObj om => match nested_set om path (JObj (map (fun kv => (fst kv, JStr (snd kv))) m)) with
               | Some om' => JObj om' | None => o end
  | _ => o
  end.
Definition set_labels (o : json) (m : smap) : json := set_smap_at o ["metadata"; "labels"] m.
Definition set_annots (o : json) (m : smap) : json := set_smap_at o ["metadata"; "annotations"] m.

Definition set_status (o : json) (st : json) : json :=
  match o with JObj om => JObj (aset "status" st om) | _ => o end.

Definition set_rv (o : json) (rv : string) : json :=
  match o with
  | JObj om => match nested_set om ["metadata"; "resourceVersion"] (JStr rv) with
               | Some om' => JObj om' | None => o end
  | _ => o
  end.

(* unstructured.NestedMap(obj, "status"): nil when absent, error when present and not a map *)
Definition status_map (o : json) : option json :=
  match alookup "status" (obj_map o) with
  | None => Some JNull
  | Some (JObj m) => Some (JObj m)
  | Some _ => None
  end.

(* controllerutil.RemoveFinalizer: the filtered list is always written back; GetFinalizers
   yields nil for a missing or unusable field, and SetFinalizers(nil) removes the field *)
Definition strip_finalizer (f : string) (o : json) : json :=
  match nested_get (obj_map o) ["metadata"; "finalizers"] with
  | NFound (JArr l) =>
      if forallb (fun j => match j with JStr _ => true | _ => false end) l
      then set_finalizers o (filter (fun x => negb (String.eqb x f)) (get_finalizers o))
      else match o with JObj m => JObj (nested_remove m ["metadata"; "finalizers"]) | _ => o end
  | _ => match o with JObj m => JObj (nested_remove m ["metadata"; "finalizers"]) | _ => o end
  end.

(* the object sent with the requests: the (cached) target with the merged maps and the status.
   The status is written only when there is one (syncResult.Status != nil): a null status in the
   response over a target without status leaves the key absent instead of storing an explicit null *)
Definition decorated (parent : json) (labels annots : smap) (status : json) : json :=
  let o := set_annots (set_labels parent labels) annots in
  if is_null status then o else set_status o status.

(* what the response asks of the target, relative to the object the sync holds *)
Record target_plan := mkPlan {
  tp_labels : smap; tp_labels_changed : bool;
  tp_annots : smap; tp_annots_changed : bool;
  tp_status : json; tp_status_changed : bool }.

Definition plan_target (parent : json) (parent_status : json) (r : dresp) : target_plan :=
  let st := if is_null (dr_status r) then parent_status else dr_status r in
  let '(ls, lch) := update_string_map (get_labels parent) (dr_labels r) in
  let '(ans, ach) := update_string_map (annots_of parent) (dr_annotations r) in
  mkPlan ls lch ans ach st (negb (jeqb parent_status st)).

Definition plan_writes (c : dcfg) (parent : json) (r : dresp) (p : target_plan) : bool :=
  tp_labels_changed p || tp_annots_changed p || tp_status_changed p ||
  (dr_finalized r && has_finalizer parent (d_finalizer_name c)).

(* Some result = go on to the attachments; None = the sync returns with this result *)
Definition update_target (c : dcfg) (rl : drule) (parent : json) (r : dresp) (p : target_plan)
  : prog (option sync_result) :=
  if negb (plan_writes c parent r p) then Ret None else
  let ns := eff_ns (rl_namespaced rl) (get_ns parent) in
  let upd0 := decorated parent (tp_labels p) (tp_annots p) (tp_status p) in
  s1 <~ (if tp_status_changed p && rl_has_status rl
         then sr <~ api (rq_put true (rl_res rl) ns (get_name parent) upd0) ;;
              match sr with
              | ROk result => Ret (inl (set_rv upd0 (get_rv result)))
              | RErr ENotFound | RErr EConflict => Ret (inr SDone)
              | RErr _ => Ret (inr SErr)
              end
         else Ret (inl upd0)) ;;
  match s1 with
  | inr res => Ret (Some res)
  | inl upd1 =>
      let upd2 := if dr_finalized r then strip_finalizer (d_finalizer_name c) upd1 else upd1 in
      ur <~ api (rq_put false (rl_res rl) ns (get_name parent) upd2) ;;
      match ur with
      | ROk _ => Ret None
      | RErr ENotFound | RErr EConflict => Ret (Some SDone)
      | RErr _ => Ret (Some SErr)
      end
  end.

(* ---------- marker stamping on the desired attachments ---------- *)
Definition stamp_marker (c : dcfg) (o : json) : json :=
  let ann := annots_of o in
  if String.eqb (match slookup decorator_controller_annotation ann with Some v => v | None => "" end) (dc_name c)
  then o
  else set_annots o (sset decorator_controller_annotation (dc_name c) ann).

Definition stamp_all (c : dcfg) (m : umap) : umap :=
  map (fun g => match g with (av, kd, os) => (av, kd, map (fun p => (fst p, stamp_marker c (snd p))) os) end) m.

(* ---------- everything after the hook answered ---------- *)
Definition finish_d (c : dcfg) (rl : drule) (parent : json) (observed : umap) (r : dresp) : prog sync_result :=
  match desired_map (dr_attachments r) [] with
  | None => Ret SPanic
  | Some desired0 =>
      (* resyncAfterSeconds > 0 only enqueues a delayed work item: no call *)
      match status_map parent with
      | None => Ret SErr
      | Some parent_status =>
          ur <~ update_target c rl parent r (plan_target parent parent_status r) ;;
          match ur with
          | Some res => Ret res
          | None =>
              let desired := stamp_all c desired0 in
              failed <~ (if negb (is_deleting parent) || should_finalize_d c parent
                         then manage_children (ccfg_of c) parent observed desired
                         else Ret false) ;;
              Ret (if failed then SErr else SDone)
          end
      end
  end.

(* ---------- syncParentObject ---------- *)
(* c.dynClient.Kind(parent.GetAPIVersion(), parent.GetKind()): the objects come out of the
   informers of the resource rules, so the client is the one of a rule *)
Definition client_rule (c : dcfg) (parent : json) : option drule :=
  find (fun r => String.eqb (rl_api_version r) (get_api_version parent) && String.eqb (rl_kind r) (get_kind parent))
       (dc_rules c).

Definition sync_parent_d (c : dcfg) (k : dcache) (parent : json) : prog sync_result :=
  if d_ignores c parent then Ret SDone else
  match client_rule c parent with
  | None => Ret SErr
  | Some rl =>
      fr <~ sync_finalizer_d c rl parent ;;
      match fr with
      | RErr _ => Ret SErr
      | ROk parent =>
          if d_ignores c parent then Ret SDone else
          let observed := get_children_d c k parent in
          (* customize.GetRelatedObjects without a customize hook: the empty map *)
          hr <~ call_hook_d c parent observed [] ;;
          match hr with
          | DHErr => Ret SErr
          | DHResp r => finish_d c rl parent observed r
          end
      end
  end.

(* ---------- sync ---------- *)
(* resources.GetKind(apiVersion, kind), then the informer registered for that resource *)
Definition rule_of_key (c : dcfg) (apiVersion kind : string) : option drule :=
  match lookup_kind (ccfg_of c) apiVersion kind with
  | None => None
  | Some kc => find (fun r => String.eqb (rl_api_version r) apiVersion && String.eqb (rl_resource r) (ch_resource kc))
                    (dc_rules c)
  end.

(* common.GetObject: by namespace and name in the informer's store *)
Definition cached_target (k : dcache) (rl : drule) (ns name : string) : option json :=
  find (fun o => String.eqb (get_ns o) ns && String.eqb (get_name o) name) (assoc_objs (dk_parents k) (rl_res rl)).

Definition sync_d (c : dcfg) (k : dcache) : prog sync_result :=
  match split_key (dk_key k) with
  | None => Ret SErr
  | Some (apiVersion, kind, ns, name) =>
      match rule_of_key c apiVersion kind with
      | None => Ret SErr
      | Some rl =>
          match cached_target k rl ns name with
          | None => Ret SDone            (* the target is gone: nothing to do *)
          | Some parent => sync_parent_d c k parent
          end
      end
  end.

(* the target the sync of this work item looks at, if any *)
Definition target_of (c : dcfg) (k : dcache) : option json :=
  match split_key (dk_key k) with
  | None => None
  | Some (apiVersion, kind, ns, name) =>
      match rule_of_key c apiVersion kind with
      | None => None
      | Some rl => cached_target k rl ns name
      end
  end.
