(* Meta.v — the two reconcile loops that host controllers:
     pkg/controller/composite/metacontroller.go  (Metacontroller.Reconcile, reconcileCompositeController)
     pkg/controller/decorator/metacontroller.go  (Metacontroller.Reconcile, reconcileDecoratorController)
   with the constructors newParentController / newDecoratorController (order of
   checks, deferred informer clean-up), Stop of both, the shared informer
   factory's subscription counts (pkg/dynamic/informer/factory.go), the webhook
   configuration classes of pkg/hooks/webhook.go and the related-resource
   informers of pkg/controller/common/customize/manager.go.

   A controller specification is abstracted to what these functions look at. *)
From MC Require Export Model.Json.

Definition rkey := string.   (* factory.go resourceKey: "<resource>.<apiVersion>" *)
Definition cname := string.  (* metadata.name of the Composite/DecoratorController *)

Inductive flavor := Composite | Decorator.

(* ---- webhook configuration (hooks/webhook.go) -------------------------------- *)

Record service_cfg := mkSvc {
  sv_name : bool;      (* service.name != "" *)
  sv_ns : bool;        (* service.namespace != "" *)
  sv_port : bool;      (* service.port set *)
  sv_proto : bool      (* service.protocol set *)
}.

Inductive timeout_cfg := TmoUnset | TmoPositive | TmoNonPositive.

Inductive etag_cfg :=
| EtagUnset                      (* webhook.etag == nil *)
| EtagEnabledUnset               (* etag != nil, enabled == nil *)
| EtagOff                        (* enabled = false *)
| EtagOn (cache_timeout_set cache_cleanup_set : bool).

Record webhook_cfg := mkWh {
  w_url : bool;                          (* webhook.url set *)
  w_service : option service_cfg;        (* webhook.service *)
  w_path : bool;                         (* webhook.path set *)
  w_timeout : timeout_cfg;
  w_etag : etag_cfg
}.

Inductive hook_cfg :=
| HookAbsent                  (* the *Hook is nil *)
| HookNoWebhook               (* hook present, hook.webhook == nil *)
| HookWebhook (w : webhook_cfg).

(* webhookURL *)
Definition webhook_url_ok (w : webhook_cfg) : bool :=
  if w_url w then true else
  match w_service w with
  | None => false
  | Some sv => if negb (w_path w) then false else sv_name sv && sv_ns sv
  end.

(* webhookTimeout: an unusable timeout is logged and replaced by 10 s *)
Definition webhook_timeout_fatal (t : timeout_cfg) : bool := false.

(* the etag branch of NewWebhookExecutor reads cacheTimeoutSeconds and
   cacheCleanupSeconds each behind its own nil check *)
Definition etag_cache (e : etag_cfg) : res bool :=
  match e with
  | EtagOn _ _ => Ok true
  | _ => Ok false
  end.

(* NewWebhookExecutor; metrics.InstrumentClientWithConstLabels cannot fail:
   getOrCreateMetrics keys its cache by (controller, hook type, url), which
   determines every label of the collector it registers. *)
Definition new_webhook_executor (w : webhook_cfg) : res unit :=
  if negb (webhook_url_ok w) then Err else
  if webhook_timeout_fatal (w_timeout w) then Err else
  match etag_cache (w_etag w) with
  | Ok _ => Ok tt
  | Err => Err
  | Panic => Panic
  end.

(* hooks.NewHook: Ok enabled *)
Definition new_hook (h : hook_cfg) : res bool :=
  match h with
  | HookAbsent => Ok false
  | HookNoWebhook => Ok false
  | HookWebhook w => match new_webhook_executor w with Ok _ => Ok true | Err => Err | Panic => Panic end
  end.

(* ---- specification ------------------------------------------------------------ *)

Record rule := mkRule {
  ru_key : rkey;
  ru_known : bool;         (* discovery knows apiVersion/resource *)
  ru_strategy : bool;      (* child rule: updateStrategy set with a method other than OnDelete *)
  ru_selector_ok : bool    (* parent rule: label (and annotation) selector converts *)
}.

Record hooks_cfg := mkHooks { h_sync : hook_cfg; h_finalize : hook_cfg; h_customize : hook_cfg }.

Record spec := mkSpec {
  s_id : Z;                        (* everything DeepEqual sees and the fields below do not carry *)
  s_parents : list rule;           (* composite: exactly one (spec.parentResource); decorator: spec.resources *)
  s_children : list rule;          (* spec.childResources / spec.attachments *)
  s_hooks : option hooks_cfg       (* None: spec.hooks == nil *)
}.

(* apiequality.Semantic.DeepEqual on the two specs *)
Definition opt_eqb {A} (e : A -> A -> bool) (a b : option A) : bool :=
  match a, b with
  | None, None => true
  | Some x, Some y => e x y
  | _, _ => false
  end.
Fixpoint list_eqb {A} (e : A -> A -> bool) (a b : list A) : bool :=
  match a, b with
  | [], [] => true
  | x :: a', y :: b' => e x y && list_eqb e a' b'
  | _, _ => false
  end.
Definition svc_eqb (a b : service_cfg) : bool :=
  Bool.eqb (sv_name a) (sv_name b) && Bool.eqb (sv_ns a) (sv_ns b) &&
  Bool.eqb (sv_port a) (sv_port b) && Bool.eqb (sv_proto a) (sv_proto b).
Definition tmo_eqb (a b : timeout_cfg) : bool :=
  match a, b with
  | TmoUnset, TmoUnset | TmoPositive, TmoPositive | TmoNonPositive, TmoNonPositive => true
  | _, _ => false
  end.
Definition etag_eqb (a b : etag_cfg) : bool :=
  match a, b with
  | EtagUnset, EtagUnset | EtagEnabledUnset, EtagEnabledUnset | EtagOff, EtagOff => true
  | EtagOn x y, EtagOn x' y' => Bool.eqb x x' && Bool.eqb y y'
  | _, _ => false
  end.
Definition wh_eqb (a b : webhook_cfg) : bool :=
  Bool.eqb (w_url a) (w_url b) && opt_eqb svc_eqb (w_service a) (w_service b) &&
  Bool.eqb (w_path a) (w_path b) && tmo_eqb (w_timeout a) (w_timeout b) && etag_eqb (w_etag a) (w_etag b).
Definition hook_eqb (a b : hook_cfg) : bool :=
  match a, b with
  | HookAbsent, HookAbsent | HookNoWebhook, HookNoWebhook => true
  | HookWebhook x, HookWebhook y => wh_eqb x y
  | _, _ => false
  end.
Definition hooks_eqb (a b : hooks_cfg) : bool :=
  hook_eqb (h_sync a) (h_sync b) && hook_eqb (h_finalize a) (h_finalize b) && hook_eqb (h_customize a) (h_customize b).
Definition rule_eqb (a b : rule) : bool :=
  String.eqb (ru_key a) (ru_key b) && Bool.eqb (ru_known a) (ru_known b) &&
  Bool.eqb (ru_strategy a) (ru_strategy b) && Bool.eqb (ru_selector_ok a) (ru_selector_ok b).
Definition spec_eqb (a b : spec) : bool :=
  Z.eqb (s_id a) (s_id b) && list_eqb rule_eqb (s_parents a) (s_parents b) &&
  list_eqb rule_eqb (s_children a) (s_children b) && opt_eqb hooks_eqb (s_hooks a) (s_hooks b).

(* ---- the shared informer factory ---------------------------------------------- *)
(* The factory is the multiset of open subscriptions: refCount[k] = cnt k f, and
   the shared informer of k runs iff cnt k f > 0. *)
Definition factory := list rkey.

Fixpoint cnt (r : rkey) (l : list rkey) : nat :=
  match l with
  | [] => 0
  | x :: l' => (if String.eqb r x then 1 else 0) + cnt r l'
  end.

Definition memb (r : rkey) (l : list rkey) : bool := existsb (String.eqb r) l.

(* SharedInformerFactory.Resource: an already shared informer is handed out
   without asking discovery; otherwise clientset.Resource must know the resource *)
Definition can_subscribe (f : factory) (r : rule) : bool :=
  (0 <? cnt (ru_key r) f)%nat || ru_known r.

Definition acquire (r : rkey) (f : factory) : factory := r :: f.

(* ResourceInformer.Close → closeFn.  Closing a subscription that is not
   counted would close the informer's stop channel a second time: a panic. *)
Fixpoint release (r : rkey) (f : factory) : option factory :=
  match f with
  | [] => None
  | x :: f' => if String.eqb r x then Some f'
               else match release r f' with Some g => Some (x :: g) | None => None end
  end.

Fixpoint release_all (l : list rkey) (f : factory) : option factory :=
  match l with
  | [] => Some f
  | r :: l' => match release r f with Some g => release_all l' g | None => None end
  end.

(* common.InformerMap.Set on a key the map does not hold yet *)
Definition imap_set (r : rkey) (m : list rkey) : list rkey :=
  if memb r m then m else (m ++ [r])%list.

(* the loops
     for _, x := range rules {
       gvr := ...; if m.Get(gvr) != nil { continue }           // listed more than once: one subscription serves all entries
       informer, err := dynInformers.Resource(..); if err != nil { return }
       m.Set(gvr, informer) } *)
Fixpoint open_informers (rs : list rule) (m : list rkey) (f : factory) : factory * list rkey * bool :=
  match rs with
  | [] => (f, m, true)
  | r :: rs' =>
      if memb (ru_key r) m then open_informers rs' m f
      else if can_subscribe f r
      then open_informers rs' (imap_set (ru_key r) m) (acquire (ru_key r) f)
      else (f, m, false)
  end.

(* ---- hosted controller instances ---------------------------------------------- *)

Record inst := mkInst {
  i_spec : spec;            (* pc.cc.Spec / c.dc.Spec *)
  i_subs : list rkey;       (* the ResourceInformers Stop() closes: childInformers, then parent(s) *)
  i_related : list rkey     (* customize.Manager.relatedInformers, opened while syncing *)
}.

(* the deferred clean-up of the constructors: Close() what the maps hold *)
Definition fail_closing (held : list rkey) (f : factory) : factory * res inst :=
  match release_all held f with
  | Some g => (g, Err)
  | None => (f, Panic)
  end.

(* makeUpdateStrategyMap: a child with a (non-OnDelete) strategy must be known *)
Definition strategy_unknown (r : rule) : bool := ru_strategy r && negb (ru_known r).

(* the three NewHook calls and the selector conversion in the order given by k *)
Definition hook_fails (h : hook_cfg) : bool := negb (is_ok (new_hook h)).
Definition hook_panics (h : hook_cfg) : bool := is_panic (new_hook h).

(* newParentController *)
Definition start_composite (s : spec) (f : factory) : factory * res inst :=
  match s_parents s with
  | [] => (f, Err)
  | p :: _ =>
      if negb (ru_known p) then (f, Err) else                            (* dynClient.Resource(parent) *)
      if existsb strategy_unknown (s_children s) then (f, Err) else      (* makeUpdateStrategyMap *)
      if negb (can_subscribe f p) then (f, Err) else                     (* dynInformers.Resource(parent) *)
      let f1 := acquire (ru_key p) f in
      (* from here on the deferred function closes childInformers and parentInformer on error *)
      let '(f2, kids, ok) := open_informers (s_children s) [] f1 in
      let held := (kids ++ [ru_key p])%list in
      if negb ok then fail_closing held f2 else
      match s_hooks s with
      | None => fail_closing held f2                                     (* "no hooks defined" *)
      | Some h =>
          if hook_panics (h_sync h) then (f2, Panic) else
          if hook_fails (h_sync h) then fail_closing held f2 else
          if hook_panics (h_finalize h) then (f2, Panic) else
          if hook_fails (h_finalize h) then fail_closing held f2 else
          if negb (ru_selector_ok p) then fail_closing held f2 else      (* LabelSelectorAsSelector *)
          if hook_panics (h_customize h) then (f2, Panic) else
          if hook_fails (h_customize h) then fail_closing held f2 else   (* NewCustomizeManager *)
          (f2, Ok (mkInst s held []))
      end
  end.

(* newDecoratorController: hooks first, informers last *)
Definition start_decorator (s : spec) (f : factory) : factory * res inst :=
  match s_hooks s with
  | None => (f, Err)
  | Some h =>
      if hook_panics (h_sync h) then (f, Panic) else
      if hook_fails (h_sync h) then (f, Err) else
      if hook_panics (h_finalize h) then (f, Panic) else
      if hook_fails (h_finalize h) then (f, Err) else
      if hook_panics (h_customize h) then (f, Panic) else
      if hook_fails (h_customize h) then (f, Err) else                   (* NewCustomizeManager *)
      (* newDecoratorSelector: per parent rule discovery, then the selectors *)
      if existsb (fun p => negb (ru_known p && ru_selector_ok p)) (s_parents s) then (f, Err) else
      if existsb strategy_unknown (s_children s) then (f, Err) else      (* makeUpdateStrategyMap *)
      (* the deferred function closes childInformers and parentInformers on error *)
      let '(f1, pars, ok1) := open_informers (s_parents s) [] f in
      if negb ok1 then fail_closing pars f1 else
      let '(f2, kids, ok2) := open_informers (s_children s) [] f1 in
      let held := (kids ++ pars)%list in
      if negb ok2 then fail_closing held f2 else
      (f2, Ok (mkInst s held []))
  end.

Definition start (fl : flavor) : spec -> factory -> factory * res inst :=
  match fl with Composite => start_composite | Decorator => start_decorator end.

(* Stop(): workers are joined, then child informers, parent informer(s) and the
   customize manager's related informers are closed *)
Definition stop (i : inst) (f : factory) : option factory :=
  release_all (i_subs i ++ i_related i)%list f.

(* ---- the reconcile loop --------------------------------------------------------- *)

Record state := mkState {
  insts : list (cname * inst);   (* mc.parentControllers / mc.decoratorControllers *)
  refs : factory                 (* mc.dynInformers *)
}.

Definition init : state := mkState [] [].

Fixpoint ifind (n : cname) (m : list (cname * inst)) : option inst :=
  match m with
  | [] => None
  | (n', i) :: m' => if String.eqb n n' then Some i else ifind n m'
  end.
Fixpoint iremove (n : cname) (m : list (cname * inst)) : list (cname * inst) :=
  match m with
  | [] => []
  | (n', i) :: m' => if String.eqb n n' then iremove n m' else (n', i) :: iremove n m'
  end.
(* m[n] = i *)
Definition iset (n : cname) (i : inst) (m : list (cname * inst)) : list (cname * inst) :=
  (iremove n m ++ [(n, i)])%list.

(* what the composite Reconcile learns about the parent's CRD before it looks at
   its controller map *)
Inductive crd_lookup :=
| GvUnparsable      (* schema.ParseGroupVersion(spec.parentResource.apiVersion) fails *)
| CrdMissing        (* k8sClient.Get of the CRD returns an error *)
| CrdNoStatus       (* the CRD version has no status subresource *)
| CrdOk.

Inductive lookup :=
| LNotFound                               (* k8sClient.Get: NotFound *)
| LError                                  (* k8sClient.Get: any other error *)
| LFound (s : spec) (crd : crd_lookup).   (* decorator: crd is not looked at *)

Inductive event :=
| Reconcile (n : cname) (l : lookup)
| Related (n : cname) (r : rule).   (* a sync of n's instance asks customize.getRelatedClient for r *)

Inductive action := Stopped (n : cname) (id : Z) | Started (n : cname) (id : Z).

Inductive outcome := ROk | RErr | RPanic.

Definition step_result := (state * outcome * list action)%type.

(* newXController + Start + map store *)
Definition start_into (fl : flavor) (n : cname) (s : spec) (st : state) (acts : list action) : step_result :=
  match start fl s (refs st) with
  | (f, Ok i) => (mkState (iset n i (insts st)) f, ROk, (acts ++ [Started n (s_id s)])%list)
  | (f, Err) => (mkState (insts st) f, RErr, acts)
  | (f, Panic) => (mkState (insts st) f, RPanic, acts)
  end.

(* stopIfSpecChanged (composite) / the first half of reconcileDecoratorController:
   a controller started with another spec is stopped and removed.  None: Stop panicked. *)
Definition stop_if_changed (n : cname) (s : spec) (st : state) : option (state * list action) :=
  match ifind n (insts st) with
  | Some i =>
      if spec_eqb s (i_spec i) then Some (st, []) else
      match stop i (refs st) with
      | None => None
      | Some f => Some (mkState (iremove n (insts st)) f, [Stopped n (s_id (i_spec i))])
      end
  | None => Some (st, [])
  end.

(* reconcileCompositeController / reconcileDecoratorController *)
Definition reconcile_controller (fl : flavor) (n : cname) (s : spec) (st : state) : step_result :=
  match stop_if_changed n s st with
  | None => (st, RPanic, [])
  | Some (st1, acts) =>
      match ifind n (insts st1) with
      | Some _ => (st1, ROk, acts)             (* already started, nothing has changed *)
      | None => start_into fl n s st1 acts
      end
  end.

Definition reconcile (fl : flavor) (n : cname) (l : lookup) (st : state) : step_result :=
  match l with
  | LNotFound =>
      match ifind n (insts st) with
      | Some i =>
          match stop i (refs st) with
          | None => (st, RPanic, [])
          | Some f => (mkState (iremove n (insts st)) f, ROk, [Stopped n (s_id (i_spec i))])
          end
      | None => (st, ROk, [])
      end
  | LError => (st, RErr, [])
  | LFound s crd =>
      match fl with
      | Decorator => reconcile_controller fl n s st
      | Composite =>
          (* a changed spec retires the running controller before any check can return early *)
          match stop_if_changed n s st with
          | None => (st, RPanic, [])
          | Some (st1, acts) =>
              match crd with
              | GvUnparsable => (st1, RErr, acts)
              | CrdMissing => (st1, RErr, acts)
              | CrdNoStatus => (st1, ROk, acts)    (* "ignoring": return nil *)
              | CrdOk =>
                  let '(st2, out, acts2) := reconcile_controller fl n s st1 in
                  (st2, out, (acts ++ acts2)%list)
              end
          end
      end
  end.

(* customize.Manager.getRelatedClient during a sync of instance n *)
Definition customize_enabled (s : spec) : bool :=
  match s_hooks s with
  | Some h => match new_hook (h_customize h) with Ok b => b | _ => false end
  | None => false
  end.

Definition related (n : cname) (r : rule) (st : state) : step_result :=
  match ifind n (insts st) with
  | None => (st, ROk, [])
  | Some i =>
      if negb (customize_enabled (i_spec i)) then (st, ROk, []) else
      if negb (ru_known r) then (st, RErr, []) else                 (* dynClient.Resource *)
      if memb (ru_key r) (i_related i) then (st, ROk, []) else
      if negb (can_subscribe (refs st) r) then (st, RErr, []) else
      (mkState (iset n (mkInst (i_spec i) (i_subs i) (i_related i ++ [ru_key r])%list) (insts st))
               (acquire (ru_key r) (refs st)), ROk, [])
  end.

Definition step (fl : flavor) (st : state) (e : event) : step_result :=
  match e with
  | Reconcile n l => reconcile fl n l st
  | Related n r => related n r st
  end.

Definition step_state (fl : flavor) (st : state) (e : event) : state := fst (fst (step fl st e)).

Definition run (fl : flavor) (st : state) (h : list event) : state := fold_left (step_state fl) h st.

(* ---- executable predicates of property C20 (used by the theorems and by the check) ---- *)

Fixpoint nodupb (l : list string) : bool :=
  match l with
  | [] => true
  | x :: l' => negb (memb x l') && nodupb l'
  end.

(* at most one instance per name *)
Definition one_per_nameb (st : state) : bool := nodupb (map fst (insts st)).

(* all subscriptions the running instances will close when stopped *)
Definition inst_subs (i : inst) : list rkey := (i_subs i ++ i_related i)%list.
Definition all_subs (st : state) : list rkey := flat_map (fun ni => inst_subs (snd ni)) (insts st).

(* no leak, no double free: refCount[r] is the number of subscriptions to r held by running instances *)
Definition balancedb (st : state) : bool :=
  forallb (fun r => Nat.eqb (cnt r (refs st)) (cnt r (all_subs st))) (refs st ++ all_subs st)%list.

Definition C20_invb (st : state) : bool := one_per_nameb st && balancedb st.

Definition runningb (n : cname) (st : state) : bool :=
  match ifind n (insts st) with Some _ => true | None => false end.

(* nothing runs for n, or what runs was started with s *)
Definition follows_specb (n : cname) (s : spec) (st : state) : bool :=
  match ifind n (insts st) with
  | None => true
  | Some i => spec_eqb (i_spec i) s
  end.

(* the composite Reconcile reaches reconcileCompositeController *)
Definition crd_passesb (fl : flavor) (crd : crd_lookup) : bool :=
  match fl, crd with
  | Decorator, _ => true
  | Composite, CrdOk => true
  | Composite, _ => false
  end.

(* start fl s succeeds on factory f *)
Definition startableb (fl : flavor) (s : spec) (f : factory) : bool := is_ok (snd (start fl s f)).

Definition no_actions (r : step_result) : bool := match snd r with [] => true | _ => false end.

Definition state_of (r : step_result) : state := fst (fst r).
Definition outcome_of (r : step_result) : outcome := snd (fst r).
Definition actions_of (r : step_result) : list action := snd r.

(* number of entries for n in the controller map *)
Fixpoint cnt_name (n : cname) (m : list (cname * inst)) : nat :=
  match m with
  | [] => 0
  | (n', _) :: m' => (if String.eqb n n' then 1 else 0) + cnt_name n m'
  end.

(* a hosted instance of n lives through these events: create, any number of
   related-resource requests of its syncs, delete *)
Definition lifetime (n : cname) (s : spec) (crd : crd_lookup) (rs : list rule) : list event :=
  (Reconcile n (LFound s crd) :: map (Related n) rs ++ [Reconcile n LNotFound])%list.

(* ---- hook client metrics (pkg/metrics/http.go getOrCreateMetrics) ------------------------
   Every (re)start of a hosted controller builds its webhook clients through
   InstrumentClientWithConstLabels; the collectors of one (controller, hook type, url)
   are created and registered once and found again in metricsCache on every later start. *)

Definition mkey := string.   (* "<controller>/<hook type>/<url>": the cache key; it also fixes the collector's descriptors *)

Inductive mevent :=
| MReg (k : mkey)            (* InstrumentClientWithConstLabels for k *)
| MElapse.                   (* any amount of time passes (cache entries with a finite life are gone) *)

Record mstate := mkM {
  m_cache : list (mkey * Z);   (* metricsCache: key -> collector (numbered in order of creation); SetNoExpiration *)
  m_registry : list mkey;      (* what the prometheus registerer holds *)
  m_next : Z
}.

Definition minit : mstate := mkM [] [] 0.

Fixpoint mfind (k : mkey) (m : list (mkey * Z)) : option Z :=
  match m with
  | [] => None
  | (k', v) :: m' => if String.eqb k k' then Some v else mfind k m'
  end.

(* outcome, and the collector handed to the http client *)
Definition mstep (st : mstate) (e : mevent) : mstate * outcome * option Z :=
  match e with
  | MElapse => (st, ROk, None)            (* entries never expire *)
  | MReg k =>
      match mfind k (m_cache st) with
      | Some id => (st, ROk, Some id)
      | None =>
          let id := m_next st in
          (* the new instrumentation is cached before it is registered *)
          let cache' := (m_cache st ++ [(k, id)])%list in
          if memb k (m_registry st)
          then (mkM cache' (m_registry st) (id + 1), RErr, None)    (* duplicate collector registration *)
          else (mkM cache' (k :: m_registry st) (id + 1), ROk, Some id)
      end
  end.

Definition mrun (st : mstate) (h : list mevent) : mstate := fold_left (fun s e => fst (fst (mstep s e))) h st.
Definition moutcome_of (r : mstate * outcome * option Z) : outcome := snd (fst r).
Definition mcollector_of (r : mstate * outcome * option Z) : option Z := snd r.

(* ---- the ControllerRevision cache (composite) ----------------------------------------------
   The hosted composite controllers read a parent's rollout state (which child belongs to
   which revision) from the shared ControllerRevision lister.  A hosted controller is started
   only when that informer has synced: until then reconcileCompositeController refuses, with
   an error, to construct one (the reconcile is retried).  Stopping, the comparison of specs
   and the parent-CRD checks do not depend on it. *)

Record gstate := mkG {
  g_state : state;
  g_rev_synced : bool        (* mc.revisionInformer.HasSynced() *)
}.

Definition ginit : gstate := mkG init false.

Inductive gevent :=
| GRevSynced                 (* the informer's initial LIST has been stored; it never un-syncs *)
| GEvent (e : event).

Definition gstep (fl : flavor) (gs : gstate) (ge : gevent) : gstate * outcome * list action :=
  match ge with
  | GRevSynced => (mkG (g_state gs) true, ROk, [])
  | GEvent e =>
      let st := g_state gs in
      let plain := let '(st', out, acts) := step fl st e in (mkG st' (g_rev_synced gs), out, acts) in
      match fl, g_rev_synced gs, e with
      | Composite, false, Reconcile n (LFound s CrdOk) =>
          match stop_if_changed n s st with
          | None => (gs, RPanic, [])
          | Some (st1, acts) =>
              match ifind n (insts st1) with
              | Some _ => (mkG st1 false, ROk, acts)        (* already started, nothing has changed *)
              | None => (mkG st1 false, RErr, acts)         (* "ControllerRevision informer has not synced" *)
              end
          end
      | _, _, _ => plain
      end
  end.

Definition grun (fl : flavor) (gs : gstate) (h : list gevent) : gstate :=
  fold_left (fun s e => fst (fst (gstep fl s e))) h gs.
