(* Verdict.v — what a correspondence case evaluates to. *)
From Coq Require Export String List.
Inductive verdict : Type :=
| OK
| SKIP (why : string)        (* outside the modelled domain; counted, never an alarm *)
| DIVERGE (where_ : string)  (* implementation and model disagree *)
| PROPFAIL (clause : string). (* the implementation's own behaviour violates the property *)

(* first non-OK verdict of a list of named checks *)
Fixpoint first_fail (l : list (string * bool)) : option string :=
  match l with
  | nil => None
  | (n, b) :: l' => if b then first_fail l' else Some n
  end.
