(* Rolling.v — pkg/controller/composite/controller_revision.go and
   rolling_update.go: ControllerRevisions, the per-revision hook calls, the
   one-gated-move-per-sync rollout step, revision management. *)
From MC Require Import Generated.
From MC Require Export Model.Composite.
Local Open Scope list_scope.

(* ---------- revisions ---------- *)
Record rck := mkRck { ck_group : string; ck_kind : string; ck_names : list string }.

Record revision := mkRevision {
  rev_obj : json;              (* the object as the typed client (de)serialises it, minus parentPatch/children *)
  rev_patch : json;            (* parentPatch, decoded; JStr _ when it is not valid JSON *)
  rev_children : list rck
}.

Definition rev_res : string := "controllerrevisions.metacontroller.k8s.io/v1alpha1".

Definition rck_of_json (j : json) : rck :=
  let m := obj_map j in
  mkRck (nested_string m ["apiGroup"]) (nested_string m ["kind"])
        (match jget "names" m with
         | JArr l => map (fun x => match x with JStr s => s | _ => "" end) l
         | _ => [] end).

Definition json_of_rck (r : rck) : json :=
  JObj [("apiGroup", JStr (ck_group r)); ("kind", JStr (ck_kind r)); ("names", JArr (map JStr (ck_names r)))].

Definition revision_of_json (j : json) : revision :=
  let m := obj_map j in
  mkRevision (JObj (aremove "children" (aremove "parentPatch" m)))
             (jget "parentPatch" m)
             (match jget "children" m with JArr l => map rck_of_json l | _ => [] end).

(* children carry `omitempty` *)
Definition json_of_revision (r : revision) : json :=
  let m := aset "parentPatch" (rev_patch r) (obj_map (rev_obj r)) in
  JObj (match rev_children r with
        | [] => m
        | cs => aset "children" (JArr (map json_of_rck cs)) m
        end).

Definition rev_name (r : revision) : string := get_name (rev_obj r).

(* ---------- strategy ---------- *)
Definition strategy_method (c : ccfg) (group kind : string) : string :=
  match find (fun k => String.eqb (group_of (ch_api_version k)) group && String.eqb (ch_kind k) kind
                       && negb (String.eqb (ch_method k) method_on_delete)
                       && existsb (fun kk => String.eqb (ch_res kk) (ch_res k)) (kids c)) (kids c) with
  | Some k => ch_method k
  | None => ""
  end.
(* makeUpdateStrategyMap keeps every child rule with an updateStrategy whose method is not OnDelete,
   including the empty method *)
Definition has_strategy (c : ccfg) (group kind : string) : option child_cfg :=
  find (fun k => String.eqb (group_of (ch_api_version k)) group && String.eqb (ch_kind k) kind) (kids c).

Definition is_rolling_method (m : string) : bool :=
  String.eqb m method_rolling_in_place || String.eqb m method_rolling_recreate.

Definition is_rolling (c : ccfg) (group kind : string) : bool :=
  match has_strategy c group kind with Some k => is_rolling_method (ch_method k) | None => false end.

Definition any_rolling (c : ccfg) : bool := existsb (fun k => is_rolling_method (ch_method k)) (kids c).

Definition checks_for (c : ccfg) (group kind : string) : list (string * option string * option string) :=
  match has_strategy c group kind with
  | Some k => match find (fun p => String.eqb (fst p) (ch_res k)) (checks c) with
              | Some p => snd p | None => [] end
  | None => []
  end.

(* ---------- makePatch / applyPatch ---------- *)
Fixpoint make_patch (src : amap) (paths : list (list string)) (acc : amap) : option amap :=
  match paths with
  | [] => Some acc
  | p :: ps =>
      match nested_get src p with
      | NErr => None
      | NMissing => make_patch src ps acc
      | NFound v => match nested_set acc p v with
                    | Some acc' => make_patch src ps acc' | None => None end
      end
  end.

Fixpoint apply_patch (dest patch : amap) (paths : list (list string)) : option amap :=
  match paths with
  | [] => Some dest
  | p :: ps =>
      match nested_get patch p with
      | NErr => None
      | NMissing => apply_patch dest patch ps
      | NFound v => match nested_set dest p v with
                    | Some d' => apply_patch d' patch ps | None => None end
      end
  end.

(* ---------- a parent revision during one sync ---------- *)
Record prev := mkPrev {
  pr_parent : json;
  pr_rev : revision;
  pr_resp : hook_resp;          (* filled after the hook call *)
  pr_desired : list (string * string * string * json)   (* apiVersion, kind, relative name, object *)
}.

Definition empty_resp : hook_resp := mkHR JNull [] JNull false.

(* MakeRelativeObjectMap: later entries of the same relative name replace earlier ones *)
Definition relative_desired (parent_ns : string) (cs : list (option json)) : list (string * string * string * json) :=
  fold_left (fun acc c =>
    match c with
    | None => acc
    | Some o =>
        let key := (get_api_version o, get_kind o, relative_name parent_ns o) in
        if existsb (fun e => match e with (a, k, n, _) =>
                     String.eqb a (get_api_version o) && String.eqb k (get_kind o) &&
                     String.eqb n (relative_name parent_ns o) end) acc
        then map (fun e => match e with (a, k, n, x) =>
                    if String.eqb a (get_api_version o) && String.eqb k (get_kind o) &&
                       String.eqb n (relative_name parent_ns o) then (a, k, n, o) else e end) acc
        else acc ++ [(get_api_version o, get_kind o, relative_name parent_ns o, o)]
    end) cs [].

(* RelativeObjectMap.FindGroupKindName: version ignored *)
Definition find_desired (ds : list (string * string * string * json)) (group kind name : string) : option json :=
  match find (fun e => match e with (a, k, n, _) =>
                 String.eqb (group_of a) group && String.eqb k kind && String.eqb n name end) ds with
  | Some (_, _, _, o) => Some o
  | None => None
  end.

(* observed children in the relative view (observedChildren.Convert(parent)) *)
Definition find_observed (parent_ns : string) (observed : umap) (group kind name : string) : option json :=
  match find (fun g => match g with (av, kd, _) => String.eqb (group_of av) group && String.eqb kd kind end) observed with
  | Some (_, _, os) =>
      match find (fun p => String.eqb (relative_name parent_ns (snd p)) name &&
                           (String.eqb parent_ns "" || String.eqb parent_ns (get_ns (snd p)))) os with
      | Some p => Some (snd p) | None => None end
  | None => None
  end.

(* ---------- syncRevisionClaims ---------- *)
Definition claim_key := (string * string * string)%type.   (* group, kind, name *)
Definition ck_eqb (a b : claim_key) : bool :=
  match a, b with (g1, k1, n1), (g2, k2, n2) => String.eqb g1 g2 && String.eqb k1 k2 && String.eqb n1 n2 end.
Definition claims := list (claim_key * nat).            (* claimant = index in the revision list, 0 = latest *)
Definition claimant (cl : claims) (k : claim_key) : option nat :=
  match find (fun p => ck_eqb (fst p) k) cl with Some p => Some (snd p) | None => None end.
Definition set_claim (cl : claims) (k : claim_key) (i : nat) : claims :=
  if existsb (fun p => ck_eqb (fst p) k) cl
  then map (fun p => if ck_eqb (fst p) k then (k, i) else p) cl
  else cl ++ [(k, i)].

(* one revision: of each child-kind group keep the names that the latest revision still desires and
   that no earlier revision in the list claims; drop the group when none is left *)
Definition claims_of_revision (c : ccfg) (latest_ds : list (string * string * string * json)) (i : nat)
           (r : revision) (cl : claims) : revision * claims :=
  let '(groups, cl') :=
    fold_left (fun (acc : list rck * claims) (ck : rck) =>
      let '(gs, cl0) := acc in
      if negb (is_rolling c (ck_group ck) (ck_kind ck)) then (gs, cl0) else
      let '(kept, cl1) :=
        fold_left (fun (a : list string * claims) (name : string) =>
          let '(ns, cla) := a in
          match find_desired latest_ds (ck_group ck) (ck_kind ck) name with
          | None => (ns, cla)
          | Some _ =>
              match claimant cla (ck_group ck, ck_kind ck, name) with
              | Some _ => (ns, cla)
              | None => (ns ++ [name], set_claim cla (ck_group ck, ck_kind ck, name) i)
              end
          end) (ck_names ck) ([], cl0) in
      match kept with
      | [] => (gs, cl1)
      | _ => (gs ++ [mkRck (ck_group ck) (ck_kind ck) kept], cl1)
      end) (rev_children r) ([], cl) in
  (mkRevision (rev_obj r) (rev_patch r) groups, cl').

Fixpoint sync_revision_claims (c : ccfg) (latest_ds : list (string * string * string * json)) (i : nat)
         (prs : list prev) (cl : claims) : list prev * claims :=
  match prs with
  | [] => ([], cl)
  | p :: rest =>
      let '(r', cl') := claims_of_revision c latest_ds i (pr_rev p) cl in
      let '(rest', cl'') := sync_revision_claims c latest_ds (S i) rest cl' in
      (mkPrev (pr_parent p) r' (pr_resp p) (pr_desired p) :: rest', cl'')
  end.

(* addChild / removeChild on a revision *)
Definition add_child (r : revision) (group kind name : string) : revision :=
  let cs := rev_children r in
  if existsb (fun ck => String.eqb (ck_group ck) group && String.eqb (ck_kind ck) kind) cs then
    mkRevision (rev_obj r) (rev_patch r)
      ((fix go (cs : list rck) (done : bool) : list rck :=
          match cs with
          | [] => []
          | ck :: cs' =>
              if negb done && String.eqb (ck_group ck) group && String.eqb (ck_kind ck) kind
              then (if mem_str name (ck_names ck) then ck
                    else mkRck (ck_group ck) (ck_kind ck) (ck_names ck ++ [name])) :: go cs' true
              else ck :: go cs' done
          end) cs false)
  else mkRevision (rev_obj r) (rev_patch r) (cs ++ [mkRck group kind [name]]).

Fixpoint remove_first (name : string) (l : list string) : list string :=
  match l with
  | [] => []
  | x :: l' => if String.eqb x name then l' else x :: remove_first name l'
  end.

Definition remove_child (r : revision) (group kind name : string) : revision :=
  mkRevision (rev_obj r) (rev_patch r)
    ((fix go (cs : list rck) (done : bool) : list rck :=
        match cs with
        | [] => []
        | ck :: cs' =>
            if negb done && String.eqb (ck_group ck) group && String.eqb (ck_kind ck) kind
            then mkRck (ck_group ck) (ck_kind ck) (remove_first name (ck_names ck)) :: go cs' true
            else ck :: go cs' done
        end) (rev_children r) false).

Definition count_children (r : revision) : nat :=
  fold_left (fun n ck => n + List.length (ck_names ck)) (rev_children r) O.

(* ---------- status conditions ---------- *)
Definition condition_obj (ty st reason msg : string) : json :=
  JObj ([("type", JStr ty); ("status", JStr st)] ++
        (if String.eqb reason "" then [] else [("reason", JStr reason)]) ++
        (if String.eqb msg "" then [] else [("message", JStr msg)])).

(* SetCondition(status, cond): Err when status.conditions exists and is not a list (an explicit null included).
   A nil status map becomes a fresh one. *)
Definition set_condition (status : json) (ty : string) (cond : json) : option json :=
  let m := obj_or_nil status in
  match alookup "conditions" m with
  | None => Some (JObj (aset "conditions" (JArr [cond]) m))
  | Some (JArr l) =>
      if existsb (fun it => match it with JObj im => match jget "type" im with JStr t => String.eqb t ty | _ => false end | _ => false end) l
      then Some (JObj (aset "conditions"
                  (JArr ((fix go (l : list json) (done : bool) : list json :=
                            match l with
                            | [] => []
                            | it :: l' =>
                                if negb done && match it with JObj im => match jget "type" im with JStr t => String.eqb t ty | _ => false end | _ => false end
                                then cond :: go l' true else it :: go l' done
                            end) l false)) m))
      else Some (JObj (aset "conditions" (JArr (l ++ [cond])) m))
  | Some _ => None
  end.

(* GetStatusCondition(child, type) *)
Definition status_condition (o : json) (ty : string) : option json :=
  match nested_get (obj_map o) ["status"; "conditions"] with
  | NFound (JArr l) =>
      find (fun it => match it with JObj im => match jget "type" im with JStr t => String.eqb t ty | _ => false end | _ => false end) l
  | _ => None
  end.

Definition cond_field (cond : json) (f : string) : string :=
  match jget f (obj_map cond) with JStr s => s | _ => "" end.

(* childStatusCheck: None = healthy, Some why = the error text *)
Definition quote (s : string) : string := (String """"%char s ++ String """"%char EmptyString)%string.

Definition child_status_why (cks : list (string * option string * option string)) (o : json) : option string :=
  first_some (fun ck => match ck with (ty, st, rs) =>
    match status_condition o ty with
    | None => Some ("required condition type missing: " ++ quote ty)%string
    | Some cond =>
        match st with
        | Some s => if String.eqb (cond_field cond "status") s then
                      match rs with
                      | Some r => if String.eqb (cond_field cond "reason") r then None
                                  else Some (quote ty ++ " condition reason is " ++ quote (cond_field cond "reason") ++ " (want " ++ quote r ++ ")")%string
                      | None => None end
                    else Some (quote ty ++ " condition status is " ++ quote (cond_field cond "status") ++ " (want " ++ quote s ++ ")")%string
        | None =>
            match rs with
            | Some r => if String.eqb (cond_field cond "reason") r then None
                        else Some (quote ty ++ " condition reason is " ++ quote (cond_field cond "reason") ++ " (want " ++ quote r ++ ")")%string
            | None => None end
        end
    end end) cks.

Definition child_status_check (cks : list (string * option string * option string)) (o : json) : bool :=
  match child_status_why cks o with None => true | Some _ => false end.

(* ---------- shouldContinueRolling: None = go on, Some msg = wait ---------- *)
Definition child_up_to_date (child : json) (update : option json) : option bool :=
  match update with
  | None => Some false            (* ApplyUpdate(child, nil) dereferences nil: see the no-panic theorem *)
  | Some u =>
      match apply_update (obj_map child) (obj_map u) with
      | Ok n => Some (jeqb (JObj n) child)
      | _ => None
      end
  end.

Definition observed_generation (o : json) : option Z :=
  match nested_get (obj_map o) ["status"; "observedGeneration"] with
  | NFound (JInt z) => Some z | _ => None end.

Definition should_continue_rolling (c : ccfg) (pns : string) (latest : prev) (observed : umap) : option string :=
  first_some (fun ck =>
    if negb (is_rolling c (ck_group ck) (ck_kind ck)) then None else
    first_some (fun name =>
      match find_observed pns observed (ck_group ck) (ck_kind ck) name with
      | None => Some ("missing child " ++ ck_kind ck ++ " " ++ name)%string
      | Some child =>
          match child_up_to_date child (find_desired (pr_desired latest) (ck_group ck) (ck_kind ck) name) with
          | None => Some ("can't check if child " ++ ck_kind ck ++ " " ++ name ++ " is updated")%string
          | Some false => Some ("child " ++ ck_kind ck ++ " " ++ name ++ " is not updated yet")%string
          | Some true =>
              let m := match has_strategy c (ck_group ck) (ck_kind ck) with Some k => ch_method k | None => "" end in
              if String.eqb m method_rolling_in_place &&
                 match observed_generation child with
                 | Some og => Z.ltb 0 og && Z.ltb og (get_generation child)
                 | None => false end
              then Some ("child " ++ ck_kind ck ++ " " ++ name ++ " with RollingInPlace update strategy hasn't observed latest spec")%string
              else match child_status_why (checks_for c (ck_group ck) (ck_kind ck)) child with
                   | None => None
                   | Some why => Some ("child " ++ ck_kind ck ++ " " ++ name ++ " failed status check: " ++ why)%string
                   end
          end
      end) (ck_names ck)) (rev_children (pr_rev latest)).

(* ---------- syncRollingUpdate ---------- *)
Definition update_nth {A} (n : nat) (f : A -> A) (l : list A) : list A :=
  (fix go (i : nat) (l : list A) : list A :=
     match l with [] => [] | a :: l' => (if Nat.eqb i n then f a else a) :: go (S i) l' end) O l.

Definition set_rev (p : prev) (r : revision) : prev := mkPrev (pr_parent p) r (pr_resp p) (pr_desired p).

Inductive rollout_state :=
| RWaiting (why : string)
| RProgressing (kind name : string)
| RComplete.

(* first pass: unclaimed children and children that already match go to the latest revision *)
Definition first_pass (c : ccfg) (pns : string) (observed : umap) (prs : list prev) (cl : claims) : list prev * claims :=
  match prs with
  | [] => ([], cl)
  | latest :: _ =>
      fold_left (fun (acc : list prev * claims) (e : string * string * string * json) =>
        let '(prs0, cl0) := acc in
        match e with (av, kind, name, desired_child) =>
          let group := group_of av in
          if negb (is_rolling c group kind) then acc else
          match claimant cl0 (group, kind, name) with
          | None => (update_nth 0 (fun p => set_rev p (add_child (pr_rev p) group kind name)) prs0,
                     set_claim cl0 (group, kind, name) 0)
          | Some O => acc
          | Some i =>
              match find_observed pns observed group kind name with
              | None => acc
              | Some child =>
                  match apply_update (obj_map child) (obj_map desired_child) with
                  | Ok n =>
                      if jeqb (JObj n) child then
                        (update_nth i (fun p => set_rev p (remove_child (pr_rev p) group kind name))
                           (update_nth 0 (fun p => set_rev p (add_child (pr_rev p) group kind name)) prs0),
                         set_claim cl0 (group, kind, name) 0)
                      else acc
                  | _ => acc
                  end
              end
          end
        end) (pr_desired latest) (prs, cl)
  end.

(* second pass: at most one gated move, in the order the hook listed its children *)
Definition second_pass (c : ccfg) (pns : string) (observed : umap) (prs : list prev) (cl : claims)
  : list prev * rollout_state :=
  match prs with
  | [] => ([], RComplete)
  | latest :: _ =>
      let next := find (fun ch =>
                    match ch with
                    | None => false
                    | Some o =>
                        let group := group_of (get_api_version o) in
                        is_rolling c group (get_kind o) &&
                        negb (match claimant cl (group, get_kind o, relative_name pns o) with
                              | Some O => true | _ => false end)
                    end) (hr_children (pr_resp latest)) in
      match next with
      | Some (Some o) =>
          let group := group_of (get_api_version o) in
          let name := relative_name pns o in
          match should_continue_rolling c pns latest observed with
          | Some why => (prs, RWaiting why)
          | None =>
              (update_nth 0 (fun p => set_rev p (add_child (pr_rev p) group (get_kind o) name))
                 (map (fun p => p) (match prs with
                                    | l0 :: rest => l0 :: map (fun p => set_rev p (remove_child (pr_rev p) group (get_kind o) name)) rest
                                    | [] => [] end)),
               RProgressing (get_kind o) name)
          end
      | _ => (prs, RComplete)
      end
  end.

Definition rollout_condition (st : rollout_state) (latest_name : string) : json :=
  match st with
  | RWaiting why => condition_obj "Updated" "False" "RolloutWaiting" why
  | RProgressing kind name => condition_obj "Updated" "False" "RolloutProgressing" ("updating " ++ kind ++ " " ++ name)%string
  | RComplete => condition_obj "Updated" "True" "OnLatestRevision" ("latest ControllerRevision: " ++ latest_name)%string
  end.

(* the whole pure step: claims, first pass, second pass, condition.  None = SetCondition error *)
Definition sync_rolling_update (c : ccfg) (pns : string) (observed : umap) (prs : list prev)
  : option (list prev * rollout_state) :=
  match prs with
  | [] => None
  | latest :: _ =>
      let '(prs1, cl1) := sync_revision_claims c (pr_desired latest) 0 prs [] in
      let '(prs2, cl2) := first_pass c pns observed prs1 cl1 in
      let '(prs3, st) := second_pass c pns observed prs2 cl2 in
      match prs3 with
      | l3 :: rest =>
          match set_condition (hr_status (pr_resp l3)) "Updated" (rollout_condition st (rev_name (pr_rev l3))) with
          | Some status' =>
              Some (mkPrev (pr_parent l3) (pr_rev l3)
                           (mkHR status' (hr_children (pr_resp l3)) (hr_resync (pr_resp l3)) (hr_finalized (pr_resp l3)))
                           (pr_desired l3) :: rest, st)
          | None => None
          end
      | [] => None
      end
  end.

(* pruneParentRevisions *)
Definition prune (prs : list prev) : list prev :=
  match prs with
  | [] => []
  | l :: rest => l :: filter (fun p => negb (Nat.eqb (count_children (pr_rev p)) 0)) rest
  end.

(* ---------- desired children aggregated over the live revisions ---------- *)
Definition aggregate_children (pns : string) (prs : list prev) : list (option json) :=
  match prs with
  | [] => []
  | latest :: rest =>
      let base := pr_desired latest in
      let over := fold_left (fun (acc : list (string * string * string * json)) (p : prev) =>
                    fold_left (fun acc ck =>
                      fold_left (fun acc name =>
                        match find_desired (pr_desired p) (ck_group ck) (ck_kind ck) name with
                        | None => acc
                        | Some child =>
                            (* ReplaceObjectIfExists: same apiVersion+kind group and same relative name *)
                            map (fun e => match e with (a, k, n, x) =>
                                   if String.eqb a (get_api_version child) && String.eqb k (get_kind child) &&
                                      String.eqb n (relative_name pns child) then (a, k, n, child) else e end) acc
                        end) (ck_names ck) acc) (rev_children (pr_rev p)) acc) rest base in
      map (fun e => match e with (_, _, _, o) => Some o end) over
  end.

Definition min_resync (prs : list prev) : json :=
  fold_left (fun (acc : json) (p : prev) =>
    let r := hr_resync (pr_resp p) in
    if positive_number r then
      match acc, r with
      | JNull, _ => r
      | JInt a, JInt b => if Z.ltb b a then r else acc
      | _, _ => acc          (* float comparisons are outside the modelled domain *)
      end
    else acc) prs JNull.

(* ---------- revisions as API objects ---------- *)
Definition oset_s (k v : string) (m : smap) : smap :=
  if existsb (fun p => String.eqb (fst p) k) m
  then map (fun p => if String.eqb (fst p) k then (k, v) else p) m else m ++ [(k, v)].

Definition new_revision (c : ccfg) (parent : json) (patch : json) (name : string) : option revision :=
  let base_labels :=
    if gen_selector c then Some [("controller-uid", get_uid parent)]
    else match nested_get (obj_map parent) ["spec"; "template"; "metadata"; "labels"] with
         | NErr => None
         | NMissing => Some []
         | NFound (JObj m) =>
             if forallb (fun kv => match snd kv with JStr _ => true | _ => false end) m
             then Some (map (fun kv => (fst kv, match snd kv with JStr s => s | _ => "" end)) m) else None
         | NFound _ => None
         end in
  match base_labels with
  | None => None
  | Some ls =>
      let ls' := (fun l => oset_s label_key_resource (p_resource c) (oset_s label_key_api_group (group_of (p_api_version c)) l)) ls in
      Some (mkRevision
        (JObj [("apiVersion", JStr "metacontroller.k8s.io/v1alpha1"); ("kind", JStr "ControllerRevision");
               ("metadata", JObj ([("labels", JObj (map (fun kv => (fst kv, JStr (snd kv))) ls'));
                                   ("name", JStr name)] ++
                                  (if String.eqb (get_ns parent) "" then [] else [("namespace", JStr (get_ns parent))]) ++
                                  [("ownerReferences",
                                    JArr [json_of_oref (controller_ref (get_api_version parent) (get_kind parent)
                                                                       (get_name parent) (get_uid parent))])]))])
        patch [])
  end.

(* ---------- claiming ControllerRevisions (typed client, UpdateWithRetries) ---------- *)
Fixpoint update_with_retries (fuel : nat) (ns name uid : string) (f : json -> option json) : prog apires :=
  match fuel with
  | O => Ret (RErr EConflict)
  | S n =>
      g <~ api (rq_get rev_res ns name) ;;
      match g with
      | RErr EConflict => match n with O => Ret (RErr EConflict) | _ => update_with_retries n ns name uid f end
      | RErr e => Ret (RErr e)
      | ROk cur =>
          if negb (String.eqb (get_uid cur) uid) then Ret (RErr EGone) else
          match f cur with
          | None => Ret (ROk cur)
          | Some upd =>
              u <~ api (rq_put false rev_res ns name upd) ;;
              match u with
              | RErr EConflict => match n with O => Ret (RErr EConflict) | _ => update_with_retries n ns name uid f end
              | r => Ret r
              end
          end
      end
  end.

Definition revision_selector (c : ccfg) (parent : json) : option selector :=
  match make_selector c parent with
  | Some (SelReqs l) =>
      Some (SelReqs (l ++ [mkReq label_key_api_group OpIn [group_of (p_api_version c)];
                           mkReq label_key_resource OpIn [p_resource c]]))
  | other => other
  end.

(* ControllerRevisions go through the typed client: an owner list left empty is omitted on the wire *)
Definition set_owner_refs_typed (o : json) (refs : list oref) : json :=
  match refs, o with
  | [], JObj m => JObj (nested_remove m ["metadata"; "ownerReferences"])
  | _, _ => set_owner_refs o refs
  end.

Definition claim_rev_one (c : ccfg) (parent : json) (sel : selector)
           (st : option bool * list json * bool) (o : json) : prog (option bool * list json * bool) :=
  let '(once, claimed, failed) := st in
  let ns := get_ns parent in
  match claim_decision (get_uid parent) (is_deleting parent) sel o with
  | ClKeep => Ret (once, claimed ++ [o], failed)
  | ClIgnore => Ret (once, claimed, failed)
  | ClRelease =>
      r <~ update_with_retries retry_steps ns (get_name o) (get_uid o)
             (fun cur => Some (set_owner_refs_typed cur (remove_owner_ref (get_owner_refs cur) (get_uid parent)))) ;;
      match r with
      | ROk _ | RErr ENotFound | RErr EGone => Ret (once, claimed, failed)
      | RErr _ => Ret (once, claimed, true)
      end
  | ClAdopt =>
      '(once', can) <~ match once with
                       | Some b => Ret (once, b)
                       | None => b <~ can_adopt_check c parent ;; Ret (Some b, b)
                       end ;;
      if negb can then Ret (once', claimed, true) else
      r <~ update_with_retries retry_steps ns (get_name o) (get_uid o)
             (fun cur => Some (set_owner_refs cur
                (add_owner_ref (get_owner_refs cur)
                   (controller_ref (p_api_version c) (p_kind c) (get_name parent) (get_uid parent))))) ;;
      match r with
      | ROk _ => Ret (once', claimed ++ [o], failed)
      | RErr ENotFound => Ret (once', claimed, failed)
      | RErr _ => Ret (once', claimed, true)
      end
  end.

(* None = error *)
Definition claim_revisions (c : ccfg) (k : cache) (parent : json) : prog (option (list json)) :=
  match revision_selector c parent with
  | None => Ret None
  | Some sel =>
      (* revisionLister.ControllerRevisions(ns): every namespace when the parent has none *)
      let all := filter (fun o => String.eqb (get_ns parent) "" || String.eqb (get_ns o) (get_ns parent)) (cached k rev_res) in
      '(_, claimed, failed) <~ foldM (claim_rev_one c parent sel) all (None, [], false) ;;
      Ret (if failed then None else Some claimed)
  end.

(* ---------- manageRevisions: the first failing request aborts ---------- *)
Definition rev_equal (old new : revision) : bool :=
  jeqb (rev_obj old) (rev_obj new) && jeqb (rev_patch old) (rev_patch new) &&
  (* typed DeepEqual: an absent children list (nil) differs from the empty list the claims pass builds *)
  match rev_children new with
  | [] => false
  | cs => jeqb (JArr (map json_of_rck (rev_children old))) (JArr (map json_of_rck cs))
  end.

Fixpoint run_until_error (ps : list (prog apires)) : prog bool :=   (* true = all succeeded *)
  match ps with
  | [] => Ret true
  | p :: rest => r <~ p ;; match r with ROk _ => run_until_error rest | RErr _ => Ret false end
  end.

Definition manage_revisions (ns : string) (observed : list revision) (desired : list revision) : prog bool :=
  let deletes := flat_map (fun o =>
                   if existsb (fun d => String.eqb (rev_name d) (rev_name o)) desired then []
                   else [api (mkRq VDelete rev_res ns (rev_name o) JNull (get_uid (rev_obj o)) "")]) observed in
  let upserts := flat_map (fun d =>
                   match find (fun o => String.eqb (rev_name o) (rev_name d)) (rev observed) with
                   | Some o => if rev_equal o d then []
                               else [api (rq_put false rev_res ns (rev_name d) (json_of_revision d))]
                   | None =>
                       (* the typed client refuses to create a namespaced object without a namespace *)
                       if String.eqb ns "" then [Ret (RErr EInvalid)]
                       else [api (rq_create rev_res ns (rev_name d) (json_of_revision d))]
                   end) desired in
  run_until_error (deletes ++ upserts).

(* ---------- per-revision hook calls ---------- *)
Definition call_hooks (c : ccfg) (observed related : umap) (prs : list prev) : prog (list (prev * hook_result)) :=
  mapM (fun p => r <~ call_hook c (pr_parent p) observed related ;; Ret (p, r)) prs.

Definition first_hook_failure (rs : list (prev * hook_result)) : option hook_result :=
  match find (fun pr => match snd pr with HRResp _ => false | _ => true end) rs with
  | Some (_, r) => Some r
  | None => None
  end.

(* ---------- syncRevisions with a rolling strategy ---------- *)
Definition fresh_revision_name (k : cache) : string :=
  match cached k "fresh-revision-name" with JStr s :: _ => s | _ => "" end.

(* addControllerUIDLabel: with a generated selector each revision's desired
   children get the controller-uid label before the rollout looks at them
   (children with unreadable labels are left for enforce_labels to reject) *)
Definition add_uid_label (parent d : json) : json :=
  match nested_get (obj_map d) ["metadata"; "labels"] with
  | NErr => d
  | r =>
      let strict := match r with
                    | NFound (JObj m) =>
                        if forallb (fun kv => match snd kv with JStr _ => true | _ => false end) m
                        then Some (map (fun kv => (fst kv, match snd kv with JStr s => s | _ => "" end)) m)
                        else None
                    | NMissing => Some []
                    | _ => None end in
      match strict with
      | None => d
      | Some ls =>
          match slookup "controller-uid" ls with
          | Some _ => d
          | None =>
              match d with
              | JObj m => match nested_set m ["metadata"; "labels"]
                                  (JObj (map (fun kv => (fst kv, JStr (snd kv))) (ls ++ [("controller-uid", get_uid parent)]))) with
                          | Some m' => JObj m' | None => d end
              | _ => d end
          end
      end
  end.

Definition label_resp (c : ccfg) (parent : json) (r : hook_resp) : hook_resp :=
  if gen_selector c
  then mkHR (hr_status r) (map (option_map (add_uid_label parent)) (hr_children r)) (hr_resync r) (hr_finalized r)
  else r.

Definition sync_revisions_rolling (c : ccfg) (k : cache) (parent : json) (observed related : umap)
  : prog hook_result :=
  oc <~ claim_revisions c k parent ;;
  match oc with
  | None => Ret HRErr
  | Some claimed =>
      let observed_revs := map revision_of_json claimed in
      match make_patch (obj_map parent) (field_paths c) [] with
      | None => Ret HRErr
      | Some latest_patch =>
          (* materialise the parent each revision stands for *)
          let step := fun (acc : option (option revision * list prev)) (r : revision) =>
            match acc with
            | None => None
            | Some (latest_rev, olds) =>
                match rev_patch r with
                | JObj pm =>
                    if jeqb (JObj pm) (JObj latest_patch) then Some (Some r, olds)
                    else match apply_patch (obj_map parent) pm (field_paths c) with
                         | Some p' => Some (latest_rev, olds ++ [mkPrev (JObj p') r empty_resp []])
                         | None => None end
                | JNull => if jeqb (JObj []) (JObj latest_patch) then Some (Some r, olds)
                           else Some (latest_rev, olds ++ [mkPrev parent r empty_resp []])
                | _ => None
                end
            end in
          match fold_left step observed_revs (Some (None, [])) with
          | None => Ret HRErr
          | Some (latest_rev, olds) =>
              match (match latest_rev with
                     | Some r => Some r
                     | None => new_revision c parent (JObj latest_patch) (fresh_revision_name k) end) with
              | None => Ret HRErr
              | Some lrev =>
                  let prs0 := mkPrev parent lrev empty_resp [] :: olds in
                  answers <~ call_hooks c observed related prs0 ;;
                  match first_hook_failure answers with
                  | Some HRNone => Ret HRErr      (* no sync hook: reported as a sync error *)
                  | Some r => Ret r
                  | None =>
                      let prs1 := map (fun pa => match pa with
                                    | (p, HRResp r0) =>
                                        let r := label_resp c parent r0 in
                                        mkPrev (pr_parent p) (pr_rev p) r
                                               (relative_desired (get_ns parent) (hr_children r))
                                    | (p, _) => p end) answers in
                      match sync_rolling_update c (get_ns parent) observed prs1 with
                      | None => Ret HRErr
                      | Some (prs2, _) =>
                          let prs3 := prune prs2 in
                          ok <~ manage_revisions (get_ns parent) observed_revs (map pr_rev prs3) ;;
                          if negb ok then Ret HRErr else
                          match prs3 with
                          | [] => Ret HRErr
                          | l3 :: _ =>
                              Ret (HRResp (mkHR (hr_status (pr_resp l3))
                                                (aggregate_children (get_ns parent) prs3)
                                                (min_resync prs3)
                                                (forallb (fun p => hr_finalized (pr_resp p)) prs3)))
                          end
                      end
                  end
              end
          end
      end
  end.

(* syncRevisions *)
Definition hook_phase_rolling (c : ccfg) (k : cache) (parent : json) (observed related : umap) : prog hook_result :=
  if negb (any_rolling c) || (is_deleting parent && negb (should_finalize c parent))
  then call_hook c parent observed related
  else sync_revisions_rolling c k parent observed related.

(* ---------- the composite sync with rolling strategies ---------- *)
Definition sync_parent_object_r (c : ccfg) (k : cache) (parent : json) : prog sync_result :=
  if ignores_parent c parent then Ret SDone else
  fr <~ sync_finalizer c parent ;;
  match fr with
  | RErr _ => Ret SErr
  | ROk parent =>
      if ignores_parent c parent then Ret SDone else
      oc <~ claim_children c k parent ;;
      match oc with
      | None => Ret SErr
      | Some observed =>
          orel <~ related_phase c k parent ;;
          match orel with
          | None => Ret SErr
          | Some related =>
              hr <~ hook_phase_rolling c k parent observed related ;;
              match hr with
              | HRNone | HRErr => Ret SErr
              | HR429 n => Ret (SRequeue n)
              | HRResp r => finish_sync c parent observed r
              end
          end
      end
  end.

Definition sync_r (c : ccfg) (k : cache) : prog sync_result :=
  match k_parent k with
  | None => Ret SDone
  | Some parent => sync_parent_object_r c k parent
  end.
