(* Apply.v — pkg/dynamic/apply/apply.go (Merge and helpers) and
   pkg/controller/common/manage_children.go ApplyUpdate/revertField,
   pkg/controller/common/diff.go nullifyLastAppliedAnnotation. *)
From MC Require Import Generated.
From MC Require Export Model.Json.

(* stringMergeKey: strings as they are, everything else through fmt "%v".
   Containers and floats are outside the modelled domain (placeholders). *)
Definition smk (v : json) : string :=
  match v with
  | JStr s => s
  | JInt z => string_of_Z z
  | JBool true => "true"
  | JBool false => "false"
  | JNull => "<nil>"
  | JFloat s => s
  | JText _ => "?text"
  | JArr _ => "?arr"
  | JObj _ => "?obj"
  end.

(* item.(map[string]interface{})[mergeKey] — a non-object item panics *)
Definition item_key (key : string) (it : json) : option string :=
  match it with JObj m => Some (smk (jget key m)) | _ => None end.

Definition prune_keys (ck : list string) (m : amap) : list string :=
  filter (fun k => ahas k m) ck.

(* detectListMapKey, first phase: None = some item is not an object *)
Fixpoint scan_common (items : list json) (ck : option (list string)) : option (option (list string)) :=
  match items with
  | [] => Some ck
  | JObj m :: rest =>
      scan_common rest (match ck with None => Some (akeys m) | Some c => Some (prune_keys c m) end)
  | _ :: _ => None
  end.

Definition detect_key (dl ll sl : list json) : option string :=
  match scan_common (dl ++ ll ++ sl) None with
  | Some (Some ck) => find (fun k => mem_str k ck) known_merge_keys
  | _ => None
  end.

(* makeListMap: last duplicate wins *)
Fixpoint make_list_map (key : string) (items : list json) (acc : amap) : res amap :=
  match items with
  | [] => Ok acc
  | it :: rest =>
      match item_key key it with
      | Some k => make_list_map key rest (aset k it acc)
      | None => Panic
      end
  end.

(* first loop of mergeObject: drop keys of lastApplied that desired lacks *)
Definition remove_last (dm : amap) (last_keys : list string) (des_has : string -> bool) : amap :=
  fold_left (fun acc k => if des_has k then acc else aremove k acc) last_keys dm.

(* rebuild of mergeListMap *)
Fixpoint rebuild_dest (key : string) (dl : list json) (dm : amap) (added : list string)
  : res (list json * list string) :=
  match dl with
  | [] => Ok ([], added)
  | it :: rest =>
      match item_key key it with
      | None => Panic
      | Some k =>
          match alookup k dm with
          | Some v =>
              match rebuild_dest key rest dm (k :: added) with
              | Ok (l, a) => Ok (v :: l, a) | Err => Err | Panic => Panic
              end
          | None => rebuild_dest key rest dm added
          end
      end
  end.

Fixpoint rebuild_des (key : string) (sl : list json) (dm : amap) (added : list string)
  : res (list json) :=
  match sl with
  | [] => Ok []
  | it :: rest =>
      match item_key key it with
      | None => Panic
      | Some k =>
          if mem_str k added then rebuild_des key rest dm added
          else match rebuild_des key rest dm (k :: added) with
               | Ok l => Ok (jget k dm :: l) | Err => Err | Panic => Panic
               end
      end
  end.

Definition obj_or_nil (j : json) : amap := match j with JObj m => m | _ => [] end.
Definition arr_or_nil (j : json) : list json := match j with JArr l => l | _ => [] end.

(* merge(fieldPath, destination, lastApplied, desired); structural on desired.
   A Go nil (absent key, JSON null, nil map, nil slice) is JNull. *)
Fixpoint merge (des dest last : json) {struct des} : res json :=
  match dest with
  | JObj dm =>
      let lm := obj_or_nil last in
      match des with
      | JObj sm =>
          let dm1 := remove_last dm (akeys lm) (fun k => ahas k sm) in
          match (fix mobj (sm : amap) (acc : amap) {struct sm} : res amap :=
                   match sm with
                   | [] => Ok acc
                   | (k, dv) :: sm' =>
                       match merge dv (jget k dm1) (jget k lm) with
                       | Ok r => mobj sm' (aset k r acc)
                       | Err => Err
                       | Panic => Panic
                       end
                   end) sm dm1 with
          | Ok m => Ok (JObj m) | Err => Err | Panic => Panic
          end
      | JNull => Ok (JObj (remove_last dm (akeys lm) (fun _ => false)))
      | _ => Err
      end
  | JArr dl =>
      let ll := arr_or_nil last in
      match des with
      | JArr sl =>
          match detect_key dl ll sl with
          | None => Ok (JArr sl)
          | Some key =>
              dmap <- make_list_map key dl [] ;;
              lmap <- make_list_map key ll [] ;;
              let dm1 := remove_last dmap (akeys lmap)
                           (fun k => existsb (fun it => match item_key key it with
                                                        | Some k' => String.eqb k k' | None => false end) sl) in
              merged <- (fix mlm (sl : list json) (acc : amap) {struct sl} : res amap :=
                           match sl with
                           | [] => Ok acc
                           | s :: sl' =>
                               match item_key key s with
                               | None => Panic
                               | Some k =>
                                   match merge s (jget k dm1) (jget k lmap) with
                                   | Ok r => mlm sl' (aset k r acc)
                                   | Err => Err
                                   | Panic => Panic
                                   end
                               end
                           end) sl dm1 ;;
              '(l1, added) <- rebuild_dest key dl merged [] ;;
              l2 <- rebuild_des key sl merged added ;;
              Ok (JArr (l1 ++ l2))
          end
      | JNull =>
          match detect_key dl ll [] with
          | None => Ok JNull      (* a nil []interface{}: serialises as null *)
          | Some key =>
              dmap <- make_list_map key dl [] ;;
              lmap <- make_list_map key ll [] ;;
              let dm1 := remove_last dmap (akeys lmap) (fun _ => false) in
              '(l1, _) <- rebuild_dest key dl dm1 [] ;;
              Ok (JArr l1)
          end
      | _ => Err
      end
  | _ => Ok des
  end.

(* apply.Merge(observed, lastApplied, desired) *)
Definition Merge (observed last desired : json) : res json := merge desired observed last.

(* ---- metadata.annotations as map[string]string (NestedStringMap, errors swallowed) ---- *)
Definition is_stringy (j : json) : bool := match j with JStr _ | JText _ => true | _ => false end.

Definition get_annotations (obj : amap) : option amap :=
  match nested_get obj ["metadata"; "annotations"] with
  | NFound (JObj m) => if forallb (fun kv => is_stringy (snd kv)) m then Some m else None
  | _ => None
  end.

(* SetAnnotations(non-nil map) = setNestedMap: creates metadata if missing;
   silently does nothing if metadata is not a map *)
Definition set_annotations (obj : amap) (ann : amap) : amap :=
  match nested_set obj ["metadata"; "annotations"] (JObj ann) with
  | Some o => o | None => obj end.

(* GetLastApplied *)
Definition get_last_applied (obj : amap) : res json :=
  match get_annotations obj with
  | None => Ok JNull
  | Some ann =>
      match alookup last_applied_annotation ann with
      | None => Ok JNull
      | Some (JStr s) => if String.eqb s "" then Ok JNull else Err
      | Some (JText (JObj m)) => Ok (JObj m)
      | Some (JText JNull) => Ok (JObj [])
      | Some _ => Err
      end
  end.

(* nullifyLastAppliedAnnotation *)
Definition nullify_last_applied (obj : amap) : amap :=
  match get_annotations obj with
  | None => obj
  | Some ann =>
      if ahas last_applied_annotation ann
      then match aremove last_applied_annotation ann with
           | [] => nested_remove obj ["metadata"; "annotations"]   (* SetAnnotations(nil): no empty map is left behind *)
           | ann' => set_annotations obj ann'
           end
      else obj
  end.

(* SetLastApplied(obj, lastApplied) *)
Definition set_last_applied (obj : amap) (la : json) : amap :=
  let ann := match get_annotations obj with Some a => a | None => [] end in
  set_annotations obj (aset last_applied_annotation (JText la) ann).

(* revertField *)
Definition revert_field (newObj orig : amap) (path : list string) : res amap :=
  match nested_get orig path with
  | NErr => Err
  | NFound v => match nested_set newObj path v with Some o => Ok o | None => Err end
  | NMissing => Ok (nested_remove newObj path)
  end.

Fixpoint revert_fields (newObj orig : amap) (paths : list (list string)) : res amap :=
  match paths with
  | [] => Ok newObj
  | p :: ps => o <- revert_field newObj orig p ;; revert_fields o orig ps
  end.

Definition system_paths : list (list string) :=
  map (fun f => ["metadata"; f]) object_meta_system_fields.

(* ApplyUpdate(orig, update) -> (newObj, update with its own annotation stripped) *)
Definition apply_update (orig update : amap) : res amap :=
  last <- get_last_applied orig ;;
  let update' := nullify_last_applied update in
  merged <- Merge (JObj orig) last (JObj update') ;;
  match merged with
  | JObj nm =>
      n1 <- revert_fields nm orig system_paths ;;
      n2 <- revert_field n1 orig ["status"] ;;
      Ok (set_last_applied n2 (JObj update'))
  | _ => Panic
  end.
