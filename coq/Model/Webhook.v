(* Webhook.v — model of one hook call of /repo/pkg/hooks (webhookExecutor.Call,
   webhook_etag.go, webhook_plain.go) as THREE atomic steps over a shared ETag
   cache, and of schedules interleaving any number of such calls.

     step 1  enrich   enrichHeaders: cache.Get(key) -> If-None-Match value ("" = not set)
     step 2  round    client.Do returns (the environment's reply becomes visible)
     step 3  finish   429 branch, io.ReadAll, isStatusSupported, adjustResponse
                      (cache.Get / cache.Set), kjson.UnmarshalStrict + mode

   Steps 1 and 3 are each one critical section of the zcache mutex (one Get,
   resp. one Get or one Set); everything else a call does is local to it.
   Cache expiry is an environment event.  No proofs here; the executable
   clauses of property C19 (used both by the theorems and by the
   correspondence check) are at the end. *)
From Coq Require Export List String ZArith Bool.
Export ListNotations.
Open Scope string_scope.
Open Scope Z_scope.

(* ---- bodies, replies, outcomes ---- *)

(* what sigs.k8s.io/json UnmarshalStrict makes of a response text (determined
   experimentally on CompositeHookResponse, see the harness):
     BValid           err = nil, no strict errors
     BUnknownField    err = nil, strict error `unknown field "..."`
     BDuplicateField  err = nil, strict error `duplicate field "..."` (last value wins)
     BUnknownAndDuplicate  err = nil, strict errors of both kinds
     BInvalidJson     err <> nil (truncated text, wrong top-level type, ...)
   and of a well-formed document followed by more bytes - UnmarshalStrict decodes
   the WHOLE text, unlike a json.Decoder stream, which stops after the first value:
     BValidTrailingSpace  document + white space / newline only: as BValid
     BTrailingGarbage     document + non-space text : err <> nil ("invalid character ... after top-level value")
     BTwoDocuments        two concatenated documents: err <> nil
     BStrayBrace          document + a stray `}`     : err <> nil *)
Inductive body_class :=
| BValid | BUnknownField | BDuplicateField | BUnknownAndDuplicate | BInvalidJson
| BValidTrailingSpace | BTrailingGarbage | BTwoDocuments | BStrayBrace.

(* err <> nil in every mode *)
Definition undecodable (c : body_class) : bool :=
  match c with
  | BInvalidJson | BTrailingGarbage | BTwoDocuments | BStrayBrace => true
  | _ => false
  end.
(* err = nil, strict errors reported *)
Definition has_strict_errors (c : body_class) : bool :=
  match c with
  | BUnknownField | BDuplicateField | BUnknownAndDuplicate => true
  | _ => false
  end.

Record body := mkBody { b_id : Z; b_class : body_class }.

(* the Retry-After header as Call reads it *)
Inductive retry_after :=
| RAAbsent                 (* Header.Get = "" : Atoi fails -> 0 *)
| RANum (n : Z)            (* decimal text of an int: Atoi -> n *)
| RADate (delta_ms : Z)    (* RFC1123 date; delta_ms = date - now() in milliseconds *)
| RAGarbage                (* neither: Atoi syntax error -> 0 *)
| RAHuge (negative : bool). (* decimal text outside int64: Atoi returns the clamped value AND an
                               error; the error is dropped, the clamped value kept *)

Record response := mkResp {
  r_status : Z;
  r_etag : string;          (* response.Header.Get("ETag"); "" = absent *)
  r_retry : retry_after;
  r_body : body;
  r_readfail : bool         (* io.ReadAll(response.Body) fails (timeout while reading) *)
}.

Inductive reply := Reply (r : response) | TransportError.  (* client.Do returned an error *)

Inductive outcome := OkBody (b : body) | Err | TooMany (seconds : Z).

Record config := mkCfg { cfg_etag : bool; cfg_strict : bool }.

(* ---- the cache ---- *)
Definition key := Z.     (* eTagKey{kind, namespace, name} of the root object *)
Record entry := mkEntry { e_etag : string; e_body : body }.
Definition cache := key -> option entry.

Definition cache_set (c : cache) (k : key) (e : entry) : cache :=
  fun k' => if Z.eqb k' k then Some e else c k'.
Definition cache_del (c : cache) (k : key) : cache :=
  fun k' => if Z.eqb k' k then None else c k'.
Definition empty_cache : cache := fun _ => None.

Fixpoint cache_of_list (l : list (key * entry)) : cache :=
  match l with
  | [] => empty_cache
  | (k, e) :: l' => cache_set (cache_of_list l') k e
  end.

(* ---- step 1: enrichHeaders ---- *)
Definition enrich (cfg : config) (c : cache) (k : key) : string :=
  if cfg_etag cfg then
    match c k with Some e => e_etag e | None => "" end
  else "".

(* ---- step 3 ---- *)
Definition max_int : Z := 9223372036854775807.
Definition min_int : Z := -9223372036854775808.

(* int(math.Ceil(d.Seconds())) *)
Definition ceil_seconds (delta_ms : Z) : Z := - ((- delta_ms) / 1000).

Definition retry_seconds (ra : retry_after) : Z :=
  match ra with
  | RAAbsent => 0
  | RANum n => n
  | RADate d => ceil_seconds d
  | RAGarbage => 0
  | RAHuge false => max_int
  | RAHuge true => min_int
  end.

Definition is_304_412 (s : Z) : bool := (s =? 304) || (s =? 412).

Definition header_sent (sent : string) : bool := negb (String.eqb sent "").

(* isStatusSupported *)
Definition status_supported (cfg : config) (sent : string) (s : Z) : bool :=
  if cfg_etag cfg then
    (s =? 200) || (is_304_412 s && header_sent sent)
  else s =? 200.

(* adjustResponse: new cache, and the body to decode (None = error) *)
Definition adjust (cfg : config) (c : cache) (k : key) (sent : string) (r : response)
  : cache * option body :=
  if cfg_etag cfg then
    if header_sent sent && is_304_412 (r_status r) then
      match c k with
      | Some e => if String.eqb (e_etag e) sent then (c, Some (e_body e)) else (c, None)
      | None => (c, None)
      end
    else if negb (String.eqb (r_etag r) "") then
      (cache_set c k (mkEntry (r_etag r) (r_body r)), Some (r_body r))
    else (c, Some (r_body r))
  else (c, Some (r_body r)).

(* kjson.UnmarshalStrict + shouldReportStrictErrors *)
Definition decode (cfg : config) (b : body) : outcome :=
  if undecodable (b_class b) then Err
  else if has_strict_errors (b_class b) && cfg_strict cfg then Err
  else OkBody b.

(* everything Call does after client.Do returned *)
Definition finish (cfg : config) (c : cache) (k : key) (sent : string) (rp : reply)
  : cache * outcome :=
  match rp with
  | TransportError => (c, Err)
  | Reply r =>
      if r_status r =? 429 then (c, TooMany (retry_seconds (r_retry r)))
      else if r_readfail r then (c, Err)
      else if negb (status_supported cfg sent (r_status r)) then (c, Err)
      else match adjust cfg c k sent r with
           | (c', None) => (c', Err)
           | (c', Some b) => (c', decode cfg b)
           end
  end.

(* ---- calls, schedules ---- *)
Record call_spec := mkCall { cs_key : key; cs_reply : reply }.
Definition script := list call_spec.     (* call i is the i-th element *)

Definition get_spec (sc : script) (c : Z) : option call_spec :=
  if c <? 0 then None else nth_error sc (Z.to_nat c).

Inductive phase :=
| PNew
| PEnriched (sent : string)
| PReplied (sent : string)
| PDone (sent : string) (o : outcome).

Record state := mkState { st_cache : cache; st_calls : Z -> phase }.

Definition set_phase (f : Z -> phase) (c : Z) (p : phase) : Z -> phase :=
  fun c' => if Z.eqb c' c then p else f c'.

Inductive event := Step (c : Z) | Expire (k : key).

Definition step (cfg : config) (sc : script) (st : state) (c : Z) : state :=
  match get_spec sc c with
  | None => st
  | Some sp =>
      match st_calls st c with
      | PNew =>
          mkState (st_cache st) (set_phase (st_calls st) c (PEnriched (enrich cfg (st_cache st) (cs_key sp))))
      | PEnriched sent => mkState (st_cache st) (set_phase (st_calls st) c (PReplied sent))
      | PReplied sent =>
          let (c', o) := finish cfg (st_cache st) (cs_key sp) sent (cs_reply sp) in
          mkState c' (set_phase (st_calls st) c (PDone sent o))
      | PDone _ _ => st
      end
  end.

Definition apply_event (cfg : config) (sc : script) (st : state) (e : event) : state :=
  match e with
  | Step c => step cfg sc st c
  | Expire k => mkState (cache_del (st_cache st) k) (st_calls st)
  end.

Definition run_schedule (cfg : config) (sc : script) (st : state) (evs : list event) : state :=
  fold_left (apply_event cfg sc) evs st.

Definition init (c0 : cache) : state := mkState c0 (fun _ => PNew).

(* the sequential execution of one call *)
Definition one_call (cfg : config) (c0 : cache) (k : key) (rp : reply) : state :=
  run_schedule cfg [mkCall k rp] (init c0) [Step 0; Step 0; Step 0].

(* ================================================================== *)
(* Executable clauses of property C19.  `sent` is the If-None-Match value the
   call put on its request, `o` the outcome of the call.                   *)

Definition is_ok (o : outcome) : bool := match o with OkBody _ => true | _ => false end.

Definition class_code (c : body_class) : Z :=
  match c with
  | BValid => 0 | BUnknownField => 1 | BDuplicateField => 2 | BUnknownAndDuplicate => 3
  | BInvalidJson => 4 | BValidTrailingSpace => 5 | BTrailingGarbage => 6 | BTwoDocuments => 7
  | BStrayBrace => 8
  end.
Definition body_class_eqb (a b : body_class) : bool := class_code a =? class_code b.
Definition body_eqb (a b : body) : bool :=
  (b_id a =? b_id b) && body_class_eqb (b_class a) (b_class b).
Definition outcome_eqb (a b : outcome) : bool :=
  match a, b with
  | OkBody x, OkBody y => body_eqb x y
  | Err, Err => true
  | TooMany x, TooMany y => x =? y
  | _, _ => false
  end.

(* success only on 200, or on 304/412 with ETag support and a header sent *)
Definition gate_ok (cfg : config) (sent : string) (rp : reply) (o : outcome) : bool :=
  if is_ok o then
    match rp with
    | TransportError => false
    | Reply r => (r_status r =? 200) || (cfg_etag cfg && header_sent sent && is_304_412 (r_status r))
    end
  else true.

(* 429 yields the delay of Retry-After *)
Definition retry_ok (rp : reply) (o : outcome) : bool :=
  match rp with
  | Reply r => if r_status r =? 429 then outcome_eqb o (TooMany (retry_seconds (r_retry r))) else true
  | TransportError => true
  end.

(* what a readable 200 answer must give, by mode and class *)
Definition expected_200 (cfg : config) (b : body) : outcome := decode cfg b.
Definition decode_ok (cfg : config) (rp : reply) (o : outcome) : bool :=
  match rp with
  | Reply r => if (r_status r =? 200) && negb (r_readfail r)
               then outcome_eqb o (expected_200 cfg (r_body r)) else true
  | TransportError => true
  end.

(* transport errors, unreadable bodies and every status other than
   200/304/412/429 are errors *)
Definition error_ok (rp : reply) (o : outcome) : bool :=
  match rp with
  | TransportError => outcome_eqb o Err
  | Reply r =>
      if r_status r =? 429 then true
      else if r_readfail r then outcome_eqb o Err
      else if (r_status r =? 200) || is_304_412 (r_status r) then true
      else outcome_eqb o Err
  end.

(* the (ETag, body) pairs that exist in a run: the initial cache entries of
   the call's key and every 200 answer of a call with that key *)
Definition pair := (string * body)%type.
Definition pair_eqb (p q : pair) : bool :=
  String.eqb (fst p) (fst q) && body_eqb (snd p) (snd q).
Definition script_pairs (k : key) (sc : script) : list pair :=
  flat_map (fun sp =>
    match cs_reply sp with
    | Reply r => if (cs_key sp =? k) && (r_status r =? 200) && negb (String.eqb (r_etag r) "")
                 then [(r_etag r, r_body r)] else []
    | TransportError => []
    end) sc.
Definition init_pairs (k : key) (c0 : cache) : list pair :=
  match c0 k with Some e => [(e_etag e, e_body e)] | None => [] end.

(* a 304/412 success returns a body that exists paired with exactly the ETag sent *)
Definition served_ok (pairs : list pair) (sent : string) (rp : reply) (o : outcome) : bool :=
  match rp, o with
  | Reply r, OkBody b =>
      if is_304_412 (r_status r) then existsb (pair_eqb (sent, b)) pairs else true
  | _, _ => true
  end.

(* No call succeeds with a value decoded from a body the mode rejects, whether
   the body arrived with this response or was replayed from the cache on
   304/412: never from undecodable text, and in strict mode never from a body
   with unknown or duplicate fields. *)
Definition body_acceptable (cfg : config) (b : body) : bool :=
  negb (undecodable (b_class b)) &&
  (negb (has_strict_errors (b_class b)) || negb (cfg_strict cfg)).
Definition accepted_body_ok (cfg : config) (o : outcome) : bool :=
  match o with OkBody b => body_acceptable cfg b | _ => true end.

(* an undecodable body (invalid JSON, or a document followed by anything but
   white space) is never a successful answer, in any mode, fresh or replayed *)
Definition decodable_ok (o : outcome) : bool :=
  match o with OkBody b => negb (undecodable (b_class b)) | _ => true end.

(* without ETag support no If-None-Match header is ever sent *)
Definition plain_ok (cfg : config) (sent : string) : bool :=
  cfg_etag cfg || negb (header_sent sent).

(* name of the decoding clause a 200 answer of this class is judged by *)
Definition decode_clause_name (cfg : config) (rp : reply) : string :=
  match rp with
  | TransportError => "decoding"
  | Reply r =>
      let c := b_class (r_body r) in
      if undecodable c then "undecodable-body-accepted"
      else if has_strict_errors c then
        (if cfg_strict cfg then "strict-unknown-or-duplicate-accepted"
         else "loose-unknown-or-duplicate-rejected")
      else if cfg_strict cfg then "strict-valid-rejected" else "loose-valid-rejected"
  end.

Definition call_clauses (cfg : config) (pairs : list pair) (sent : string) (rp : reply) (o : outcome)
  : list (string * bool) :=
  [("non-200-accepted", gate_ok cfg sent rp o);
   ("wrong-retry-delay", retry_ok rp o);
   ("error-accepted", error_ok rp o);
   ("304-body-not-for-sent-etag", served_ok pairs sent rp o);
   ("undecodable-body-accepted", decodable_ok o);
   (decode_clause_name cfg rp, decode_ok cfg rp o);
   ("strict-invalid-accepted-on-replay", accepted_body_ok cfg o);
   ("plain-sent-if-none-match", plain_ok cfg sent)].

(* ================================================================== *)
(* Timing.  NewWebhookExecutor gives the client http.Client{Timeout: hookTimeout}:
   the timeout bounds the WHOLE exchange - connecting, waiting for the status
   line and headers, and reading the body.  An exchange is described by when
   the backend sends its headers and when it sends the last body byte
   (milliseconds after the request; None = never).  What Call sees of it:      *)
Record exchange := mkExchange { x_headers_ms : option Z; x_done_ms : option Z }.

Definition within (timeout_ms : Z) (t : option Z) : bool :=
  match t with Some v => v <=? timeout_ms | None => false end.

(* the part of the exchange the client needs is over in time (a 429 is answered
   from the headers alone: Call does not read its body) *)
Definition exchange_in_time (timeout_ms : Z) (x : exchange) (r : response) : bool :=
  within timeout_ms (x_headers_ms x) &&
  ((r_status r =? 429) || within timeout_ms (x_done_ms x)).

Definition timed_reply (timeout_ms : Z) (x : exchange) (r : response) : reply :=
  if negb (within timeout_ms (x_headers_ms x)) then TransportError      (* client.Do fails *)
  else if within timeout_ms (x_done_ms x) then Reply r
  else Reply (mkResp (r_status r) (r_etag r) (r_retry r) (r_body r) true). (* io.ReadAll fails *)

(* clause timeout-not-enforced: an exchange that exceeds the configured timeout
   is an error, and the call has returned within timeout + slack *)
Definition timeout_ok (timeout_ms : Z) (x : exchange) (r : response) (o : outcome)
    (returned_in_bound : bool) : bool :=
  exchange_in_time timeout_ms x r || (returned_in_bound && outcome_eqb o Err).
