(* Safe.v — safety of a program over every environment: each call it can ever
   issue satisfies Phi (which may inspect the history of earlier calls and
   answers), provided the answers received so far satisfy the environment
   assumption G. *)
From MC Require Export Model.Composite.
Local Open Scope list_scope.

Definition hist := list (call * answer).     (* most recent first *)

Inductive safe {R : Type} (G : call -> answer -> Prop) (Phi : hist -> call -> Prop)
  : hist -> prog R -> Prop :=
| safe_ret h r : safe G Phi h (Ret r)
| safe_do h c k :
    Phi h c ->
    (forall a, G c a -> safe G Phi ((c, a) :: h) (k a)) ->
    safe G Phi h (Do c k).

(* what the API server guarantees about the object it returns *)
Definition sane (c : call) (a : answer) : Prop :=
  match c, a with
  | CApi q, AObj o =>
      match q_verb q with
      | VGet => get_name o = q_name q /\ get_ns o = q_ns q
      | VUpdate | VUpdateStatus =>
          get_name o = q_name q /\ get_ns o = q_ns q /\
          (get_uid (q_body q) = "" \/ get_uid o = get_uid (q_body q))
      | _ => True
      end
  | _, _ => True
  end.

Definition saneb (c : call) (a : answer) : bool :=
  match c, a with
  | CApi q, AObj o =>
      match q_verb q with
      | VGet => String.eqb (get_name o) (q_name q) && String.eqb (get_ns o) (q_ns q)
      | VUpdate | VUpdateStatus =>
          String.eqb (get_name o) (q_name q) && String.eqb (get_ns o) (q_ns q) &&
          (String.eqb (get_uid (q_body q)) "" || String.eqb (get_uid o) (get_uid (q_body q)))
      | _ => true
      end
  | _, _ => true
  end.

(* every call of a finished run, with the history that preceded it *)
Fixpoint calls_with_history (h : hist) : list (hist * call) :=
  match h with
  | [] => []
  | (c, a) :: h' => (h', c) :: calls_with_history h'
  end.

(* well-formed configuration and caches (what discovery and informers guarantee) *)
Definition cfg_wf (c : ccfg) : bool :=
  forallb (fun kc => existsb (fun kn => String.eqb (ch_api_version kn) (ch_api_version kc) &&
                                        String.eqb (ch_kind kn) (ch_kind kc) &&
                                        String.eqb (ch_resource kn) (ch_resource kc) &&
                                        Bool.eqb (ch_namespaced kn) (ch_namespaced kc)) (known c)) (kids c) &&
  nodup_str (map ch_res (known c)) &&
  nodup_str (map (fun kn => (ch_kind kn ++ "." ++ ch_api_version kn)%string) (known c)) &&
  negb (existsb (fun kn => String.eqb (ch_res kn) (p_res c)) (kids c)).

Definition cache_wf (c : ccfg) (k : cache) : bool :=
  forallb (fun kc =>
    let objs := cached k (ch_res kc) in
    forallb (fun o => String.eqb (get_api_version o) (ch_api_version kc) && String.eqb (get_kind o) (ch_kind kc) &&
                      match jget "metadata" (obj_map o) with JObj _ => true | _ => false end &&
                      negb (String.eqb (get_uid o) "") &&
                      (if ch_namespaced kc then negb (String.eqb (get_ns o) "") else String.eqb (get_ns o) "")) objs &&
    nodup_str (map (fun o => (get_ns o ++ "/" ++ get_name o)%string) objs)) (kids c) &&
  nodup_str (map fst (k_children k)).
